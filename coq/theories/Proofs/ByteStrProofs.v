(* Facts about Model/ByteStr.v: boolean equality is equality, membership, and
   the path grammar at bytes (via Proofs/PathProofs.v). *)

From Coq Require Import List ZArith Bool Lia.
From Coq Require Import Init.Byte.
Import ListNotations.
From NpTdms Require Import Base.Bytes Model.Path Model.ByteStr Proofs.PathProofs.
Local Open Scope Z_scope.

Lemma byte_eqb_eq a b : byte_eqb a b = true <-> a = b.
Proof.
  unfold byte_eqb. split.
  - intros H. apply Z.eqb_eq in H. rewrite <- (z2b_b2z a), <- (z2b_b2z b), H. reflexivity.
  - intros ->. apply Z.eqb_refl.
Qed.

Lemma bytes_eqb_eq a b : bytes_eqb a b = true <-> a = b.
Proof.
  revert b. induction a as [|x a IH]; intros [|y b]; cbn [bytes_eqb]; split; intros H;
    try reflexivity; try discriminate.
  - apply andb_prop in H. destruct H as [H1 H2].
    apply byte_eqb_eq in H1. apply IH in H2. subst. reflexivity.
  - injection H as -> ->. apply andb_true_intro. split; [apply byte_eqb_eq|apply IH]; reflexivity.
Qed.

Lemma bytes_eqb_refl a : bytes_eqb a a = true.
Proof. apply bytes_eqb_eq. reflexivity. Qed.

Lemma bmem_In x l : bmem x l = true <-> In x l.
Proof.
  unfold bmem. rewrite existsb_exists. split.
  - intros [y [Hy E]]. apply bytes_eqb_eq in E. subst. exact Hy.
  - intros H. exists x. split; [exact H|apply bytes_eqb_refl].
Qed.

Lemma bmem_app x a b : bmem x (a ++ b) = bmem x a || bmem x b.
Proof. unfold bmem. apply existsb_app. Qed.

Lemma quote_ne_slash : QUOTE <> SLASH.
Proof. discriminate. Qed.

Lemma from_string_root_b :
  from_string byte byte_eqb QUOTE SLASH ROOT_PATH = inr (None, None).
Proof. exact (from_string_root byte byte_eqb QUOTE SLASH byte_eqb_eq quote_ne_slash). Qed.

Lemma from_string_group_b (g : bytes) :
  from_string byte byte_eqb QUOTE SLASH (group_path g) = inr (Some g, None).
Proof. exact (from_string_group byte byte_eqb QUOTE SLASH byte_eqb_eq quote_ne_slash g). Qed.

Lemma from_string_chan_b (g c : bytes) :
  from_string byte byte_eqb QUOTE SLASH (chan_path g c) = inr (Some g, Some c).
Proof. exact (from_string_channel byte byte_eqb QUOTE SLASH byte_eqb_eq quote_ne_slash g c). Qed.

Lemma classify_root : classify ROOT_PATH = Some KRoot.
Proof. unfold classify. rewrite from_string_root_b, bytes_eqb_refl. reflexivity. Qed.

Lemma classify_group g : classify (group_path g) = Some (KGroup g).
Proof. unfold classify. rewrite from_string_group_b, bytes_eqb_refl. reflexivity. Qed.

Lemma classify_chan g c : classify (chan_path g c) = Some (KChan g c).
Proof. unfold classify. rewrite from_string_chan_b, bytes_eqb_refl. reflexivity. Qed.

Lemma group_path_inj g g' : group_path g = group_path g' -> g = g'.
Proof.
  intros H.
  assert (E : Some (KGroup g) = Some (KGroup g')) by (rewrite <- !classify_group, H; reflexivity).
  injection E as E. exact E.
Qed.
