(* C07 composed, step 2b: the hierarchy TdmsFile builds (Reader.build_hierarchy)
   from the per-object metadata of writer output IS the content hierarchy of
   Proofs/WriteReadSpec.v: root properties, groups in order of first appearance
   with their properties, each group's channels in order of first appearance
   with data type, length and properties. *)
From Coq Require Import List ZArith Bool Lia ZifyBool.
From Coq Require Import Init.Byte.
Import ListNotations.
From NpTdms Require Import Base.Bytes Base.Res Model.Tokens Model.TokensWf Model.Path Model.ByteStr
  Model.StrictParse Model.Writer Proofs.PathProofs Proofs.ByteStrProofs Proofs.WriterProofs.
From NpTdms Require Import Model.SegState Model.Layout Model.Reader Model.FileSyn
  Proofs.SegStateProofs Proofs.LayoutProofs Proofs.WriteReadSpec Proofs.WriteReadBytes
  Proofs.WriteReadState.
Local Open Scope Z_scope.

(* ---- the reader's path functions on the writer's paths ---------------------------------- *)

Lemma byte_eqb_agree a b : byte_eqb a b = Byte.eqb a b.
Proof.
  destruct (Byte.eqb a b) eqn:E.
  - apply Byte.byte_dec_bl in E. subst b. apply byte_eqb_eq. reflexivity.
  - destruct (byte_eqb a b) eqn:E'; [|reflexivity]. apply byte_eqb_eq in E'. subst b.
    rewrite (Byte.byte_dec_lb eq_refl) in E. discriminate.
Qed.

Lemma escape_agree c : Path.escape byte byte_eqb QUOTE c = Path.escape byte Byte.eqb QB c.
Proof.
  induction c as [|x r IH]; [reflexivity|]. cbn [Path.escape].
  rewrite byte_eqb_agree, IH. reflexivity.
Qed.

Lemma path_of_agree g c : path_of g c = path_to_string g c.
Proof.
  unfold path_of, path_to_string, components_to_path, components_to_path_list.
  change SLASH with SB. f_equal.
  destruct g as [g|], c as [c|]; cbn [app join_components]; unfold quote; change QUOTE with QB;
    rewrite ?escape_agree; reflexivity.
Qed.

Lemma Byte_eqb_eq a b : Byte.eqb a b = true <-> a = b.
Proof. split; [apply Byte.byte_dec_bl|apply Byte.byte_dec_lb]. Qed.

Lemma QB_ne_SB : QB <> SB.
Proof. discriminate. Qed.

Lemma pfs_root : path_from_string ROOT_PATH = inr (None, None).
Proof.
  unfold ROOT_PATH. rewrite path_of_agree.
  exact (from_string_root byte Byte.eqb QB SB Byte_eqb_eq QB_ne_SB).
Qed.

Lemma pfs_group g : path_from_string (group_path g) = inr (Some g, None).
Proof.
  unfold group_path. rewrite path_of_agree.
  exact (from_string_group byte Byte.eqb QB SB Byte_eqb_eq QB_ne_SB g).
Qed.

Lemma pfs_chan g c : path_from_string (chan_path g c) = inr (Some g, Some c).
Proof.
  unfold chan_path. rewrite path_of_agree.
  exact (from_string_channel byte Byte.eqb QB SB Byte_eqb_eq QB_ne_SB g c).
Qed.

Lemma pts_chan g c : path_to_string (Some g) (Some c) = chan_path g c.
Proof. unfold chan_path. rewrite path_of_agree. reflexivity. Qed.

Lemma pfs_obj o :
  path_from_string (obj_path o) =
  match o with
  | WRoot _ => inr (None, None)
  | WGroup g _ => inr (Some g, None)
  | WChan g c _ _ _ => inr (Some g, Some c)
  end.
Proof. destruct o; cbn [obj_path]; [apply pfs_root|apply pfs_group|apply pfs_chan]. Qed.

(* ---- hier_scan as two folds over the keys -------------------------------------------------- *)

Section Scan.
  Variable M : bytes -> ometa.

  Definition lk (g : bytes) (gc : alist (list channel)) : list channel :=
    match alookup g gc with Some l => l | None => [] end.

  Definition chan_of (g c p : bytes) : channel :=
    let m := M p in
    mkChan g c (path_to_string (Some g) (Some c)) (om_dtype m) (om_scalers m) (om_len m) (om_props m).

  Definition gstep (gp : alist (alist prop)) (p : bytes) : alist (alist prop) :=
    match path_from_string p with
    | inr (Some g, None) => aset g (om_props (M p)) gp
    | _ => gp
    end.

  Definition cstep (gc : alist (list channel)) (p : bytes) : alist (list channel) :=
    match path_from_string p with
    | inr (Some g, Some c) => aset g (lk g gc ++ [chan_of g c p]) gc
    | _ => gc
    end.

  Definition om_of (keys : list bytes) : alist ometa := map (fun p => (p, M p)) keys.

  Lemma hier_scan_fold : forall keys root gp gc,
    Forall (fun p => exists r, path_from_string p = inr r) keys ->
    hier_scan (om_of keys) root gp gc = Ok (root, fold_left gstep keys gp, fold_left cstep keys gc).
  Proof.
    induction keys as [|p keys IH]; intros root gp gc HF; [reflexivity|].
    inversion HF as [|x y [r Hr] HF']; subst.
    cbn [om_of map hier_scan fold_left]. unfold gstep at 2, cstep at 2. rewrite Hr.
    destruct r as [[g|] [c|]]; apply IH; exact HF'.
  Qed.
End Scan.

(* ---- key lists: group names and channel names of a path list ------------------------------ *)

Definition gname (p : bytes) : list bytes :=
  match path_from_string p with inr (Some g, None) => [g] | _ => [] end.

Definition cname (g : bytes) (p : bytes) : list bytes :=
  match path_from_string p with
  | inr (Some g', Some c) => if bytes_eqb g g' then [c] else []
  | _ => []
  end.

Lemma gname_obj o : gname (obj_path o) = group_name_of o.
Proof. unfold gname. rewrite pfs_obj. destruct o; reflexivity. Qed.

Lemma cname_obj g o : cname g (obj_path o) = chan_name_of g o.
Proof. unfold cname. rewrite pfs_obj. destruct o; reflexivity. Qed.


(* a partial map that is injective on the list commutes with first-appearance dedup *)
Lemma dedup_flat_map_gen (f : bytes -> list bytes) :
  (forall x, (length (f x) <= 1)%nat) ->
  forall l acc,
    (forall x y a, In x (acc ++ l) -> In y (acc ++ l) -> In a (f x) -> In a (f y) -> x = y) ->
    flat_map f (fold_left add_new l acc) = fold_left add_new (flat_map f l) (flat_map f acc).
Proof.
  intros Hlen. induction l as [|x l IH]; intros acc Hinj; [reflexivity|].
  cbn [fold_left flat_map]. rewrite fold_left_app.
  assert (Hstep : flat_map f (add_new acc x) = fold_left add_new (f x) (flat_map f acc)).
  { unfold add_new. destruct (mem x acc) eqn:E.
    - apply mem_In in E. specialize (Hlen x).
      destruct (f x) as [|a [|b r]] eqn:Ef; cbn [length] in Hlen; [reflexivity| |lia].
      cbn [fold_left]. unfold add_new.
      replace (mem a (flat_map f acc)) with true; [reflexivity|].
      symmetry. apply mem_In. apply in_flat_map. exists x. split; [exact E|]. rewrite Ef. left. reflexivity.
    - apply mem_false in E. rewrite flat_map_app. cbn [flat_map]. rewrite app_nil_r.
      specialize (Hlen x).
      destruct (f x) as [|a [|b r]] eqn:Ef; cbn [length] in Hlen; [rewrite app_nil_r; reflexivity| |lia].
      cbn [fold_left]. unfold add_new.
      replace (mem a (flat_map f acc)) with false; [reflexivity|].
      symmetry. apply mem_false. intros Hin. apply in_flat_map in Hin. destruct Hin as [y [Hy Hay]].
      apply E. replace x with y; [exact Hy|].
      apply (Hinj y x a).
      + apply in_or_app. left. exact Hy.
      + apply in_or_app. right. left. reflexivity.
      + exact Hay.
      + rewrite Ef. left. reflexivity. }
  rewrite <- Hstep. apply IH.
  intros y z a Hy Hz. apply Hinj.
  - apply in_app_or in Hy. destruct Hy as [Hy|Hy].
    + apply add_new_in in Hy. destruct Hy as [Hy| ->]; apply in_or_app; [left; exact Hy|right; left; reflexivity].
    + apply in_or_app. right. right. exact Hy.
  - apply in_app_or in Hz. destruct Hz as [Hz|Hz].
    + apply add_new_in in Hz. destruct Hz as [Hz| ->]; apply in_or_app; [left; exact Hz|right; left; reflexivity].
    + apply in_or_app. right. right. exact Hz.
Qed.

Lemma dedup_flat_map (f : bytes -> list bytes) l :
  (forall x, (length (f x) <= 1)%nat) ->
  (forall x y a, In x l -> In y l -> In a (f x) -> In a (f y) -> x = y) ->
  flat_map f (dedup l) = dedup (flat_map f l).
Proof. intros Hlen Hinj. unfold dedup. apply (dedup_flat_map_gen f Hlen l []). exact Hinj. Qed.

Lemma gname_len p : (length (gname p) <= 1)%nat.
Proof. unfold gname. destruct (path_from_string p) as [|[[g|] [c|]]]; cbn; lia. Qed.

Lemma cname_len g p : (length (cname g p) <= 1)%nat.
Proof.
  unfold cname. destruct (path_from_string p) as [|[[g'|] [c|]]]; cbn; try lia.
  destruct (bytes_eqb g g'); cbn; lia.
Qed.

Lemma group_keys seq :
  flat_map gname (dedup (map obj_path seq)) = group_names seq.
Proof.
  rewrite dedup_flat_map.
  - unfold group_names. f_equal. rewrite flat_map_map. apply flat_map_ext. apply gname_obj.
  - apply gname_len.
  - intros x y a Hx Hy Hax Hay.
    apply in_map_iff in Hx. destruct Hx as [o1 [<- _]]. apply in_map_iff in Hy. destruct Hy as [o2 [<- _]].
    rewrite gname_obj in Hax, Hay.
    destruct o1 as [ps1|g1 ps1|g1 c1 dt1 vs1 ps1]; cbn [group_name_of In] in Hax; try contradiction.
    destruct o2 as [ps2|g2 ps2|g2 c2 dt2 vs2 ps2]; cbn [group_name_of In] in Hay; try contradiction.
    destruct Hax as [<-|[]]. destruct Hay as [<-|[]]. reflexivity.
Qed.

Lemma chan_keys g seq :
  flat_map (cname g) (dedup (map obj_path seq)) = chan_names g seq.
Proof.
  rewrite dedup_flat_map.
  - unfold chan_names. f_equal. rewrite flat_map_map. apply flat_map_ext. apply cname_obj.
  - apply cname_len.
  - intros x y a Hx Hy Hax Hay.
    apply in_map_iff in Hx. destruct Hx as [o1 [<- _]]. apply in_map_iff in Hy. destruct Hy as [o2 [<- _]].
    rewrite cname_obj in Hax, Hay.
    destruct o1 as [ps1|g1 ps1|g1 c1 dt1 vs1 ps1]; cbn [chan_name_of In] in Hax; try contradiction.
    destruct o2 as [ps2|g2 ps2|g2 c2 dt2 vs2 ps2]; cbn [chan_name_of In] in Hay; try contradiction.
    destruct (bytes_eqb g g1) eqn:E1; [|destruct Hax]. destruct (bytes_eqb g g2) eqn:E2; [|destruct Hay].
    apply bytes_eqb_eq in E1, E2. subst g1 g2.
    destruct Hax as [<-|[]]. destruct Hay as [<-|[]]. reflexivity.
Qed.

Lemma dedup_nodup l : NoDup (dedup l).
Proof. unfold dedup. apply fold_add_new_nodup. constructor. Qed.

Lemma dedup_in l x : In x (dedup l) <-> In x l.
Proof. unfold dedup. rewrite fold_add_new_in. cbn [In]. tauto. Qed.

(* ---- the two folds on canonical keys ---------------------------------------------------------- *)

Definition ckey (k : bytes) : Prop := exists o : wobj, k = obj_path o.

Section Folds.
  Variable M : bytes -> ometa.

  Lemma gstep_obj gp o :
    gstep M gp (obj_path o) =
    match o with WGroup g _ => aset g (om_props (M (group_path g))) gp | _ => gp end.
  Proof. unfold gstep. rewrite pfs_obj. destruct o; reflexivity. Qed.

  Lemma cstep_obj gc o :
    cstep M gc (obj_path o) =
    match o with
    | WChan g c _ _ _ => aset g (lk g gc ++ [chan_of M g c (chan_path g c)]) gc
    | _ => gc
    end.
  Proof. unfold cstep. rewrite pfs_obj. destruct o; reflexivity. Qed.

  Lemma gp_fold : forall keys gp,
    Forall ckey keys -> NoDup (flat_map gname keys) ->
    (forall g, In g (flat_map gname keys) -> ~ In g (map fst gp)) ->
    fold_left (gstep M) keys gp =
    gp ++ map (fun g => (g, om_props (M (group_path g)))) (flat_map gname keys).
  Proof.
    induction keys as [|p keys IH]; intros gp HF Hnd Hfresh; cbn [fold_left flat_map map].
    - rewrite app_nil_r. reflexivity.
    - inversion HF as [|x y [o Ho] HF']; subst. cbn [flat_map] in Hnd, Hfresh.
      rewrite gstep_obj. rewrite gname_obj in *.
      destruct o as [ps|g ps|g c dt vs ps]; cbn [group_name_of app] in *.
      + apply IH; assumption.
      + inversion Hnd as [|x y Hg Hnd']; subst.
        rewrite aset_fresh by (apply Hfresh; left; reflexivity).
        rewrite IH; [rewrite <- app_assoc; reflexivity|exact HF'|exact Hnd'|].
        intros g' Hg'. rewrite map_app, in_app_iff. cbn [map fst In]. intros [H|[H|[]]].
        * exact (Hfresh g' (or_intror Hg') H).
        * subst g'. exact (Hg Hg').
      + apply IH; assumption.
  Qed.

  Lemma lk_aset g g' v (gc : alist (list channel)) :
    lk g (aset g' v gc) = if bytes_eqb g g' then v else lk g gc.
  Proof. unfold lk. rewrite alookup_aset. destruct (bytes_eqb g g'); reflexivity. Qed.

  Lemma gc_fold_lk g : forall keys gc,
    Forall ckey keys ->
    lk g (fold_left (cstep M) keys gc) =
    lk g gc ++ map (fun c => chan_of M g c (chan_path g c)) (flat_map (cname g) keys).
  Proof.
    induction keys as [|p keys IH]; intros gc HF; cbn [fold_left flat_map map].
    - rewrite app_nil_r. reflexivity.
    - inversion HF as [|x y [o Ho] HF']; subst.
      rewrite (IH _ HF'). rewrite cstep_obj, cname_obj.
      destruct o as [ps|g' ps|g' c dt vs ps]; cbn [chan_name_of app]; try reflexivity.
      rewrite lk_aset. destruct (bytes_eqb g g') eqn:E; [|reflexivity].
      apply bytes_eqb_eq in E. subst g'. cbn [map app]. rewrite <- app_assoc. reflexivity.
  Qed.

  Lemma gc_fold_keys g : forall keys gc,
    Forall ckey keys ->
    In g (map fst (fold_left (cstep M) keys gc)) ->
    In g (map fst gc) \/ exists c, In (chan_path g c) keys.
  Proof.
    induction keys as [|p keys IH]; intros gc HF Hin; cbn [fold_left] in Hin; [left; exact Hin|].
    inversion HF as [|x y [o Ho] HF']; subst.
    destruct (IH _ HF' Hin) as [H|[c H]]; [|right; exists c; right; exact H].
    rewrite cstep_obj in H.
    destruct o as [ps|g' ps|g' c dt vs ps]; try (left; exact H).
    rewrite keys_aset in H. apply add_new_in in H. destruct H as [H| ->]; [left; exact H|].
    right. exists c. left. reflexivity.
  Qed.
End Folds.

Lemma groups_fold_id : forall (gchans : alist (list channel)) (declared : alist group),
  (forall kv, In kv gchans -> alookup (fst kv) declared <> None) ->
  fold_left (fun acc kv =>
               match alookup (fst kv) acc with
               | Some _ => acc
               | None => acc ++ [(fst kv, mkGroup (fst kv) [] (chans_dict (snd kv)))]
               end) gchans declared = declared.
Proof.
  induction gchans as [|kv r IH]; intros declared H; [reflexivity|].
  cbn [fold_left]. destruct (alookup (fst kv) declared) eqn:E.
  - apply IH. intros kv' Hkv'. apply H. right. exact Hkv'.
  - exfalso. apply (H kv (or_introl eq_refl)). exact E.
Qed.

Lemma chans_dict_map (F : bytes -> channel) :
  (forall c, ch_name (F c) = c) ->
  forall names, NoDup names -> chans_dict (map F names) = map (fun c => (c, F c)) names.
Proof.
  intros HF. unfold chans_dict.
  assert (H : forall names acc, NoDup names -> (forall c, In c names -> ~ In c (map fst acc)) ->
                                fold_left (fun acc c => aset (ch_name c) c acc) (map F names) acc =
                                acc ++ map (fun c => (c, F c)) names).
  { induction names as [|c names IH]; intros acc Hnd Hfresh; cbn [map fold_left].
    - rewrite app_nil_r. reflexivity.
    - inversion Hnd as [|x y Hc Hnd']; subst. rewrite HF.
      rewrite aset_fresh by (apply Hfresh; left; reflexivity).
      rewrite IH; [rewrite <- app_assoc; reflexivity|exact Hnd'|].
      intros c' Hc'. rewrite map_app, in_app_iff. cbn [map fst In]. intros [H|[H|[]]].
      + exact (Hfresh c' (or_intror Hc') H).
      + subst c'. exact (Hc Hc'). }
  intros names Hnd. rewrite (H names [] Hnd); [reflexivity|]. intros c _ [].
Qed.

Lemma om_as_map (om : alist ometa) :
  NoDup (map fst om) -> om = om_of (fun p => get_ometa p om) (map fst om).
Proof.
  unfold om_of. induction om as [|[k v] r IH]; intros Hnd; [reflexivity|].
  cbn [map fst] in Hnd. inversion Hnd as [|x y Hk Hnd']; subst.
  cbn [map fst]. f_equal.
  - unfold get_ometa. cbn [alookup]. rewrite bytes_eqb_refl. reflexivity.
  - rewrite (IH Hnd') at 1. apply map_ext_in. intros p Hp. f_equal.
    unfold get_ometa. cbn [alookup]. destruct (bytes_eqb p k) eqn:E; [|reflexivity].
    apply bytes_eqb_eq in E. subst p. contradiction.
Qed.

(* every channel's group is declared by a group object somewhere in the file *)
Definition groups_present (seq : list wobj) : Prop :=
  forall g c dt vs ps, In (WChan g c dt vs ps) seq -> In g (flat_map group_name_of seq).

Lemma alookup_some_keys {V} (k : bytes) (l : alist V) : In k (map fst l) -> alookup k l <> None.
Proof. intros H E. apply alookup_none_keys in E. contradiction. Qed.

Theorem build_hierarchy_writer seq prev om :
  st_inv seq prev om -> groups_present seq ->
  build_hierarchy om = Ok (content_hierarchy seq).
Proof.
  intros Hinv Hgp.
  pose proof (inv_keys _ _ _ Hinv) as Hkeys.
  assert (Hnd : NoDup (map fst om)) by (rewrite Hkeys; apply dedup_nodup).
  set (M := fun p => get_ometa p om).
  set (keys := dedup (map obj_path seq)) in *.
  assert (HF : Forall ckey keys).
  { apply Forall_forall. intros k Hk. unfold keys in Hk. apply (proj1 (dedup_in _ _)) in Hk. apply in_map_iff in Hk.
    destruct Hk as [o [<- _]]. exists o. reflexivity. }
  assert (Hparse : Forall (fun p => exists r, path_from_string p = inr r) keys).
  { eapply Forall_impl; [|exact HF]. intros k [o ->]. rewrite pfs_obj. destruct o; eauto. }
  unfold build_hierarchy.
  replace (match alookup [SB] om with Some m => om_props m | None => [] end)
    with (props_at ROOT_PATH seq).
  2:{ rewrite <- (inv_props _ _ _ Hinv ROOT_PATH). unfold get_ometa. change ROOT_PATH with [SB].
      destruct (alookup [SB] om); reflexivity. }
  rewrite (om_as_map om Hnd) at 1. fold M. rewrite Hkeys.
  rewrite (hier_scan_fold M keys _ [] [] Hparse). cbn [bind].
  assert (Hgn : flat_map gname keys = group_names seq) by apply group_keys.
  rewrite (gp_fold M keys [] HF).
  2:{ rewrite Hgn. apply dedup_nodup. }
  2:{ intros g _ []. }
  cbn [app]. rewrite Hgn.
  rewrite groups_fold_id.
  - unfold content_hierarchy. f_equal. f_equal. rewrite map_map. apply map_ext_in. intros g Hg. cbn [fst snd].
    f_equal. unfold content_group. f_equal.
    + unfold M. apply (inv_props _ _ _ Hinv).
    + fold (lk g (fold_left (cstep M) keys [])).
      rewrite (gc_fold_lk M g keys [] HF). unfold lk at 1. cbn [alookup app].
      unfold keys. rewrite (chan_keys g seq).
      rewrite (chans_dict_map (fun c => chan_of M g c (chan_path g c))); [|reflexivity|apply dedup_nodup].
      apply map_ext. intros c. f_equal. unfold chan_of, content_channel, M.
      rewrite pts_chan, (inv_props _ _ _ Hinv), (inv_dtype _ _ _ Hinv), (inv_scalers _ _ _ Hinv),
        (inv_len _ _ _ Hinv). reflexivity.
  - intros kv Hkv. apply alookup_some_keys. rewrite !map_map. apply in_map_iff. exists (fst kv).
    split; [reflexivity|].
    assert (Hin : In (fst kv) (map fst (fold_left (cstep M) keys []))) by (apply in_map; exact Hkv).
    destruct (gc_fold_keys M (fst kv) keys [] HF Hin) as [[]|[c Hc]].
    unfold keys in Hc. apply (proj1 (dedup_in _ _)) in Hc. apply in_map_iff in Hc. destruct Hc as [o [Ho Hino]].
    assert (exists dt vs ps, o = WChan (fst kv) c dt vs ps) as (dt & vs & ps & ->).
    { assert (E : path_from_string (obj_path o) = inr (Some (fst kv), Some c)) by (rewrite Ho; apply pfs_chan).
      rewrite pfs_obj in E. destruct o as [ps|g ps|g c' dt vs ps]; try discriminate.
      injection E as -> ->. eauto. }
    unfold group_names. apply (proj2 (dedup_in _ _)). exact (Hgp _ _ _ _ _ Hino).
Qed.
