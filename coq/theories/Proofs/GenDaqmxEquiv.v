(* The DAQmx CHUNK READER TRANSLATED from nptdms/daqmx.py on every run (Gen/PyFuncsDaqmxRead.v;
   harness/gen/gen_pyfuncs_daqmxread.py: DaqmxDataReader._read_data_chunk, the byte_offset / postprocess_data
   methods of both scaler classes) is EQUAL to Model/Layout.v read_daqmx_chunk, and
   DaqmxDataReceiver.append_scaler_data (Gen/PyFuncsDecode.v) to Model/Reader.v scaler_append.

   Abstraction: Proofs/GenDecodeEquiv.v [arr_values] / [pydata_values] (array -> canonical little-endian values),
   extended here to chunks that hold scaler dictionaries ([rcdc_cdata_dq], [rawchunk_chunk_dq]).
   Every statement says: the translated function, seen through the abstraction, is the model function -- same
   values, same file position, same exception.

   Domain ([daqmx_objs_ok]): every data object is a DAQmx object (what _get_data_reader guarantees for this
   reader), raw_buffer_index / raw_byte_offset are non-negative (unsigned 32-bit fields), digital line scalers
   have an integer type (the bitwise ufuncs refuse floats and timestamps: TypeError in the code, a value in the
   model), every buffer has a positive width and a non-negative length ([dims_ok]; width 0: see the driver). *)
From Coq Require Import String Ascii.
From Coq Require Import ZArith List Bool Lia ZifyBool.
From Coq Require Import Init.Byte.
Import ListNotations.
From NpTdms Require Import Base.Bytes Base.Res Base.PySlice Model.Tokens Model.SegState Model.Layout Model.Reader
     Gen.TypeTable Gen.PyFuncsReader Gen.PyFuncsDecode Gen.PyFuncsDaqmxRead
     Proofs.SegStateProofs Proofs.LayoutProofs Proofs.DaqmxProofs Proofs.GenReaderEquiv Proofs.GenDecodeEquiv Proofs.GenDecodeRecv.
Local Open Scope Z_scope.
Ltac Zify.zify_post_hook ::= Z.to_euclidean_division_equations.

(* ---- reflected tables ------------------------------------------------------------------------------------- *)

Lemma drd_daqmx_types_eq code : drd_daqmx_types code = daqmx_type code.
Proof.
  unfold drd_daqmx_types, daqmx_type.
  repeat match goal with
         | |- context [code =? ?k] => destruct (Z.eqb_spec code k); [subst code; reflexivity|]
         end.
  reflexivity.
Qed.

Lemma drd_digital_eq : drd_DIGITAL_LINE_SCALER = DIGITAL_LINE_SCALER.
Proof. reflexivity. Qed.

(* every type of DAQMX_TYPES has a size *)
Lemma daqmx_type_sized code dt : daqmx_type code = Some dt -> exists sz, tds_size dt = Some (Some sz).
Proof.
  unfold daqmx_type.
  repeat match goal with
         | |- context [code =? ?k] => destruct (Z.eqb_spec code k); [intros H; injection H as <-; eexists; reflexivity|]
         end.
  intros H; discriminate H.
Qed.

(* the integer types of DAQMX_TYPES (codes 0 .. 7): their NumPy dtype is an integer dtype of the type's size *)
Definition int_code (code : Z) : bool := (0 <=? code) && (code <=? 7).

Lemma int_code_dtype code dt sz :
  int_code code = true -> daqmx_type code = Some dt -> tds_size dt = Some (Some sz) ->
  exists k, dec_cls_nptype dt = Some (DNum k sz LE) /\ (ceq k "i" || ceq k "u") = true /\ ceq k "c" = false /\ 1 <= sz.
Proof.
  unfold int_code, daqmx_type. intros Hc.
  repeat match goal with
         | |- context [code =? ?k] =>
           destruct (Z.eqb_spec code k);
             [subst code; first [discriminate Hc
                                | intros H; injection H as <-; intros Hs; cbv in Hs; injection Hs as <-; eexists;
                                  repeat split; try reflexivity; lia]|]
         end.
  intros H; discriminate H.
Qed.

(* ---- one bit of an integer item -------------------------------------------------------------------------- *)

Lemma shift_mask_bit x b : 0 <= b -> Z.land (Z.shiftr x b) 1 = Z.b2z (Z.testbit x b).
Proof.
  intros Hb. change 1 with (Z.ones 1). rewrite Z.land_ones by lia. change (2 ^ 1) with 2.
  rewrite <- Z.bit0_mod, Z.shiftr_spec by lia. reflexivity.
Qed.

Lemma mask_shift x b : 0 <= b -> Z.shiftr (Z.land x (Z.shiftl 1 b)) b = Z.land (Z.shiftr x b) 1.
Proof.
  intros Hb. rewrite Z.shiftr_land. f_equal. rewrite Z.shiftr_shiftl_l by lia. rewrite Z.sub_diag. reflexivity.
Qed.

Lemma testbit_sub_pow2 x n b : 0 <= b < n -> Z.testbit (x - 2 ^ n) b = Z.testbit x b.
Proof.
  intros Hb. rewrite <- (Z.mod_pow2_bits_low (x - 2 ^ n) n b) by lia.
  rewrite <- (Z.mod_pow2_bits_low x n b) by lia. f_equal.
  replace (x - 2 ^ n) with (x + (-1) * 2 ^ n) by lia. apply Z.mod_add. apply Z.pow_nonzero; lia.
Qed.

Lemma pow256_as_pow2 n : 256 ^ Z.of_nat n = 2 ^ (8 * Z.of_nat n).
Proof. change 256 with (2 ^ 8). rewrite <- Z.pow_mul_r by lia. reflexivity. Qed.

(* the bit of the value an item denotes (signed or unsigned) is the bit of its little-endian bytes *)
Lemma item_bit k o (it : bytes) b :
  0 <= b < 8 -> (0 < length it)%nat ->
  Z.testbit (np_int_dec k o it) b = Z.testbit (le_dec (np_canon_num k o it)) b \/ ceq k "c" = true.
Proof.
  intros Hb Hl. destruct (ceq k "c") eqn:Hc; [right; reflexivity|left].
  assert (Hu : u_dec o it = le_dec (np_canon_num k o it)).
  { unfold np_canon_num. rewrite Hc. destruct o; reflexivity. }
  unfold np_int_dec. destruct (ceq k "i"); [|rewrite Hu; reflexivity].
  unfold s_dec, s_of_u. rewrite Hu. destruct (_ <? _); [reflexivity|].
  rewrite pow256_as_pow2. apply testbit_sub_pow2. lia.
Qed.

Lemma canon_length k o (it : bytes) : length (np_canon_num k o it) = length it.
Proof.
  pose proof (np_canon_num_blen k o it) as H. unfold blen in H. lia.
Qed.

(* shift, mask, store: the model's digital_bit of the canonical value *)
Lemma digital_item k o w (it : bytes) b :
  0 <= b < 8 -> 1 <= w -> blen it = w -> ceq k "c" = false ->
  np_int_enc w LE (Z.land (Z.shiftr (np_int_dec k o it) b) 1) = digital_bit b (np_canon_num k o it).
Proof.
  intros Hb Hw Hl Hc. unfold blen in Hl.
  rewrite shift_mask_bit by lia.
  destruct (item_bit k o it b Hb ltac:(lia)) as [Hbit|Hx]; [|congruence]. rewrite Hbit.
  unfold digital_bit. rewrite mask_shift, shift_mask_bit by lia.
  unfold np_int_enc, u_enc. rewrite canon_length.
  replace (Z.to_nat w) with (length it) by lia. f_equal.
  apply Z.mod_small. assert (2 <= 256 ^ w).
  { replace w with (1 + (w - 1)) by lia. rewrite Z.pow_add_r by lia. assert (0 < 256 ^ (w - 1)) by (apply Z.pow_pos_nonneg; lia). lia. }
  destruct (Z.testbit _ _); cbn [Z.b2z]; lia.
Qed.

(* storing a value in an integer item and reading it back keeps its lowest bit *)
Lemma reenc_bit0 k w v : 1 <= w -> Z.testbit (np_int_dec k LE (np_int_enc w LE v)) 0 = Z.testbit v 0.
Proof.
  intros Hw. unfold np_int_dec, np_int_enc, s_dec, s_of_u, u_dec, u_enc. rewrite le_enc_length.
  assert (HM : 0 < 256 ^ w) by (apply Z.pow_pos_nonneg; lia).
  rewrite le_dec_enc by (rewrite Z2Nat.id by lia; apply Z.mod_pos_bound; exact HM).
  rewrite Z2Nat.id by lia.
  assert (E : 256 ^ w = 2 ^ (8 * w)) by (change 256 with (2 ^ 8); rewrite <- Z.pow_mul_r by lia; reflexivity).
  assert (Hlow : Z.testbit (v mod 256 ^ w) 0 = Z.testbit v 0) by (rewrite E; apply Z.mod_pow2_bits_low; lia).
  destruct (ceq k "i"); [|exact Hlow]. destruct (_ <? _); [exact Hlow|].
  rewrite E at 2. rewrite testbit_sub_pow2 by lia. exact Hlow.
Qed.

Lemma np_int_enc_blen w o v : 0 <= w -> blen (np_int_enc w o v) = w.
Proof. intros Hw. unfold np_int_enc, blen. rewrite u_enc_length. lia. Qed.

Lemma weak_operand_small k w o raw v :
  (ceq k "i" || ceq k "u") = true -> 1 <= w -> 0 <= v < 8 ->
  np_weak_operand (mkArr (DNum k w o) raw) v = Ok v.
Proof.
  intros Hk Hw Hv. unfold np_weak_operand. cbn [a_dtype].
  assert (256 <= 256 ^ w).
  { replace w with (1 + (w - 1)) by lia. rewrite Z.pow_add_r by lia. assert (0 < 256 ^ (w - 1)) by (apply Z.pow_pos_nonneg; lia). lia. }
  destruct (ceq k "i").
  - assert (E : ((- (256 ^ w / 2) <=? v) && (v <? 256 ^ w / 2)) = true) by lia. rewrite E. reflexivity.
  - cbn [orb] in Hk. rewrite Hk. assert (E : ((0 <=? v) && (v <? 256 ^ w)) = true) by lia. rewrite E. reflexivity.
Qed.

Lemma np_int_map_eq k w o raw f :
  (ceq k "i" || ceq k "u") = true ->
  np_int_map f (mkArr (DNum k w o) raw)
  = Ok (mkArr (DNum k w LE) (flat_map (fun it => np_int_enc w LE (f (np_int_dec k o it))) (items w raw))).
Proof. intros Hk. unfold np_int_map. cbn [a_dtype a_raw]. rewrite Hk. reflexivity. Qed.

(* DigitalLineScaler.postprocess_data on an integer array = the model's digital_bit on every canonical value *)
Theorem digital_postprocess_array_eq k w o raw off :
  (ceq k "i" || ceq k "u") = true -> ceq k "c" = false -> 1 <= w ->
  exists a', digital_scaler_postprocess_data_gen off (mkArr (DNum k w o) raw) = Ok a'
             /\ arr_values a' = Some (map (digital_bit (off mod 8)) (map (np_canon_num k o) (items w raw))).
Proof.
  intros Hk Hc Hw. unfold digital_scaler_postprocess_data_gen, py_mod. cbn [Z.eqb bind].
  assert (Hb : 0 <= off mod 8 < 8) by (apply Z.mod_pos_bound; lia). set (b := off mod 8) in *.
  unfold np_right_shift. rewrite weak_operand_small by assumption. cbn [bind]. rewrite np_int_map_eq by exact Hk. cbn [bind].
  unfold np_bitwise_and. rewrite weak_operand_small by (try assumption; lia). cbn [bind]. rewrite np_int_map_eq by exact Hk.
  eexists. split; [reflexivity|]. unfold arr_values. cbn [a_dtype a_raw]. f_equal.
  set (g1 := fun it : bytes => np_int_enc w LE (Z.shiftr (np_int_dec k o it) b)).
  set (g2 := fun it : bytes => np_int_enc w LE (Z.land (np_int_dec k LE it) 1)).
  destruct (flat_map_concat_items w g1 (items w raw) ltac:(lia)) as [H1 _].
  { intros row _. unfold g1. apply np_int_enc_blen. lia. }
  rewrite H1.
  destruct (flat_map_concat_items w g2 (map g1 (items w raw)) ltac:(lia)) as [H2 _].
  { intros row _. unfold g2. apply np_int_enc_blen. lia. }
  rewrite H2. rewrite !map_map. apply map_ext_in. intros it Hin. apply items_In in Hin.
  assert (Hid : forall x, np_canon_num k LE x = x) by reflexivity. rewrite Hid.
  unfold g2, g1. rewrite <- (digital_item k o w it b Hb Hw Hin Hc). f_equal.
  assert (Hl0 : forall y, Z.land y 1 = Z.b2z (Z.testbit y 0)).
  { intros y. rewrite <- (shift_mask_bit y 0) by lia. rewrite Z.shiftr_0_r. reflexivity. }
  rewrite !Hl0. rewrite reenc_bit0 by exact Hw. reflexivity.
Qed.

(* ---- one scaler: select the byte columns, from_bytes, postprocess_data = Model/Layout.v scaler_values ---------- *)

Definition scaler_ok (kind : Z) (s : scaler) : Prop :=
  0 <= sc_off s /\ (kind = DIGITAL_LINE_SCALER -> int_code (sc_type s) = true).

(* the body of the innermost generated loop up to the use of the processed array (the generated text) *)
Definition scaler_chain {T} (combined_data : nparr2) (self_endianness : endian) (scaler : pyscaler) (K : nparr -> res T) : res T :=
    do byte_offset <- scaler_byte_offset_gen scaler;
    do t5__ <- need EKey (ps_dtype scaler);
    let scaler_size := (dec_cls_size t5__) in
    do t6__ <- need EType scaler_size;
    let byte_columns := (py_range byte_offset (byte_offset + t6__)) in
    do t7__ <- np2_take_columns combined_data byte_columns;
    let this_scaler_data := (np2_flatten t7__) in
    do t8__ <- need EKey (ps_dtype scaler);
    do this_scaler_data <- tds_from_bytes_gen t8__ this_scaler_data self_endianness;
    do processed_data <- scaler_postprocess_data_gen scaler this_scaler_data;
    K processed_data.

Lemma take_columns_out w raw pos sz :
  0 <= pos -> 0 < sz -> w < pos + sz ->
  np2_take_columns (mkArr2 U1 w raw) (py_range pos (sz + pos)) = Err EIndex.
Proof.
  intros Hp Hsz Hb. unfold np2_take_columns. cbn [a2_cols a2_dtype a2_raw].
  destruct (forallb (fun c => (- w <=? c) && (c <? w)) (py_range pos (sz + pos))) eqn:E; [|reflexivity].
  rewrite forallb_forall in E. specialize (E (pos + sz - 1)).
  assert (Hin : In (pos + sz - 1) (py_range pos (sz + pos))).
  { unfold py_range. apply in_map_iff. exists (Z.to_nat (sz - 1)). split; [lia|]. apply in_seq. lia. }
  specialize (E Hin). lia.
Qed.

Lemma byte_offset_gen_eq kind s :
  scaler_byte_offset_gen (mkPyScaler kind s) = Ok (if kind =? DIGITAL_LINE_SCALER then sc_off s / 8 else sc_off s).
Proof.
  unfold scaler_byte_offset_gen. cbn [ps_kind ps_off ps_raw]. rewrite drd_digital_eq.
  destruct (kind =? DIGITAL_LINE_SCALER); reflexivity.
Qed.

Lemma scaler_step e kind s w raw :
  0 < w -> scaler_ok kind s ->
  (exists er, scaler_values e kind s (items w raw) w = Err er
              /\ forall T (K : nparr -> res T), scaler_chain (mkArr2 U1 w raw) e (mkPyScaler kind s) K = Err er)
  \/ (exists p vs, scaler_values e kind s (items w raw) w = Ok vs /\ arr_values p = Some vs
                   /\ forall T (K : nparr -> res T), scaler_chain (mkArr2 U1 w raw) e (mkPyScaler kind s) K = K p).
Proof.
  intros Hw [Hoff Hint]. unfold scaler_chain, scaler_values. rewrite byte_offset_gen_eq.
  unfold ps_dtype. cbn [ps_raw bind]. rewrite !(drd_daqmx_types_eq (sc_type s)).
  destruct (daqmx_type (sc_type s)) as [dt|] eqn:Hdt; [|left; exists EKey; split; [reflexivity|intros; reflexivity]].
  destruct (daqmx_type_sized _ _ Hdt) as [sz Hs]. rewrite Hs. pose proof (tds_size_pos _ _ Hs) as Hsz.
  cbn [need bind]. rewrite dec_cls_size_eq, Hs. cbn [need bind].
  set (off := if kind =? DIGITAL_LINE_SCALER then sc_off s / 8 else sc_off s).
  assert (Hoff' : 0 <= off) by (unfold off; destruct (kind =? DIGITAL_LINE_SCALER); [apply Z.div_pos; lia|exact Hoff]).
  replace (off + sz) with (sz + off) by lia.
  destruct (w <? sz + off) eqn:Eb.
  - left. exists EIndex. split; [reflexivity|]. intros T K. rewrite take_columns_out by lia. reflexivity.
  - right. destruct (column_from_bytes e dt sz w raw off Hs Hw Hoff' ltac:(lia)) as [a [Ha Hv]].
    destruct (kind =? DIGITAL_LINE_SCALER) eqn:Ek.
    + (* digital line: an integer array; shift, mask *)
      assert (Hk : kind = DIGITAL_LINE_SCALER) by lia.
      destruct (int_code_dtype _ _ _ (Hint Hk) Hdt Hs) as [k [Hd [Hki [Hkc Hsz1]]]].
      rewrite take_columns_eq in Ha by lia. cbn [bind] in Ha. unfold np2_flatten in Ha. cbn [a2_dtype a2_raw] in Ha.
      set (raw' := flat_map (fun row : bytes => take sz (drop off row)) (items w raw)) in *.
      destruct (numeric_from_bytes_eq dt _ sz raw' e Hd Hs) as [Hg _]. fold U1 in Hg. rewrite Hg in Ha.
      destruct (blen raw' mod sz =? 0); [|discriminate Ha]. injection Ha as <-.
      cbn [np_newbyteorder] in Hv.
      destruct (digital_postprocess_array_eq k sz (if sz =? 1 then LE else e) raw' (sc_off s) Hki Hkc Hsz1) as [a' [Hp Hv']].
      exists a'. eexists. split; [reflexivity|]. split.
      * rewrite Hv'. unfold arr_values in Hv. cbn [a_dtype a_raw] in Hv. injection Hv as Hv. rewrite Hv. reflexivity.
      * intros T K. rewrite take_columns_eq by lia. cbn [bind]. unfold np2_flatten. cbn [a2_dtype a2_raw]. fold raw'.
        fold U1. rewrite Hg. destruct (blen raw' mod sz =? 0) eqn:Em.
        -- cbn [bind np_newbyteorder]. unfold scaler_postprocess_data_gen, ps_off. cbn [ps_kind ps_raw].
           rewrite drd_digital_eq, Ek, Hp. reflexivity.
        -- exfalso. destruct (flat_map_concat_items sz (fun row : bytes => take sz (drop off row)) (items w raw) Hsz) as [_ Hm].
           { intros row Hr. apply items_In in Hr. rewrite blen_take, blen_drop by lia. lia. }
           fold raw' in Hm. lia.
    + exists a. eexists. split; [reflexivity|]. split; [exact Hv|].
      intros T K. destruct (np2_take_columns (mkArr2 U1 w raw) (py_range off (sz + off))) as [t|er]; cbn [bind] in *; [|discriminate Ha].
      rewrite Ha. cbn [bind]. unfold scaler_postprocess_data_gen. cbn [ps_kind]. rewrite drd_digital_eq, Ek. reflexivity.
Qed.

(* ---- chunks that hold scaler dictionaries ------------------------------------------------------------------------------ *)

Definition scaler_entry_abs (kv : Z * nparr) : option (Z * list bytes) :=
  match arr_values (snd kv) with Some vs => Some (fst kv, vs) | None => None end.
Definition scalers_abs (l : list (Z * nparr)) : option (list (Z * list bytes)) := opt_all (map scaler_entry_abs l).

(* RawChannelDataChunk as the model's cdata: channel data or a scaler dictionary *)
Definition rcdc_cdata_dq (c : rcdc) : option cdata :=
  match rc_data c, rc_scaler_data c with
  | Some d, None => match pydata_values d with Some vs => Some (CData vs) | None => None end
  | None, Some sd => match scalers_abs sd with Some x => Some (CScalers x) | None => None end
  | _, _ => None
  end.
Fixpoint entries_chunk_dq (l : alist rcdc) : option chunk :=
  match l with
  | [] => Some []
  | (p, v) :: r =>
    match rcdc_cdata_dq v, entries_chunk_dq r with
    | Some x, Some c => Some ((p, x) :: c)
    | _, _ => None
    end
  end.
Definition rawchunk_chunk_dq (c : rawchunk) : option chunk := entries_chunk_dq (rdc_channel_data c).

(* it extends the abstraction of Proofs/GenDecodeEquiv.v (chunks without scaler dictionaries) *)
Lemma rawchunk_chunk_dq_extends rc c : rawchunk_chunk rc = Some c -> rawchunk_chunk_dq rc = Some c.
Proof.
  unfold rawchunk_chunk, rawchunk_chunk_dq. generalize (rdc_channel_data rc). intros l. revert c.
  induction l as [|[p v] r IH]; intros c H; [exact H|]. cbn [entries_chunk entries_chunk_dq] in *.
  unfold rcdc_cdata in H. unfold rcdc_cdata_dq. destruct (rc_data v) as [d|]; [|discriminate].
  destruct (rc_scaler_data v); [discriminate|]. destruct (pydata_values d); [|discriminate].
  destruct (entries_chunk r) as [cr|]; [|discriminate]. rewrite (IH cr eq_refl). exact H.
Qed.

(* the dictionary of scaler dictionaries the reader accumulates *)
Fixpoint sd_chunk (d : alist (list (Z * nparr))) : option chunk :=
  match d with
  | [] => Some []
  | (p, v) :: r =>
    match scalers_abs v, sd_chunk r with
    | Some x, Some c => Some ((p, CScalers x) :: c)
    | _, _ => None
    end
  end.

Fixpoint upd_sc (id : Z) (vs : list bytes) (l : list (Z * list bytes)) : list (Z * list bytes) :=
  match l with
  | [] => [(id, vs)]
  | (k, v) :: r => if k =? id then (k, vs) :: r else (k, v) :: upd_sc id vs r
  end.

Lemma cdata_set_scaler_some id vs l : cdata_set_scaler id vs (Some (CScalers l)) = CScalers (upd_sc id vs l).
Proof. unfold cdata_set_scaler. f_equal. induction l as [|[k v] r IH]; [reflexivity|]. cbn [upd_sc]. rewrite IH. reflexivity. Qed.

Lemma zset_abs id p vs : arr_values p = Some vs -> forall l x,
    scalers_abs l = Some x -> scalers_abs (zset id p l) = Some (upd_sc id vs x).
Proof.
  intros Hp. unfold scalers_abs. induction l as [|[k v] r IH]; intros x Hx.
  - cbn in Hx. injection Hx as <-. cbn [zset map opt_all]. unfold scaler_entry_abs. cbn [fst snd]. rewrite Hp. reflexivity.
  - cbn [map opt_all] in Hx. unfold scaler_entry_abs at 1 in Hx. cbn [fst snd] in Hx.
    destruct (arr_values v) as [vv|] eqn:Hv; [|discriminate].
    destruct (opt_all (map scaler_entry_abs r)) as [xr|] eqn:Hr; [|discriminate]. injection Hx as <-.
    cbn [zset upd_sc]. rewrite (Z.eqb_sym k id). destruct (id =? k); cbn [map opt_all]; unfold scaler_entry_abs at 1; cbn [fst snd].
    + rewrite Hp, Hr. reflexivity.
    + rewrite Hv, (IH xr eq_refl). reflexivity.
Qed.

(* scaler_data[path][id] = p  on the defaultdict = the model's update of the scaler entry *)
Lemma sd_chunk_set path id p vs : arr_values p = Some vs -> forall sd sacc,
    sd_chunk sd = Some sacc ->
    sd_chunk (aset path (zset id p (dd_item path sd)) sd)
    = Some (aset path (cdata_set_scaler id vs (alookup path sacc)) sacc).
Proof.
  intros Hp. induction sd as [|[p0 v0] r IH]; intros sacc Hs.
  - cbn in Hs. injection Hs as <-. cbn [aset dd_item alookup zset sd_chunk]. unfold dd_item. cbn [alookup zset].
    unfold scalers_abs. cbn [map opt_all]. unfold scaler_entry_abs. cbn [fst snd]. rewrite Hp. reflexivity.
  - cbn [sd_chunk] in Hs. destruct (scalers_abs v0) as [x0|] eqn:H0; [|discriminate].
    destruct (sd_chunk r) as [c|] eqn:Hr; [|discriminate]. injection Hs as <-.
    unfold dd_item. cbn [aset alookup]. destruct (bytes_eqb path p0) eqn:E.
    + cbn [sd_chunk]. rewrite (zset_abs id p vs Hp v0 x0 H0), Hr, cdata_set_scaler_some. reflexivity.
    + cbn [sd_chunk]. rewrite H0. fold (dd_item path r). rewrite (IH c eq_refl). reflexivity.
Qed.

(* ---- the loop over the scalers of one object ------------------------------------------------------------------------------ *)

Definition abs2 (p : alist pydata * alist (list (Z * nparr))) : option chunk * option chunk :=
  (data_chunk (fst p), sd_chunk (snd p)).
Definition some2 (p : chunk * chunk) : option chunk * option chunk := (Some (fst p), Some (snd p)).

Lemma scalers_loop_eq e o q bi w raw : 0 < w -> forall ss,
    Forall (scaler_ok (dq_kind q)) ss -> forall data sd dacc sacc,
    data_chunk data = Some dacc -> sd_chunk sd = Some sacc ->
    mapr abs2 (daqmx_read_data_chunk_gen_loop3 (mkArr2 U1 w raw) e o
                 (filter (fun scaler => ps_buf scaler =? bi) (map (mkPyScaler (dq_kind q)) ss)) data sd)
    = mapr some2 (daqmx_obj_scalers e o q bi (items w raw) w ss dacc sacc).
Proof.
  intros Hw. induction ss as [|s ss IH]; intros Hok data sd dacc sacc Hd Hs.
  - cbn [map filter daqmx_read_data_chunk_gen_loop3 daqmx_obj_scalers mapr]. unfold abs2, some2. cbn [fst snd]. rewrite Hd, Hs. reflexivity.
  - inversion Hok as [|? ? Hs1 Hok']; subst. cbn [map filter daqmx_obj_scalers]. unfold ps_buf at 1. cbn [ps_raw].
    destruct (sc_buf s =? bi); cbn [negb]; [|apply IH; assumption].
    change (daqmx_read_data_chunk_gen_loop3 (mkArr2 U1 w raw) e o (mkPyScaler (dq_kind q) s :: ?l) data sd)
      with (scaler_chain (mkArr2 U1 w raw) e (mkPyScaler (dq_kind q) s)
              (fun processed_data =>
                 if (match (so_dtype o) with Some c__ => c__ =? dec_cls_DaqMxRawData | None => false end) then
                   let scaler_data := aset (so_path o) (zset (ps_id (mkPyScaler (dq_kind q) s)) processed_data (dd_item (so_path o) sd)) sd in
                   daqmx_read_data_chunk_gen_loop3 (mkArr2 U1 w raw) e o l data scaler_data
                 else
                   let data := aset (so_path o) (DArr processed_data) data in
                   daqmx_read_data_chunk_gen_loop3 (mkArr2 U1 w raw) e o l data sd)).
    destruct (scaler_step e (dq_kind q) s w raw Hw Hs1) as [[er [Hm Hg]]|[p [vs [Hm [Hv Hg]]]]]; rewrite Hm, Hg; cbn [bind mapr]; [reflexivity|].
    assert (Edq : (match so_dtype o with Some c__ => c__ =? dec_cls_DaqMxRawData | None => false end)
                  = oz_eqb (so_dtype o) (Some T_DAQMX)).
    { unfold oz_eqb. destruct (so_dtype o); reflexivity. }
    rewrite Edq. destruct (oz_eqb (so_dtype o) (Some T_DAQMX)); cbv zeta.
    + apply IH; [assumption|exact Hd|]. unfold ps_id. cbn [ps_raw]. apply sd_chunk_set; assumption.
    + apply IH; [assumption| |exact Hs]. apply data_chunk_aset; [exact Hv|exact Hd].
Qed.

(* ---- the loop over the objects, the loop over the raw buffers -------------------------------------------------------------- *)

Definition obj_scalers_ok (o : sobj) : Prop :=
  match so_daqmx o with Some q => Forall (scaler_ok (dq_kind q)) (dq_scalers q) | None => True end.

Lemma abs2_some2 d s dm sm : abs2 (d, s) = some2 (dm, sm) -> data_chunk d = Some dm /\ sd_chunk s = Some sm.
Proof. unfold abs2, some2. cbn [fst snd]. intros H. injection H as H1 H2. split; assumption. Qed.

Lemma objs_loop_eq e bi w raw : 0 < w -> forall objs,
    Forall obj_scalers_ok objs -> forall i data sd dacc sacc,
    data_chunk data = Some dacc -> sd_chunk sd = Some sacc ->
    mapr abs2 (daqmx_read_data_chunk_gen_loop2 bi e (mkArr2 U1 w raw) objs i data sd)
    = mapr some2 (daqmx_buffer_objs e objs bi (items w raw) w dacc sacc).
Proof.
  intros Hw. induction objs as [|o objs IH]; intros Hok i data sd dacc sacc Hd Hs.
  - cbn [daqmx_read_data_chunk_gen_loop2 daqmx_buffer_objs mapr]. unfold abs2, some2. cbn [fst snd]. rewrite Hd, Hs. reflexivity.
  - inversion Hok as [|? ? Ho Hok']; subst. cbn [daqmx_read_data_chunk_gen_loop2 daqmx_buffer_objs].
    unfold obj_scalers_ok in Ho. destruct (so_daqmx o) as [q|]; cbn [need bind]; [|reflexivity].
    rewrite map_id. unfold dq_pyscalers.
    pose proof (scalers_loop_eq e o q bi w raw Hw (dq_scalers q) Ho data sd dacc sacc Hd Hs) as H.
    destruct (daqmx_read_data_chunk_gen_loop3 _ _ _ _ _ _) as [[d' s']|er];
      destruct (daqmx_obj_scalers _ _ _ _ _ _ _ _ _) as [[dm sm]|er']; cbn [mapr bind] in *; try discriminate.
    + assert (H0 : abs2 (d', s') = some2 (dm, sm)) by congruence. apply abs2_some2 in H0. destruct H0 as [H1 H2]. apply IH; assumption.
    + exact H.
Qed.

Definition abs3 (p : alist pydata * pyfile * alist (list (Z * nparr))) : option chunk * option chunk * bytes :=
  (data_chunk (fst (fst p)), sd_chunk (snd p), snd (fst p)).
Definition some3 (p : chunk * chunk * bytes) : option chunk * option chunk * bytes :=
  (Some (fst (fst p)), Some (snd (fst p)), snd p).

Lemma buffers_loop_eq e objs : Forall obj_scalers_ok objs -> forall dims,
    Forall (fun d => 0 <= fst d /\ 0 < snd d) dims -> forall bi cur data sd dacc sacc,
    data_chunk data = Some dacc -> sd_chunk sd = Some sacc ->
    mapr abs3 (daqmx_read_data_chunk_gen_loop1 objs e dims bi data cur sd)
    = mapr some3 (daqmx_buffers e objs dims bi cur dacc sacc).
Proof.
  intros Hok. induction dims as [|[n w] dims IH]; intros Hd bi cur data sd dacc sacc Hda Hsa.
  - cbn [daqmx_read_data_chunk_gen_loop1 daqmx_buffers mapr]. unfold abs3, some3. cbn [fst snd]. rewrite Hda, Hsa. reflexivity.
  - inversion Hd as [|? ? [Hn Hw] Hd']; subst. cbn [fst snd] in Hn, Hw.
    cbn [daqmx_read_data_chunk_gen_loop1 daqmx_buffers].
    rewrite read_interleaved_segment_bytes_eq by lia. cbn [bind].
    unfold read_rows, get_raw. set (got := take (w * n) cur).
    assert (Hit : items w (take (blen got / w * w) got) = items w got).
    { apply (items_take_round w Hw (length got)). lia. }
    pose proof (objs_loop_eq e bi w (take (blen got / w * w) got) Hw objs Hok 0 data sd dacc sacc Hda Hsa) as H.
    rewrite Hit in H.
    destruct (daqmx_read_data_chunk_gen_loop2 _ _ _ _ _ _ _) as [[d' s']|er];
      destruct (daqmx_buffer_objs _ _ _ _ _ _ _) as [[dm sm]|er']; cbn [mapr bind] in *; try discriminate.
    + assert (H0 : abs2 (d', s') = some2 (dm, sm)) by congruence. apply abs2_some2 in H0. destruct H0 as [H1 H2]. apply IH; assumption.
    + injection H as ->. reflexivity.
Qed.

(* ---- the final dictionary: plain data entries first, then the scaler entries ---------------------------------------------- *)

Lemma entries_chunk_dq_aset k v x : rcdc_cdata_dq v = Some x -> forall comb acc,
    entries_chunk_dq comb = Some acc -> entries_chunk_dq (aset k v comb) = Some (aset k x acc).
Proof.
  intros Hv. induction comb as [|[p w] r IH]; intros acc Hc.
  - cbn in Hc. injection Hc as <-. cbn [aset entries_chunk_dq]. rewrite Hv. reflexivity.
  - cbn [entries_chunk_dq] in Hc. destruct (rcdc_cdata_dq w) as [xw|] eqn:Hw; [|discriminate].
    destruct (entries_chunk_dq r) as [cr|] eqn:Hr; [|discriminate]. injection Hc as <-.
    cbn [aset]. destruct (bytes_eqb k p); cbn [entries_chunk_dq].
    + rewrite Hv, Hr. reflexivity.
    + rewrite Hw, (IH cr eq_refl). reflexivity.
Qed.

Definition aset_all (c acc : chunk) : chunk := fold_left (fun a kv => aset (fst kv) (snd kv) a) c acc.

Lemma loop4_abs : forall l comb c acc,
    data_chunk l = Some c -> entries_chunk_dq comb = Some acc ->
    exists comb', daqmx_read_data_chunk_gen_loop4 l comb = Ok comb' /\ entries_chunk_dq comb' = Some (aset_all c acc).
Proof.
  induction l as [|[p v] r IH]; intros comb c acc Hl Hc.
  - cbn in Hl. injection Hl as <-. exists comb. split; [reflexivity|exact Hc].
  - cbn [data_chunk] in Hl. destruct (pydata_values v) as [vs|] eqn:Hv; [|discriminate].
    destruct (data_chunk r) as [cr|] eqn:Hr; [|discriminate]. injection Hl as <-.
    cbn [daqmx_read_data_chunk_gen_loop4]. unfold aset_all. cbn [fold_left fst snd].
    apply IH; [reflexivity|]. apply entries_chunk_dq_aset; [|exact Hc].
    unfold rcdc_cdata_dq. cbn [rc_data rc_scaler_data]. rewrite Hv. reflexivity.
Qed.

Lemma loop5_abs : forall l comb c acc,
    sd_chunk l = Some c -> entries_chunk_dq comb = Some acc ->
    exists comb', daqmx_read_data_chunk_gen_loop5 l comb = Ok comb' /\ entries_chunk_dq comb' = Some (aset_all c acc).
Proof.
  induction l as [|[p v] r IH]; intros comb c acc Hl Hc.
  - cbn in Hl. injection Hl as <-. exists comb. split; [reflexivity|exact Hc].
  - cbn [sd_chunk] in Hl. destruct (scalers_abs v) as [vs|] eqn:Hv; [|discriminate].
    destruct (sd_chunk r) as [cr|] eqn:Hr; [|discriminate]. injection Hl as <-.
    cbn [daqmx_read_data_chunk_gen_loop5]. unfold aset_all. cbn [fold_left fst snd].
    apply IH; [reflexivity|]. apply entries_chunk_dq_aset; [|exact Hc].
    unfold rcdc_cdata_dq. cbn [rc_data rc_scaler_data]. rewrite Hv. reflexivity.
Qed.

(* a dictionary rebuilt from its own items is itself *)
Lemma aset_fresh_app {V} (k : bytes) (v : V) (l : alist V) : ~ In k (map fst l) -> aset k v l = l ++ [(k, v)].
Proof.
  induction l as [|[k' v'] r IH]; intros H; [reflexivity|]. cbn [aset map fst] in *.
  destruct (bytes_eqb k k') eqn:E.
  - apply bytes_eqb_eq in E. subst k'. exfalso. apply H. left. reflexivity.
  - cbn [app]. f_equal. apply IH. intros Hin. apply H. right. exact Hin.
Qed.

Lemma aset_all_nodup : forall (c acc : chunk), NoDup (map fst acc ++ map fst c) -> aset_all c acc = acc ++ c.
Proof.
  unfold aset_all. induction c as [|[k v] r IH]; intros acc Hnd; cbn [fold_left]; [rewrite app_nil_r; reflexivity|].
  cbn [map fst snd] in *.
  rewrite aset_fresh_app.
  - rewrite IH; [rewrite <- app_assoc; reflexivity|]. rewrite map_app. cbn [map fst]. rewrite <- app_assoc. exact Hnd.
  - intros Hin. apply NoDup_remove_2 in Hnd. apply Hnd. apply in_or_app. left. exact Hin.
Qed.

(* the model's data dictionary has distinct keys (it is built by item assignment) *)
Lemma obj_scalers_nodup e o q bi rows w : forall ss data sdata d s,
    NoDup (map fst data) -> daqmx_obj_scalers e o q bi rows w ss data sdata = Ok (d, s) -> NoDup (map fst d).
Proof.
  induction ss as [|x ss IH]; intros data sdata d s Hnd H; cbn [daqmx_obj_scalers] in H.
  - injection H as <- _. exact Hnd.
  - destruct (negb (sc_buf x =? bi)); [eapply IH; eassumption|].
    destruct (scaler_values e (dq_kind q) x rows w) as [vs|]; cbn [bind] in H; [|discriminate].
    destruct (oz_eqb (so_dtype o) (Some T_DAQMX)); [eapply IH; eassumption|].
    eapply IH; [|exact H]. apply aset_NoDup. exact Hnd.
Qed.

Lemma buffer_objs_nodup e bi rows w : forall objs data sdata d s,
    NoDup (map fst data) -> daqmx_buffer_objs e objs bi rows w data sdata = Ok (d, s) -> NoDup (map fst d).
Proof.
  induction objs as [|o objs IH]; intros data sdata d s Hnd H; cbn [daqmx_buffer_objs] in H.
  - injection H as <- _. exact Hnd.
  - destruct (so_daqmx o) as [q|]; [|discriminate].
    destruct (daqmx_obj_scalers e o q bi rows w (dq_scalers q) data sdata) as [[d1 s1]|] eqn:E; cbn [bind] in H; [|discriminate].
    eapply IH; [|exact H]. eapply obj_scalers_nodup; eassumption.
Qed.

Lemma buffers_nodup e objs : forall dims bi cur data sdata d s cur',
    NoDup (map fst data) -> daqmx_buffers e objs dims bi cur data sdata = Ok (d, s, cur') -> NoDup (map fst d).
Proof.
  induction dims as [|[n w] dims IH]; intros bi cur data sdata d s cur' Hnd H; cbn [daqmx_buffers] in H.
  - injection H as <- _ _. exact Hnd.
  - destruct (read_rows w n cur) as [rows cur1].
    destruct (daqmx_buffer_objs e objs bi rows w data sdata) as [[d1 s1]|] eqn:E; cbn [bind] in H; [|discriminate].
    eapply IH; [|exact H]. eapply buffer_objs_nodup; eassumption.
Qed.

(* ---- DaqmxDataReader._read_data_chunk = Model/Layout.v read_daqmx_chunk ------------------------------------------------------ *)

Definition dims_ok (objs : list sobj) : Prop :=
  forall dims, buffer_dims objs = Ok dims -> Forall (fun d => 0 <= fst d /\ 0 < snd d) dims.

Definition daqmx_objs_ok (objs : list sobj) : Prop :=
  Forall (fun o => so_daqmx o <> None) objs /\ Forall obj_scalers_ok objs /\ bufs_nonneg objs /\ dims_ok objs.

Theorem daqmx_read_data_chunk_eq e objs cur ci :
  daqmx_objs_ok objs ->
  mapr (fun p => (rawchunk_chunk_dq (fst p), snd p)) (daqmx_read_data_chunk_gen e cur objs ci)
  = mapr (fun p => (Some (fst p), snd p)) (read_daqmx_chunk e objs cur).
Proof.
  intros [Hall [Hok [Hbn Hdims]]]. unfold daqmx_read_data_chunk_gen, read_daqmx_chunk.
  assert (Ea : forallb (fun o => negb (is_none (so_daqmx o))) objs = true).
  { apply forallb_forall. intros o Ho. rewrite Forall_forall in Hall. specialize (Hall o Ho).
    destruct (so_daqmx o); [reflexivity|contradiction]. }
  rewrite Ea. cbn [negb]. rewrite (get_buffer_dimensions_eq objs Hbn).
  destruct (buffer_dims objs) as [dims|er] eqn:Ed; cbn [bind mapr]; [|reflexivity].
  pose proof (buffers_loop_eq e objs Hok dims (Hdims dims Ed) 0 cur [] [] [] [] eq_refl eq_refl) as H.
  destruct (daqmx_read_data_chunk_gen_loop1 objs e dims 0 [] cur []) as [[[d' f'] s']|er];
    destruct (daqmx_buffers e objs dims 0 cur [] []) as [[[dm sm] cur1]|er'] eqn:Em; cbn [mapr bind] in *; try discriminate.
  - unfold abs3, some3 in H. cbn [fst snd] in H. injection H as H1 H2 H3. subst f'.
    destruct (loop4_abs d' [] dm [] H1 eq_refl) as [c1 [Hc1 Ha1]]. rewrite Hc1. cbn [bind].
    destruct (loop5_abs s' c1 sm _ H2 Ha1) as [c2 [Hc2 Ha2]]. rewrite Hc2. cbn [bind mapr fst snd].
    unfold rawchunk_chunk_dq. cbn [rdc_channel_data]. rewrite Ha2. f_equal. f_equal. f_equal.
    rewrite (aset_all_nodup dm []); [reflexivity|]. cbn [map app].
    eapply (buffers_nodup e objs dims 0 cur [] []); [constructor|exact Em].
  - injection H as ->. reflexivity.
Qed.

(* ---- Props/C11.v transported onto the translated reader ---------------------------------------------------------------------- *)

(* what the translated chain computes for one scaler is the directly addressed value at every row *)
Theorem scaler_array_direct_addressing e kind s w (buf : bytes) dt sz :
  0 < w -> scaler_ok kind s -> daqmx_type (sc_type s) = Some dt -> tds_size dt = Some (Some sz) ->
  forall T (K : nparr -> res T),
    (exists er, scaler_chain (mkArr2 U1 w buf) e (mkPyScaler kind s) K = Err er
                /\ scaler_values e kind s (items w buf) w = Err er)
    \/ (exists p vs, scaler_chain (mkArr2 U1 w buf) e (mkPyScaler kind s) K = K p /\ arr_values p = Some vs
                     /\ length vs = length (items w buf)
                     /\ forall i, (i < length (items w buf))%nat ->
                                  nth_error vs i = Some (scaler_value_at e kind s dt sz 0 w buf i)).
Proof.
  intros Hw Hok Hdt Hs T K. destruct (scaler_step e kind s w buf Hw Hok) as [[er [Hm Hg]]|[p [vs [Hm [Hv Hg]]]]].
  - left. exists er. split; [apply Hg|exact Hm].
  - right. exists p, vs. split; [apply Hg|]. split; [exact Hv|].
    destruct Hok as [Hoff _].
    exact (DaqmxProofs.scaler_direct_addressing e kind s (length buf) w buf dt sz vs Hw Hoff Hdt Hs Hm).
Qed.

(* one chunk read by the translated DaqmxDataReader._read_data_chunk: every scaler of every DaqMxRawData channel is
   filed under (path, scale id) and holds the values addressed directly in the bytes of its raw buffer *)
Theorem daqmx_chunk_addressing_gen e objs cur ci rc cur1 dims o q s k n w dt sz :
  daqmx_objs_ok objs ->
  daqmx_read_data_chunk_gen e cur objs ci = Ok (rc, cur1) ->
  get_buffer_dimensions_gen objs = Ok dims ->
  In o objs -> NoDup (map so_path objs) -> so_daqmx o = Some q -> so_dtype o = Some T_DAQMX ->
  In s (dq_scalers q) -> NoDup (map sc_id (dq_scalers q)) ->
  nth_error dims k = Some (n, w) -> sc_buf s = Z.of_nat k ->
  daqmx_type (sc_type s) = Some dt -> tds_size dt = Some (Some sz) ->
  exists c vs,
    rawchunk_chunk_dq rc = Some c /\
    holds (so_path o) (sc_id s) vs c /\
    length vs = length (items w (read_at (buffer_base dims k) (w * n) cur)) /\
    forall i, (i < length vs)%nat ->
              nth_error vs i = Some (scaler_value_at e (dq_kind q) s dt sz (buffer_base dims k) w cur i).
Proof.
  intros Hok Hg Hdims Ho Hnd Hq Hdt Hs Hids Hk Hbuf Hty Hsz.
  pose proof (daqmx_read_data_chunk_eq e objs cur ci Hok) as H. rewrite Hg in H. cbn [mapr fst snd] in H.
  destruct (read_daqmx_chunk e objs cur) as [[c cur1']|er] eqn:Em; cbn [mapr fst snd] in H; [|discriminate].
  injection H as Hc ->.
  destruct Hok as [Hall [Hsok [Hbn Hdok]]]. rewrite (get_buffer_dimensions_eq objs Hbn) in Hdims.
  pose proof (Hdok dims Hdims) as Hd.
  assert (Hd0 : Forall (fun d => 0 <= fst d /\ 0 <= snd d) dims).
  { eapply Forall_impl; [|exact Hd]. cbn beta. intros d0 [? ?]. lia. }
  assert (Hw : 0 < w).
  { rewrite Forall_forall in Hd. apply nth_error_In in Hk. specialize (Hd _ Hk). cbn [snd] in Hd. lia. }
  assert (Hoff : 0 <= sc_off s).
  { rewrite Forall_forall in Hsok. specialize (Hsok o Ho). unfold obj_scalers_ok in Hsok. rewrite Hq in Hsok.
    rewrite Forall_forall in Hsok. destruct (Hsok s Hs) as [H0 _]. exact H0. }
  destruct (DaqmxProofs.daqmx_chunk_addressing e objs cur c cur1' dims o q s k n w dt sz Em Hdims Hd0 Ho Hnd Hq Hdt Hs Hids Hk Hbuf
                                               Hw Hoff Hty Hsz) as [vs Hvs].
  exists c, vs. split; [exact Hc|exact Hvs].
Qed.

(* ---- DaqmxDataReceiver.append_scaler_data ------------------------------------------------------------------------------------ *)

(* the scaler's preallocated array receives the new values at its insert position; the other scalers are untouched *)
Theorem daqmx_receiver_append_scaler_eq path sd sp id data pos new :
  zlookup id sd = Some data -> zlookup id sp = Some pos ->
  same_items (a_dtype new) (a_dtype data) ->
  blen (a_raw data) mod dt_itemsize (a_dtype data) = 0 ->
  0 <= pos -> pos + np_len new <= np_len data ->
  exists data', daqmx_receiver_append_scaler_data_gen path sd sp id new
                = Ok (zset id data' sd, zset id (pos + np_len new) sp)
                /\ a_dtype data' = a_dtype data
                /\ blen (a_raw data') mod dt_itemsize (a_dtype data) = 0
                /\ np_len data' = np_len data
                /\ forall acc vs, arr_values_upto pos data = Some acc -> arr_values new = Some vs ->
                                  arr_values_upto (pos + np_len new) data' = Some (acc ++ vs).
Proof.
  intros Hsd Hsp Hsame Hmod Hp Hb.
  destruct (numpy_receiver_append_eq path data pos new Hsame Hmod Hp Hb) as [data' [Hg Hrest]].
  exists data'. split; [|exact Hrest].
  unfold daqmx_receiver_append_scaler_data_gen. rewrite Hsd, Hsp. cbn [need bind].
  unfold numpy_receiver_append_data_gen in Hg.
  destruct (np_assign_slice data pos (pos + np_len new) new) as [d|er]; cbn [bind] in *; [|discriminate].
  injection Hg as ->. reflexivity.
Qed.

(* a missing scale id is KeyError in both (Model/Reader.v scaler_append on a dictionary without the id) *)
Theorem daqmx_receiver_append_scaler_missing path sd sp id new :
  zlookup id sd = None -> daqmx_receiver_append_scaler_data_gen path sd sp id new = Err EKey.
Proof. intros H. unfold daqmx_receiver_append_scaler_data_gen. rewrite H. reflexivity. Qed.

(* seen through the receiver abstraction of Proofs/GenDecodeRecv.v (the preallocated arrays up to their insert
   positions), append_scaler_data IS the model's scaler_append *)
Lemma sd_append_abs sp id pos data data' vs n :
  zlookup id sp = Some pos ->
  (forall acc0, arr_values_upto pos data = Some acc0 -> arr_values_upto n data' = Some (acc0 ++ vs)) ->
  forall sd acc, NoDup (map fst sd) -> zlookup id sd = Some data ->
    opt_all (map (scaler_abs sp) sd) = Some acc ->
    exists acc', scaler_append id vs acc = Ok acc'
                 /\ opt_all (map (scaler_abs (zset id n sp)) (zset id data' sd)) = Some acc'.
Proof.
  intros Hsp Hup. induction sd as [|[k a] r IH]; intros acc Hnd Hl Ha; [discriminate Hl|].
  cbn [map fst] in Hnd. inversion Hnd as [|? ? Hnin Hnd']; subst.
  cbn [map opt_all] in Ha. unfold scaler_abs at 1 in Ha. cbn [fst snd] in Ha.
  destruct (zlookup k sp) as [pk|] eqn:Hk; [|discriminate].
  destruct (arr_values_upto pk a) as [vk|] eqn:Hvk; [|discriminate].
  destruct (opt_all (map (scaler_abs sp) r)) as [accr|] eqn:Hr; [|discriminate]. injection Ha as <-.
  cbn [zlookup] in Hl. cbn [zset scaler_append]. rewrite (Z.eqb_sym k id).
  destruct (id =? k) eqn:E.
  - assert (k = id) by lia. subst k. injection Hl as ->. rewrite Hsp in Hk. injection Hk as <-.
    eexists. split; [reflexivity|]. cbn [map opt_all]. unfold scaler_abs at 1. cbn [fst snd].
    rewrite zlookup_zset_same, (Hup vk Hvk).
    assert (Hsame : map (scaler_abs (zset id n sp)) r = map (scaler_abs sp) r).
    { apply map_ext_in. intros [k' a'] Hin. unfold scaler_abs. cbn [fst snd].
      rewrite zlookup_zset_other; [reflexivity|]. intros ->. apply Hnin. apply in_map_iff. exists (id, a'). split; [reflexivity|exact Hin]. }
    rewrite Hsame, Hr. reflexivity.
  - destruct (IH accr Hnd' Hl eq_refl) as [acc' [Hs Ho]]. rewrite Hs. cbn [bind].
    eexists. split; [reflexivity|]. cbn [map opt_all]. unfold scaler_abs at 1. cbn [fst snd].
    rewrite zlookup_zset_other by lia. rewrite Hk, Hvk, Ho. reflexivity.
Qed.

Theorem daqmx_receiver_append_is_scaler_append path sd sp id data pos new vs acc :
  NoDup (map fst sd) ->
  zlookup id sd = Some data -> zlookup id sp = Some pos ->
  same_items (a_dtype new) (a_dtype data) ->
  blen (a_raw data) mod dt_itemsize (a_dtype data) = 0 ->
  0 <= pos -> pos + np_len new <= np_len data ->
  arr_values new = Some vs ->
  recv_abs (RDaqmx (path, sd, sp)) = Some (CScalers acc) ->
  exists sd' sp' acc',
    daqmx_receiver_append_scaler_data_gen path sd sp id new = Ok (sd', sp')
    /\ scaler_append id vs acc = Ok acc'
    /\ recv_abs (RDaqmx (path, sd', sp')) = Some (CScalers acc').
Proof.
  intros Hnd Hsd Hsp Hsame Hmod Hp Hb Hvs Habs.
  destruct (daqmx_receiver_append_scaler_eq path sd sp id data pos new Hsd Hsp Hsame Hmod Hp Hb)
    as [data' [Hg [_ [_ [_ Hup]]]]].
  cbn [recv_abs] in Habs. destruct (opt_all (map (scaler_abs sp) sd)) as [acc0|] eqn:Ha; [|discriminate].
  cbn [option_map] in Habs. injection Habs as <-.
  destruct (sd_append_abs sp id pos data data' vs (pos + np_len new) Hsp (fun a0 H0 => Hup a0 vs H0 Hvs) sd acc0 Hnd Hsd Ha)
    as [acc' [Hs Ho]].
  exists (zset id data' sd), (zset id (pos + np_len new) sp), acc'.
  split; [exact Hg|]. split; [exact Hs|]. cbn [recv_abs]. rewrite Ho. reflexivity.
Qed.

(* ---- example: the big-endian segment of Props/C11.v (two buffers, int16 / uint8 / digital-line scalers) --------------- *)

Lemma ex_objs_ok : daqmx_objs_ok [ex_oa; ex_ob; ex_oc].
Proof.
  split; [repeat constructor; discriminate|]. split.
  - repeat constructor; cbn; try lia; intros H; try discriminate H; reflexivity.
  - split; [repeat constructor; cbn; lia|].
    intros dims H. vm_compute in H. injection H as <-. repeat constructor; cbn; lia.
Qed.

Example ex_daqmx_gen :
  daqmx_objs_ok [ex_oa; ex_ob; ex_oc] /\
  mapr (fun p => (rawchunk_chunk_dq (fst p), snd p)) (daqmx_read_data_chunk_gen BE ex_data [ex_oa; ex_ob; ex_oc] 0)
  = Ok (Some [(hex "2f2761", CScalers [(0, [hex "0201"; hex "1211"]); (1, [hex "0403"; hex "1413"])]);
              (hex "2f2762", CScalers [(0, [hex "a1"; hex "b1"; hex "c1"])]);
              (hex "2f2763", CScalers [(0, [hex "00"; hex "00"; hex "00"])])],
        hex "212223243132333400040f00ff0a000100") /\
  read_daqmx_chunk BE [ex_oa; ex_ob; ex_oc] ex_data
  = Ok ([(hex "2f2761", CScalers [(0, [hex "0201"; hex "1211"]); (1, [hex "0403"; hex "1413"])]);
         (hex "2f2762", CScalers [(0, [hex "a1"; hex "b1"; hex "c1"])]);
         (hex "2f2763", CScalers [(0, [hex "00"; hex "00"; hex "00"])])],
        hex "212223243132333400040f00ff0a000100").
Proof. split; [exact ex_objs_ok|]. split; vm_compute; reflexivity. Qed.

(* a receiver for two int16 scalers of 4 values each, 2 already received for scaler 1: appending [0x0403; 0x1413]
   (big-endian array) to scaler 1 *)
Example ex_append_scaler :
  let sd := [(0, mkArr (DNum "i" 2 LE) (hex "0000000000000000")); (1, mkArr (DNum "i" 2 LE) (hex "aaaabbbb00000000"))] in
  let sp := [(0, 0); (1, 2)] in
  let new := mkArr (DNum "i" 2 BE) (hex "04031413") in
  daqmx_receiver_append_scaler_data_gen (hex "2f2761") sd sp 1 new
  = Ok ([(0, mkArr (DNum "i" 2 LE) (hex "0000000000000000")); (1, mkArr (DNum "i" 2 LE) (hex "aaaabbbb03041314"))],
        [(0, 0); (1, 4)]) /\
  recv_abs (RDaqmx (hex "2f2761", sd, sp)) = Some (CScalers [(0, []); (1, [hex "aaaa"; hex "bbbb"])]) /\
  scaler_append 1 [hex "0304"; hex "1314"] [(0, []); (1, [hex "aaaa"; hex "bbbb"])]
  = Ok [(0, []); (1, [hex "aaaa"; hex "bbbb"; hex "0304"; hex "1314"])].
Proof. repeat split; vm_compute; reflexivity. Qed.
