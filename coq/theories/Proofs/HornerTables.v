(* Proofs/HornerTables.v -- the generic rounding theorem of Proofs/HornerRound.v instantiated
   on the thermocouple tables of Gen/ThermoTables.v (regenerated from the source on every run);
   definitions, ranges, stated bounds and tactics here, the two computations per direction in
   Proofs/HornerTablesFwd.v and Proofs/HornerTablesInv.v (built in parallel):
     * every PrimFloat literal of the tables denotes the hex real literal next to it,
     * per piece, for |x| <= X (X covers the piece's range within the NIST range) the bound
       hbound ... X B E holds with E <= the stated eps (computed coefficient by coefficient
       with `interval`),
     * float piece selection (IEEE comparisons) implies real piece selection (selR). *)
From Coq Require Import Reals ZArith List Lra Bool.
From Coq Require Import PrimFloat FloatOps.
From Flocq Require Import Core BinarySingleNaN.
From Interval Require Import Tactic.
Import ListNotations.
From NpTdms Require Import Gen.ThermoTables.
From NpTdms Require Import Gen.ThermoNist.
From NpTdms Require Import Model.ThermoF.
From NpTdms Require Import Model.ThermoR.
From NpTdms Require Import Proofs.ThermoCoverage.
From NpTdms Require Import Proofs.HornerRound.
Open Scope R_scope.

(* ---- list helpers --------------------------------------------------------------------------- *)

Fixpoint all2 {A B : Type} (P : A -> B -> Prop) (l1 : list A) (l2 : list B) : Prop :=
  match l1, l2 with
  | [], [] => True
  | a :: r1, b :: r2 => P a b /\ all2 P r1 r2
  | _, _ => False
  end.

Fixpoint all3 {A B C : Type} (P : A -> B -> C -> Prop) (l1 : list A) (l2 : list B) (l3 : list C) : Prop :=
  match l1, l2, l3 with
  | [], [], [] => True
  | a :: r1, b :: r2, c :: r3 => P a b c /\ all3 P r1 r2 r3
  | _, _, _ => False
  end.

Lemma all3_In1 {A B C : Type} (P : A -> B -> C -> Prop) : forall l1 l2 l3 a,
  all3 P l1 l2 l3 -> In a l1 -> exists b c, In b l2 /\ In c l3 /\ P a b c.
Proof.
  induction l1 as [|a1 r1 IH]; intros l2 l3 a H Hin; [destruct Hin|].
  destruct l2 as [|b1 r2]; [destruct H|]. destruct l3 as [|c1 r3]; [destruct H|].
  destruct H as [H1 H2]. destruct Hin as [<-|Hin].
  - exists b1, c1. split; [left; reflexivity|]. split; [left; reflexivity|exact H1].
  - destruct (IH r2 r3 a H2 Hin) as [b [c [Hb [Hc Hp]]]].
    exists b, c. split; [right; exact Hb|]. split; [right; exact Hc|exact Hp].
Qed.

(* ---- the tables over R are the tables over binary64 ----------------------------------------- *)

(* a piece of the float table carried into R; None for an empty coefficient list *)
Definition piece_FR (p : pieceF) : option pieceR :=
  match p with
  | (s, e, c :: cs) => Some (option_map FR s, option_map FR e, FR c, map FR cs)
  | (_, _, []) => None
  end.

Ltac tables_FR_tac T :=
  destruct T;
  cbv - [FR Q2R Rdiv Rmult Ropp IZR Rinv Rplus Rminus];
  repeat (apply f_equal2; [|try reflexivity]); repeat f_equal; fr_lit.


(* every number of the tables is a finite binary64 *)
Definition opt_finb (o : option float) : bool :=
  match o with None => true | Some a => Coq.Floats.PrimFloat.is_finite a end.
Definition pieceF_finb (p : pieceF) : bool :=
  let '(s, e, cs) := p in opt_finb s && opt_finb e && forallb Coq.Floats.PrimFloat.is_finite cs.

Lemma tables_finite : forall T,
  forallb pieceF_finb (code_fwdF T) = true /\ forallb pieceF_finb (code_invF T) = true.
Proof. intros T; destruct T; split; vm_compute; reflexivity. Qed.

(* ---- per piece: range, magnitude and error bound -------------------------------------------- *)

(* Xe = (X, eps).  On the part of the piece inside [lo, hi], |t| <= X; for |x| <= X nothing
   overflows and the rounding error of the float Horner evaluation is at most eps. *)
Definition piece_ok (lo hi : R) (q : pieceR) (Xe : R * R) : Prop :=
  (forall t, selR q t -> lo <= t <= hi -> Rabs t <= fst Xe) /\
  exists B, hbound (pr_c0 q) (pr_cs q) (fst Xe) B (snd Xe).

(* upper bound of a closed expression, found by interval arithmetic *)
Ltac upper_bound :=
  unfold u64, eta64;
  match goal with |- ?e <= _ =>
    let H := fresh "Hub" in interval_intro e upper with (i_prec 60) as H; exact H end.

(* hbound c cs X ?B ?E one coefficient at a time, from the last coefficient inwards *)
Ltac hchain :=
  lazymatch goal with
  | |- hbound _ [] _ _ _ => apply hbound_base; apply Rle_refl
  | |- hbound _ (_ :: _) _ _ _ =>
      eapply hbound_step;
        [ lra | hchain | upper_bound | upper_bound | unfold ovf64; interval ]
  end.

Ltac piece_ok_tac :=
  unfold piece_ok; split;
  [ let t := fresh "t" in let Hs := fresh "Hs" in let Hr := fresh "Hr" in
    intros t Hs Hr;
    cbv [selR pr_start pr_end fst snd wrR_end_only wrR_start_only wrR_both] in Hs;
    cbv [fst snd] in *; apply Rabs_le; lra
  | eexists; cbv [pr_c0 pr_cs fst snd]; eapply hbound_weaken; [hchain | interval] ].

Ltac pieces_ok_tac :=
  cbv - [piece_ok hbound selR Rabs Rle Rlt Q2R Rdiv Rmult Ropp IZR Rinv Rplus Rminus u64 eta64 ovf64];
  repeat (split; [piece_ok_tac|]); exact I.

(* forward: NIST temperature range of the type (degC); X and eps (mV) per piece *)
Definition fwd_range (T : tctype) : R * R :=
  match T with
  | TB => (0, 1820) | TE => (-270, 1000) | TJ => (-210, 1200) | TK => (-270, 1372)
  | TN => (-270, 1300) | TR => (-50, 1768.1) | TS => (-50, 1768.1) | TT => (-270, 400)
  end.

Definition fwd_Xe (T : tctype) : list (R * R) :=
  match T with
  | TB => [(630.7, 2.2e-15); (1820, 9.3e-12)]
  | TE => [(270, 3.1e-10); (1000, 1.2e-11)]
  | TJ => [(760, 2.5e-13); (1200, 1.2e-11)]
  | TK => [(270, 2.1e-12); (1372, 1.9e-11)]
  | TN => [(270, 4.1e-14); (1300, 3.7e-11)]
  | TR => [(1065, 4.3e-13); (1665, 7.6e-14); (1769, 6.4e-13)]
  | TS => [(1065, 2.3e-13); (1665, 1.9e-14); (1769, 6.1e-13)]
  | TT => [(270, 2.9e-9); (400, 5.7e-13)]
  end.

(* inverse: voltage span (mV) on which the inverse is bounded -- the EMF span of the type
   over its NIST temperature range, rounded outwards (see fwd_in_inv_range in
   Proofs/HornerCompose.v: every forward value of an inverse validity range lies inside);
   X (mV) and eps (degC) per piece *)
Definition inv_range (T : tctype) : R * R :=
  match T with
  | TB => (-0.01, 13.9) | TE => (-9.9, 76.4) | TJ => (-8.1, 69.6) | TK => (-6.5, 54.9)
  | TN => (-4.4, 47.6) | TR => (-0.23, 21.2) | TS => (-0.24, 18.7) | TT => (-6.3, 20.9)
  end.

Definition inv_Xe (T : tctype) : list (R * R) :=
  match T with
  | TB => [(2.432, 1.8e-10); (13.9, 2.6e-10)]
  | TE => [(9.9, 1.8e-11); (76.4, 1.0e-10)]
  | TJ => [(8.1, 3.5e-11); (42.92, 3.5e-12); (69.6, 1.3e-10)]
  | TK => [(6.5, 2.9e-11); (20.65, 3.9e-10); (54.9, 2.7e-11)]
  | TN => [(4.4, 1.3e-10); (20.62, 2.3e-12); (47.6, 2.8e-12)]
  | TR => [(1.924, 1.7e-10); (11.37, 5.9e-11); (19.74, 8.0e-12); (21.2, 4.0e-10)]
  | TS => [(1.875, 3.9e-11); (10.34, 1.7e-11); (17.54, 6.4e-12); (18.7, 6.0e-10)]
  | TT => [(6.3, 5.2e-12); (20.9, 1.6e-12)]
  end.

(* one eps per type and direction: the largest of its pieces *)
Definition eps_fwd (T : tctype) : R :=
  match T with
  | TB => 9.3e-12 | TE => 3.1e-10 | TJ => 1.2e-11 | TK => 1.9e-11
  | TN => 3.7e-11 | TR => 6.4e-13 | TS => 6.1e-13 | TT => 2.9e-9
  end.
Definition eps_inv (T : tctype) : R :=
  match T with
  | TB => 2.6e-10 | TE => 1.0e-10 | TJ => 1.3e-10 | TK => 3.9e-10
  | TN => 1.3e-10 | TR => 4.0e-10 | TS => 6.0e-10 | TT => 5.2e-12
  end.

Lemma eps_fwd_max : forall T, Forall (fun Xe => snd Xe <= eps_fwd T) (fwd_Xe T).
Proof. intros T; destruct T; cbv [fwd_Xe eps_fwd];
  repeat (apply Forall_cons; [cbv [snd]; lra|]); apply Forall_nil. Qed.
Lemma eps_inv_max : forall T, Forall (fun Xe => snd Xe <= eps_inv T) (inv_Xe T).
Proof. intros T; destruct T; cbv [inv_Xe eps_inv];
  repeat (apply Forall_cons; [cbv [snd]; lra|]); apply Forall_nil. Qed.
