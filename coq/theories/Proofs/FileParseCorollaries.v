(* The whole-file theorems, restated for ARBITRARY byte streams: every hypothesis
   "wf_file segs" + bytes "ser_file segs" is replaced by "parse_file b = Some segs"
   + bytes "b" (Proofs/FileParseProofs.v: parse_file b = Some segs <-> b = ser_file
   segs /\ wf_file segs).  Each proof is: rewrite b, apply the headline theorem of
   the Props file named. Then concrete accepted and rejected streams. *)
From Coq Require Import List ZArith Bool Lia.
From Coq Require Import Init.Byte.
Import ListNotations.
From NpTdms Require Import Base.Bytes Base.Res Base.PySlice Model.Tokens Model.TokensWf Model.SegState
     Model.Layout Model.Reader Model.FileSyn Model.Spec Model.LazyRead Model.LazyBytes Model.FileParse
     Proofs.LayoutProofs Proofs.FileSynProofs Proofs.ReadCorrect Proofs.TruncProofs Proofs.TruncValuesLayout
     Proofs.TruncValuesFile Proofs.SegStateExplicit
     Proofs.EndianRead Proofs.InheritRead Proofs.LazyTopProofs Proofs.LazyEagerIndex
     Proofs.FileParseProofs.
From NpTdms Require Proofs.SpecRefine Proofs.IndexCompose Proofs.LazyEagerTop Proofs.SpecRefineExamples.
Local Open Scope Z_scope.

(* the transfer principle *)
Lemma parse_file_lift (P : bytes -> list fseg -> Prop) :
  (forall segs, wf_file segs -> P (ser_file segs) segs) ->
  forall b segs, parse_file b = Some segs -> P b segs.
Proof.
  intros H b segs Hp. apply parse_file_sound in Hp. destruct Hp as [<- Hwf]. apply H. exact Hwf.
Qed.

(* ---- C01 -------------------------------------------------------------------------------- *)

Theorem reader_refines_spec_bytes : forall b segs c,
  parse_file b = Some segs -> spec_ok segs ->
  spec_meaning segs = SOk c ->
  rd_all b = Ok (spec_tokens c, true).
Proof.
  intros b segs c Hp Hok Hm. apply parse_file_sound in Hp. destruct Hp as [<- Hwf].
  exact (SpecRefine.reader_refines_spec segs c Hwf Hok Hm).
Qed.

Theorem reader_rejects_forbidden_bytes : forall b segs e,
  parse_file b = Some segs -> spec_ok segs ->
  spec_meaning segs = SErr e -> forbidden e ->
  exists e', rd_all b = Err e'.
Proof.
  intros b segs e Hp Hok Hm Hf. apply parse_file_sound in Hp. destruct Hp as [<- Hwf].
  exact (SpecRefine.reader_rejects_forbidden segs e Hwf Hok Hm Hf).
Qed.

Theorem read_correct_bytes : forall b segs st h chunkss,
  parse_file b = Some segs ->
  sm_run segs false = Ok st ->
  build_hierarchy (rs_om st) = Ok h ->
  segs_encode (rs_segments st) segs chunkss ->
  om_paths_canonical (rs_om st) ->
  typed_objects_are_channels (rs_om st) ->
  rd_all b = Ok (expected_tokens st h (concat chunkss), true).
Proof.
  intros b segs st h chunkss Hp. apply parse_file_sound in Hp. destruct Hp as [<- Hwf].
  exact (read_correct segs st h chunkss Hwf).
Qed.

(* the metadata pass on the bytes is the state machine on the parsed syntax *)
Theorem rd_metadata_bytes : forall b segs w,
  parse_file b = Some segs -> rd_metadata b false (Some (blen b)) w = sm_run segs w.
Proof.
  intros b segs w Hp. apply parse_file_sound in Hp. destruct Hp as [<- Hwf].
  exact (rd_metadata_ser segs w Hwf).
Qed.

(* ---- C06 -------------------------------------------------------------------------------- *)

Theorem truncation_values_prefix_bytes : forall b segs st h chunkss k,
  parse_file b = Some segs ->
  sm_run segs false = Ok st ->
  build_hierarchy (rs_om st) = Ok h ->
  segs_encode (rs_segments st) segs chunkss ->
  om_paths_canonical (rs_om st) ->
  typed_objects_are_channels (rs_om st) ->
  4 <= k <= blen b ->
  exists stc hc chunks_c stp hp,
    rd_all (take k b) = Ok (expected_tokens stc hc chunks_c, true) /\
    sm_run (firstn (meta_count 0 segs k) segs) false = Ok stp /\
    build_hierarchy (rs_om stp) = Ok hp /\
    hier_sim hc hp /\
    (forall p, is_prefix (chan_values p chunks_c) (chan_values p (concat chunkss)) /\
               is_prefix (chan_values p (concat (firstn (whole_count 0 segs k) chunkss)))
                         (chan_values p chunks_c)) /\
    (forall c, In c (all_channels hc) ->
               ch_len c = Z.of_nat (length (chan_values (ch_path c) chunks_c))) /\
    exists rest, obs_status stc = TZ (if cut_in_data 0 segs k then 1 else 0) :: rest.
Proof.
  intros b segs st h chunkss k Hp. apply parse_file_sound in Hp. destruct Hp as [<- Hwf].
  exact (truncation_values_prefix segs st h chunkss k Hwf).
Qed.

(* ---- C15 -------------------------------------------------------------------------------- *)

(* the re-ordered stream is itself a well-formed stream (with the re-ordered
   syntax) and reads like b *)
Theorem endian_transparent_bytes : forall b segs st h chunkss es,
  parse_file b = Some segs ->
  length es = length segs ->
  sm_run segs false = Ok st ->
  build_hierarchy (rs_om st) = Ok h ->
  segs_encode (rs_segments st) segs chunkss ->
  om_paths_canonical (rs_om st) ->
  typed_objects_are_channels (rs_om st) ->
  parse_file (ser_file (reorder es segs chunkss)) = Some (reorder es segs chunkss) /\
  rd_all (ser_file (reorder es segs chunkss)) = rd_all b.
Proof.
  intros b segs st h chunkss es Hp Hlen Hrun Hh Henc Hcan Hty.
  apply parse_file_sound in Hp. destruct Hp as [<- Hwf]. split.
  - apply parse_file_complete. exact (reorder_wf segs st chunkss es Hlen Hwf Hrun Henc).
  - exact (endian_transparent segs st h chunkss es Hlen Hwf Hrun Hh Henc Hcan Hty).
Qed.

(* ---- C02 -------------------------------------------------------------------------------- *)

Theorem inheritance_transparent_read_bytes : forall b segs st h chunkss,
  parse_file b = Some segs ->
  sm_run segs false = Ok st ->
  build_hierarchy (rs_om st) = Ok h ->
  segs_encode (rs_segments st) segs chunkss ->
  om_paths_canonical (rs_om st) ->
  typed_objects_are_channels (rs_om st) ->
  Forall listed_once segs ->
  data_objects_typed st ->
  explicit_fits segs (object_lists st) ->
  parse_file (ser_file (explicit_of segs st)) = Some (explicit_of segs st) /\
  rd_all (ser_file (explicit_of segs st)) = Ok (expected_tokens st h (concat chunkss), true) /\
  rd_all b = Ok (expected_tokens st h (concat chunkss), true).
Proof.
  intros b segs st h chunkss Hp Hrun Hh Henc Hcan Hty Hl Hdt Hfit.
  apply parse_file_sound in Hp. destruct Hp as [<- Hwf]. split.
  - apply parse_file_complete. exact (wf_file_explicit segs false st Hwf Hrun Hfit).
  - exact (inheritance_transparent_read segs st h chunkss Hwf Hrun Hh Henc Hcan Hty Hl Hdt Hfit).
Qed.

(* ---- C03 / C04 ---------------------------------------------------------------------------- *)

Theorem lazy_is_window_of_eager_bytes : forall b segs st h chunkss c offs len,
  parse_file b = Some segs ->
  sm_run segs false = Ok st ->
  build_hierarchy (rs_om st) = Ok h ->
  segs_encode (rs_segments st) segs chunkss ->
  om_paths_canonical (rs_om st) ->
  Forall (fun g => NoDup (map so_path (sg_objs g))) (rs_segments st) ->
  In c (all_channels h) ->
  0 <= offs ->
  (match len with None => True | Some l => 0 <= l end) ->
  lz_read_bytes b (ch_path c) offs len =
  Ok (match len with
      | None => zskipn offs (chan_values (ch_path c) (concat chunkss))
      | Some l => zfirstn l (zskipn offs (chan_values (ch_path c) (concat chunkss)))
      end).
Proof.
  intros b segs st h chunkss c offs len Hp H2 H3 H4 H5 H6 H7 H8 H9.
  apply parse_file_sound in Hp. destruct Hp as [<- H1].
  exact (LazyEagerTop.lazy_is_window_of_eager segs st h chunkss H1 H2 H3 H4 H5 H6 c offs len H7 H8 H9).
Qed.

(* ---- C09 -------------------------------------------------------------------------------- *)

(* the index file that matches b: lead-ins (tag TDSh) and metadata of the parsed syntax *)
Theorem index_read_correct_bytes : forall b segs st h chunkss,
  parse_file b = Some segs ->
  sm_run segs false = Ok st ->
  build_hierarchy (rs_om st) = Ok h ->
  segs_encode (rs_segments st) segs chunkss ->
  om_paths_canonical (rs_om st) ->
  typed_objects_are_channels (rs_om st) ->
  rd_all_idx b (ser_index segs) = Ok (expected_tokens st h (concat chunkss), true).
Proof.
  intros b segs st h chunkss Hp. apply parse_file_sound in Hp. destruct Hp as [<- Hwf].
  exact (IndexCompose.index_read_correct segs st h chunkss Hwf).
Qed.

(* ---- concrete streams ----------------------------------------------------------------------- *)

Import String.
Local Open Scope string_scope.
Local Open Scope list_scope.

(* the bytes of ReadCorrect.rc_file, written out: 254 bytes, two segments
   (lengths 207 and 47), the second without metadata block *)
Definition rc_bytes : bytes := hex
  "5444536d0e00000069120000b3000000000000008d0000000000000004000000010000002fffffffff00000000040000002f276727ffffffff01000000010000006e20000000020000006869080000002f2767272f27612714000000030000000100000002000000000000000100000001000000700300000007000000080000002f2767272f2762271c000000200000000100000002000000000000000b0000000000000000000000010000000200000002000000030000006162630300000004000000000000000300000078797a5444536d08000000691200001300000000000000000000000000000005000000060000000100000003000000717273".

Example parse_rc_bytes : parse_file rc_bytes = Some rc_file.
Proof. vm_compute. reflexivity. Qed.

Example parse_ser_rc_file : parse_file (ser_file rc_file) = Some rc_file.
Proof. vm_compute. reflexivity. Qed.

(* hence every *_bytes theorem applies to the literal stream; e.g. the refinement *)
Example rc_bytes_read :
  rd_all rc_bytes = Ok (spec_tokens SpecRefineExamples.rc_content, true).
Proof.
  exact (reader_refines_spec_bytes rc_bytes rc_file _ parse_rc_bytes
           SpecRefineExamples.rc_ok SpecRefineExamples.rc_meaning).
Qed.

(* a big-endian segment with properties of several types, a string channel, a
   DAQmx index with a digital-line scaler, an unknown ToC bit and a negative
   version: the parser inverts the serialiser (computed) *)
Definition px_file : list fseg :=
  [ mkFseg (2 + 4 + 8 + 64 + 1024) (-3)
      (Some [ mkEntry (hex "2f") INoData
                [mkProp (hex "74") T_TIME (hex "000102030405060708090a0b0c0d0e0f");
                 mkProp (hex "62") T_BOOL (hex "07");
                 mkProp (hex "64") 10 (hex "182d4454fb210940")];
              mkEntry (hex "2f2767272f277327") (IFull 28 T_STRING 1 2 (Some 3)) [];
              mkEntry (hex "2f2767272f276127") (IFull 17 5 1 3 None) [];
              mkEntry (hex "2f2767272f276427")
                      (IDaqmx DIGITAL_LINE_SCALER T_DAQMX 1 2 [mkScaler 0 0 3 255 7] [1; 2]) [];
              mkEntry (hex "2f2767272f277027") IMatchPrev [] ])
      (hex "00000001000000036162630a0b0c");
    mkFseg 0 0 None [] ].

Example parse_px_file :
  wf_file px_file /\ parse_file (ser_file px_file) = Some px_file /\ blen (ser_file px_file) = 308.
Proof. vm_compute. repeat split; reflexivity. Qed.

(* the empty stream is the empty file (TdmsFile.read(path) agrees; given a STREAM the
   constructor sniffs the tag first and raises - not part of the reader model) *)
Example parse_empty_stream :
  parse_file [] = Some [] /\ rd_all [] = Ok ([TZ 0; TZ 0; TZ 0; TZ 0; TZ 0], true).
Proof. vm_compute. split; reflexivity. Qed.

(* --- rejected streams --- *)

(* one trailing garbage byte; 27 trailing bytes (the reader ignores both) *)
Example reject_trailing_byte :
  parse_file (rc_bytes ++ [x00]) = None /\
  parse_file (rc_bytes ++ take 27 rc_bytes) = None /\
  rd_all (rc_bytes ++ [x00]) = rd_all rc_bytes /\ is_ok (rd_all rc_bytes) = true.
Proof. vm_compute. repeat split; reflexivity. Qed.

(* a wrong tag: first segment / second segment ("TDSh" is the index-file tag) *)
Example reject_wrong_tag :
  parse_file (hex "5444536e" ++ drop 4 rc_bytes) = None /\
  parse_file (take 207 rc_bytes ++ hex "54445368" ++ drop 211 rc_bytes) = None /\
  rd_all (hex "5444536e" ++ drop 4 rc_bytes) = Err EValue.
Proof. vm_compute. repeat split; reflexivity. Qed.

(* the lead-in of segment 1 with other offsets *)
Definition rc_with_offsets (next raw : Z) (meta_and_data : bytes) : bytes :=
  take 12 rc_bytes ++ u_enc LE 8 next ++ u_enc LE 8 raw ++ meta_and_data ++ drop 207 rc_bytes.

Example rc_with_offsets_id : rc_with_offsets 179 141 (take 179 (drop 28 rc_bytes)) = rc_bytes.
Proof. vm_compute. reflexivity. Qed.

(* a metadata block shorter than declared.  (a) the raw data offset is one too
   large: the lexer stops one byte before the declared end of the block;
   (b) the same with a slack byte inserted, so that all offsets are consistent -
   the READER accepts (b) and shows the content of rc_bytes, the parser rejects
   it: (b) is not the serialisation of any syntax *)
Example reject_short_metadata :
  parse_file (rc_with_offsets 179 142 (take 179 (drop 28 rc_bytes))) = None /\
  let slack := rc_with_offsets 180 142 (take 141 (drop 28 rc_bytes) ++ [x00] ++ take 38 (drop 169 rc_bytes)) in
  parse_file slack = None /\ rd_all slack = rd_all rc_bytes.
Proof. vm_compute. repeat split; reflexivity. Qed.

(* a metadata block LONGER than declared (the raw data offset cuts the last
   object), a raw data offset beyond the next-segment offset, raw data missing *)
Example reject_inconsistent_offsets :
  parse_file (rc_with_offsets 179 140 (take 179 (drop 28 rc_bytes))) = None /\
  parse_file (rc_with_offsets 141 142 (take 179 (drop 28 rc_bytes))) = None /\
  parse_file (rc_with_offsets 180 141 (take 179 (drop 28 rc_bytes))) = None.
Proof. vm_compute. repeat split; reflexivity. Qed.

(* the "length unknown" marker in the last lead-in: the reader computes the
   length from the file size (C06); not the serialisation of a syntax *)
Example reject_next_unknown :
  let b := take 219 rc_bytes ++ hex "ffffffffffffffff" ++ drop 227 rc_bytes in
  parse_file b = None /\ is_ok (rd_all b) = true.
Proof. vm_compute. repeat split; reflexivity. Qed.

(* a string running past the end of the metadata block: one segment, root object
   with a string property "n" = "hi", last byte removed and both offsets reduced
   by one.  Tokens.parse_metadata returns the short string "h" (as
   types.String.read does); the strict parser rejects. *)
Definition short_string_stream : bytes :=
  let m := ser_metadata LE [mkEntry (hex "2f") INoData [mkProp (hex "6e") T_STRING (hex "6869")]] in
  let m' := take (blen m - 1) m in
  ser_leadin (mkLeadin TAG_DATA 2 4713 (blen m') (blen m')) ++ m'.

Example reject_short_string :
  parse_file short_string_stream = None /\
  parse_metadata LE (drop 28 short_string_stream) =
    Ok ([mkEntry (hex "2f") INoData [mkProp (hex "6e") T_STRING (hex "68")]], []) /\
  is_ok (rd_all short_string_stream) = true.
Proof. vm_compute. repeat split; reflexivity. Qed.

(* the metadata flag clear but a raw data offset <> 0 *)
Example reject_raw_offset_without_metadata :
  let b := take 207 rc_bytes ++ take 12 (drop 207 rc_bytes) ++ u_enc LE 8 19 ++ u_enc LE 8 4 ++ drop 235 rc_bytes in
  parse_file b = None /\ is_ok (rd_all b) = true.
Proof. vm_compute. repeat split; reflexivity. Qed.

(* --- cuts of rc_bytes: exactly the three boundaries 0, 207, 254 parse --- *)

Fixpoint zrange (n : nat) (from : Z) : list Z :=
  match n with O => [] | S n' => from :: zrange n' (from + 1) end.

Example rc_bytes_cuts :
  filter (fun k => match parse_file (take k rc_bytes) with Some _ => true | None => false end)
         (zrange 255 0) = [0; 207; 254]%Z /\
  parse_file (take 0 rc_bytes) = Some [] /\
  parse_file (take 207 rc_bytes) = Some (firstn 1 rc_file) /\
  map (cut_boundary rc_file) [0; 27; 28; 206; 207; 208; 253; 254; 255]%Z =
    [Some 0; None; None; None; Some 1; None; None; Some 2; None]%nat.
Proof. vm_compute. repeat split; reflexivity. Qed.
