(* The dtype logic TRANSLATED from nptdms/scaling.py and nptdms/tdms.py (Gen/PyFuncsDtype.v, regenerated from the
   source on every run) equals the hand-written Model/ScaleDtype.v:
     _double_precision_dtype                  = double_precision_dtype
     MultiScaling._compute_scale_dtype        = declared_src true   (one call = one unfolding; all graphs, every
                                                exception class, whenever the model does not run out of fuel)
     MultiScaling.get_dtype                   = declared true
     TdmsChannel._raw_data_dtype              = raw_data_dtype true
     TdmsChannel.dtype                        = chan_dtype true
     TdmsChannel._scale_data / data / read_data / ChannelDataChunk._data / _read_slice (Gen/PySlice_gen.v):
         the dtype of the object handed back  = read_dtype true
   An object of the translation is mapped to the model's scaling by GenScaleEvalEquiv.forget; a TDMS type class
   (its enum value, or None) to the model's rawkind by [kind_of_type]; scaler_data_types to the model's
   association list by [scalers_of]. *)
From Coq Require Import String.
From Coq Require Import ZArith List Bool Lia PrimFloat.
Import ListNotations.
From NpTdms Require Import Base.Res Base.PySlice Gen.NumpyPromote Gen.ThermoTables Gen.PyFuncsScaling Gen.PyFuncsScaleEval
     Gen.PyFuncsDtype Gen.PySlice_gen.
From NpTdms Require Import Proofs.GenScalingEquiv Proofs.ScaleProofs Proofs.GenScaleEvalEquiv Proofs.DtypeProofs.
From NpTdms Require Model.ScaleGraph.
From NpTdms Require Import Model.ScaleDtype.
Local Open Scope Z_scope.
Local Open Scope list_scope.

(* exception classes of the model as those of the translation (EFuel stays EFuel) *)
Definition dt_lift_err (e : SG.err) : err :=
  match e with
  | SG.EKey => EKey | SG.EIndex => EIndex | SG.EValue => EValue | SG.EType => EType | SG.EFuel => EFuel
  | _ => EOther
  end.
Definition dt_lift {A} (r : SG.res A) : res A :=
  match r with SG.Ok a => Ok a | SG.Err e => Err (dt_lift_err e) end.

Lemma dt_lift_fuel {A} (r : SG.res A) : dt_lift r = Err EFuel -> r = SG.Err SG.EFuel.
Proof. destruct r as [a|[]]; cbn; intros H; try discriminate H; reflexivity. Qed.

(* ---- primitives ---------------------------------------------------------------------------------------------- *)

Theorem double_precision_eq x : double_precision_xdt_gen x = Ok (double_precision_dtype x).
Proof.
  unfold double_precision_xdt_gen, double_precision_dtype, xdt_is_complexfloating.
  destruct x; try reflexivity. destruct (is_complexfloating d); reflexivity.
Qed.

Theorem result_type_eq a b : np_result_type a b = dt_lift (xresult_type a b).
Proof. destruct a, b; reflexivity. Qed.

Lemma tds_nptype_cases v : (exists d, tds_nptype v = XNum d) \/ tds_nptype v = XNone.
Proof.
  unfold tds_nptype.
  repeat match goal with |- context [if ?c then _ else _] => destruct c; [left; eexists; reflexivity|] end.
  right. reflexivity.
Qed.

(* ---- the TDMS type of a channel and its scaler types ------------------------------------------------------- *)

(* data_type: None, or the enum value of a class of nptdms.types *)
Definition kind_of_type (t : option Z) : rawkind :=
  match t with
  | None => RUntyped
  | Some v => if v =? 32 then RString else if v =? 68 then RTimestamp
              else match tds_nptype v with XNum d => RNum d | _ => RDaqmx end
  end.

Theorem raw_data_dtype_eq t ts :
  TdmsChannel_raw_data_dtype_gen t ts = Ok (raw_data_dtype true (kind_of_type t) ts).
Proof.
  unfold TdmsChannel_raw_data_dtype_gen, kind_of_type. destruct t as [v|]; [|reflexivity].
  destruct (v =? 32); [reflexivity|]. destruct (v =? 68); [destruct ts; reflexivity|].
  destruct (tds_nptype_cases v) as [[d Hd]|Hn].
  - rewrite Hd. cbn. rewrite Hd. reflexivity.
  - rewrite Hn. reflexivity.
Qed.

Definition numdt (x : xdt) : dtype := match x with XNum d => d | _ => Float64 end.
Definition scaler_abs (sd : list (Z * Z)) : list (nat * dtype) :=
  map (fun kv => (Z.to_nat (fst kv), numdt (tds_nptype (snd kv)))) sd.
Definition scalers_of (osd : option (list (Z * Z))) : list (nat * dtype) :=
  match osd with Some sd => scaler_abs sd | None => [] end.
(* scale ids are natural numbers and scaler types are numeric (nptdms.daqmx.DAQMX_TYPES) *)
Definition scalers_ok (sd : list (Z * Z)) : Prop :=
  Forall (fun kv => 0 <= fst kv /\ exists d, tds_nptype (snd kv) = XNum d) sd.

Lemma scaler_lookup sd k : scalers_ok sd -> 0 <= k ->
  match py_zdict_get sd k with Some t => Some (tds_nptype t) | None => None end
  = option_map XNum (SG.assoc_nat (Z.to_nat k) (scaler_abs sd)).
Proof.
  intros Hok Hk. induction sd as [|[k' t] r IH]; [reflexivity|].
  inversion Hok as [|x l [Hk' [d Hd]] Hr]; subst. cbn [fst snd] in *.
  cbn [py_zdict_get scaler_abs map SG.assoc_nat fst snd]. fold (scaler_abs r).
  destruct (k =? k') eqn:E.
  - apply Z.eqb_eq in E. subst k'. rewrite Nat.eqb_refl. rewrite Hd. reflexivity.
  - apply Z.eqb_neq in E. replace (Nat.eqb (Z.to_nat k) (Z.to_nat k')) with false
      by (symmetry; apply Nat.eqb_neq; lia).
    apply IH. exact Hr.
Qed.

(* ---- one call of _compute_scale_dtype = one unfolding of declared_src ------------------------------------ *)

Section Step.
Variable objs : list scaling_py.
Variable k : rawkind.
Variable ts : bool.
Variable osd : option (list (Z * Z)).
Hypothesis Hids : Forall id_ok objs.
Hypothesis Hsd : match osd with
                 | Some sd => scalers_ok sd
                 | None => Forall (fun o => is_DaqMxScalerScaling o = false) objs   (* None[..]: TypeError *)
                 end.
Let g := map forget objs.
Let raw : xdt + Z := inl (raw_data_dtype true k ts).
Let scal := scalers_of osd.

Definition decl_node (recm : SG.src -> SG.res xdt) (sc : SG.scaling) : SG.res xdt :=
  match sc with
  | SG.DaqmxScaler id => match SG.assoc_nat id scal with None => SG.Err SG.EKey | Some d => SG.Ok (XNum d) end
  | SG.Add l r | SG.Subtract l r => SG.bind (recm l) (fun a => SG.bind (recm r) (fun b => xresult_type a b))
  | SG.NoOp s' => recm s'
  | SG.Linear _ _ s' => SG.bind (recm s') (fun d => SG.Ok (double_precision_dtype d))
  | SG.Polynomial _ _ | SG.Table _ _ _ | SG.Sensor _ _ => SG.Ok (XNum Float64)
  end.
Definition decl_body (recm : SG.src -> SG.res xdt) (s : SG.src) : SG.res xdt :=
  match s with
  | SG.Raw => declared_raw true k ts
  | SG.Idx z => match SG.py_index g z with None => SG.Err SG.EIndex | Some sc => decl_node recm sc end
  end.

Lemma declared_src_S f s :
  declared_src true (S f) g k ts scal s = decl_body (declared_src true f g k ts scal) s.
Proof.
  destruct s as [|z]; [reflexivity|]. cbn [declared_src decl_body].
  destruct (SG.py_index g z) as [[]|]; reflexivity.
Qed.

Lemma declared_src_raw f : declared_src true f g k ts scal SG.Raw = SG.Ok (raw_data_dtype true k ts).
Proof. destruct f; reflexivity. Qed.

Ltac child Hrec Hne :=
  match goal with
  | |- context [SG.bind (?recm ?s) _] =>
      let r := fresh "r" in let E := fresh "E" in
      destruct (recm s) as [r|r] eqn:E;
      [ rewrite (Hrec _ _ eq_refl E) || idtac
      | idtac ]
  end.

Theorem compute_step rec recm z :
  z <> 4294967295 ->
  (forall o, SG.py_index objs z = Some o -> forall zc, In zc (srcs o) ->
     recm (SG.src_of_int zc) <> SG.Err SG.EFuel -> rec zc raw osd = dt_lift (recm (SG.src_of_int zc))) ->
  decl_body recm (SG.Idx z) <> SG.Err SG.EFuel ->
  compute_scale_dtype_gen rec (map Some objs) z raw osd = dt_lift (decl_body recm (SG.Idx z)).
Proof.
  intros Hz Hrec Hne. unfold compute_scale_dtype_gen.
  replace (z =? 4294967295) with false by (symmetry; apply Z.eqb_neq; exact Hz).
  cbn [decl_body] in *. unfold g in *. rewrite index_objs. rewrite index_forget in *.
  destruct (SG.py_index objs z) as [o|] eqn:Ho; cbn [bind option_map dt_lift dt_lift_err] in *; [|reflexivity].
  assert (Hin : In o objs).
  { unfold SG.py_index in Ho. destruct (0 <=? z); [eapply nth_error_In; exact Ho|].
    destruct (0 <=? _); [eapply nth_error_In; exact Ho|discriminate Ho]. }
  pose proof (proj1 (Forall_forall _ _) Hids o Hin) as Hid.
  specialize (Hrec o eq_refl).
  destruct o; cbn [is_DaqMxScalerScaling is_AddScaling is_SubtractScaling is_LinearScaling is_NoOpScaling
                     get_input_source get_left_input_source get_right_input_source get_scale_id
                     is_none negb andb orb need bind forget decl_node srcs id_ok In] in *.
  - (* NoOp *)
    rewrite (Hrec _ (or_introl eq_refl) Hne). destruct (recm _); reflexivity.
  - (* Linear *)
    destruct (recm (SG.src_of_int input_source)) as [d|e] eqn:E.
    + rewrite (Hrec _ (or_introl eq_refl)) by (rewrite E; discriminate). rewrite E. cbn [dt_lift bind SG.bind].
      rewrite double_precision_eq. reflexivity.
    + rewrite (Hrec _ (or_introl eq_refl)) by (rewrite E; cbn [SG.bind] in Hne; exact Hne). rewrite E. reflexivity.
  - reflexivity.
  - reflexivity.
  - reflexivity.
  - reflexivity.
  - reflexivity.
  - reflexivity.
  - (* Add *)
    destruct (recm (SG.src_of_int left_input_source)) as [a|e] eqn:E.
    + rewrite (Hrec _ (or_introl eq_refl)) by (rewrite E; discriminate). rewrite E. cbn [dt_lift bind SG.bind] in *.
      destruct (recm (SG.src_of_int right_input_source)) as [b|e] eqn:E2.
      * rewrite (Hrec _ (or_intror (or_introl eq_refl))) by (rewrite E2; discriminate). rewrite E2.
        cbn [dt_lift bind SG.bind]. rewrite result_type_eq. destruct (xresult_type a b); reflexivity.
      * rewrite (Hrec _ (or_intror (or_introl eq_refl))) by (rewrite E2; exact Hne). rewrite E2. reflexivity.
    + rewrite (Hrec _ (or_introl eq_refl)) by (rewrite E; cbn [SG.bind] in Hne; exact Hne). rewrite E. reflexivity.
  - (* Subtract *)
    destruct (recm (SG.src_of_int left_input_source)) as [a|e] eqn:E.
    + rewrite (Hrec _ (or_introl eq_refl)) by (rewrite E; discriminate). rewrite E. cbn [dt_lift bind SG.bind] in *.
      destruct (recm (SG.src_of_int right_input_source)) as [b|e] eqn:E2.
      * rewrite (Hrec _ (or_intror (or_introl eq_refl))) by (rewrite E2; discriminate). rewrite E2.
        cbn [dt_lift bind SG.bind]. rewrite result_type_eq. destruct (xresult_type a b); reflexivity.
      * rewrite (Hrec _ (or_intror (or_introl eq_refl))) by (rewrite E2; exact Hne). rewrite E2. reflexivity.
    + rewrite (Hrec _ (or_introl eq_refl)) by (rewrite E; cbn [SG.bind] in Hne; exact Hne). rewrite E. reflexivity.
  - (* DAQmx scaler *)
    unfold scal, scalers_of. destruct osd as [sd|].
    + cbn [need bind]. pose proof (scaler_lookup sd scale_id Hsd Hid) as L.
      destruct (py_zdict_get sd scale_id) as [t|]; destruct (SG.assoc_nat _ _) as [d|]; cbn in L; try discriminate L.
      * injection L as L. cbn [need bind dt_lift]. rewrite L. reflexivity.
      * reflexivity.
    + exfalso. pose proof (proj1 (Forall_forall _ _) Hsd _ Hin) as Hf. discriminate Hf.
Qed.

Theorem compute_raw rec :
  compute_scale_dtype_gen rec (map Some objs) 4294967295 raw osd = Ok (raw_data_dtype true k ts).
Proof. reflexivity. Qed.

(* a TDMS type class in place of the dtype: its nptype (None when it has none) *)
Theorem compute_raw_type rec t :
  compute_scale_dtype_gen rec (map Some objs) 4294967295 (inr t) osd = Ok (tds_nptype t).
Proof. reflexivity. Qed.

Lemma fuel_unfold n z :
  compute_scale_dtype_fuel n (map Some objs) z raw osd
  = compute_scale_dtype_gen
      (fun z' r' s' => match n with O => Err EFuel | S f => compute_scale_dtype_fuel f (map Some objs) z' r' s' end)
      (map Some objs) z raw osd.
Proof. destruct n; reflexivity. Qed.

(* an index is never the constant RAW_DATA_INPUT_SOURCE (the code would read it as "the raw data") *)
Definition src_norm (s : SG.src) : Prop := match s with SG.Idx z => z <> 4294967295 | SG.Raw => True end.
Lemma src_of_int_norm z : src_norm (SG.src_of_int z).
Proof.
  unfold SG.src_of_int, SG.RAW_DATA_INPUT_SOURCE. destruct (z =? 4294967295) eqn:E; cbn; [exact I|].
  apply Z.eqb_neq in E. exact E.
Qed.

(* all graphs (no acyclicity): whenever the model's bounded recursion does not run out of fuel, the translated
   recursion with at least that much fuel gives the same dtype or the same exception class *)
Theorem compute_fuel_eq : forall m s n,
  src_norm s -> declared_src true m g k ts scal s <> SG.Err SG.EFuel -> (m <= n)%nat ->
  compute_scale_dtype_fuel n (map Some objs) (int_of_src s) raw osd
  = dt_lift (declared_src true m g k ts scal s).
Proof.
  induction m as [|m IH]; intros s n Hs Hne Hn.
  - destruct s as [|z]; [|cbn in Hne; contradiction Hne; reflexivity].
    rewrite fuel_unfold. reflexivity.
  - destruct s as [|z]; [rewrite fuel_unfold, declared_src_raw; reflexivity|].
    destruct n as [|n]; [lia|].
    rewrite declared_src_S in *. rewrite fuel_unfold. cbn [int_of_src]. cbn in Hs.
    apply compute_step; [exact Hs| |exact Hne].
    intros o Ho zc Hzc Hc. rewrite <- (int_of_src_of_int zc) at 1.
    apply IH; [apply src_of_int_norm|exact Hc|lia].
Qed.

(* MultiScaling.get_dtype = declared *)
Theorem get_dtype_eq :
  Z.of_nat (length objs) <= 4294967295 ->
  declared true g k ts scal <> SG.Err SG.EFuel ->
  MultiScaling_get_dtype_top (map Some objs) raw osd = dt_lift (declared true g k ts scal).
Proof.
  intros Hlen Hne. unfold MultiScaling_get_dtype_top, MultiScaling_get_dtype_fuel, MultiScaling_get_dtype_gen.
  cbv zeta. rewrite !map_length. unfold declared, SG.final_src in *.
  assert (Hl : length g = length objs) by (unfold g; apply map_length). rewrite Hl in *.
  pose proof (compute_fuel_eq (S (length objs)) (SG.Idx (Z.of_nat (length objs) - 1)) (S (length objs))) as H.
  cbn [int_of_src] in H. rewrite H; [|cbn; lia|exact Hne|lia].
  destruct (declared_src _ _ _ _ _ _ _); reflexivity.
Qed.
End Step.

(* ---- TdmsChannel.dtype = chan_dtype ------------------------------------------------------------------------ *)

(* the channel the model sees: scaling objects forgotten to the model's graph *)
Definition chan_of (sc : option (list scaling_py)) (t : option Z) (ts : bool) (osd : option (list (Z * Z))) : chan :=
  {| ckind := kind_of_type t; craw_ts := ts; cscaling := option_map (map forget) sc; cscalers := scalers_of osd |}.

Definition chan_ok (sc : option (list scaling_py)) (osd : option (list (Z * Z))) : Prop :=
  match sc with
  | None => True
  | Some objs =>
      Forall id_ok objs /\ Z.of_nat (length objs) <= 4294967295 /\
      match osd with
      | Some sd => scalers_ok sd
      | None => Forall (fun o => is_DaqMxScalerScaling o = false) objs
      end
  end.

Theorem channel_dtype_eq sc t ts osd :
  chan_ok sc osd -> chan_dtype true (chan_of sc t ts osd) <> SG.Err SG.EFuel ->
  TdmsChannel_dtype_gen (option_map (map Some) sc) t ts osd = dt_lift (chan_dtype true (chan_of sc t ts osd)).
Proof.
  intros Hok Hne. unfold TdmsChannel_dtype_gen, chan_dtype, chan_of in *. cbv zeta.
  cbn [cscaling ckind craw_ts cscalers option_map] in *.
  destruct sc as [objs|]; cbn [option_map] in *; rewrite raw_data_dtype_eq; cbn [bind]; [|reflexivity].
  destruct Hok as (Hids & Hlen & Hsd).
  rewrite (get_dtype_eq objs (kind_of_type t) ts osd Hids Hsd Hlen Hne).
  destruct (declared _ _ _ _ _); reflexivity.
Qed.

Theorem channel_len_eq n : TdmsChannel_len_gen n = Ok n.
Proof. reflexivity. Qed.

(* ---- the read methods: the dtype of what they hand back = read_dtype ------------------------------------- *)

(* dtype of the object a read method returned *)
Definition pyres_dtype (c : chan) (r : pyres) : SG.res xdt :=
  match r with
  | PyEmpty d => SG.Ok d
  | PyScaled => match cscaling c with
                | Some g => actual true g (ckind c) (craw_ts c) (cscalers c)
                | None => SG.Err SG.EUnmodelled
                end
  | PyRawData => returned_raw_dtype (ckind c) (craw_ts c)
  | PyScalerDict | PyNoneVal => SG.Err SG.EUnmodelled      (* not an array *)
  end.

(* raw data of a channel of kind k as the receivers build it: DAQmx raw data has no .data and a filled scaler
   dictionary, every other typed channel has .data and no scaler data *)
Definition absraw_of_kind (k : rawkind) (ar : absraw) : Prop :=
  match k with
  | RDaqmx => ar_has_data ar = false /\ scd_truthy (ar_scalers ar) = true
  | RUntyped => False
  | _ => ar_has_data ar = true /\ scd_truthy (ar_scalers ar) = false
  end.
(* what a read of a channel's raw data returns: None exactly for a channel without a data type *)
Definition rawread_ok (c : chan) (rd : option absraw) : Prop :=
  match rd with
  | Some ar => has_receiver c = true /\ absraw_of_kind (ckind c) ar
  | None => has_receiver c = false
  end.

Definition then_dtype (c : chan) (r : res pyres) : res xdt := do x <- r; dt_lift (pyres_dtype c x).

Lemma scale_data_dtype sc t ts osd ar :
  let c := chan_of sc t ts osd in
  has_receiver c = true -> absraw_of_kind (ckind c) ar ->
  then_dtype c (TdmsChannel_scale_data_gen (option_map (map Some) sc) ar) = dt_lift (scaled_dtype true c).
Proof.
  intros c Hr Hk. unfold then_dtype, TdmsChannel_scale_data_gen, scaled_dtype, c, chan_of in *. cbv zeta.
  cbn [cscaling ckind craw_ts cscalers] in *.
  destruct sc as [objs|]; cbn [option_map bind pyres_dtype cscaling ckind craw_ts cscalers]; [reflexivity|].
  unfold has_receiver in Hr. cbn [ckind] in Hr.
  destruct (kind_of_type t); cbn [absraw_of_kind] in Hk; try discriminate Hr; try contradiction Hk;
    destruct Hk as [H1 H2]; rewrite H2; cbn [bind]; try rewrite H1; reflexivity.
Qed.

(* TdmsChannel.data (eager mode): data was read for every channel that has a type *)
Theorem data_dtype_eq sc t ts osd n raw :
  let c := chan_of sc t ts osd in
  chan_ok sc osd -> chan_dtype true c <> SG.Err SG.EFuel -> rawread_ok c raw ->
  (raw = None -> n <= 0) ->          (* otherwise: RuntimeError("Channel data has not been read") *)
  then_dtype c (TdmsChannel_data_gen n raw (option_map (map Some) sc) t ts osd) = dt_lift (read_dtype true c OpData).
Proof.
  intros c Hok Hne Hraw Hn. unfold TdmsChannel_data_gen, TdmsChannel_len_gen. cbn [bind].
  unfold read_dtype. destruct raw as [ar|]; cbn [rawread_ok is_none] in *.
  - destruct Hraw as [Hr Hk]. rewrite Hr. rewrite andb_false_r.
    change (then_dtype c (do t4__ <- TdmsChannel_scale_data_gen (option_map (map Some) sc) ar; Ok t4__)
            = dt_lift (scaled_dtype true c)).
    pose proof (scale_data_dtype sc t ts osd ar Hr Hk) as L. cbv zeta in L. fold c in L. rewrite <- L. unfold then_dtype.
    destruct (TdmsChannel_scale_data_gen _ _); reflexivity.
  - rewrite Hraw. specialize (Hn eq_refl). replace (n >? 0) with false by (symmetry; rewrite Z.gtb_ltb; apply Z.ltb_ge; lia).
    cbn [andb]. unfold then_dtype. rewrite (channel_dtype_eq sc t ts osd Hok Hne). fold c.
    destruct (chan_dtype true c); reflexivity.
Qed.

(* TdmsChannel.read_data(offset, length, scaled=True), eager or lazy, any window: [got] is what
   self._read_channel_data returned, slice_raw_data hands back raw data of the same shape *)
Theorem read_data_dtype_eq sc t ts osd raw rcd srd offset length got :
  let c := chan_of sc t ts osd in
  chan_ok sc osd -> chan_dtype true c <> SG.Err SG.EFuel ->
  match raw with
  | Some ar => rawread_ok c (Some ar) /\ exists ar', srd ar offset length = Ok ar' /\ absraw_of_kind (ckind c) ar'
  | None => rcd offset length = Ok got /\ rawread_ok c got
  end ->
  then_dtype c (TdmsChannel_read_data_gen raw (option_map (map Some) sc) t ts osd rcd srd offset length true)
  = dt_lift (read_dtype true c OpReadData).
Proof.
  intros c Hok Hne H. unfold TdmsChannel_read_data_gen, read_dtype.
  assert (Hmain : forall rd, rawread_ok c rd ->
     then_dtype c (match rd with
                   | None => do dtype <- (do t3__ <- TdmsChannel_dtype_gen (option_map (map Some) sc) t ts osd; Ok t3__);
                             Ok (PyEmpty dtype)
                   | Some raw_data => do t6__ <- TdmsChannel_scale_data_gen (option_map (map Some) sc) raw_data; Ok t6__
                   end)
     = dt_lift (if has_receiver c then scaled_dtype true c else chan_dtype true c)).
  { intros [ar|] Hrd; cbn [rawread_ok] in Hrd.
    - destruct Hrd as [Hr Hk]. rewrite Hr. pose proof (scale_data_dtype sc t ts osd ar Hr Hk) as L. cbv zeta in L.
      fold c in L. rewrite <- L. unfold then_dtype.
      destruct (TdmsChannel_scale_data_gen _ _); reflexivity.
    - rewrite Hrd. unfold then_dtype. rewrite (channel_dtype_eq sc t ts osd Hok Hne). fold c.
      destruct (chan_dtype true c); reflexivity. }
  destruct raw as [ar|].
  - destruct H as [[Hr _] (ar' & Hs & Hk')]. rewrite Hs. cbn [bind]. apply (Hmain (Some ar')). split; assumption.
  - destruct H as [Hg Hrd]. rewrite Hg. cbn [bind]. apply (Hmain got Hrd).
Qed.

(* read_data(.., scaled=False) of a channel without data: np.empty((0,), dtype=self._raw_data_dtype()) *)
Theorem read_data_unscaled_empty sc t ts osd rcd srd offset length :
  rcd offset length = Ok None ->
  TdmsChannel_read_data_gen None sc t ts osd rcd srd offset length false
  = Ok (PyEmpty (raw_data_dtype true (kind_of_type t) ts)).
Proof. intros H. unfold TdmsChannel_read_data_gen. rewrite H. cbn [bind]. rewrite raw_data_dtype_eq. reflexivity. Qed.

(* ChannelDataChunk._data(): a chunk that holds data for the channel, or none at all *)
Theorem chunk_data_dtype_eq sc t ts osd ar (has : bool) :
  let c := chan_of sc t ts osd in
  chan_ok sc osd -> chan_dtype true c <> SG.Err SG.EFuel ->
  (if has then has_receiver c = true /\ absraw_of_kind (ckind c) ar
   else ar_has_data ar = false /\ ar_scalers ar = None) ->
  then_dtype c (ChannelDataChunk_data_gen ar (option_map (map Some) sc) t ts osd) = dt_lift (read_dtype true c (OpChunk has)).
Proof.
  intros c Hok Hne H. unfold ChannelDataChunk_data_gen, read_dtype. destruct has.
  - destruct H as [Hr Hk].
    assert (Hnon : negb (ar_has_data ar) && is_none (ar_scalers ar) = false).
    { unfold c, chan_of, has_receiver in Hr, Hk. cbn [ckind] in Hr, Hk.
      destruct (kind_of_type t); cbn [absraw_of_kind] in Hk; try discriminate Hr; try contradiction Hk;
        destruct Hk as [H1 H2]; try (rewrite H1; reflexivity).
      destruct (ar_scalers ar); [apply andb_false_r|discriminate H2]. }
    rewrite Hnon. cbv zeta.
    change (then_dtype c (TdmsChannel_scale_data_gen (option_map (map Some) sc) ar) = dt_lift (scaled_dtype true c)).
    exact (scale_data_dtype sc t ts osd ar Hr Hk).
  - destruct H as [H1 H2]. rewrite H1, H2. cbn [negb is_none andb]. unfold then_dtype.
    rewrite (channel_dtype_eq sc t ts osd Hok Hne). fold c. destruct (chan_dtype true c); reflexivity.
Qed.

(* TdmsChannel._read_slice (Gen/PySlice_gen.v): the translator gen_pyfuncs_slice.py emits PEmpty for exactly
   np.empty((0,), dtype=self.dtype) and PRead a b _ for self.read_data(a, b) (any other call fails closed) *)
Definition plan_dtype (c : chan) (p : plan) : SG.res xdt :=
  match p with
  | PEmpty => chan_dtype true c
  | PRead _ _ _ => read_dtype true c OpReadData
  end.
Definition plan_op (p : plan) : read_op := match p with PEmpty => OpSliceEmpty | PRead _ _ _ => OpSliceRead end.

Theorem read_slice_dtype_eq c len start stop step p :
  read_slice_gen len start stop step = Ok p -> plan_dtype c p = read_dtype true c (plan_op p).
Proof. intros _. destruct p; reflexivity. Qed.

(* ---- Props/C14.v on the translated functions ------------------------------------------------------------- *)

(* whenever the scalings produce an array at all, its dtype is what the TRANSLATED get_dtype answers *)
Theorem dtype_agrees_gen objs k ts osd d :
  Forall id_ok objs -> Z.of_nat (length objs) <= 4294967295 ->
  match osd with Some sd => scalers_ok sd | None => Forall (fun o => is_DaqMxScalerScaling o = false) objs end ->
  actual true (map forget objs) k ts (scalers_of osd) = SG.Ok d -> d <> XTimedelta64 ->
  MultiScaling_get_dtype_top (map Some objs) (inl (raw_data_dtype true k ts)) osd = Ok d.
Proof.
  intros Hids Hlen Hsd Ha Hd. pose proof (dtype_agrees_proof _ _ _ _ _ Ha Hd) as Hdecl.
  rewrite (get_dtype_eq objs k ts osd Hids Hsd Hlen); rewrite Hdecl; [reflexivity|discriminate].
Qed.

(* every read operation of the model returns what the TRANSLATED TdmsChannel.dtype answers *)
Theorem reads_have_channel_dtype_gen sc t ts osd op d :
  let c := chan_of sc t ts osd in
  chan_ok sc osd -> read_dtype true c op = SG.Ok d -> d <> XTimedelta64 ->
  TdmsChannel_dtype_gen (option_map (map Some) sc) t ts osd = Ok d.
Proof.
  intros c Hok Hr Hd. pose proof (reads_have_channel_dtype_proof _ _ _ Hr Hd) as Hc.
  rewrite (channel_dtype_eq sc t ts osd Hok); fold c; rewrite Hc; [reflexivity|discriminate].
Qed.

(* end to end on translated code: the array the TRANSLATED MultiScaling.scale returns (structural scalings,
   acyclic definition) has the dtype the TRANSLATED get_dtype answers *)
Theorem scaled_array_has_declared_dtype sens objs raw ts osd fuel v :
  Forall id_ok objs -> Forall structural objs -> SG.wf_graph (map forget objs) ->
  Z.of_nat (length objs) <= 4294967295 -> (length objs <= fuel)%nat ->
  match osd with Some sd => scalers_ok sd | None => Forall (fun o => is_DaqMxScalerScaling o = false) objs end ->
  scalers_of osd = scaler_dtypes raw ->
  MultiScaling_scale_fuel sens fuel (map Some objs) raw = Ok v ->
  MultiScaling_get_dtype_top (map Some objs) (inl (raw_data_dtype true (kind_of_raw raw) ts)) osd
  = Ok (XNum (SG.dtype_of v)).
Proof.
  intros Hids Hstr Hwf Hlen Hf Hsd Hsc Hv.
  rewrite (scale_fuel_eq sens objs raw Hids Hstr Hwf Hlen fuel Hf) in Hv. apply sg_lift_ok in Hv.
  pose proof (eval_dtype_proof _ _ ts _ Hv) as Ha. rewrite <- Hsc in Ha.
  apply dtype_agrees_gen; try assumption. discriminate.
Qed.

(* empty results and non-empty ones: whatever two translated read methods hand back carries one dtype *)
Theorem empty_results_same_dtype_gen : forall sc t ts osd n raw ar (has : bool) d1 d2,
  let c := chan_of sc t ts osd in
  chan_ok sc osd -> chan_dtype true c <> SG.Err SG.EFuel -> rawread_ok c raw -> (raw = None -> n <= 0) ->
  (if has then has_receiver c = true /\ absraw_of_kind (ckind c) ar
   else ar_has_data ar = false /\ ar_scalers ar = None) ->
  then_dtype c (TdmsChannel_data_gen n raw (option_map (map Some) sc) t ts osd) = Ok d1 ->
  then_dtype c (ChannelDataChunk_data_gen ar (option_map (map Some) sc) t ts osd) = Ok d2 ->
  d1 <> XTimedelta64 -> d2 <> XTimedelta64 -> d1 = d2.
Proof.
  intros sc t ts osd n raw ar has d1 d2 c Hok Hne Hraw Hn Hch H1 H2 N1 N2. subst c.
  pose proof (data_dtype_eq sc t ts osd n raw Hok Hne Hraw Hn) as L1. cbv zeta in L1. rewrite L1 in H1.
  pose proof (chunk_data_dtype_eq sc t ts osd ar has Hok Hne Hch) as L2. cbv zeta in L2. rewrite L2 in H2.
  destruct (read_dtype true _ OpData) as [x1|e1] eqn:E1; [|discriminate H1].
  destruct (read_dtype true _ (OpChunk has)) as [x2|e2] eqn:E2; [|discriminate H2].
  injection H1 as <-. injection H2 as <-.
  exact (empty_results_same_dtype_proof _ _ _ _ _ E1 E2 N1 N2).
Qed.
