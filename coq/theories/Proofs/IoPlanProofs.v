(* Proofs about Model/IoPlan.v (property C05). *)
From Coq Require Import List ZArith Bool Arith Lia ZifyBool.
Import ListNotations.
From NpTdms Require Import Model.IoPlan.
Local Open Scope Z_scope.
Ltac Zify.zify_post_hook ::= Z.to_euclidean_division_equations.

(* ---- association lists -------------------------------------------------- *)

Section Assoc.
  Context {A B : Type} (eqb : A -> A -> bool).
  Hypothesis eqb_spec : forall a b, eqb a b = true <-> a = b.

  Lemma eqb_refl' : forall a, eqb a a = true.
  Proof. intro a. apply eqb_spec. reflexivity. Qed.

  Lemma eqb_neq : forall a b, a <> b -> eqb a b = false.
  Proof.
    intros a b Hn. destruct (eqb a b) eqn:E; [|reflexivity].
    apply eqb_spec in E. contradiction.
  Qed.

  Lemma assoc_del_other : forall (l : list (A * B)) k k', k <> k' ->
      assoc eqb k (assoc_del eqb k' l) = assoc eqb k l.
  Proof.
    induction l as [|[a b] l IH]; intros k k' Hn; simpl; [reflexivity|].
    destruct (eqb k' a) eqn:E1.
    - apply eqb_spec in E1. subst a. rewrite (eqb_neq k k' Hn). apply IH. exact Hn.
    - simpl. destruct (eqb k a); [reflexivity|]. apply IH. exact Hn.
  Qed.

  Lemma assoc_set_same : forall (l : list (A * B)) k v, assoc eqb k (assoc_set eqb k v l) = Some v.
  Proof. intros. unfold assoc_set. simpl. rewrite eqb_refl'. reflexivity. Qed.

  Lemma assoc_set_other : forall (l : list (A * B)) k k' v, k <> k' ->
      assoc eqb k (assoc_set eqb k' v l) = assoc eqb k l.
  Proof.
    intros. unfold assoc_set. simpl. rewrite (eqb_neq k k' H). apply assoc_del_other. exact H.
  Qed.
End Assoc.

Lemma zeqb_spec : forall a b, Z.eqb a b = true <-> a = b.
Proof. intros. apply Z.eqb_eq. Qed.
Lemma neqb_spec : forall a b, Nat.eqb a b = true <-> a = b.
Proof. intros. apply Nat.eqb_eq. Qed.

(* ---- the index table ---------------------------------------------------- *)

Definition tbl_ok (f : file) (tbl : itab) : Prop :=
  forall ch e, assoc Z.eqb ch tbl = Some e -> e = build_index f ch.

Lemma tbl_ok_nil : forall f, tbl_ok f [].
Proof. intros f ch e H. discriminate. Qed.

Lemma ensure_index_ok : forall f tbl ch,
    tbl_ok f tbl ->
    tbl_ok f (fst (ensure_index f tbl ch)) /\ snd (ensure_index f tbl ch) = build_index f ch.
Proof.
  intros f tbl ch H. unfold ensure_index.
  destruct (assoc Z.eqb ch tbl) as [e|] eqn:E; simpl.
  - split; [exact H | apply H; exact E].
  - split; [|reflexivity].
    intros ch' e' H'. simpl in H'.
    destruct (Z.eqb ch' ch) eqn:E'.
    + apply Z.eqb_eq in E'. subst ch'. congruence.
    + apply H. exact H'.
Qed.

(* ---- position independence of the repaired generators ------------------- *)

Lemma cg_advance_indep : forall f ch segs si e p1 p2,
    fst (cg_advance f ch segs si e p1) = fst (cg_advance f ch segs si e p2).
Proof.
  intros. destruct segs as [|s r]; simpl; [reflexivity|].
  destruct (e <? si)%nat; [reflexivity|]. reflexivity.
Qed.

Lemma fg_advance_indep : forall fixd f segs si p1 p2,
    fst (fg_advance fixd f segs si p1) = fst (fg_advance fixd f segs si p2).
Proof.
  intros. destruct segs as [|s r]; simpl; [reflexivity|].
  destruct (negb (s_raw s)); [reflexivity|].
  unfold fg_seg_data. reflexivity.
Qed.

Definition drop_pos {A} (x : A * Z) : A := fst x.

Lemma cg_finish_indep : forall g offset e k r1 r2,
    fst r1 = fst r2 -> fst (cg_finish g offset e k r1) = fst (cg_finish g offset e k r2).
Proof.
  intros g offset e k [a1 p1] [a2 p2] H. simpl in H. subst a2.
  unfold cg_finish. destruct a1 as [[[si ip] d]|]; reflexivity.
Qed.

Lemma fg_finish_indep : forall f offsets r1 r2,
    fst r1 = fst r2 -> fst (fg_finish f offsets r1) = fst (fg_finish f offsets r2).
Proof.
  intros f offsets [a1 p1] [a2 p2] H. simpl in H. subst a2.
  unfold fg_finish. destruct a1 as [[ph l]|]; reflexivity.
Qed.

Lemma pair_fst_eq : forall {A B} (x y : A * B), fst x = fst y -> forall a b a' b', x = (a, b) -> y = (a', b') -> a = a'.
Proof. intros. subst. simpl in H. exact H. Qed.

(* next() of a channel generator: everything but the final position is
   independent of the position it is resumed at *)
Lemma next_chan_indep : forall f tbl g p1 p2,
    fst (next_chan f tbl g p1) = fst (next_chan f tbl g p2).
Proof.
  intros f tbl g p1 p2. unfold next_chan.
  destruct (cg_phase g) as [|si k ip|].
  - destruct (ensure_index f tbl (cg_chan g)) as [tbl' [first offs]].
    set (st := (first + ss_right offs 0)%nat).
    set (en := (first + ss_left offs (chan_len f (cg_chan g)))%nat).
    pose proof (cg_finish_indep g 0 en 0%nat _ _
                  (cg_advance_indep f (cg_chan g) (skipn st (f_segs f)) st en p1 p2)) as H.
    destruct (cg_finish g 0 en 0 (cg_advance f (cg_chan g) (skipn st (f_segs f)) st en p1)) as [[g1 o1] q1].
    destruct (cg_finish g 0 en 0 (cg_advance f (cg_chan g) (skipn st (f_segs f)) st en p2)) as [[g2 o2] q2].
    simpl in H. inversion H. reflexivity.
  - destruct (nth_error (f_segs f) si) as [s|]; [|reflexivity].
    destruct (if s_il s then None else nth_error (s_chunks s) (S k)) as [c|].
    + reflexivity.
    + reflexivity.
  - reflexivity.
Qed.

Lemma next_file_indep : forall f g p1 p2,
    fst (next_file true f g p1) = fst (next_file true f g p2).
Proof.
  intros f g p1 p2. unfold next_file.
  destruct (fg_phase g) as [|si|si k saved|].
  - apply fg_finish_indep. apply fg_advance_indep.
  - destruct (nth_error (f_segs f) si) as [s|]; [|reflexivity].
    unfold fg_seg_data. reflexivity.
  - destruct (nth_error (f_segs f) si) as [s|]; [|reflexivity]. reflexivity.
  - reflexivity.
Qed.

(* what next() does to a frame and what it outputs, as a function of the file
   and the frame alone (index table empty, position 0) *)
Definition gen_step (f : file) (g : gen) : gen * out :=
  let '(_, g', o, _) := next_gen true f [] g 0 in (g', o).

Lemma next_chan_tbl : forall f tbl g p,
    tbl_ok f tbl ->
    let '(tbl', g', o, _) := next_chan f tbl g p in
    tbl_ok f tbl' /\
    let '(_, g0, o0, _) := next_chan f [] g p in g' = g0 /\ o = o0.
Proof.
  intros f tbl g p H. unfold next_chan.
  destruct (cg_phase g) as [|si k ip|].
  - pose proof (ensure_index_ok f tbl (cg_chan g) H) as [H1 H2].
    pose proof (ensure_index_ok f [] (cg_chan g) (tbl_ok_nil f)) as [H3 H4].
    destruct (ensure_index f tbl (cg_chan g)) as [tbl' e].
    destruct (ensure_index f [] (cg_chan g)) as [tbl0 e0].
    simpl in *. subst e e0. destruct (build_index f (cg_chan g)) as [first offs].
    match goal with |- context [cg_finish ?a ?b ?c ?d ?e] => destruct (cg_finish a b c d e) as [[g1 o1] q1] end.
    split; [exact H1|]. split; reflexivity.
  - destruct (nth_error (f_segs f) si) as [s|]; [|split; [exact H|split; reflexivity]].
    destruct (if s_il s then None else nth_error (s_chunks s) (S k)) as [c|].
    + match goal with |- context [chan_walk ?a ?b ?c ?d ?e ?f] => destruct (chan_walk a b c d e f) as [d1 q1] end.
      split; [exact H|split; reflexivity].
    + match goal with |- context [cg_finish ?a ?b ?c ?d ?e] => destruct (cg_finish a b c d e) as [[g1 o1] q1] end.
      split; [exact H|split; reflexivity].
  - split; [exact H|split; reflexivity].
Qed.

(* determinism of next(): for a valid index table and ANY position, the new
   frame and the output are those of [gen_step] *)
Lemma next_gen_det : forall f tbl g p,
    tbl_ok f tbl ->
    let '(tbl', g', o, _) := next_gen true f tbl g p in
    tbl_ok f tbl' /\ (g', o) = gen_step f g.
Proof.
  intros f tbl g p H. unfold gen_step, next_gen. destruct g as [c|c].
  - pose proof (next_chan_tbl f tbl c p H) as H1.
    pose proof (next_chan_indep f [] c p 0) as H2.
    destruct (next_chan f tbl c p) as [[[tbl' c'] o] q].
    destruct (next_chan f [] c p) as [[[tbl0 c0] o0] q0].
    destruct (next_chan f [] c 0) as [[[tbl1 c1] o1] q1].
    simpl in H2. inversion H2. subst.
    destruct H1 as [H1 [H3 H4]]. subst. split; [exact H1|reflexivity].
  - pose proof (next_file_indep f c p 0) as H2.
    destruct (next_file true f c p) as [[c' o] q].
    destruct (next_file true f c 0) as [[c1 o1] q1].
    simpl in H2. inversion H2. subst. split; [exact H|reflexivity].
Qed.

(* ---- cumulative sums and searchsorted ----------------------------------- *)

Definition sumz (l : list Z) : Z := fold_right Z.add 0 l.

Lemma sumz_app : forall a b, sumz (a ++ b) = sumz a + sumz b.
Proof. induction a as [|x a IH]; intros b; simpl; [lia|]. rewrite IH. lia. Qed.

Definition nonneg (l : list Z) : Prop := Forall (fun n => 0 <= n) l.

Lemma sumz_nonneg : forall l, nonneg l -> 0 <= sumz l.
Proof. induction 1 as [|x l Hx Hl IH]; simpl; lia. Qed.

Lemma nonneg_firstn : forall n l, nonneg l -> nonneg (firstn n l).
Proof.
  induction n as [|n IH]; intros l H; simpl; [constructor|].
  destruct l as [|x l]; [constructor|]. inversion H; subst. constructor; [assumption|apply IH; assumption].
Qed.

Lemma nonneg_skipn : forall n l, nonneg l -> nonneg (skipn n l).
Proof.
  induction n as [|n IH]; intros l H; simpl; [exact H|].
  destruct l as [|x l]; [constructor|]. inversion H; subst. apply IH; assumption.
Qed.

Lemma sumz_cons : forall x l, sumz (x :: l) = x + sumz l.
Proof. reflexivity. Qed.

Lemma sumz_nil : sumz [] = 0.
Proof. reflexivity. Qed.

Lemma ss_right_cumsum : forall ns acc x,
    nonneg ns -> acc <= x -> x < acc + sumz ns ->
    (ss_right (cumsum acc ns) x < length ns)%nat /\
    acc + sumz (firstn (ss_right (cumsum acc ns) x) ns) <= x
    < acc + sumz (firstn (S (ss_right (cumsum acc ns) x)) ns).
Proof.
  induction ns as [|n ns IH]; intros acc x Hnn Hlo Hhi.
  - rewrite sumz_nil in Hhi. lia.
  - inversion Hnn as [|? ? Hn Hns]; subst. rewrite sumz_cons in Hhi.
    change (cumsum acc (n :: ns)) with ((acc + n) :: cumsum (acc + n) ns).
    change (ss_right ((acc + n) :: cumsum (acc + n) ns) x)
      with (if acc + n <=? x then S (ss_right (cumsum (acc + n) ns) x) else 0%nat).
    destruct (acc + n <=? x) eqn:E.
    + destruct (IH (acc + n) x Hns ltac:(lia) ltac:(lia)) as [IH1 IH2].
      split; [simpl; lia|].
      rewrite !firstn_cons, !sumz_cons. lia.
    + split; [simpl; lia|]. rewrite firstn_cons, !firstn_O, sumz_cons, !sumz_nil. lia.
Qed.

Lemma ss_right_unique : forall ns acc x r,
    nonneg ns -> (r < length ns)%nat ->
    acc + sumz (firstn r ns) <= x < acc + sumz (firstn (S r) ns) ->
    ss_right (cumsum acc ns) x = r.
Proof.
  induction ns as [|n ns IH]; intros acc x r Hnn Hr Hx.
  - simpl in Hr. lia.
  - inversion Hnn as [|? ? Hn Hns]; subst.
    change (cumsum acc (n :: ns)) with ((acc + n) :: cumsum (acc + n) ns).
    change (ss_right ((acc + n) :: cumsum (acc + n) ns) x)
      with (if acc + n <=? x then S (ss_right (cumsum (acc + n) ns) x) else 0%nat).
    rewrite firstn_cons, sumz_cons in Hx.
    destruct r as [|r].
    + rewrite !firstn_O, !sumz_nil in Hx.
      destruct (acc + n <=? x) eqn:E; [lia|reflexivity].
    + rewrite firstn_cons, sumz_cons in Hx.
      pose proof (sumz_nonneg _ (nonneg_firstn r ns Hns)) as H0.
      destruct (acc + n <=? x) eqn:E; [|lia].
      f_equal. apply IH; [assumption|simpl in Hr; lia|lia].
Qed.

Lemma nth_error_cumsum : forall ns acc r,
    (r < length ns)%nat ->
    nth_error (cumsum acc ns) r = Some (acc + sumz (firstn (S r) ns)).
Proof.
  induction ns as [|n ns IH]; intros acc r Hr; [simpl in Hr; lia|].
  change (cumsum acc (n :: ns)) with ((acc + n) :: cumsum (acc + n) ns).
  rewrite firstn_cons, sumz_cons.
  destruct r as [|r].
  - rewrite firstn_O, sumz_nil. simpl. f_equal. lia.
  - change (nth_error ((acc + n) :: cumsum (acc + n) ns) (S r)) with (nth_error (cumsum (acc + n) ns) r).
    rewrite IH by (simpl in Hr; lia). f_equal. lia.
Qed.

Lemma ss_left_total : forall mid acc,
    nonneg mid -> (exists pre y, mid = pre ++ [y] /\ 0 < y) ->
    ss_left (cumsum acc mid) (acc + sumz mid) = (length mid - 1)%nat.
Proof.
  induction mid as [|x r IH]; intros acc Hnn [pre [y [Hm Hy]]].
  - destruct pre; discriminate.
  - inversion Hnn as [|? ? Hx Hr]; subst. cbn [cumsum ss_left sumz fold_right]. fold (sumz r).
    destruct r as [|x' r'].
    + simpl. destruct (acc + x <? acc + (x + 0)) eqn:E; [lia|reflexivity].
    + assert (Hex : exists pre' y', x' :: r' = pre' ++ [y'] /\ 0 < y').
      { destruct pre as [|p pre]; [discriminate|]. inversion Hm; subst. exists pre, y. split; [assumption|assumption]. }
      assert (Hpos : 0 < sumz (x' :: r')).
      { destruct Hex as [pre' [y' [E' Hy']]]. rewrite E'. rewrite sumz_app.
        assert (nonneg pre'). { rewrite E' in Hr. unfold nonneg in *. apply Forall_app in Hr. tauto. }
        pose proof (sumz_nonneg _ H). simpl. lia. }
      destruct (acc + x <? acc + (x + sumz (x' :: r'))) eqn:E; [|lia].
      replace (acc + (x + sumz (x' :: r'))) with ((acc + x) + sumz (x' :: r')) by lia.
      rewrite IH; [simpl; lia|assumption|assumption].
Qed.

(* first / last positive entry *)
Lemma first_pos_spec : forall l a, nonneg l -> first_pos l = Some a ->
    (a < length l)%nat /\ sumz (firstn a l) = 0 /\ exists x, nth_error l a = Some x /\ 0 < x.
Proof.
  induction l as [|x l IH]; intros a Hnn H; [discriminate|].
  inversion Hnn as [|? ? Hx Hl]; subst. simpl in H.
  destruct (0 <? x) eqn:E.
  - inversion H; subst. simpl. split; [lia|]. split; [reflexivity|]. exists x. split; [reflexivity|lia].
  - destruct (first_pos l) as [a'|] eqn:E'; [|discriminate]. inversion H; subst.
    destruct (IH a' Hl eq_refl) as [H1 [H2 H3]]. simpl. split; [lia|]. split; [lia|exact H3].
Qed.

Lemma first_pos_none : forall l, nonneg l -> first_pos l = None -> sumz l = 0.
Proof.
  induction l as [|x l IH]; intros Hnn H; [reflexivity|].
  inversion Hnn as [|? ? Hx Hl]; subst. simpl in H.
  destruct (0 <? x) eqn:E; [discriminate|].
  destruct (first_pos l) eqn:E'; [discriminate|]. simpl. rewrite (IH Hl eq_refl). lia.
Qed.

Lemma last_pos_spec : forall l b, nonneg l -> last_pos l = Some b ->
    (b < length l)%nat /\ sumz (skipn (S b) l) = 0 /\ exists y, nth_error l b = Some y /\ 0 < y.
Proof.
  induction l as [|x l IH]; intros b Hnn H; [discriminate|].
  inversion Hnn as [|? ? Hx Hl]; subst. simpl in H.
  destruct (last_pos l) as [b'|] eqn:E'.
  - inversion H; subst. destruct (IH b' Hl eq_refl) as [H1 [H2 H3]].
    split; [simpl; lia|]. split; [exact H2|exact H3].
  - destruct (0 <? x) eqn:E; [|discriminate]. inversion H; subst.
    split; [simpl; lia|]. split.
    + simpl. clear -Hl E'. induction l as [|z l IH]; [reflexivity|].
      inversion Hl; subst. simpl in E'. destruct (last_pos l) eqn:E2; [discriminate|].
      destruct (0 <? z) eqn:E3; [discriminate|]. simpl. rewrite IH by assumption. lia.
    + exists x. split; [reflexivity|lia].
Qed.

Lemma last_pos_none : forall l, nonneg l -> last_pos l = None -> sumz l = 0.
Proof.
  induction l as [|x l IH]; intros Hnn H; [reflexivity|].
  inversion Hnn as [|? ? Hx Hl]; subst. simpl in H.
  destruct (last_pos l) eqn:E'; [discriminate|].
  destruct (0 <? x) eqn:E; [discriminate|]. simpl. rewrite (IH Hl eq_refl). lia.
Qed.

Lemma sumz_firstn_skipn : forall n l, sumz l = sumz (firstn n l) + sumz (skipn n l).
Proof. intros. rewrite <- sumz_app. rewrite firstn_skipn. reflexivity. Qed.

Lemma nth_error_pos_sum : forall l i x, nonneg l -> nth_error l i = Some x -> x <= sumz l.
Proof.
  induction l as [|y l IH]; intros i x Hnn H; [destruct i; discriminate|].
  inversion Hnn; subst. destruct i as [|i]; simpl in *.
  - inversion H; subst. pose proof (sumz_nonneg _ H3). unfold sumz in *. lia.
  - specialize (IH i x H3 H). unfold sumz in *. lia.
Qed.

Lemma nth_error_firstn : forall {A} n (l : list A) i, (i < n)%nat -> nth_error (firstn n l) i = nth_error l i.
Proof.
  induction n as [|n IH]; intros l i Hi; [lia|].
  destruct l as [|x l]; [destruct i; reflexivity|].
  destruct i as [|i]; [reflexivity|]. simpl. apply IH. lia.
Qed.

Lemma nth_error_skipn : forall {A} n (l : list A) i, nth_error (skipn n l) i = nth_error l (n + i).
Proof.
  induction n as [|n IH]; intros l i; [reflexivity|].
  destruct l as [|x l]; [destruct i; reflexivity|]. simpl. apply IH.
Qed.

Lemma skipn_skipn : forall {A} n m (l : list A), skipn n (skipn m l) = skipn (n + m) l.
Proof.
  intros A n m. revert n. induction m as [|m IH]; intros n l.
  - rewrite Nat.add_0_r. reflexivity.
  - destruct l as [|x l]; [rewrite !skipn_nil; reflexivity|].
    replace (n + S m)%nat with (S (n + m)) by lia. simpl. apply IH.
Qed.

(* the middle part segment_num_values[first:last+1] *)
Lemma mid_facts : forall l a b, nonneg l -> first_pos l = Some a -> last_pos l = Some b ->
    let mid := firstn (S b - a) (skipn a l) in
    (a <= b)%nat /\ sumz mid = sumz l /\ length mid = (S b - a)%nat /\
    (forall r, (r < S b - a)%nat -> nth_error mid r = nth_error l (a + r)) /\
    (exists pre y, mid = pre ++ [y] /\ 0 < y) /\
    (exists x, nth_error mid 0 = Some x /\ 0 < x).
Proof.
  intros l a b Hnn Ha Hb mid.
  destruct (first_pos_spec l a Hnn Ha) as [Ha1 [Ha2 [x [Ha3 Ha4]]]].
  destruct (last_pos_spec l b Hnn Hb) as [Hb1 [Hb2 [y [Hb3 Hb4]]]].
  assert (Hab : (a <= b)%nat).
  { destruct (le_lt_dec a b) as [|Hlt]; [assumption|exfalso].
    (* b < a: the positive entry at b lies in firstn a l whose sum is 0 *)
    assert (nth_error (firstn a l) b = Some y).
    { rewrite nth_error_firstn; [exact Hb3|exact Hlt]. }
    pose proof (nth_error_pos_sum _ _ _ (nonneg_firstn a l Hnn) H). lia. }
  assert (Hlen : length mid = (S b - a)%nat).
  { unfold mid. rewrite firstn_length, skipn_length. lia. }
  assert (Hnth : forall r, (r < S b - a)%nat -> nth_error mid r = nth_error l (a + r)).
  { intros r Hr. unfold mid. rewrite nth_error_firstn by exact Hr. rewrite nth_error_skipn. reflexivity. }
  split; [exact Hab|]. split; [|split; [exact Hlen|split; [exact Hnth|split]]].
  - rewrite (sumz_firstn_skipn a l). rewrite Ha2.
    rewrite (sumz_firstn_skipn (S b - a) (skipn a l)). fold mid.
    rewrite skipn_skipn. replace (S b - a + a)%nat with (S b) by lia. rewrite Hb2. lia.
  - (* last element of mid is l[b] = y > 0 *)
    assert (Hl : nth_error mid (b - a) = Some y).
    { rewrite Hnth by lia. replace (a + (b - a))%nat with b by lia. exact Hb3. }
    destruct (nth_error_split _ _ Hl) as [l1 [l2 [E1 E2]]].
    assert (l2 = []).
    { assert (length mid = (length l1 + S (length l2))%nat) by (rewrite E1, app_length; reflexivity).
      destruct l2; [reflexivity|simpl in H; lia]. }
    subst l2. exists l1, y. split; [exact E1|exact Hb4].
  - exists x. rewrite Hnth by lia. replace (a + 0)%nat with a by lia. split; assumption.
Qed.

(* ---- consequences of well-formedness ------------------------------------ *)

Ltac split_andb :=
  repeat match goal with
         | H : _ && _ = true |- _ => apply andb_prop in H; destruct H
         end.

Lemma wf_seg : forall f s, wf_file f = true -> In s (f_segs f) -> seg_ok f s = true.
Proof.
  intros f s H Hin. unfold wf_file in H. split_andb.
  rewrite forallb_forall in H. apply H. exact Hin.
Qed.

Lemma seg_ok_parts : forall f s, seg_ok f s = true ->
    forallb obj_ok (s_objs s) = true /\
    nodupb (map o_chan (s_objs s)) = true /\
    forallb (chunk_ok (s_objs s)) (s_chunks s) = true /\
    (if s_raw s then negb (length (s_objs s) =? 0)%nat && negb (length (s_chunks s) =? 0)%nat
     else (length (s_objs s) =? 0)%nat && (length (s_chunks s) =? 0)%nat) = true.
Proof.
  intros f s H. unfold seg_ok in H.
  apply andb_prop in H. destruct H as [H _].
  apply andb_prop in H. destruct H as [H H5].
  apply andb_prop in H. destruct H as [H H4].
  apply andb_prop in H. destruct H as [H _].
  apply andb_prop in H. destruct H as [H1 H2].
  repeat split; assumption.
Qed.

Lemma seg_ok_obj : forall f s ch o, seg_ok f s = true -> seg_obj s ch = Some o ->
    0 < o_nvals o /\ 0 < o_size o /\ In o (s_objs s) /\ o_chan o = ch.
Proof.
  intros f s ch o H Ho. unfold seg_obj in Ho. apply find_some in Ho. destruct Ho as [Hin Hc].
  destruct (seg_ok_parts f s H) as (H1 & _).
  rewrite forallb_forall in H1. specialize (H1 o Hin). unfold obj_ok in H1. split_andb.
  repeat split; try lia; assumption.
Qed.

Lemma seg_ok_raw : forall f s, seg_ok f s = true -> s_objs s <> [] ->
    s_raw s = true /\ s_chunks s <> [].
Proof.
  intros f s H Hne. destruct (seg_ok_parts f s H) as (_ & _ & _ & H1).
  destruct (s_raw s).
  - split; [reflexivity|]. split_andb. destruct (s_chunks s); [discriminate|discriminate].
  - split_andb. destruct (s_objs s); [contradiction|discriminate].
Qed.

Lemma seg_ok_chunk : forall f s c, seg_ok f s = true -> In c (s_chunks s) ->
    chunk_ok (s_objs s) c = true.
Proof.
  intros f s c H Hin. destruct (seg_ok_parts f s H) as (_ & _ & H3 & _).
  rewrite forallb_forall in H3. apply H3. exact Hin.
Qed.

Lemma seg_num_values_nonneg : forall f s ch, seg_ok f s = true -> 0 <= seg_num_values s ch.
Proof.
  intros f s ch H. unfold seg_num_values. destruct (seg_obj s ch) as [o|] eqn:E; [|lia].
  destruct (seg_ok_obj f s ch o H E) as [H1 _]. nia.
Qed.

Lemma seg_nums_nonneg : forall f ch, wf_file f = true -> nonneg (seg_nums f ch).
Proof.
  intros f ch H. unfold seg_nums, nonneg. apply Forall_forall. intros x Hx.
  apply in_map_iff in Hx. destruct Hx as [s [Hs Hin]]. subst x.
  apply (seg_num_values_nonneg f). apply wf_seg; assumption.
Qed.

Lemma sumz_firstn_S : forall l r x, nth_error l r = Some x ->
    sumz (firstn (S r) l) = sumz (firstn r l) + x.
Proof.
  induction l as [|y l IH]; intros r x H; [destruct r; discriminate|].
  destruct r as [|r].
  - simpl in H. inversion H; subst. rewrite firstn_cons, !firstn_O, sumz_cons, sumz_nil. lia.
  - rewrite !firstn_cons, !sumz_cons. rewrite (IH r x H). lia.
Qed.

Lemma chan_len_sumz : forall f ch, chan_len f ch = sumz (seg_nums f ch).
Proof. reflexivity. Qed.

(* the block of consecutive indices served by one segment, and which chunk
   read_channel_chunk_for_index selects for each index of the block *)
Lemma cfi_block : forall f ch j,
    wf_file f = true -> 0 <= j < chan_len f ch ->
    exists s o start,
      In s (f_segs f) /\ seg_obj s ch = Some o /\ 0 < o_nvals o /\
      start <= j < start + o_nvals o * Z.of_nat (num_chunks s) /\
      forall j', start <= j' < start + o_nvals o * Z.of_nat (num_chunks s) ->
        chunk_for_index f (build_index f ch) ch j'
        = Some (s, Z.to_nat ((j' - start) / o_nvals o), start + (j' - start) / o_nvals o * o_nvals o).
Proof.
  intros f ch j Hwf Hj. rewrite chan_len_sumz in Hj.
  pose proof (seg_nums_nonneg f ch Hwf) as Hnn.
  unfold build_index.
  destruct (first_pos (seg_nums f ch)) as [a|] eqn:Ea;
    [|rewrite (first_pos_none _ Hnn Ea) in Hj; lia].
  destruct (last_pos (seg_nums f ch)) as [b|] eqn:Eb;
    [|rewrite (last_pos_none _ Hnn Eb) in Hj; lia].
  destruct (mid_facts _ a b Hnn Ea Eb) as [Hab [Hsum [Hlen [Hnth _]]]].
  set (mid := firstn (S b - a) (skipn a (seg_nums f ch))) in *.
  assert (Hmnn : nonneg mid) by (apply nonneg_firstn, nonneg_skipn, Hnn).
  destruct (ss_right_cumsum mid 0 j Hmnn ltac:(lia) ltac:(lia)) as [Hr Hb2].
  set (rel := ss_right (cumsum 0 mid) j) in *.
  destruct (nth_error mid rel) as [m|] eqn:Em;
    [|apply nth_error_None in Em; lia].
  rewrite (sumz_firstn_S mid rel m Em) in Hb2.
  set (start := sumz (firstn rel mid)) in *.
  assert (Es : nth_error (seg_nums f ch) (a + rel) = Some m) by (rewrite <- Hnth by lia; exact Em).
  unfold seg_nums in Es. rewrite nth_error_map in Es.
  destruct (nth_error (f_segs f) (a + rel)) as [s|] eqn:Eseg; [|discriminate].
  simpl in Es. inversion Es as [Hm]. clear Es.
  assert (Hin : In s (f_segs f)) by (eapply nth_error_In; exact Eseg).
  pose proof (wf_seg f s Hwf Hin) as Hok.
  unfold seg_num_values in Hm.
  destruct (seg_obj s ch) as [o|] eqn:Eo; [|lia].
  destruct (seg_ok_obj f s ch o Hok Eo) as [Hnv _].
  exists s, o, start. split; [exact Hin|]. split; [exact Eo|]. split; [exact Hnv|].
  split; [lia|].
  intros j' Hj'.
  assert (Hrel' : ss_right (cumsum 0 mid) j' = rel).
  { apply ss_right_unique; [exact Hmnn|exact Hr|]. rewrite (sumz_firstn_S mid rel m Em). fold start. lia. }
  unfold chunk_for_index. rewrite Hrel', Eseg, Eo.
  destruct (o_nvals o <=? 0) eqn:E0; [lia|].
  assert (Hst : match rel with O => Some 0 | S r => nth_error (cumsum 0 mid) r end = Some start).
  { destruct rel as [|r] eqn:Er.
    - unfold start. rewrite firstn_O, sumz_nil. reflexivity.
    - rewrite nth_error_cumsum by lia. unfold start. f_equal; try lia. }
  rewrite Hst.
  assert (0 <= (j' - start) / o_nvals o) by (apply Z.div_pos; lia).
  destruct ((j' - start) / o_nvals o <? 0) eqn:E1; [lia|]. reflexivity.
Qed.

(* ---- reads issued at the right position return the intended block ------- *)

Lemma read_at_hit : forall f exp o vs, read_at f exp o vs exp = (Vals vs, exp + o_size o).
Proof. intros. unfold read_at. rewrite Z.eqb_refl. reflexivity. Qed.

Definition sizes (ovs : list (obj * list Z)) : Z := fold_right (fun ov a => o_size (fst ov) + a) 0 ovs.

Lemma read_objs_hit : forall f ovs exp,
    read_objs f exp ovs exp
    = (map (fun ov => (o_chan (fst ov), Vals (snd ov))) ovs, exp + sizes ovs).
Proof.
  induction ovs as [|[o vs] r IH]; intros exp; simpl.
  - f_equal. lia.
  - rewrite read_at_hit. rewrite IH. f_equal. lia.
Qed.

Lemma chan_walk_hit : forall f ch ovs exp p o vs,
    find (fun ov => o_chan (fst ov) =? ch) ovs = Some (o, vs) ->
    fst (chan_walk f exp ovs ch exp p) = Some (Vals vs).
Proof.
  induction ovs as [|[o' vs'] r IH]; intros exp p o vs H; [discriminate|].
  simpl in *. destruct (o_chan o' =? ch) eqn:E.
  - inversion H; subst. rewrite read_at_hit. reflexivity.
  - apply (IH _ _ o vs H).
Qed.

Lemma chan_walk_miss : forall f ch ovs exp cp p,
    find (fun ov => o_chan (fst ov) =? ch) ovs = None ->
    chan_walk f exp ovs ch cp p = (None, p).
Proof.
  induction ovs as [|[o' vs'] r IH]; intros exp cp p H; [reflexivity|].
  simpl in *. destruct (o_chan o' =? ch) eqn:E; [discriminate|]. apply IH. exact H.
Qed.

Lemma find_combine : forall ch objs (c : list (list Z)) o,
    find (fun o => o_chan o =? ch) objs = Some o -> length c = length objs ->
    exists vs, find (fun ov => o_chan (fst ov) =? ch) (combine objs c) = Some (o, vs).
Proof.
  induction objs as [|o' objs IH]; intros c o H Hl; [discriminate|].
  destruct c as [|vs c]; [discriminate|]. simpl in *.
  destruct (o_chan o' =? ch) eqn:E.
  - inversion H; subst. exists vs. reflexivity.
  - apply IH; [exact H|lia].
Qed.

Lemma find_combine_none : forall ch objs (c : list (list Z)),
    find (fun o => o_chan o =? ch) objs = None ->
    find (fun ov => o_chan (fst ov) =? ch) (combine objs c) = None.
Proof.
  induction objs as [|o' objs IH]; intros c H; [reflexivity|].
  destruct c as [|vs c]; [reflexivity|]. simpl in *.
  destruct (o_chan o' =? ch) eqn:E; [discriminate|]. apply IH. exact H.
Qed.

Lemma chunk_ok_len : forall objs c o vs,
    chunk_ok objs c = true -> In (o, vs) (combine objs c) -> Z.of_nat (length vs) = o_nvals o.
Proof.
  intros objs c o vs H Hin. unfold chunk_ok in H. apply andb_prop in H. destruct H as [_ H].
  rewrite forallb_forall in H. specialize (H (o, vs) Hin). simpl in H. lia.
Qed.

Lemma chunk_ok_length : forall objs c, chunk_ok objs c = true -> length c = length objs.
Proof.
  intros objs c H. unfold chunk_ok in H. apply andb_prop in H. destruct H as [H _].
  apply Nat.eqb_eq in H. exact H.
Qed.

Lemma zip_app_nil : forall (objs : list obj) (c : list (list Z)),
    length c = length objs -> zip_app (map (fun _ => []) objs) c = c.
Proof.
  induction objs as [|o objs IH]; intros c H; destruct c as [|vs c]; try discriminate; [reflexivity|].
  simpl. f_equal. apply IH. simpl in H. lia.
Qed.

Lemma assoc_combine_find : forall ch objs (c : list (list Z)),
    assoc Z.eqb ch (combine (map o_chan objs) (map Vals c))
    = option_map (fun ov => Vals (snd ov)) (find (fun ov => o_chan (fst ov) =? ch) (combine objs c)).
Proof.
  induction objs as [|o objs IH]; intros c; [reflexivity|].
  destruct c as [|vs c]; [reflexivity|]. simpl.
  rewrite (Z.eqb_sym ch (o_chan o)). destruct (o_chan o =? ch); [reflexivity|]. apply IH.
Qed.

Lemma skipn_nth_error_cons : forall {A} (l : list A) k x,
    nth_error l k = Some x -> skipn k l = x :: skipn (S k) l.
Proof.
  induction l as [|y l IH]; intros k x H; [destruct k; discriminate|].
  destruct k as [|k]; simpl in *; [inversion H; reflexivity|]. apply IH. exact H.
Qed.

Lemma seek_chunk_pos : forall s k,
    (if (0 <? k)%nat then s_data_pos s + chunk_size s * Z.of_nat k else s_data_pos s) = chunk_pos s k.
Proof.
  intros s k. unfold chunk_pos. destruct k as [|k]; [simpl; lia|].
  replace (0 <? S k)%nat with true by (symmetry; apply Nat.ltb_lt; lia). lia.
Qed.

Lemma read_chunk_indep : forall f s k ch p1 p2,
    read_chunk_for_index f s k ch p1 = read_chunk_for_index f s k ch p2.
Proof. intros. reflexivity. Qed.

(* the chunk the index arithmetic selects is read in full, whatever the position was *)
Lemma read_chunk_ok : forall f s o k ch p,
    seg_ok f s = true -> seg_obj s ch = Some o -> (k < num_chunks s)%nat ->
    exists vs, fst (read_chunk_for_index f s k ch p) = Vals vs /\ Z.of_nat (length vs) = o_nvals o.
Proof.
  intros f s o k ch p Hok Ho Hk.
  assert (Hne : s_objs s <> []).
  { unfold seg_obj in Ho. destruct (s_objs s); [discriminate|discriminate]. }
  destruct (seg_ok_raw f s Hok Hne) as [Hraw _].
  unfold num_chunks in Hk.
  destruct (nth_error (s_chunks s) k) as [c|] eqn:Ec; [|apply nth_error_None in Ec; lia].
  pose proof (seg_ok_chunk f s c Hok (nth_error_In _ _ Ec)) as Hc.
  pose proof (chunk_ok_length _ _ Hc) as Hlen.
  destruct (find_combine ch (s_objs s) c o Ho Hlen) as [vs Hf].
  exists vs. split.
  - unfold read_chunk_for_index. rewrite Hraw. cbn [negb].
    unfold verify_segment_start. rewrite seek_chunk_pos.
    destruct (s_il s) eqn:Eil.
    + unfold read_il. rewrite Z.eqb_refl.
      rewrite (skipn_nth_error_cons _ _ _ Ec). cbn [firstn]. unfold il_cols. cbn [fold_left].
      rewrite zip_app_nil by exact Hlen. rewrite assoc_combine_find, Hf. reflexivity.
    + rewrite Ec.
      pose proof (chan_walk_hit f ch (combine (s_objs s) c) (chunk_pos s k) (chunk_pos s k) o vs Hf) as Hw.
      destruct (chan_walk f (chunk_pos s k) (combine (s_objs s) c) ch (chunk_pos s k) (chunk_pos s k)) as [d q].
      simpl in Hw. subst d. reflexivity.
  - apply (chunk_ok_len (s_objs s) c o vs Hc).
    apply find_some in Hf. tauto.
Qed.

(* ---- the one-chunk cache ------------------------------------------------ *)

(* what a cache miss at [index] fetches: the chunk's values and its first index *)
Definition miss (f : file) (ch index : Z) : option (list Z * Z) :=
  match chunk_for_index f (build_index f ch) ch index with
  | None => None
  | Some (s, k, lo) =>
    match fst (read_chunk_for_index f s k ch 0) with
    | Vals vs => Some (vs, lo)
    | Garbage => None
    end
  end.

(* channel[index] for an in-range, normalised index, computed from the file alone *)
Definition index_pure (f : file) (ch index : Z) : out :=
  match chunk_for_index f (build_index f ch) ch index with
  | None => OErr
  | Some (s, k, lo) =>
    match fst (read_chunk_for_index f s k ch 0) with
    | Vals vs => val_at vs (index - lo)
    | Garbage => OGarbage
    end
  end.

Definition index_out (f : file) (ch i : Z) : out :=
  let n := chan_len f ch in
  let index := if i <? 0 then n + i else i in
  if (index <? 0) || (n <=? index) then OErr else index_pure f ch index.

Lemma index_pure_miss : forall f ch j vs lo,
    miss f ch j = Some (vs, lo) -> index_pure f ch j = val_at vs (j - lo).
Proof.
  intros f ch j vs lo H. unfold miss in H. unfold index_pure.
  destruct (chunk_for_index f (build_index f ch) ch j) as [[[s k] lo']|]; [|discriminate].
  destruct (fst (read_chunk_for_index f s k ch 0)); [|discriminate].
  inversion H; subst. reflexivity.
Qed.

(* every cached chunk is the file's chunk at its recorded bounds: a miss at any
   index inside the bounds would fetch exactly the cached values and lower bound *)
Definition cache_ok (f : file) (c : list (Z * centry)) : Prop :=
  forall ch ce, assoc Z.eqb ch c = Some ce ->
    forall j, 0 <= j < chan_len f ch -> ce_lo ce <= j < ce_hi ce ->
      miss f ch j = Some (ce_vals ce, ce_lo ce).

(* the bounds recorded after a miss are exactly the indices served by the fetched chunk *)
Lemma miss_stable : forall f ch j0 vs lo,
    wf_file f = true -> 0 <= j0 < chan_len f ch ->
    miss f ch j0 = Some (vs, lo) ->
    forall j, lo <= j < lo + Z.of_nat (length vs) -> miss f ch j = Some (vs, lo).
Proof.
  intros f ch j0 vs lo Hwf Hj0 Hm j Hj.
  destruct (cfi_block f ch j0 Hwf Hj0) as (s & o & start & Hin & Ho & Hnv & Hb & Hall).
  pose proof (wf_seg f s Hwf Hin) as Hok.
  unfold miss in *. rewrite (Hall j0 Hb) in Hm.
  set (q := (j0 - start) / o_nvals o) in *.
  assert (Hq : 0 <= q < Z.of_nat (num_chunks s)).
  { unfold q. split; [apply Z.div_pos; lia|]. apply Z.div_lt_upper_bound; lia. }
  destruct (read_chunk_ok f s o (Z.to_nat q) ch 0 Hok Ho ltac:(lia)) as [vs' [Hr Hlen]].
  rewrite Hr in Hm. inversion Hm; subst vs' lo. clear Hm.
  assert (Hj' : start <= j < start + o_nvals o * Z.of_nat (num_chunks s)) by nia.
  rewrite (Hall j Hj').
  assert (Hqq : (j - start) / o_nvals o = q).
  { symmetry. apply (Z.div_unique_pos (j - start) (o_nvals o) q (j - start - q * o_nvals o)); lia. }
  rewrite Hqq, Hr. reflexivity.
Qed.

Lemma miss_some_in_bounds : forall f ch j vs lo,
    wf_file f = true -> 0 <= j < chan_len f ch -> miss f ch j = Some (vs, lo) ->
    lo <= j < lo + Z.of_nat (length vs).
Proof.
  intros f ch j vs lo Hwf Hj Hm.
  destruct (cfi_block f ch j Hwf Hj) as (s & o & start & Hin & Ho & Hnv & Hb & Hall).
  pose proof (wf_seg f s Hwf Hin) as Hok.
  unfold miss in Hm. rewrite (Hall j Hb) in Hm.
  set (q := (j - start) / o_nvals o) in *.
  assert (Hq : 0 <= q < Z.of_nat (num_chunks s)).
  { unfold q. split; [apply Z.div_pos; lia|]. apply Z.div_lt_upper_bound; lia. }
  destruct (read_chunk_ok f s o (Z.to_nat q) ch 0 Hok Ho ltac:(lia)) as [vs' [Hr Hlen]].
  rewrite Hr in Hm. inversion Hm; subst vs' lo.
  rewrite Hlen. unfold q. pose proof (Z.mod_pos_bound (j - start) (o_nvals o) Hnv).
  pose proof (Z.div_mod (j - start) (o_nvals o) ltac:(lia)). lia.
Qed.

(* ---- channel[i] --------------------------------------------------------- *)

Lemma do_index_spec : forall f st ch i,
    wf_file f = true -> tbl_ok f (idx st) -> cache_ok f (cache st) ->
    snd (do_index f st ch i) = index_out f ch i /\
    tbl_ok f (idx (fst (do_index f st ch i))) /\
    cache_ok f (cache (fst (do_index f st ch i))) /\
    gens (fst (do_index f st ch i)) = gens st.
Proof.
  intros f st ch i Hwf Ht Hc. unfold do_index, index_out.
  set (n := chan_len f ch). set (index := if i <? 0 then n + i else i).
  destruct ((index <? 0) || (n <=? index)) eqn:Eb; [simpl; auto|].
  assert (Hidx : 0 <= index < n) by lia.
  destruct (assoc Z.eqb ch (cache st)) as [ce|] eqn:Ece.
  - destruct ((ce_lo ce <=? index) && (index <? ce_hi ce)) eqn:Ehit.
    + simpl. split; [|auto].
      rewrite (index_pure_miss f ch index (ce_vals ce) (ce_lo ce)); [reflexivity|].
      apply (Hc ch ce Ece); [exact Hidx|lia].
    + (* miss *)
      pose proof (ensure_index_ok f (idx st) ch Ht) as [Ht' He].
      destruct (ensure_index f (idx st) ch) as [tbl e]. simpl in Ht', He. subst e.
      unfold index_pure.
      destruct (chunk_for_index f (build_index f ch) ch index) as [[[s k] lo]|] eqn:Ecfi;
        [|simpl; auto].
      rewrite (read_chunk_indep f s k ch (pos st) 0).
      destruct (read_chunk_for_index f s k ch 0) as [d p] eqn:Er. simpl.
      destruct d as [vs|]; simpl; [|auto].
      split; [reflexivity|]. split; [exact Ht'|]. split; [|reflexivity].
      assert (Hm : miss f ch index = Some (vs, lo)) by (unfold miss; rewrite Ecfi, Er; reflexivity).
      intros ch' ce' H'. destruct (Z.eq_dec ch' ch) as [->|Hne].
      * rewrite (assoc_set_same Z.eqb zeqb_spec) in H'. inversion H'; subst ce'. simpl.
        intros j Hj Hb. apply (miss_stable f ch index vs lo Hwf Hidx Hm). exact Hb.
      * rewrite (assoc_set_other Z.eqb zeqb_spec) in H' by exact Hne. apply (Hc ch' ce' H').
  - pose proof (ensure_index_ok f (idx st) ch Ht) as [Ht' He].
    destruct (ensure_index f (idx st) ch) as [tbl e]. simpl in Ht', He. subst e.
    unfold index_pure.
    destruct (chunk_for_index f (build_index f ch) ch index) as [[[s k] lo]|] eqn:Ecfi;
      [|simpl; auto].
    rewrite (read_chunk_indep f s k ch (pos st) 0).
    destruct (read_chunk_for_index f s k ch 0) as [d p] eqn:Er. simpl.
    destruct d as [vs|]; simpl; [|auto].
    split; [reflexivity|]. split; [exact Ht'|]. split; [|reflexivity].
    assert (Hm : miss f ch index = Some (vs, lo)) by (unfold miss; rewrite Ecfi, Er; reflexivity).
    intros ch' ce' H'. destruct (Z.eq_dec ch' ch) as [->|Hne].
    * rewrite (assoc_set_same Z.eqb zeqb_spec) in H'. inversion H'; subst ce'. simpl.
      intros j Hj Hb. apply (miss_stable f ch index vs lo Hwf Hidx Hm). exact Hb.
    * rewrite (assoc_set_other Z.eqb zeqb_spec) in H' by exact Hne. apply (Hc ch' ce' H').
Qed.

(* ---- window reads ------------------------------------------------------- *)

Definition read_out (f : file) (ch offs : Z) (len : option Z) : out :=
  if (offs <? 0) || (match len with Some l => l <? 0 | None => false end) then OErr
  else OVals (window f ch offs len).

Lemma do_read_spec : forall f st ch offs len,
    tbl_ok f (idx st) ->
    snd (do_read f st ch offs len) = read_out f ch offs len /\
    tbl_ok f (idx (fst (do_read f st ch offs len))) /\
    cache (fst (do_read f st ch offs len)) = cache st /\
    gens (fst (do_read f st ch offs len)) = gens st.
Proof.
  intros f st ch offs len Ht. unfold do_read, read_out.
  destruct ((offs <? 0) || match len with Some l => l <? 0 | None => false end); [simpl; auto|].
  pose proof (ensure_index_ok f (idx st) ch Ht) as [Ht' _].
  destruct (ensure_index f (idx st) ch) as [tbl [first offsets]]. simpl in *. auto.
Qed.

Lemma do_slice_spec : forall f st ch a b c,
    tbl_ok f (idx st) ->
    snd (do_slice f st ch a b c) = snd (do_slice f init ch a b c) /\
    tbl_ok f (idx (fst (do_slice f st ch a b c))) /\
    cache (fst (do_slice f st ch a b c)) = cache st /\
    gens (fst (do_slice f st ch a b c)) = gens st.
Proof.
  intros f st ch a b c Ht. unfold do_slice.
  destruct (slice_plan (chan_len f ch) a b c) as [[[[offs len] stp]|]|]; [|simpl; auto|simpl; auto].
  pose proof (do_read_spec f st ch offs (Some len) Ht) as (H1 & H2 & H3 & H4).
  pose proof (do_read_spec f init ch offs (Some len) (tbl_ok_nil f)) as (H1' & _).
  destruct (do_read f st ch offs (Some len)) as [st1 x1].
  destruct (do_read f init ch offs (Some len)) as [st0 x0].
  simpl in *. subst. auto.
Qed.

(* ---- generator frames reachable on a fresh file ------------------------- *)

Definition kind_of (g : gen) : gkind :=
  match g with GChan c => KChan (cg_chan c) | GFile _ => KFile end.

Definition new_gen (k : gkind) : gen :=
  match k with KChan ch => GChan (new_cgen ch) | KFile => GFile new_fgen end.

(* the frame of a generator of kind k after n calls of next() on a fresh file *)
Fixpoint frame_after (f : file) (k : gkind) (n : nat) : gen :=
  match n with
  | O => new_gen k
  | S m => fst (gen_step f (frame_after f k m))
  end.

(* its next read does not depend on the file position *)
Definition pos_indep (f : file) (g : gen) : Prop :=
  forall tbl p1 p2, fst (next_gen true f tbl g p1) = fst (next_gen true f tbl g p2).

Lemma pos_indep_all : forall f g, pos_indep f g.
Proof.
  intros f g tbl p1 p2. unfold next_gen. destruct g as [c|c].
  - pose proof (next_chan_indep f tbl c p1 p2) as H.
    destruct (next_chan f tbl c p1) as [[[t1 c1] o1] q1].
    destruct (next_chan f tbl c p2) as [[[t2 c2] o2] q2].
    simpl in H. inversion H. reflexivity.
  - pose proof (next_file_indep f c p1 p2) as H.
    destruct (next_file true f c p1) as [[c1 o1] q1].
    destruct (next_file true f c p2) as [[c2 o2] q2].
    simpl in H. inversion H. reflexivity.
Qed.

(* ---- the invariant ------------------------------------------------------ *)

(* generator bookkeeping: [env] records for every live generator id its kind and
   the number of next() calls it has received; its frame is the frame a fresh
   file's generator has after as many calls *)
Definition env_ok (f : file) (env : genv) (gs : list (nat * gen)) : Prop :=
  forall id,
    match assoc Nat.eqb id env, assoc Nat.eqb id gs with
    | None, None => True
    | Some (k, n), Some g => g = frame_after f k n
    | _, _ => False
    end.

Definition InvE (f : file) (env : genv) (st : state) : Prop :=
  tbl_ok f (idx st) /\
  cache_ok f (cache st) /\
  env_ok f env (gens st) /\
  (forall id g, assoc Nat.eqb id (gens st) = Some g -> pos_indep f g).

Definition Inv (f : file) (st : state) : Prop := exists env, InvE f env st.

Lemma InvE_init : forall f, InvE f [] init.
Proof.
  intros f. split; [apply tbl_ok_nil|]. split; [intros ch ce H; discriminate|].
  split; [intros id; simpl; exact I|]. intros id g H. discriminate.
Qed.

(* the annotation of one operation under the bookkeeping [env] *)
Definition ann1 (env : genv) (o : op) : aop :=
  match o with
  | Next id => match assoc Nat.eqb id env with
               | None => ANextNone
               | Some (k, n) => ANext k n
               end
  | _ => AOp o
  end.

Lemma annotate_cons : forall env o r,
    annotate_from env (o :: r) = ann1 env o :: annotate_from (env_step env o) r.
Proof.
  intros env o r. destruct o; simpl; try reflexivity.
  destruct (assoc Nat.eqb id env) as [[k n]|]; reflexivity.
Qed.

(* the output of an annotated operation as a function of the file alone *)
Definition pure_out (f : file) (a : aop) : out :=
  match a with
  | AOp (Index ch i) => index_out f ch i
  | AOp (Read ch offs len) => read_out f ch offs len
  | AOp (Slice ch a b c) => snd (do_slice f init ch a b c)
  | AOp (NewChanGen _ _) => OUnit
  | AOp (NewFileGen _) => OUnit
  | AOp (Next _) => ONoGen
  | ANext k n => snd (gen_step f (frame_after f k n))
  | ANextNone => ONoGen
  end.

Lemma env_ok_set : forall f env gs id k n g,
    env_ok f env gs -> g = frame_after f k n ->
    env_ok f (assoc_set Nat.eqb id (k, n) env) (assoc_set Nat.eqb id g gs).
Proof.
  intros f env gs id k n g H Hg id'. destruct (Nat.eq_dec id' id) as [->|Hne].
  - rewrite !(assoc_set_same Nat.eqb neqb_spec). exact Hg.
  - rewrite !(assoc_set_other Nat.eqb neqb_spec) by exact Hne. apply H.
Qed.

Lemma pos_indep_set : forall f gs id g,
    (forall id' g', assoc Nat.eqb id' (assoc_set Nat.eqb id g gs) = Some g' -> pos_indep f g').
Proof. intros. apply pos_indep_all. Qed.

(* one step of the repaired reader: the invariant is preserved and the output is
   the pure (history-free) output of the annotated operation *)
Lemma step_spec : forall f env st o,
    wf_file f = true -> InvE f env st ->
    InvE f (env_step env o) (fst (step f st o)) /\
    snd (step f st o) = pure_out f (ann1 env o).
Proof.
  intros f env st o Hwf (Ht & Hc & He & Hp).
  destruct o as [ch i|ch offs len|ch a b c|ch id|id|id]; unfold step; cbn [step_gen env_step ann1 pure_out].
  - destruct (do_index_spec f st ch i Hwf Ht Hc) as (H1 & H2 & H3 & H4).
    split; [|exact H1]. split; [exact H2|]. split; [exact H3|]. rewrite H4. split; assumption.
  - destruct (do_read_spec f st ch offs len Ht) as (H1 & H2 & H3 & H4).
    split; [|exact H1]. split; [exact H2|]. rewrite H3, H4. split; [exact Hc|]. split; assumption.
  - destruct (do_slice_spec f st ch a b c Ht) as (H1 & H2 & H3 & H4).
    split; [|exact H1]. split; [exact H2|]. rewrite H3, H4. split; [exact Hc|]. split; assumption.
  - split; [|reflexivity]. cbn [fst idx cache gens]. split; [exact Ht|]. split; [exact Hc|].
    split; [apply env_ok_set; [exact He|reflexivity]|apply pos_indep_set].
  - split; [|reflexivity]. cbn [fst idx cache gens]. split; [exact Ht|]. split; [exact Hc|].
    split; [apply env_ok_set; [exact He|reflexivity]|apply pos_indep_set].
  - pose proof (He id) as Hid.
    destruct (assoc Nat.eqb id env) as [[k n]|] eqn:Eenv;
      destruct (assoc Nat.eqb id (gens st)) as [g|] eqn:Eg; try contradiction.
    + pose proof (next_gen_det f (idx st) g (pos st) Ht) as Hd.
      destruct (next_gen true f (idx st) g (pos st)) as [[[tbl g'] x] p].
      destruct Hd as [Ht' Hgs]. cbn [fst snd idx cache gens].
      subst g. split.
      * split; [exact Ht'|]. split; [exact Hc|].
        split; [|apply pos_indep_set].
        apply env_ok_set; [exact He|]. cbn [frame_after]. rewrite <- Hgs. reflexivity.
      * cbn [pure_out]. rewrite <- Hgs. reflexivity.
    + split; [|reflexivity]. cbn [fst]. split; [exact Ht|]. split; [exact Hc|]. split; assumption.
Qed.

(* ---- histories ---------------------------------------------------------- *)

Lemma run_spec : forall f ops env st,
    wf_file f = true -> InvE f env st ->
    exists env',
      InvE f env' (fst (run f st ops)) /\
      snd (run f st ops) = map (pure_out f) (annotate_from env ops).
Proof.
  intros f ops. induction ops as [|o r IH]; intros env st Hwf HI.
  - exists env. split; [exact HI|reflexivity].
  - rewrite annotate_cons. unfold run in *. cbn [run_gen].
    destruct (step_spec f env st o Hwf HI) as [HI' Ho]. unfold step in *.
    destruct (step_gen true f st o) as [st1 x]. cbn [fst snd] in *.
    destruct (IH (env_step env o) st1 Hwf HI') as [env' [HI'' Hr]].
    destruct (run_gen true f st1 r) as [st2 xs]. cbn [fst snd] in *.
    exists env'. split; [exact HI''|]. cbn [map]. rewrite Ho, Hr. reflexivity.
Qed.

Lemma run_nexts : forall f n env st id k m,
    wf_file f = true -> InvE f env st -> assoc Nat.eqb id env = Some (k, m) ->
    exists env',
      InvE f env' (fst (run f st (repeat (Next id) n))) /\
      assoc Nat.eqb id env' = Some (k, (m + n)%nat).
Proof.
  intros f n. induction n as [|n IH]; intros env st id k m Hwf HI He.
  - exists env. split; [exact HI|]. rewrite Nat.add_0_r. exact He.
  - cbn [repeat]. unfold run in *. cbn [run_gen].
    destruct (step_spec f env st (Next id) Hwf HI) as [HI' _]. unfold step in *.
    destruct (step_gen true f st (Next id)) as [st1 x]. cbn [fst] in *.
    assert (He' : assoc Nat.eqb id (env_step env (Next id)) = Some (k, S m)).
    { cbn [env_step]. rewrite He. apply (assoc_set_same Nat.eqb neqb_spec). }
    destruct (IH _ st1 id k (S m) Hwf HI' He') as [env' [HI'' He'']].
    destruct (run_gen true f st1 (repeat (Next id) n)) as [st2 xs]. cbn [fst] in *.
    exists env'. split; [exact HI''|]. rewrite He''. f_equal. f_equal. lia.
Qed.

(* what an operation yields on a freshly opened file is its pure output *)
Lemma fresh_pure : forall f a, wf_file f = true -> fresh_out f a = pure_out f a.
Proof.
  intros f a Hwf. destruct a as [o|k n|]; [| |reflexivity].
  - unfold fresh_out. destruct (step_spec f [] init o Hwf (InvE_init f)) as [_ H].
    rewrite H. destruct o; reflexivity.
  - unfold fresh_out.
    set (o0 := new_op k 0%nat).
    change (run f init (o0 :: repeat (Next 0%nat) n))
      with (let '(st1, x) := step f init o0 in
            let '(st2, xs) := run f st1 (repeat (Next 0%nat) n) in (st2, x :: xs)).
    destruct (step_spec f [] init o0 Hwf (InvE_init f)) as [HI1 _].
    destruct (step f init o0) as [st1 x]. cbn [fst] in HI1.
    assert (He : assoc Nat.eqb 0%nat (env_step [] o0) = Some (k, 0%nat)).
    { unfold o0. destruct k; reflexivity. }
    destruct (run_nexts f n _ st1 0%nat k 0%nat Hwf HI1 He) as [env' [HI2 He2]].
    destruct (run f st1 (repeat (Next 0%nat) n)) as [st2 xs]. cbn [fst] in *.
    destruct (step_spec f env' st2 (Next 0%nat) Hwf HI2) as [_ Ho].
    rewrite Ho. cbn [ann1]. rewrite He2. reflexivity.
Qed.

Theorem history_independent_E : forall f ops,
    wf_file f = true ->
    Inv f (fst (run f init ops)) /\
    snd (run f init ops) = map (fresh_out f) (annotate ops).
Proof.
  intros f ops Hwf.
  destruct (run_spec f ops [] init Hwf (InvE_init f)) as [env' [HI Hr]].
  split; [exists env'; exact HI|].
  rewrite Hr. unfold annotate. apply map_ext. intros a. symmetry. apply fresh_pure. exact Hwf.
Qed.

(* ---- the chunk sequence of a fresh generator, against its specification -- *)

Definition nth_or_stop (l : list out) (n : nat) : out :=
  match nth_error l n with Some c => c | None => OStop end.

Lemma tl_skipn : forall {A} n (l : list A), tl (skipn n l) = skipn (S n) l.
Proof.
  induction n as [|n IH]; intros l; destruct l as [|x l].
  - reflexivity.
  - reflexivity.
  - rewrite !skipn_nil. reflexivity.
  - rewrite !skipn_cons. apply IH.
Qed.

Lemma skipn_S_of_cons : forall {A} n (l : list A) x r, skipn n l = x :: r -> skipn (S n) l = r.
Proof. intros A n l x r H. rewrite <- tl_skipn, H. reflexivity. Qed.

Lemma nth_error_of_skipn_cons : forall {A} n (l : list A) x r, skipn n l = x :: r -> nth_error l n = Some x.
Proof.
  intros A n l x r H. pose proof (nth_error_skipn n l 0) as H1. rewrite H in H1. simpl in H1.
  rewrite Nat.add_0_r in H1. symmetry. exact H1.
Qed.

(* a simulation argument: if every step from a frame related to the remaining
   output list l emits the head of l (or StopIteration) and lands in a frame
   related to the tail, then the n-th call on a fresh generator emits l[n] *)
Lemma sim_seq : forall f k (R : gen -> list out -> Prop) L,
    R (new_gen k) L ->
    (forall g l, R g l -> snd (gen_step f g) = nth_or_stop l 0 /\ R (fst (gen_step f g)) (tl l)) ->
    forall n, snd (gen_step f (frame_after f k n)) = nth_or_stop L n.
Proof.
  intros f k R L H0 Hstep n.
  assert (HR : R (frame_after f k n) (skipn n L)).
  { induction n as [|n IH]; [exact H0|]. cbn [frame_after].
    destruct (Hstep _ _ IH) as [_ H]. rewrite tl_skipn in H. exact H. }
  destruct (Hstep _ _ HR) as [H _]. rewrite H. unfold nth_or_stop.
  rewrite nth_error_skipn. rewrite Nat.add_0_r. reflexivity.
Qed.

Lemma chunk_pos_0 : forall s, chunk_pos s 0 = s_data_pos s.
Proof. intros. unfold chunk_pos. simpl. lia. Qed.

Lemma chunk_pos_S : forall s k, chunk_pos s (S k) = chunk_pos s k + chunk_size s.
Proof. intros. unfold chunk_pos. rewrite Nat2Z.inj_succ. lia. Qed.

Lemma sizes_combine : forall objs (c : list (list Z)),
    length c = length objs -> sizes (combine objs c) = fold_right (fun o a => o_size o + a) 0 objs.
Proof.
  induction objs as [|o objs IH]; intros c H; destruct c as [|vs c]; try discriminate; [reflexivity|].
  simpl. rewrite IH by (simpl in H; lia). reflexivity.
Qed.

Lemma combine_map_snd : forall {A B C} (g : B -> C) (a : list A) (b : list B),
    combine a (map g b) = map (fun p => (fst p, g (snd p))) (combine a b).
Proof.
  induction a as [|x a IH]; intros b; [reflexivity|]. destruct b as [|y b]; [reflexivity|].
  simpl. rewrite IH. reflexivity.
Qed.

Lemma combine_map_fst_vals : forall objs (c : list (list Z)),
    map (fun ov => (o_chan (fst ov), Vals (snd ov))) (combine objs c)
    = map (fun cv => (fst cv, Vals (snd cv))) (combine (map o_chan objs) c).
Proof.
  induction objs as [|o objs IH]; intros c; [reflexivity|]. destruct c as [|vs c]; [reflexivity|].
  simpl. rewrite IH. reflexivity.
Qed.

Definition vals_of (c : list (Z * list Z)) : list (Z * data) := map (fun cv => (fst cv, Vals (snd cv))) c.
Definition lens_of (c : list (Z * list Z)) : list (Z * Z) := map (fun cv => (fst cv, Z.of_nat (length (snd cv)))) c.

Lemma lens_vals : forall c, map (fun cd => (fst cd, dlen (snd cd))) (vals_of c) = lens_of c.
Proof. intros c. unfold vals_of, lens_of. rewrite map_map. reflexivity. Qed.

(* file-level generator: frame vs (current offsets, remaining chunks) *)
Definition frel (f : file) (g : fgen) (offs : list (Z * Z)) (rest : list (list (Z * list Z))) : Prop :=
  add_lens (fg_offsets g) (fg_last g) = offs /\
  match fg_phase g with
  | FNew => rest = flat_map seg_file_chunks (f_segs f)
  | FEmptyY si =>
    exists s, nth_error (f_segs f) si = Some s /\ s_raw s = false /\
              rest = flat_map seg_file_chunks (skipn (S si) (f_segs f))
  | FSeg si k saved =>
    exists s, nth_error (f_segs f) si = Some s /\ s_raw s = true /\
              rest = (if s_il s then []
                      else map (fun c => combine (map o_chan (s_objs s)) c) (skipn (S k) (s_chunks s)))
                     ++ flat_map seg_file_chunks (skipn (S si) (f_segs f)) /\
              (s_il s = false -> saved = chunk_pos s (S k))
  | FDone => rest = []
  end.

Definition FR (f : file) (g : gen) (l : list out) : Prop :=
  match g with
  | GFile c => exists offs rest, frel f c offs rest /\ l = file_with_offsets f offs rest
  | GChan _ => False
  end.

(* fg_seg_data on a segment with raw data, under wf: always yields *)
Lemma fg_seg_data_raw : forall f s si p,
    seg_ok f s = true -> s_raw s = true ->
    exists c restc saved,
      seg_file_chunks s = c :: restc /\
      fst (fg_seg_data true f s si p) = Some (FSeg si 0 saved, vals_of c) /\
      restc = (if s_il s then [] else map (fun c => combine (map o_chan (s_objs s)) c) (skipn 1 (s_chunks s))) /\
      (s_il s = false -> saved = chunk_pos s 1).
Proof.
  intros f s si p Hok Hraw.
  destruct (seg_ok_parts f s Hok) as (_ & _ & Hch & Hr). rewrite Hraw in Hr.
  apply andb_prop in Hr. destruct Hr as [Hr1 Hr2].
  unfold seg_file_chunks, fg_seg_data. rewrite Hraw. cbn [negb].
  destruct (s_il s) eqn:Eil.
  - destruct (s_objs s) as [|o objs] eqn:Eo; [discriminate|]. rewrite <- Eo.
    unfold read_il. rewrite chunk_pos_0, Z.eqb_refl. cbn [skipn].
    unfold num_chunks. rewrite firstn_all.
    eexists. exists []. eexists. split; [reflexivity|]. split; [|split; [reflexivity|discriminate]].
    cbn [fst]. unfold vals_of. rewrite <- combine_map_snd. reflexivity.
  - destruct (s_chunks s) as [|c cs] eqn:Ec; [discriminate|].
    assert (Hc : chunk_ok (s_objs s) c = true).
    { rewrite forallb_forall in Hch. apply Hch. left. reflexivity. }
    pose proof (chunk_ok_length _ _ Hc) as Hlen.
    rewrite <- chunk_pos_0. rewrite read_objs_hit. cbn [map skipn].
    exists (combine (map o_chan (s_objs s)) c). eexists. eexists.
    split; [reflexivity|]. split; [|split; [reflexivity|]].
    + cbn [fst]. unfold vals_of. rewrite combine_map_fst_vals. reflexivity.
    + intros _. rewrite chunk_pos_S. rewrite sizes_combine by exact Hlen. reflexivity.
Qed.

Lemma fg_seg_data_noraw : forall f s si p,
    seg_ok f s = true -> s_raw s = false -> fst (fg_seg_data true f s si p) = None.
Proof.
  intros f s si p Hok Hraw.
  destruct (seg_ok_parts f s Hok) as (_ & _ & _ & Hr). rewrite Hraw in Hr.
  apply andb_prop in Hr. destruct Hr as [Hr1 Hr2].
  unfold fg_seg_data.
  destruct (s_objs s); [|discriminate]. destruct (s_chunks s); [|discriminate].
  destruct (s_il s); reflexivity.
Qed.

(* fg_advance from segment si on, under wf: yields the first remaining chunk or stops *)
Lemma fg_advance_spec : forall f si p,
    wf_file f = true ->
    match flat_map seg_file_chunks (skipn si (f_segs f)) with
    | [] => fst (fg_advance true f (skipn si (f_segs f)) si p) = None
    | c :: rest =>
      exists ph, fst (fg_advance true f (skipn si (f_segs f)) si p) = Some (ph, vals_of c) /\
                 forall offsets last offs, add_lens offsets last = offs ->
                                      frel f (mkFg ph offsets last) offs rest
    end.
Proof.
  intros f si p Hwf.
  destruct (skipn si (f_segs f)) as [|s r] eqn:Esk; [reflexivity|].
  pose proof (nth_error_of_skipn_cons _ _ _ _ Esk) as Hnth.
  pose proof (skipn_S_of_cons _ _ _ _ Esk) as Hr.
  pose proof (wf_seg f s Hwf (nth_error_In _ _ Hnth)) as Hok.
  cbn [flat_map fg_advance].
  destruct (s_raw s) eqn:Eraw; cbn [negb].
  - destruct (fg_seg_data_raw f s si (verify_segment_start s p) Hok Eraw)
      as (c & restc & saved & Hc & Hd & Hrc & Hs).
    rewrite Hc. cbn [app].
    destruct (fg_seg_data true f s si (verify_segment_start s p)) as [y q]. cbn [fst] in Hd. subst y.
    exists (FSeg si 0 saved). split; [reflexivity|].
    intros offsets last offs Ha. split; [exact Ha|]. cbn [fg_phase].
    exists s. split; [exact Hnth|]. split; [exact Eraw|]. rewrite Hr, Hrc. split; [reflexivity|exact Hs].
  - unfold seg_file_chunks at 1. rewrite Eraw. cbn [negb app].
    exists (FEmptyY si). split; [reflexivity|].
    intros offsets last offs Ha. split; [exact Ha|]. cbn [fg_phase].
    exists s. split; [exact Hnth|]. split; [exact Eraw|]. rewrite Hr. reflexivity.
Qed.

Lemma fg_finish_step : forall f offs rest r,
    match rest with
    | [] => fst r = None
    | c :: rest' =>
      exists ph, fst r = Some (ph, vals_of c) /\
                 forall offsets last offs', add_lens offsets last = offs' ->
                                       frel f (mkFg ph offsets last) offs' rest'
    end ->
    let '(g', o, _) := fg_finish f offs r in
    o = nth_or_stop (file_with_offsets f offs rest) 0 /\
    FR f (GFile g') (tl (file_with_offsets f offs rest)).
Proof.
  intros f offs rest [y p] H. unfold fg_finish. destruct rest as [|c rest'].
  - cbn [fst] in H. subst y. split; [reflexivity|].
    exists offs, []. split; [|reflexivity]. split; reflexivity.
  - destruct H as [ph [Hy Hf]]. cbn [fst] in Hy. subst y.
    split; [reflexivity|]. cbn [file_with_offsets tl].
    exists (add_lens offs (lens_of c)), rest'. split; [|reflexivity].
    apply Hf. rewrite lens_vals. reflexivity.
Qed.

Lemma file_step : forall f g l,
    wf_file f = true -> FR f g l ->
    snd (gen_step f g) = nth_or_stop l 0 /\ FR f (fst (gen_step f g)) (tl l).
Proof.
  intros f g l Hwf H. destruct g as [c|c]; [contradiction|].
  destruct H as (offs & rest & [Ha Hph] & Hl). subst l.
  unfold gen_step, next_gen, next_file. rewrite Ha.
  destruct (fg_phase c) as [|si|si k saved|] eqn:Eph.
  - (* FNew *)
    subst rest. pose proof (fg_advance_spec f 0 0 Hwf) as Hadv. cbn [skipn] in Hadv.
    pose proof (fg_finish_step f offs _ (fg_advance true f (f_segs f) 0 0) Hadv) as Hf.
    destruct (fg_finish f offs (fg_advance true f (f_segs f) 0 0)) as [[g' o] q]. exact Hf.
  - (* FEmptyY *)
    destruct Hph as (s & Hnth & Hraw & Hrest). rewrite Hnth.
    pose proof (wf_seg f s Hwf (nth_error_In _ _ Hnth)) as Hok.
    pose proof (fg_seg_data_noraw f s si 0 Hok Hraw) as Hn.
    destruct (fg_seg_data true f s si 0) as [y q]. cbn [fst] in Hn. subst y.
    subst rest. pose proof (fg_advance_spec f (S si) q Hwf) as Hadv.
    pose proof (fg_finish_step f offs _ _ Hadv) as Hf.
    destruct (fg_finish f offs (fg_advance true f (skipn (S si) (f_segs f)) (S si) q)) as [[g' o] q']. exact Hf.
  - (* FSeg *)
    destruct Hph as (s & Hnth & Hraw & Hrest & Hsaved). rewrite Hnth.
    pose proof (wf_seg f s Hwf (nth_error_In _ _ Hnth)) as Hok.
    destruct (s_il s) eqn:Eil.
    + cbn [app] in Hrest. subst rest.
      pose proof (fg_advance_spec f (S si) saved Hwf) as Hadv.
      pose proof (fg_finish_step f offs _ _ Hadv) as Hf.
      destruct (fg_finish f offs (fg_advance true f (skipn (S si) (f_segs f)) (S si) saved)) as [[g' o] q']. exact Hf.
    + specialize (Hsaved eq_refl). subst saved.
      destruct (nth_error (s_chunks s) (S k)) as [ck|] eqn:Eck.
      * rewrite (skipn_nth_error_cons _ _ _ Eck) in Hrest. cbn [map app] in Hrest. subst rest.
        pose proof (seg_ok_chunk f s ck Hok (nth_error_In _ _ Eck)) as Hc.
        pose proof (chunk_ok_length _ _ Hc) as Hlen.
        rewrite read_objs_hit.
        match goal with |- context [fg_finish f offs ?r] =>
          pose proof (fg_finish_step f offs
            (combine (map o_chan (s_objs s)) ck :: map (fun c => combine (map o_chan (s_objs s)) c) (skipn (S (S k)) (s_chunks s))
             ++ flat_map seg_file_chunks (skipn (S si) (f_segs f))) r) as Hf;
          destruct (fg_finish f offs r) as [[g' o] q'] end.
        apply Hf. eexists. split.
        -- cbn [fst]. unfold vals_of. rewrite combine_map_fst_vals. reflexivity.
        -- intros offsets last offs' Ha'. split; [exact Ha'|]. cbn [fg_phase].
           exists s. split; [exact Hnth|]. split; [exact Hraw|]. rewrite Eil. split; [reflexivity|].
           intros _. rewrite (chunk_pos_S s (S k)). rewrite sizes_combine by exact Hlen. reflexivity.
      * assert (Hsk : skipn (S k) (s_chunks s) = []).
        { apply skipn_all2. apply nth_error_None. exact Eck. }
        rewrite Hsk in Hrest. cbn [map app] in Hrest. subst rest.
        pose proof (fg_advance_spec f (S si) (chunk_pos s (S k)) Hwf) as Hadv.
        pose proof (fg_finish_step f offs _ _ Hadv) as Hf.
        destruct (fg_finish f offs (fg_advance true f (skipn (S si) (f_segs f)) (S si) (chunk_pos s (S k)))) as [[g' o] q']. exact Hf.
  - (* FDone *)
    subst rest. cbn [fst snd]. split; [reflexivity|].
    exists offs, []. split; [|reflexivity]. split; [exact Ha|]. rewrite Eph. reflexivity.
Qed.

Lemma file_seq_spec : forall f n,
    wf_file f = true ->
    snd (gen_step f (frame_after f KFile n)) = nth_or_stop (file_gen_chunks f) n.
Proof.
  intros f n Hwf. apply (sim_seq f KFile (FR f)).
  - exists [], (flat_map seg_file_chunks (f_segs f)). split; [|reflexivity]. split; reflexivity.
  - intros g l H. apply file_step; assumption.
Qed.

(* ---- channel-level generator -------------------------------------------- *)

Definition Estart (f : file) (ch : Z) : nat :=
  (fst (build_index f ch) + ss_right (snd (build_index f ch)) 0)%nat.
Definition Eend (f : file) (ch : Z) : nat :=
  (fst (build_index f ch) + ss_left (snd (build_index f ch)) (chan_len f ch))%nat.

Lemma zero_chunks : forall f s ch, seg_ok f s = true -> seg_num_values s ch = 0 -> seg_chan_chunks s ch = [].
Proof.
  intros f s ch Hok H0. unfold seg_num_values in H0. unfold seg_chan_chunks.
  destruct (seg_obj s ch) as [o|] eqn:Eo; [|reflexivity]. exfalso.
  destruct (seg_ok_obj f s ch o Hok Eo) as (Hnv & _ & Hin & _).
  assert (Hne : s_objs s <> []) by (destruct (s_objs s); [contradiction|discriminate]).
  destruct (seg_ok_raw f s Hok Hne) as [_ Hc]. unfold num_chunks in H0.
  destruct (s_chunks s); [contradiction|]. simpl length in H0. nia.
Qed.

Lemma all_zero : forall l, nonneg l -> sumz l = 0 -> Forall (fun x => x = 0) l.
Proof.
  induction 1 as [|x l Hx Hl IH]; intros Hs; [constructor|].
  rewrite sumz_cons in Hs. pose proof (sumz_nonneg l Hl). constructor; [lia|apply IH; lia].
Qed.

Lemma flat_map_zero : forall f ch l,
    (forall s, In s l -> seg_ok f s = true) ->
    Forall (fun x => x = 0) (map (fun s => seg_num_values s ch) l) ->
    flat_map (fun s => seg_chan_chunks s ch) l = [].
Proof.
  induction l as [|s l IH]; intros Hok Hz; [reflexivity|].
  inversion Hz; subst. cbn [flat_map]. rewrite (zero_chunks f s ch); [|apply Hok; left; reflexivity|assumption].
  apply IH; [intros s' Hs'; apply Hok; right; exact Hs'|assumption].
Qed.

Lemma in_firstn : forall {A} n (l : list A) x, In x (firstn n l) -> In x l.
Proof. intros A n l x H. rewrite <- (firstn_skipn n l). apply in_or_app. left. exact H. Qed.
Lemma in_skipn : forall {A} n (l : list A) x, In x (skipn n l) -> In x l.
Proof. intros A n l x H. rewrite <- (firstn_skipn n l). apply in_or_app. right. exact H. Qed.

Lemma bounds_spec : forall f ch, wf_file f = true ->
    flat_map (fun s => seg_chan_chunks s ch) (firstn (Estart f ch) (f_segs f)) = [] /\
    flat_map (fun s => seg_chan_chunks s ch) (skipn (S (Eend f ch)) (f_segs f)) = [].
Proof.
  intros f ch Hwf. pose proof (seg_nums_nonneg f ch Hwf) as Hnn.
  assert (Hall0 : sumz (seg_nums f ch) = 0 ->
                  forall l, (forall s, In s l -> In s (f_segs f)) ->
                            flat_map (fun s => seg_chan_chunks s ch) l = []).
  { intros H0 l Hl. apply (flat_map_zero f).
    - intros s Hs. apply wf_seg; [exact Hwf|apply Hl; exact Hs].
    - apply Forall_forall. intros x Hx. apply in_map_iff in Hx. destruct Hx as [s [Hs Hin]].
      pose proof (all_zero _ Hnn H0) as Hz. rewrite Forall_forall in Hz. apply Hz.
      unfold seg_nums. apply in_map_iff. exists s. split; [exact Hs|apply Hl; exact Hin]. }
  unfold Estart, Eend, build_index.
  destruct (first_pos (seg_nums f ch)) as [a|] eqn:Ea.
  2:{ pose proof (first_pos_none _ Hnn Ea) as H0.
      split; apply (Hall0 H0); intros s Hs; [eapply in_firstn|eapply in_skipn]; exact Hs. }
  destruct (last_pos (seg_nums f ch)) as [b|] eqn:Eb.
  2:{ pose proof (last_pos_none _ Hnn Eb) as H0.
      split; apply (Hall0 H0); intros s Hs; [eapply in_firstn|eapply in_skipn]; exact Hs. }
  cbn [fst snd].
  destruct (first_pos_spec _ a Hnn Ea) as [Ha1 [Ha2 _]].
  destruct (last_pos_spec _ b Hnn Eb) as [Hb1 [Hb2 _]].
  destruct (mid_facts _ a b Hnn Ea Eb) as [Hab [Hsum [Hlen [Hnth [Hlast [x [Hx0 Hxpos]]]]]]].
  set (mid := firstn (S b - a) (skipn a (seg_nums f ch))) in *.
  assert (Hmnn : nonneg mid) by (apply nonneg_firstn, nonneg_skipn, Hnn).
  assert (Hs : ss_right (cumsum 0 mid) 0 = 0%nat).
  { destruct mid as [|y r]; [reflexivity|]. simpl in Hx0. inversion Hx0; subst y.
    change (cumsum 0 (x :: r)) with ((0 + x) :: cumsum (0 + x) r).
    change (ss_right ((0 + x) :: cumsum (0 + x) r) 0)
      with (if 0 + x <=? 0 then S (ss_right (cumsum (0 + x) r) 0) else 0%nat).
    destruct (0 + x <=? 0) eqn:E; [lia|reflexivity]. }
  assert (He : ss_left (cumsum 0 mid) (chan_len f ch) = (b - a)%nat).
  { rewrite chan_len_sumz, <- Hsum. change (sumz mid) with (0 + sumz mid).
    rewrite (ss_left_total mid 0 Hmnn Hlast). lia. }
  rewrite Hs, He. replace (a + 0)%nat with a by lia. replace (a + (b - a))%nat with b by lia.
  split.
  - apply (flat_map_zero f).
    + intros s Hin. apply wf_seg; [exact Hwf|eapply in_firstn; exact Hin].
    + rewrite <- firstn_map. apply all_zero; [apply nonneg_firstn; exact Hnn|exact Ha2].
  - apply (flat_map_zero f).
    + intros s Hin. apply wf_seg; [exact Hwf|eapply in_skipn; exact Hin].
    + rewrite <- skipn_map. apply all_zero; [apply nonneg_skipn; exact Hnn|exact Hb2].
Qed.

Lemma flat_map_skipn_nil : forall {A B} (g : A -> list B) n l, flat_map g l = [] -> flat_map g (skipn n l) = [].
Proof.
  intros A B g n. induction n as [|n IH]; intros l H; [exact H|].
  destruct l as [|x l]; [reflexivity|]. cbn [skipn]. apply IH.
  cbn [flat_map] in H. apply app_eq_nil in H. tauto.
Qed.

Lemma assoc_map_vals : forall ch (chans : list Z) (cols : list (list Z)),
    odata (assoc Z.eqb ch (combine chans (map Vals cols))) = Vals (ovals (assoc Z.eqb ch (combine chans cols))).
Proof.
  induction chans as [|c chans IH]; intros cols; [reflexivity|].
  destruct cols as [|v cols]; [reflexivity|]. simpl. destruct (ch =? c); [reflexivity|apply IH].
Qed.

Definition crest (s : seg) (ch : Z) (k : nat) (si : nat) (f : file) : list (list Z) :=
  (if s_il s then [] else map (fun c => chunk_chan_vals (s_objs s) c ch) (skipn (S k) (s_chunks s)))
  ++ flat_map (fun s => seg_chan_chunks s ch) (skipn (S si) (f_segs f)).

(* the segment loop from segment si on, under wf: the first remaining chunk of the channel or stop *)
Lemma cg_advance_spec : forall f ch E segs' si p,
    wf_file f = true ->
    segs' = skipn si (f_segs f) ->
    flat_map (fun s => seg_chan_chunks s ch) (skipn (S E) (f_segs f)) = [] ->
    match flat_map (fun s => seg_chan_chunks s ch) segs' with
    | [] => fst (cg_advance f ch segs' si E p) = None
    | vs :: rest =>
      exists si' s o d,
        fst (cg_advance f ch segs' si E p) = Some (si', s_data_pos s, d) /\ odata d = Vals vs /\
        nth_error (f_segs f) si' = Some s /\ seg_obj s ch = Some o /\ rest = crest s ch 0 si' f
    end.
Proof.
  intros f ch E segs'. induction segs' as [|s r IH]; intros si p Hwf Hsk HE; [reflexivity|].
  symmetry in Hsk.
  pose proof (nth_error_of_skipn_cons _ _ _ _ Hsk) as Hnth.
  pose proof (skipn_S_of_cons _ _ _ _ Hsk) as Hr.
  pose proof (wf_seg f s Hwf (nth_error_In _ _ Hnth)) as Hok.
  cbn [cg_advance].
  destruct (E <? si)%nat eqn:Elt.
  - apply Nat.ltb_lt in Elt.
    assert (Hnil : flat_map (fun s => seg_chan_chunks s ch) (s :: r) = []).
    { rewrite <- Hsk. replace si with ((si - S E) + S E)%nat by lia. rewrite <- skipn_skipn.
      apply flat_map_skipn_nil. exact HE. }
    rewrite Hnil. reflexivity.
  - cbn [flat_map]. unfold seg_chan_chunks at 1.
    destruct (seg_obj s ch) as [o|] eqn:Eo.
    2:{ cbn [app]. apply IH; [exact Hwf|symmetry; exact Hr|exact HE]. }
    destruct (seg_ok_obj f s ch o Hok Eo) as (Hnv & _ & Hin & _).
    destruct (o_nvals o =? 0) eqn:E0; [lia|].
    assert (Hne : s_objs s <> []) by (destruct (s_objs s); [contradiction|discriminate]).
    destruct (seg_ok_raw f s Hok Hne) as [_ Hc].
    destruct (s_il s) eqn:Eil.
    + unfold read_il. rewrite chunk_pos_0, Z.eqb_refl. cbn [skipn app]. unfold num_chunks. rewrite firstn_all.
      exists si, s, o. eexists. split; [reflexivity|]. split; [apply assoc_map_vals|].
      split; [exact Hnth|]. split; [exact Eo|]. unfold crest. rewrite Eil, Hr. reflexivity.
    + destruct (s_chunks s) as [|c cs] eqn:Ec; [contradiction|].
      assert (Hck : chunk_ok (s_objs s) c = true).
      { apply (seg_ok_chunk f s c Hok). rewrite Ec. left. reflexivity. }
      destruct (find_combine ch (s_objs s) c o Eo (chunk_ok_length _ _ Hck)) as [vs Hf].
      cbn [map app]. rewrite <- chunk_pos_0.
      pose proof (chan_walk_hit f ch (combine (s_objs s) c) (chunk_pos s 0) (chunk_pos s 0) o vs Hf) as Hw.
      destruct (chan_walk f (chunk_pos s 0) (combine (s_objs s) c) ch (chunk_pos s 0) (chunk_pos s 0)) as [d q].
      cbn [fst] in Hw. subst d.
      assert (Hv : chunk_chan_vals (s_objs s) c ch = vs) by (unfold chunk_chan_vals; rewrite Hf; reflexivity).
      rewrite Hv. exists si, s, o, (Some (Vals vs)). split; [rewrite chunk_pos_0; reflexivity|].
      split; [reflexivity|]. split; [exact Hnth|]. split; [exact Eo|].
      unfold crest. rewrite Eil, Ec, Hr. reflexivity.
Qed.

Definition crel (f : file) (ch : Z) (g : cgen) (offs : Z) (rest : list (list Z)) : Prop :=
  cg_chan g = ch /\
  match cg_phase g with
  | CNew => offs = 0 /\ rest = flat_map (fun s => seg_chan_chunks s ch) (f_segs f)
  | CSeg si k ip =>
    cg_offset g + cg_last g = offs /\ cg_end g = Eend f ch /\
    exists s o, nth_error (f_segs f) si = Some s /\ seg_obj s ch = Some o /\ ip = s_data_pos s /\
                rest = crest s ch k si f
  | CDone => rest = []
  end.

Definition CR (f : file) (g : gen) (l : list out) : Prop :=
  match g with
  | GChan c => exists offs rest, crel f (cg_chan c) c offs rest /\ l = with_offsets offs rest
  | GFile _ => False
  end.

Lemma cg_finish_step : forall f g offs rest r,
    match rest with
    | [] => fst r = None
    | vs :: rest' =>
      exists si' s o d,
        fst r = Some (si', s_data_pos s, d) /\ odata d = Vals vs /\
        nth_error (f_segs f) si' = Some s /\ seg_obj s (cg_chan g) = Some o /\
        rest' = crest s (cg_chan g) 0 si' f
    end ->
    let '(g', o, _) := cg_finish g offs (Eend f (cg_chan g)) 0 r in
    o = nth_or_stop (with_offsets offs rest) 0 /\
    CR f (GChan g') (tl (with_offsets offs rest)).
Proof.
  intros f g offs rest [y p] H. unfold cg_finish. destruct rest as [|vs rest'].
  - cbn [fst] in H. subst y. split; [reflexivity|].
    exists offs, []. split; [|reflexivity]. split; reflexivity.
  - destruct H as (si' & s & o & d & Hy & Hd & Hnth & Ho & Hr). cbn [fst] in Hy. subst y.
    rewrite Hd. split; [reflexivity|]. cbn [with_offsets tl cg_chan].
    exists (offs + Z.of_nat (length vs)), rest'. split; [|reflexivity].
    split; [reflexivity|]. cbn [cg_phase cg_offset cg_last cg_end cg_chan dlen].
    split; [reflexivity|]. split; [reflexivity|]. exists s, o. auto.
Qed.

Lemma resume_pos : forall s k, s_data_pos s + (Z.of_nat k + 1) * chunk_size s = chunk_pos s (S k).
Proof. intros. unfold chunk_pos. rewrite Nat2Z.inj_succ. lia. Qed.

Lemma chan_step : forall f g l,
    wf_file f = true -> CR f g l ->
    snd (gen_step f g) = nth_or_stop l 0 /\ CR f (fst (gen_step f g)) (tl l).
Proof.
  intros f g l Hwf H. destruct g as [c|c]; [|contradiction].
  destruct H as (offs & rest & [_ Hph] & Hl). subst l.
  set (ch := cg_chan c) in *.
  destruct (bounds_spec f ch Hwf) as [Hb1 Hb2].
  unfold gen_step, next_gen, next_chan. fold ch.
  destruct (cg_phase c) as [|si k ip|] eqn:Eph.
  - (* CNew *)
    destruct Hph as [Ho Hrest]. subst offs.
    unfold ensure_index. cbn [assoc].
    pose proof (cg_advance_spec f ch (Eend f ch) (skipn (Estart f ch) (f_segs f)) (Estart f ch) 0
                                Hwf eq_refl Hb2) as Hadv.
    assert (Hfl : flat_map (fun s => seg_chan_chunks s ch) (skipn (Estart f ch) (f_segs f)) = rest).
    { rewrite Hrest. rewrite <- (firstn_skipn (Estart f ch) (f_segs f)) at 2.
      rewrite flat_map_app, Hb1. reflexivity. }
    rewrite Hfl in Hadv.
    pose proof (cg_finish_step f c 0 rest _ Hadv) as Hf. fold ch in Hf.
    unfold Estart, Eend in Hf.
    destruct (build_index f ch) as [first ofs]. cbn [fst snd] in Hf.
    match goal with |- context [cg_finish ?a ?b ?e ?d ?r] => destruct (cg_finish a b e d r) as [[g' o] q] end.
    exact Hf.
  - (* CSeg *)
    destruct Hph as (Hoffs & Hend & s & o & Hnth & Ho & Hip & Hrest). rewrite Hnth, Hoffs.
    pose proof (wf_seg f s Hwf (nth_error_In _ _ Hnth)) as Hok.
    subst ip. rewrite resume_pos.
    destruct (s_il s) eqn:Eil.
    + unfold crest in Hrest. rewrite Eil in Hrest. cbn [app] in Hrest.
      pose proof (cg_advance_spec f ch (Eend f ch) (skipn (S si) (f_segs f)) (S si) (chunk_pos s (S k))
                                  Hwf eq_refl Hb2) as Hadv.
      rewrite <- Hrest in Hadv.
      pose proof (cg_finish_step f c offs rest _ Hadv) as Hf. fold ch in Hf. rewrite <- Hend in Hf.
      match goal with |- context [cg_finish ?a ?b ?e ?d ?r] => destruct (cg_finish a b e d r) as [[g' o'] q] end.
      exact Hf.
    + destruct (nth_error (s_chunks s) (S k)) as [ck|] eqn:Eck.
      * unfold crest in Hrest. rewrite Eil, (skipn_nth_error_cons _ _ _ Eck) in Hrest. cbn [map app] in Hrest.
        pose proof (seg_ok_chunk f s ck Hok (nth_error_In _ _ Eck)) as Hck.
        destruct (find_combine ch (s_objs s) ck o Ho (chunk_ok_length _ _ Hck)) as [vs Hf].
        pose proof (chan_walk_hit f ch (combine (s_objs s) ck) (chunk_pos s (S k)) (chunk_pos s (S k)) o vs Hf) as Hw.
        destruct (chan_walk f (chunk_pos s (S k)) (combine (s_objs s) ck) ch (chunk_pos s (S k)) (chunk_pos s (S k))) as [d q].
        cbn [fst] in Hw. subst d.
        assert (Hv : chunk_chan_vals (s_objs s) ck ch = vs) by (unfold chunk_chan_vals; rewrite Hf; reflexivity).
        rewrite Hv in Hrest. subst rest. cbn [fst snd odata with_offsets tl dlen].
        split; [reflexivity|].
        eexists. eexists. split; [|reflexivity].
        split; [reflexivity|]. cbn [cg_phase cg_offset cg_last cg_end cg_chan].
        split; [reflexivity|]. split; [exact Hend|]. exists s, o.
        split; [exact Hnth|]. split; [exact Ho|]. split; [reflexivity|].
        unfold crest. rewrite Eil. reflexivity.
      * assert (Hsk : skipn (S k) (s_chunks s) = []).
        { apply skipn_all2. apply nth_error_None. exact Eck. }
        unfold crest in Hrest. rewrite Eil, Hsk in Hrest. cbn [map app] in Hrest.
        pose proof (cg_advance_spec f ch (Eend f ch) (skipn (S si) (f_segs f)) (S si) (chunk_pos s (S k))
                                    Hwf eq_refl Hb2) as Hadv.
        rewrite <- Hrest in Hadv.
        pose proof (cg_finish_step f c offs rest _ Hadv) as Hf. fold ch in Hf. rewrite <- Hend in Hf.
        match goal with |- context [cg_finish ?a ?b ?e ?d ?r] => destruct (cg_finish a b e d r) as [[g' o'] q] end.
        exact Hf.
  - (* CDone *)
    subst rest. cbn [fst snd]. split; [reflexivity|].
    exists offs, []. split; [|reflexivity]. split; [reflexivity|]. rewrite Eph. reflexivity.
Qed.

Lemma chan_seq_spec : forall f ch n,
    wf_file f = true ->
    snd (gen_step f (frame_after f (KChan ch) n)) = nth_or_stop (chan_gen_chunks f ch) n.
Proof.
  intros f ch n Hwf. apply (sim_seq f (KChan ch) (CR f)).
  - exists 0, (flat_map (fun s => seg_chan_chunks s ch) (f_segs f)). split; [|reflexivity].
    split; [reflexivity|]. split; reflexivity.
  - intros g l H. apply chan_step; assumption.
Qed.

(* the n-th call of next() on a fresh generator yields the n-th chunk of the
   specification, StopIteration from the end of the list on *)
Lemma fresh_seq_spec : forall f k n,
    wf_file f = true -> fresh_out f (ANext k n) = nth_or_stop (gen_chunks f k) n.
Proof.
  intros f k n Hwf. rewrite fresh_pure by exact Hwf. cbn [pure_out].
  destruct k as [ch|]; [apply chan_seq_spec|apply file_seq_spec]; exact Hwf.
Qed.

(* ---- everything a generator delivers over a history --------------------- *)

Definition seq_outs (f : file) (k : gkind) (n : nat) : list out :=
  map (fun j => pure_out f (ANext k j)) (seq 0 n).

Definition acc_of (f : file) (id : nat) (env : genv) : option (list out) :=
  match assoc Nat.eqb id env with
  | Some (k, m) => Some (seq_outs f k m)
  | None => None
  end.

Lemma gen_outs_spec : forall f id ops env,
    gen_outs id ops (map (pure_out f) (annotate_from env ops)) (acc_of f id env)
    = acc_of f id (fold_left env_step ops env).
Proof.
  intros f id ops. induction ops as [|o r IH]; intros env; [reflexivity|].
  rewrite annotate_cons. cbn [map gen_outs fold_left].
  destruct o as [ch i|ch offs len|ch a b c|ch id'|id'|id']; try apply IH.
  - cbn [env_step]. rewrite <- IH. f_equal. unfold acc_of.
    destruct (Nat.eq_dec id id') as [->|Hne].
    + rewrite Nat.eqb_refl, (assoc_set_same Nat.eqb neqb_spec). reflexivity.
    + rewrite (eqb_neq Nat.eqb neqb_spec _ _ Hne), (assoc_set_other Nat.eqb neqb_spec) by exact Hne. reflexivity.
  - cbn [env_step]. rewrite <- IH. f_equal. unfold acc_of.
    destruct (Nat.eq_dec id id') as [->|Hne].
    + rewrite Nat.eqb_refl, (assoc_set_same Nat.eqb neqb_spec). reflexivity.
    + rewrite (eqb_neq Nat.eqb neqb_spec _ _ Hne), (assoc_set_other Nat.eqb neqb_spec) by exact Hne. reflexivity.
  - cbn [env_step ann1]. rewrite <- IH. f_equal. unfold acc_of.
    destruct (Nat.eq_dec id id') as [->|Hne].
    + rewrite Nat.eqb_refl. destruct (assoc Nat.eqb id' env) as [[k m]|] eqn:E.
      * rewrite (assoc_set_same Nat.eqb neqb_spec). cbn [option_map]. f_equal.
        unfold seq_outs. rewrite seq_S, map_app. reflexivity.
      * rewrite E. reflexivity.
    + rewrite (eqb_neq Nat.eqb neqb_spec _ _ Hne).
      destruct (assoc Nat.eqb id' env) as [[k m]|] eqn:E; [|reflexivity].
      rewrite (assoc_set_other Nat.eqb neqb_spec) by exact Hne. reflexivity.
Qed.

Lemma map_nth_prefix : forall l pre,
    map (nth_or_stop (pre ++ l)) (seq (length pre) (length l)) = l.
Proof.
  induction l as [|x l IH]; intros pre; [reflexivity|]. cbn [length seq map]. f_equal.
  - unfold nth_or_stop. rewrite nth_error_app2 by lia. rewrite Nat.sub_diag. reflexivity.
  - specialize (IH (pre ++ [x])). rewrite <- app_assoc in IH. cbn [app] in IH.
    rewrite app_length in IH. cbn [length] in IH. rewrite Nat.add_1_r in IH. exact IH.
Qed.

Lemma map_nth_stop : forall l m a,
    (length l <= a)%nat -> map (nth_or_stop l) (seq a m) = repeat OStop m.
Proof.
  intros l m. induction m as [|m IH]; intros a Ha; [reflexivity|]. cbn [seq map repeat]. f_equal.
  - unfold nth_or_stop. replace (nth_error l a) with (@None out); [reflexivity|].
    symmetry. apply nth_error_None. exact Ha.
  - apply IH. lia.
Qed.

Lemma seq_outs_split : forall l m,
    map (nth_or_stop l) (seq 0 (length l + m)) = l ++ repeat OStop m.
Proof.
  intros l m. rewrite seq_app, map_app. f_equal.
  - apply (map_nth_prefix l []).
  - apply map_nth_stop. lia.
Qed.

Lemma seq_outs_chunks : forall f k n, wf_file f = true ->
    seq_outs f k n = map (nth_or_stop (gen_chunks f k)) (seq 0 n).
Proof.
  intros f k n Hwf. unfold seq_outs. apply map_ext. intros j.
  rewrite <- fresh_pure by exact Hwf. apply fresh_seq_spec. exact Hwf.
Qed.

(* everything generator [id] delivered during ANY history: the first n entries
   of its chunk list on a fresh file followed by StopIteration for ever, where n
   is the number of next() calls it received *)
Theorem generators_prefix : forall f ops id k n,
    wf_file f = true ->
    assoc Nat.eqb id (final_env ops) = Some (k, n) ->
    gen_outs id ops (snd (run f init ops)) None
    = Some (map (nth_or_stop (gen_chunks f k)) (seq 0 n)).
Proof.
  intros f ops id k n Hwf He.
  destruct (run_spec f ops [] init Hwf (InvE_init f)) as [env' [_ Hr]]. rewrite Hr.
  change (@None (list out)) with (acc_of f id []).
  rewrite gen_outs_spec. unfold acc_of. unfold final_env in He. rewrite He.
  rewrite seq_outs_chunks by exact Hwf. reflexivity.
Qed.

Lemma chunk_not_stop : forall f k, ~ In OStop (gen_chunks f k).
Proof.
  intros f k H. destruct k as [ch|]; cbn [gen_chunks] in H.
  - unfold chan_gen_chunks in H. generalize dependent 0.
    induction (flat_map (fun s => seg_chan_chunks s ch) (f_segs f)) as [|vs l IH]; intros z H; [exact H|].
    cbn [with_offsets] in H. destruct H as [H|H]; [discriminate|]. apply (IH _ H).
  - unfold file_gen_chunks in H. generalize dependent (@nil (Z * Z)).
    induction (flat_map seg_file_chunks (f_segs f)) as [|c l IH]; intros offs H; [exact H|].
    cbn [file_with_offsets] in H. destruct H as [H|H]; [discriminate|]. apply (IH _ H).
Qed.

(* a generator driven to exhaustion (some next() raised StopIteration) has
   delivered exactly its chunk list on a fresh file, whatever else happened in between *)
Theorem generators_complete_E : forall f ops id k n,
    wf_file f = true ->
    assoc Nat.eqb id (final_env ops) = Some (k, n) ->
    forall l, gen_outs id ops (snd (run f init ops)) None = Some l ->
    In OStop l ->
    exists m, l = gen_chunks f k ++ repeat OStop (S m).
Proof.
  intros f ops id k n Hwf He l Hl Hin.
  rewrite (generators_prefix f ops id k n Hwf He) in Hl. inversion Hl; subst l. clear Hl.
  destruct (le_lt_dec n (length (gen_chunks f k))) as [Hle|Hlt].
  - exfalso. apply in_map_iff in Hin. destruct Hin as [j [Hj Hjn]]. apply in_seq in Hjn.
    unfold nth_or_stop in Hj.
    destruct (nth_error (gen_chunks f k) j) as [c|] eqn:E.
    + subst c. apply nth_error_In in E. exact (chunk_not_stop f k E).
    + apply nth_error_None in E. lia.
  - exists (n - length (gen_chunks f k) - 1)%nat.
    replace n with (length (gen_chunks f k) + S (n - length (gen_chunks f k) - 1))%nat at 1 by lia.
    apply seq_outs_split.
Qed.
