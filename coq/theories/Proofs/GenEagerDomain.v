(* GenEagerDomain -- the reader-domain hypothesis [segs_data_ok] of Props/C01_gen5.v / C01_gen6.v, clause by clause, for the
   segments the metadata pass records on a serialised well-formed file (statements: Props/C01_gen7.v).
   Part I: every clause except the UTF-8 one from seg_at / seg_encodes, up to ONE residue (empty_contig_ok: data type and value
   count of the data objects of a contiguous segment without chunk), which is shown NOT derivable (segs_data_ok_of_wf_refuted).
   Part II: the domain weakened for such segments (seg_data_ok0), the consumers of segs_data_ok re-proved over it, and the
   composition tdmsfile_read_data_ser_utf8 with the UTF-8 hypothesis only. *)
From Coq Require Import String Ascii.
From Coq Require Import ZArith List Bool Lia ZifyBool.
From Coq Require Import Init.Byte.
Import ListNotations.
From NpTdms Require Import Base.Bytes Base.Res Base.PySlice Model.Tokens Model.SegState Model.Layout Model.Reader
     Gen.TypeTable Gen.PyFuncsReader Gen.PyFuncsDecode Gen.PyFuncsDaqmxRead Gen.PyFuncsDaqmxLoop Gen.PyFuncsEagerLoop
     Proofs.SegStateProofs Proofs.LayoutProofs Proofs.DaqmxProofs Proofs.GenReaderEquiv Proofs.GenDecodeEquiv
     Proofs.GenDecodeRecv Proofs.GenDecodeTransport Proofs.GenDaqmxEquiv Proofs.GenDaqmxLoopEquiv Proofs.ReadCorrect
     Proofs.GenEagerEquiv Proofs.GenEagerFits Model.FileSyn Proofs.FileSynProofs Model.TokensWf Proofs.TokensRoundtrip.
Local Open Scope Z_scope.
Ltac Zify.zify_post_hook ::= Z.to_euclidean_division_equations.

(* ---- clauses 1, 2: positions; and what the reader sees from the data position on ------------------------------------------- *)

Lemma seg_at_positions pre s rest g :
  wf_fseg s = true -> seg_at (blen pre) s g ->
  0 <= sg_pos g /\ 0 <= sg_data g /\
  drop (sg_data g) (pre ++ ser_seg TAG_DATA true s ++ rest) = fs_data s ++ rest.
Proof.
  intros Hwf (Hpos & Htoc & Hdata & Hnext & Hinc & Hcc).
  pose proof (wf_seg_leadin false s Hwf) as HwfL.
  pose proof (ser_leadin_length _ HwfL) as HlenL.
  change (tag_of false) with TAG_DATA in *.
  pose proof (blen_nonneg pre). pose proof (blen_nonneg (fs_meta_bytes s)).
  split; [lia|]. split; [lia|].
  rewrite ser_seg_eq.
  set (L := seg_leadin TAG_DATA s) in *.
  set (m := fs_meta_bytes s) in *.
  replace (pre ++ (ser_leadin L ++ m ++ fs_data s) ++ rest)
    with ((pre ++ ser_leadin L ++ m) ++ fs_data s ++ rest)
    by (rewrite <- !app_assoc; reflexivity).
  rewrite Hdata, <- app_assoc. rewrite (app_assoc pre). apply drop_app_len.
  rewrite !blen_app, HlenL. lia.
Qed.

(* ---- clause 3: the fuel bound; and non-negative chunk counts ------------------------------------------------------------------ *)

Lemma calculate_chunks_bounds toc inc objs total n f :
  calculate_chunks toc inc objs total = Ok (n, f) -> 0 <= n <= 1 + total.
Proof.
  unfold calculate_chunks. destruct (chunk_size objs) as [cs|]; cbn [bind]; [|discriminate].
  destruct ((cs <? 0) || (total <? 0)) eqn:E1; [discriminate|].
  destruct (cs =? 0) eqn:E2.
  - destruct (negb (total =? 0)) eqn:E3; [discriminate|]. intros [= <- _]. lia.
  - cbv zeta.
    assert (Hc : 0 < cs) by lia. assert (Ht : 0 <= total) by lia. clear E1 E2.
    assert (H0 : 0 <= total / cs) by (apply Z.div_pos; lia).
    assert (H1 : total / cs <= total) by (apply Z.div_le_upper_bound; [exact Hc|nia]).
    set (q := total / cs) in *. clearbody q.
    destruct (total mod cs =? 0).
    + intros [= <- _]. lia.
    + destruct (final_chunk_lengths toc inc objs cs (total mod cs)); [|discriminate].
      unfold bind. intros H. assert (Hn : n = 1 + q) by congruence. lia.
Qed.

Lemma fuel_bound g data rest :
  calculate_chunks (sg_toc g) (sg_incomplete g) (sg_objs g) (blen data) = Ok (sg_nchunks g, sg_final g) ->
  (Z.to_nat (sg_nchunks g) <= S (S (length (data ++ rest))))%nat.
Proof.
  intros H. apply calculate_chunks_bounds in H. rewrite app_length. unfold blen in H. lia.
Qed.

(* ---- the UTF-8 hypothesis, on the chunk VALUES the file encodes ----------------------------------------------------------------- *)

(* every value list a chunk holds under the path of a string-typed data object consists of valid UTF-8 strings *)
Definition chunk_utf8 (objs : list sobj) (c : chunk) : Prop :=
  forall o vs, In o objs -> so_dtype o = Some T_STRING -> In (so_path o, CData vs) c ->
               Forall (fun s => utf8_valid s = true) vs.

Definition strings_utf8 (gs : list segment) (chunkss : list (list chunk)) : Prop :=
  Forall2 (fun g cs => Forall (chunk_utf8 (data_objs (sg_objs g))) cs) gs chunkss.

Lemma Forall2_of_combine {A B} (R P : A -> B -> Prop) : forall a b,
    Forall2 R a b -> (forall x y, In (x, y) (combine a b) -> P x y) -> Forall2 P a b.
Proof.
  induction 1 as [|x y a b _ _ IH]; intros H; constructor.
  - apply H. left. reflexivity.
  - apply IH. intros x0 y0 Hin. apply H. right. exact Hin.
Qed.

Lemma chunk_utf8_neutral (R : sobj -> list bytes -> Prop) objs vss :
  Forall2 R objs vss -> chunk_utf8 objs (chunk_of (combine objs vss)) -> Forall2 decode_neutral objs vss.
Proof.
  intros HR Hu. apply (Forall2_of_combine R _ _ _ HR). intros o vs Hin Hdt.
  apply (Hu o vs); [exact (in_combine_l _ _ _ _ Hin)|exact Hdt|].
  unfold chunk_of. apply (in_map (fun ov => (so_path (fst ov), CData (snd ov))) _ (o, vs) Hin).
Qed.

(* ---- the contiguous clause chunks_strings_valid on encoded chunks ------------------------------------------------------------ *)

Lemma enc_chunks_strings_valid e objs nc : forall css ci rest,
    ci + Z.of_nat (length css) = nc ->
    NoDup (map so_path objs) ->
    Forall (fun vss => Forall2 (fun o vs => vals_ok (so_nvals o) o vs) objs vss) css ->
    Forall (Forall2 decode_neutral objs) css ->
    chunks_strings_valid e objs nc None (py_range ci nc) (enc_chunks e objs css ++ rest).
Proof.
  induction css as [|vss css IH]; intros ci rest Hlen Hnd Hok Hneu.
  - cbn [length] in Hlen. rewrite py_range_nil by lia. exact I.
  - cbn [length] in Hlen. rewrite py_range_cons by lia. cbn [chunks_strings_valid].
    inversion Hok as [|? ? Hv Hok']; subst. inversion Hneu as [|? ? Hn Hneu']; subst.
    change (enc_chunks e objs (vss :: css)) with (enc_chunk e (combine objs vss) ++ enc_chunks e objs css)%list.
    rewrite <- app_assoc.
    destruct (Forall2_combine _ _ _ Hv) as [Hall Hl]. destruct (Forall2_combine _ _ _ Hn) as [Hall2 _].
    assert (Hnd' : NoDup (map (fun ov : sobj * list bytes => so_path (fst ov)) (combine objs vss))).
    { rewrite <- (map_map fst so_path), map_fst_combine by exact Hl. exact Hnd. }
    split.
    + pose proof (enc_chunk_strings_valid e ci (ci + Z.of_nat (S (length css))) None (combine objs vss)
                                          (enc_chunks e objs css ++ rest) Hall Hall2) as H.
      rewrite (map_fst_combine objs vss Hl) in H. exact H.
    + pose proof (read_contig_chunk_roundtrip e ci (ci + Z.of_nat (S (length css))) (combine objs vss)
                                              (enc_chunks e objs css ++ rest) Hall Hnd') as R.
      rewrite (map_fst_combine objs vss Hl) in R. rewrite R.
      apply IH; try assumption. lia.
Qed.

(* ---- one segment ----------------------------------------------------------------------------------------------------------------- *)

(* THE CLAUSE THAT DOES NOT FOLLOW from seg_at / seg_encodes: a contiguous segment with data objects but NO chunk (empty raw
   data) -- seg_encodes (se_contig with css = []) says nothing about its objects, while seg_data_ok asks every data object to
   have a supported data type and a non-negative value count whatever the number of chunks *)
Definition empty_contig_ok (g : segment) : Prop :=
  seg_layout g = Ok LContig -> sg_nchunks g = 0 ->
  Forall (fun o => obj_ok o /\ 0 <= so_nvals o) (data_objs (sg_objs g)).

Lemma vals_ok_objs objs vss :
  Forall2 (fun o vs => vals_ok (so_nvals o) o vs) objs vss -> Forall (fun o => obj_ok o /\ 0 <= so_nvals o) objs.
Proof. induction 1 as [|o vs l l' Ho _ IH]; constructor; [exact (vals_ok_obj _ _ _ Ho)|exact IH]. Qed.

Theorem seg_data_ok_encoded g data cs rest :
  seg_encodes g data cs ->
  calculate_chunks (sg_toc g) (sg_incomplete g) (sg_objs g) (blen data) = Ok (sg_nchunks g, sg_final g) ->
  Forall (chunk_utf8 (data_objs (sg_objs g))) cs ->
  empty_contig_ok g ->
  seg_data_ok g (data ++ rest).
Proof.
  intros Henc Hcc Hutf Hres. split; [apply fuel_bound; exact Hcc|]. cbv zeta.
  pose proof (seg_encodes_plain _ _ _ Henc) as Hpl.
  pose proof (calculate_chunks_bounds _ _ _ _ _ _ Hcc) as Hnb.
  destruct Henc as [Hd Hdata | css Hlay Hpos Hnd Hok Hds Hdata
                    | nv m rows Hlay Hne Hnv Hm Hobjs Hsz Hnd Hrows Hlen Hdata].
  - subst data. unfold calculate_chunks, chunk_size, have_daqmx in Hcc. rewrite Hd in Hcc.
    cbn in Hcc. injection Hcc as Hn _. rewrite Hd.
    destruct Hpl as [-> | ->].
    + split; [constructor|]. split; [intros c; constructor|]. rewrite <- Hn. rewrite py_range_nil by lia. exact I.
    + split; [constructor|]. intros o0 H0. discriminate H0.
  - rewrite Hlay. subst data.
    pose proof (seg_layout_contig_chunk_size g Hlay) as Hcs.
    rewrite (enc_chunks_blen _ _ css Hds) in Hcc.
    rewrite (calculate_chunks_exact _ _ _ _ _ Hcs Hpos) in Hcc by lia.
    injection Hcc as Hn Hf.
    assert (Hobj : Forall (fun o => obj_ok o /\ 0 <= so_nvals o) (data_objs (sg_objs g))).
    { destruct css as [|vss css'].
      - apply (Hres Hlay). cbn [length] in Hn. lia.
      - inversion Hok as [|? ? Hv _]; subst. exact (vals_ok_objs _ _ Hv). }
    split; [eapply Forall_impl; [|exact Hobj]; intros o H; exact (proj1 H)|].
    split.
    + intros c. rewrite <- Hf. eapply Forall_impl; [|exact Hobj]. intros o H. exact (proj2 H).
    + rewrite <- Hn, <- Hf. apply enc_chunks_strings_valid; [lia|exact Hnd|exact Hok|].
      rewrite Forall_map in Hutf. rewrite Forall_forall in *. intros vss Hin.
      exact (chunk_utf8_neutral _ _ _ (Hok vss Hin) (Hutf vss Hin)).
  - rewrite Hlay. split; [exact Hsz|]. intros o0 H0.
    destruct (data_objs (sg_objs g)) as [|o1 r]; [discriminate H0|]. cbn [hd_error] in H0. injection H0 as ->.
    inversion Hobjs as [|? ? [Ho _] _]; subst. nia.
Qed.

(* ---- all segments of a serialised file ------------------------------------------------------------------------------------------- *)

Lemma segs_data_ok_ser : forall segs gs chunkss pre,
    wf_file segs -> segs_at (blen pre) segs gs -> segs_encode gs segs chunkss ->
    strings_utf8 gs chunkss -> Forall empty_contig_ok gs ->
    segs_data_ok (pre ++ ser_file segs) gs.
Proof.
  induction segs as [|s r IH]; intros gs chunkss pre Hwf Hat Henc Hutf Hres.
  - inversion Hat; subst. constructor.
  - inversion Hat as [|pos s' r' g gs' Hg Hat']; subst.
    inversion Henc as [|g' gs'' s' r' cs css Hcs Henc']; subst.
    inversion Hutf as [|? ? ? ? Hu Hutf']; subst. inversion Hres as [|? ? Hr0 Hres']; subst.
    unfold wf_file in Hwf. cbn [forallb] in Hwf. apply andb_prop in Hwf. destruct Hwf as [Hs Hr].
    rewrite ser_file_cons. constructor.
    + destruct (seg_at_positions pre s (ser_file r) g Hs Hg) as (Hp & Hd & Hdrop).
      split; [exact Hp|]. split; [exact Hd|]. rewrite Hdrop.
      destruct Hg as (_ & _ & _ & _ & _ & Hcc).
      exact (seg_data_ok_encoded g (fs_data s) cs (ser_file r) Hcs Hcc Hu Hr0).
    + rewrite app_assoc. apply (IH gs' css (pre ++ ser_seg TAG_DATA true s) Hr); try assumption.
      rewrite blen_app. change TAG_DATA with (tag_of false). change true with (negb false).
      rewrite (blen_ser_seg false s Hs). unfold fseg_len in Hat'. exact Hat'.
Qed.

Theorem segs_data_ok_of_wf_partial segs st chunkss :
  wf_file segs -> sm_run segs false = Ok st -> segs_encode (rs_segments st) segs chunkss ->
  strings_utf8 (rs_segments st) chunkss -> Forall empty_contig_ok (rs_segments st) ->
  segs_data_ok (ser_file segs) (rs_segments st).
Proof.
  intros Hwf Hrun Henc Hutf Hres.
  exact (segs_data_ok_ser segs (rs_segments st) chunkss [] Hwf (sm_segment_positions segs false st Hrun) Henc Hutf Hres).
Qed.

(* a checker for the UTF-8 hypothesis *)
Definition entry_utf8_b (path : bytes) (kv : bytes * cdata) : bool :=
  if bytes_eqb (fst kv) path then match snd kv with CData vs => forallb utf8_valid vs | CScalers _ => true end else true.

Definition chunk_utf8_b (objs : list sobj) (c : chunk) : bool :=
  forallb (fun o => match so_dtype o with
                    | Some dt => if dt =? T_STRING then forallb (entry_utf8_b (so_path o)) c else true
                    | None => true
                    end) objs.

Fixpoint strings_utf8_b (gs : list segment) (chunkss : list (list chunk)) : bool :=
  match gs, chunkss with
  | [], [] => true
  | g :: gs', cs :: css' => forallb (chunk_utf8_b (data_objs (sg_objs g))) cs && strings_utf8_b gs' css'
  | _, _ => false
  end.

Lemma chunk_utf8_b_sound objs c : chunk_utf8_b objs c = true -> chunk_utf8 objs c.
Proof.
  unfold chunk_utf8_b, chunk_utf8. intros H o vs Ho Hdt Hin. rewrite forallb_forall in H.
  specialize (H o Ho). rewrite Hdt, Z.eqb_refl in H. rewrite forallb_forall in H. specialize (H _ Hin).
  unfold entry_utf8_b in H. cbn [fst snd] in H. rewrite bytes_eqb_refl in H.
  apply Forall_forall. rewrite forallb_forall in H. exact H.
Qed.

Lemma strings_utf8_b_sound : forall gs chunkss, strings_utf8_b gs chunkss = true -> strings_utf8 gs chunkss.
Proof.
  induction gs as [|g gs IH]; intros [|cs css] H; cbn [strings_utf8_b] in H; try discriminate; [constructor|].
  apply andb_prop in H. destruct H as [H1 H2]. constructor; [|exact (IH css H2)].
  apply Forall_forall. intros c Hc. rewrite forallb_forall in H1. exact (chunk_utf8_b_sound _ _ (H1 c Hc)).
Qed.

(* ---- the translated TdmsFile._read_data on a serialised file, without segs_data_ok ------------------------------------------------ *)

Theorem tdmsfile_read_data_ser_utf8_partial segs st h chunkss asdt raw mm p0 :
  wf_file segs -> sm_run segs false = Ok st -> build_hierarchy (rs_om st) = Ok h ->
  segs_encode (rs_segments st) segs chunkss -> om_paths_canonical (rs_om st) ->
  typed_objects_are_channels (rs_om st) ->
  strings_utf8 (rs_segments st) chunkss ->
  Forall empty_contig_ok (rs_segments st) ->
  (raw = true \/ forall c, In c (all_channels h) -> ch_dtype c <> Some dec_cls_TimeStamp) ->
  exists cd rawd f recv,
    tdmsfile_read_data_gen asdt (groups_of h) [] raw mm (Some (rs_segments st)) (mkPf (ser_file segs) p0) tt
    = Ok (cd, rawd, true, f) /\
    pf_data f = ser_file segs /\
    cd_abs cd = Some recv /\ rd_eager st h (ser_file segs) = Ok recv /\
    (forall c, In c (all_channels h) -> alookup (ch_path c) recv = Some (expected_data (concat chunkss) c)) /\
    fold_left (handover_step cd) (concat (groups_of h)) (Ok []) = Ok rawd.
Proof.
  intros Hwf Hrun Hh Henc Hcanon Htyped Hutf Hres Hts.
  exact (tdmsfile_read_data_ser_plain segs st h chunkss asdt raw mm p0 Hwf Hrun Hh Henc Hcanon Htyped
           (segs_data_ok_of_wf_partial segs st chunkss Hwf Hrun Henc Hutf Hres) Hts).
Qed.

(* ---- examples: ReadCorrect.rc_file (contiguous, an int32 and a STRING channel) and rc2_file (interleaved) ------------------------- *)
Section Example.
Import String.
Local Open Scope string_scope.

Ltac empty_ok :=
  repeat (apply Forall_cons;
          [let Hl := fresh "Hl" in let Hn := fresh "Hn" in
           intros Hl Hn; first [vm_compute in Hn; discriminate Hn | vm_compute in Hl; discriminate Hl | vm_compute; constructor]|]);
  apply Forall_nil.

Lemma rc_strings_utf8 : strings_utf8 (rs_segments rc_st) rc_chunks.
Proof. apply strings_utf8_b_sound. vm_compute. reflexivity. Qed.

Lemma rc_empty_contig_ok : Forall empty_contig_ok (rs_segments rc_st).
Proof.
  assert (Hsegs : rs_segments rc_st = [nth 0 (rs_segments rc_st) (mkSeg 0 0 0 0 false [] [] 0 None);
                                        nth 1 (rs_segments rc_st) (mkSeg 0 0 0 0 false [] [] 0 None)])
    by (vm_compute; reflexivity).
  rewrite Hsegs. empty_ok.
Qed.

Lemma rc2_strings_utf8 : strings_utf8 (rs_segments rc2_st) rc2_chunks.
Proof. apply strings_utf8_b_sound. vm_compute. reflexivity. Qed.

Lemma rc2_empty_contig_ok : Forall empty_contig_ok (rs_segments rc2_st).
Proof.
  assert (Hsegs : rs_segments rc2_st = [nth 0 (rs_segments rc2_st) (mkSeg 0 0 0 0 false [] [] 0 None);
                                         nth 1 (rs_segments rc2_st) (mkSeg 0 0 0 0 false [] [] 0 None)])
    by (vm_compute; reflexivity).
  rewrite Hsegs. empty_ok.
Qed.

(* the derived domain on the examples (it is also computed directly in GenEagerFits.rc_segs_ok) *)
Example rc_segs_data_ok_derived : segs_data_ok (ser_file rc_file) (rs_segments rc_st).
Proof. exact (segs_data_ok_of_wf_partial rc_file rc_st rc_chunks rc_wf rc_run rc_encodes rc_strings_utf8 rc_empty_contig_ok). Qed.

(* a string value that is NOT valid UTF-8 falsifies the hypothesis (it is not vacuous on strings) *)
Example strings_utf8_b_rejects :
  chunk_utf8_b [mkSobj rc_path_b true 1 5 (Some T_STRING) None] [(rc_path_b, CData [hex "ff"])] = false.
Proof. vm_compute. reflexivity. Qed.
End Example.

(* ---- [empty_contig_ok] is NOT derivable: a witness -------------------------------------------------------------------------------
   rc3_file: segment 1 declares channel "a" (int32, one value, 4 bytes of data) and channel "b" WITHOUT raw data index;
   segment 2 (metadata, no new object list, NO raw data) says for "b": raw data index `same as previous'.  The metadata
   pass then lists "b" among the data objects of segment 2 with NO data type (it never had an index), and segment 2 has 0
   chunks.  Every hypothesis of read_correct holds and no string occurs, yet segs_data_ok fails (its clause Forall obj_ok
   asks a data type of every data object even when there is no chunk to read).  The translated reader and the model
   still agree on it (computed below); real npTDMS reads the file too (channel b: no data type, 0 values). *)
Section Refutation.
Import String.
Local Open Scope string_scope.

Definition rc3_file : list fseg :=
  [ mkFseg 14 4713
      (Some [ mkEntry (hex "2f") INoData [];
              mkEntry (hex "2f276727") INoData [];
              mkEntry rc_path_a (IFull 20 3 1 1 None) [];
              mkEntry rc_path_b INoData [] ])
      (hex "01000000");
    mkFseg 2 4713 (Some [ mkEntry rc_path_b IMatchPrev [] ]) [] ].

Definition rc3_st : rstate := match sm_run rc3_file false with Ok st => st | Err _ => rstate0 end.
Definition rc3_h : hierarchy := match build_hierarchy (rs_om rc3_st) with Ok h => h | Err _ => mkHier [] [] end.
Definition rc3_chunks : list (list chunk) := [ [ [(rc_path_a, CData [hex "01000000"])] ]; [] ].
Definition rc3_obj_a : sobj := mkSobj rc_path_a true 1 4 (Some 3) None.
Definition rc3_obj_b : sobj := mkSobj rc_path_b true 0 0 None None.

Lemma rc3_wf : wf_file rc3_file. Proof. unfold wf_file. vm_compute. reflexivity. Qed.
Lemma rc3_run : sm_run rc3_file false = Ok rc3_st. Proof. vm_compute. reflexivity. Qed.
Lemma rc3_hier : build_hierarchy (rs_om rc3_st) = Ok rc3_h. Proof. vm_compute. reflexivity. Qed.
Lemma rc3_canonical : om_paths_canonical (rs_om rc3_st).
Proof. apply om_paths_canonical_b_sound. vm_compute. reflexivity. Qed.
Lemma rc3_typed_channels : typed_objects_are_channels (rs_om rc3_st).
Proof. apply typed_objects_are_channels_b_sound. vm_compute. reflexivity. Qed.

Lemma rc3_segs : rs_segments rc3_st = [nth 0 (rs_segments rc3_st) (mkSeg 0 0 0 0 false [] [] 0 None);
                                       nth 1 (rs_segments rc3_st) (mkSeg 0 0 0 0 false [] [] 0 None)].
Proof. vm_compute. reflexivity. Qed.

Lemma rc3_encodes : segs_encode (rs_segments rc3_st) rc3_file rc3_chunks.
Proof.
  rewrite rc3_segs. unfold rc3_file, rc3_chunks.
  constructor; [|constructor; [|constructor]].
  - eapply (rc_seg_contig _ _ [rc3_obj_a] [[[hex "01000000"]]]).
    + vm_compute. reflexivity.
    + vm_compute. reflexivity.
    + vm_compute. reflexivity.
    + vm_compute. reflexivity.
    + repeat constructor.
    + repeat constructor.
    + vm_compute. reflexivity.
    + vm_compute. reflexivity.
  - eapply (rc_seg_contig _ _ [rc3_obj_a; rc3_obj_b] []).
    + vm_compute. reflexivity.
    + vm_compute. reflexivity.
    + vm_compute. reflexivity.
    + vm_compute. reflexivity.
    + constructor.
    + constructor.
    + vm_compute. reflexivity.
    + reflexivity.
Qed.

Lemma rc3_strings_utf8 : strings_utf8 (rs_segments rc3_st) rc3_chunks.
Proof. apply strings_utf8_b_sound. vm_compute. reflexivity. Qed.

Lemma rc3_not_segs_data_ok : ~ segs_data_ok (ser_file rc3_file) (rs_segments rc3_st).
Proof.
  intros H. unfold segs_data_ok in H. rewrite Forall_forall in H.
  set (g := nth 1 (rs_segments rc3_st) (mkSeg 0 0 0 0 false [] [] 0 None)).
  assert (Hin : In g (rs_segments rc3_st)) by (rewrite rc3_segs; right; left; reflexivity).
  destruct (H g Hin) as (_ & _ & Hs). unfold seg_data_ok in Hs. destruct Hs as [_ Hs]. cbv zeta in Hs.
  assert (El : seg_layout g = Ok LContig) by (vm_compute; reflexivity).
  rewrite El in Hs. destruct Hs as [Hok _].
  assert (Ed : data_objs (sg_objs g) = [rc3_obj_a; rc3_obj_b]) by (vm_compute; reflexivity).
  rewrite Ed in Hok. inversion Hok as [|? ? _ Hb]; subst. inversion Hb as [|? ? [dt [Hdt _]] _]; subst.
  discriminate Hdt.
Qed.

Theorem segs_data_ok_of_wf_refuted :
  exists segs st h chunkss,
    wf_file segs /\ sm_run segs false = Ok st /\ build_hierarchy (rs_om st) = Ok h /\
    segs_encode (rs_segments st) segs chunkss /\ om_paths_canonical (rs_om st) /\
    typed_objects_are_channels (rs_om st) /\ strings_utf8 (rs_segments st) chunkss /\
    ~ segs_data_ok (ser_file segs) (rs_segments st).
Proof.
  exists rc3_file, rc3_st, rc3_h, rc3_chunks.
  split; [exact rc3_wf|]. split; [exact rc3_run|]. split; [exact rc3_hier|]. split; [exact rc3_encodes|].
  split; [exact rc3_canonical|]. split; [exact rc3_typed_channels|]. split; [exact rc3_strings_utf8|].
  exact rc3_not_segs_data_ok.
Qed.

(* ... while the translated TdmsFile._read_data and the model agree on the witness *)
Example rc3_read_data_agrees :
  mapr (fun r => let '(cd, rawd, flag, f) := r in (cd_abs cd, flag))
       (tdmsfile_read_data_gen (fun _ => Err EFuel) (groups_of rc3_h) [] true false (Some (rs_segments rc3_st))
                               (mkPf (ser_file rc3_file) 0) tt)
  = mapr (fun recv => (Some recv, true)) (rd_eager rc3_st rc3_h (ser_file rc3_file)) /\
  rd_eager rc3_st rc3_h (ser_file rc3_file) = Ok [(rc_path_a, Some (CData [hex "01000000"])); (rc_path_b, None)].
Proof. split; vm_compute; reflexivity. Qed.
End Refutation.

(* ================================================================================================================================ *)
(* Part II: WITHOUT the residual hypothesis.  [seg_data_ok] is weakened for contiguous segments without a chunk (the translated   *)
(* reader does not touch their objects), and the theorems of GenEagerEquiv / GenEagerFits that consume segs_data_ok -- they use   *)
(* it only through reader_read_raw_data_eq -- are re-proved over the weaker domain (same proof scripts).                          *)
(* ================================================================================================================================ *)

Definition seg_data_ok0 (sg : segment) (cur : bytes) : Prop :=
  seg_data_ok sg cur \/ (seg_layout sg = Ok LContig /\ sg_nchunks sg = 0).

Definition segs_data_ok0 (data : bytes) (segs : list segment) : Prop :=
  Forall (fun s => 0 <= sg_pos s /\ 0 <= sg_data s /\ seg_data_ok0 s (drop (sg_data s) data)) segs.

Lemma segment_read_data_chunks_eq0 sg cur :
  seg_data_ok0 sg cur ->
  mapr (fun p => (chunks_abs_dq (fst p), snd p))
       (segment_read_data_chunks_gen sg cur (data_objs (sg_objs sg)) (sg_nchunks sg))
  = mapr (fun p => (Some (fst p), snd p)) (read_segment_chunks sg cur).
Proof.
  intros [H|[Hl Hn]]; [exact (segment_read_data_chunks_eq sg cur H)|].
  unfold segment_read_data_chunks_gen, read_segment_chunks. rewrite get_data_reader_eq. rewrite Hl. cbn [mapr bind].
  unfold reader_of, reader_read_data_chunks_gen. cbn [layout_code Z.eqb]. rewrite Hn.
  unfold contig_read_data_chunks_gen. rewrite py_range_nil by lia.
  cbn [contig_read_data_chunks_gen_loop5 bind segment_read_data_chunks_gen_loop1 read_chunks_loop Z.leb Z.compare mapr fst snd].
  reflexivity.
Qed.

Theorem segment_read_raw_data_eq0 sg f :
  0 <= sg_data sg ->
  seg_data_ok0 sg (drop (sg_data sg) (pf_data f)) ->
  mapr (fun p => (chunks_abs_dq (fst p), snd p)) (segment_read_raw_data_gen sg f)
  = mapr (fun p => (Some (empty_chunks (sg_toc sg) ++ fst p),
                    mkPf (pf_data f) (sg_data sg + (blen (drop (sg_data sg) (pf_data f)) - blen (snd p)))))
         (read_segment_chunks sg (drop (sg_data sg) (pf_data f))).
Proof.
  intros Hd Hok. unfold segment_read_raw_data_gen.
  set (y0 := if negb (negb (Z.land (sg_toc sg) 8 =? 0)) then [] ++ [mkRdc []] else []).
  assert (Ey : (if negb (negb (Z.land (sg_toc sg) 8 =? 0)) then Ok ([] ++ [mkRdc []]) else Ok [])
               = Ok y0) by (unfold y0; destruct (negb (negb (Z.land (sg_toc sg) 8 =? 0))); reflexivity).
  rewrite Ey. cbn [bind]. unfold pf_seek. assert (E : (sg_data sg <? 0) = false) by lia. rewrite E. cbn [bind].
  rewrite map_id_filter. unfold pf_run. cbn [pf_data pf_pos].
  pose proof (segment_read_data_chunks_eq0 sg _ Hok) as H.
  destruct (segment_read_data_chunks_gen sg (drop (sg_data sg) (pf_data f)) (data_objs (sg_objs sg)) (sg_nchunks sg))
    as [[l cur']|e]; destruct (read_segment_chunks sg (drop (sg_data sg) (pf_data f))) as [[cs rest]|e'] eqn:Em;
    cbn [mapr fst snd bind] in *; try discriminate.
  - injection H as Hl ->. pose proof (read_segment_chunks_le sg _ cs rest Em) as Hle.
    pose proof (blen_nonneg rest).
    rewrite yield_all_2 by (cbn [pf_pos]; lia).
    cbn [bind mapr fst snd]. rewrite chunks_abs_dq_app, Hl.
    assert (E0 : chunks_abs_dq y0 = Some (empty_chunks (sg_toc sg))).
    { unfold y0, empty_chunks, toc_has, TOC_RAW. destruct (negb (Z.land (sg_toc sg) 8 =? 0)); reflexivity. }
    rewrite E0. reflexivity.
  - injection H as ->. reflexivity.
Qed.
Lemma reader_loop_eq0 data : forall segs f ys ysa,
    segs_data_ok0 data segs -> pf_data f = data -> chunks_abs_dq ys = Some ysa ->
    mapr (fun p => (chunks_abs_dq (snd p), pf_data (fst p))) (reader_read_raw_data_gen_loop3 segs f ys)
    = mapr (fun cs => (Some (ysa ++ cs), data)) (all_chunks data segs).
Proof.
  induction segs as [|s segs IH]; intros f ys ysa Hok Hf Hys; cbn [reader_read_raw_data_gen_loop3 all_chunks].
  - cbn [mapr fst snd]. rewrite Hys, Hf, app_nil_r. reflexivity.
  - inversion Hok as [|? ? [Hp [Hd Hs]] Hok']; subst.
    pose proof (verify_segment_start_eq f s Hp) as Hv. unfold read_segment.
    destruct (negb (bytes_eqb (read_at (sg_pos s) 4 (pf_data f)) TAG_DATA)).
    + destruct (verify_segment_start_gen f s); [discriminate|]. cbn [mapr] in Hv. injection Hv as ->. reflexivity.
    + destruct (verify_segment_start_gen f s) as [f1|]; cbn [mapr] in Hv; [|discriminate]. injection Hv as Hf1. cbn [bind].
      pose proof (segment_read_raw_data_eq0 s f1 Hd) as Hr. rewrite Hf1 in Hr. specialize (Hr Hs).
      destruct (segment_read_raw_data_gen s f1) as [[l f2]|e];
        destruct (read_segment_chunks s (drop (sg_data s) (pf_data f))) as [[cs rest]|e']; cbn [mapr fst snd bind] in *; try discriminate.
      * injection Hr as Hl Hf2. rewrite yield_all_4. cbn [bind].
        rewrite (IH f2 (ys ++ l) (ysa ++ empty_chunks (sg_toc s) ++ cs) Hok').
        -- destruct (all_chunks (pf_data f) segs) as [rest'|]; cbn [bind mapr]; [|reflexivity]. rewrite <- !app_assoc. reflexivity.
        -- rewrite Hf2. reflexivity.
        -- rewrite chunks_abs_dq_app, Hys, Hl. reflexivity.
      * injection Hr as ->. reflexivity.
Qed.

Theorem reader_read_raw_data_eq0 data segs p0 :
  segs_data_ok0 data segs ->
  mapr (fun p => (chunks_abs_dq (fst p), pf_data (snd p))) (reader_read_raw_data_gen (Some segs) (mkPf data p0))
  = mapr (fun cs => (Some cs, data)) (all_chunks data segs).
Proof.
  intros Hok. unfold reader_read_raw_data_gen.
  pose proof (reader_loop_eq0 data segs (mkPf data p0) [] [] Hok eq_refl eq_refl) as H.
  destruct (reader_read_raw_data_gen_loop3 segs (mkPf data p0) []) as [[f ys]|e]; cbn [bind mapr fst snd] in *; exact H.
Qed.

Theorem tdmsfile_read_data_eq0 asdt st h data raw mm p0 :
  Forall chan_ok (all_channels h) ->
  segs_data_ok0 data (rs_segments st) ->
  read_data_fits asdt (groups_of h) raw mm (rs_segments st) (mkPf data p0) ->
  res_agree (mapr (fun r => let '(cd, rawd, flag, f) := r in (cd_abs cd, flag, pf_data f))
                  (tdmsfile_read_data_gen asdt (groups_of h) [] raw mm (Some (rs_segments st)) (mkPf data p0) tt))
            (mapr (fun recv => (Some recv, true, data)) (rd_eager st h data)).
Proof.
  intros Hch Hsegs Hfit. rewrite rd_eager_unfold. unfold tdmsfile_read_data_gen.
  rewrite all_channels_concat in *.
  assert (Hg : Forall (Forall chan_ok) (groups_of h)).
  { clear - Hch. induction (groups_of h) as [|g gs IH]; [constructor|]. cbn [concat] in Hch. apply Forall_app in Hch.
    destruct Hch as [H1 H2]. constructor; [exact H1|apply IH; exact H2]. }
  pose proof (alloc_outer_eq raw mm (groups_of h) [] [] Hg eq_refl) as H1.
  match goal with
  | |- res_agree _ (mapr _ (bind ?A _)) =>
    change (mapr cd_abs (tdmsfile_read_data_gen_loop5 raw mm (groups_of h) []) = mapr Some A) in H1;
      destruct A as [m0|e'] eqn:Ea
  end;
    destruct (tdmsfile_read_data_gen_loop5 raw mm (groups_of h) []) as [cd0|e] eqn:E5; cbn [mapr bind] in *; try discriminate;
    [|exact I].
  injection H1 as H1.
  pose proof (reader_read_raw_data_eq0 data (rs_segments st) p0 Hsegs) as H2.
  pose proof (eager_fold_agree data (rs_segments st) m0) as Hag.
  destruct (reader_read_raw_data_gen (Some (rs_segments st)) (mkPf data p0)) as [[l f]|e] eqn:Er;
    destruct (all_chunks data (rs_segments st)) as [cs|e'] eqn:Eall; try rewrite Er in H2; try rewrite Eall in H2; try rewrite Eall in Hag;
    cbn [mapr bind fst snd] in *; try discriminate.
  2:{ destruct (fold_left (eager_seg_step data) (rs_segments st) (Ok m0)); [contradiction|exact I]. }
  injection H2 as Hl Hf.
  pose proof (chunks_sim asdt l cd0 m0 cs H1 Hl (Hfit cd0 l f E5 Er)) as H3.
  destruct (tdmsfile_read_data_gen_loop7 asdt l cd0) as [cd1|e] eqn:E7;
    destruct (fold_left recv_step cs (Ok m0)) as [m1|e'] eqn:Em; try rewrite E7 in H3; try rewrite Em in H3; try rewrite Em in Hag;
    cbn [mapr bind] in *; try discriminate.
  2:{ destruct (fold_left (eager_seg_step data) (rs_segments st) (Ok m0)); [contradiction|exact I]. }
  injection H3 as H3.
  destruct (fold_left (eager_seg_step data) (rs_segments st) (Ok m0)) as [m1'|]; [|contradiction]. cbn [res_agree] in Hag. subst m1'.
  rewrite handover_eq.
  destruct (handover_total cd1 (concat (groups_of h)) []) as [rawd Hr].
  { intros c Hc. destruct (alloc_keys _ _ _ Ea) as [_ Hin]. pose proof (recv_fold_keys _ _ _ Em _ (Hin c Hc)) as Hk.
    pose proof (cd_abs_lookup (ch_path c) cd1 m1 H3) as Hl1. destruct (alookup (ch_path c) cd1); [discriminate|contradiction]. }
  rewrite Hr. cbn [bind mapr res_agree]. rewrite H3, Hf. reflexivity.
Qed.

Section Wf0.
Variables (segs : list fseg) (st : rstate) (h : hierarchy) (chunkss : list (list chunk)).
Hypothesis Hwf : wf_file segs.
Hypothesis Hrun : sm_run segs false = Ok st.
Hypothesis Hh : build_hierarchy (rs_om st) = Ok h.
Hypothesis Henc : segs_encode (rs_segments st) segs chunkss.
Hypothesis Hcanon : om_paths_canonical (rs_om st).

Theorem read_data_fits_of_wf_typed0 asdt raw mm p0 :
  segs_data_ok0 (ser_file segs) (rs_segments st) ->
  run_typed (groups_of h) raw mm (rs_segments st) (mkPf (ser_file segs) p0) ->
  read_data_fits asdt (groups_of h) raw mm (rs_segments st) (mkPf (ser_file segs) p0).
Proof.
  intros Hsegs Hty cd0 l f E5 Er. apply chunks_fit_of_static.
  pose proof (reader_read_raw_data_eq0 (ser_file segs) (rs_segments st) p0 Hsegs) as H2. rewrite Er in H2.
  destruct (all_chunks_ser (ser_file segs) segs (rs_segments st) chunkss [] Hwf eq_refl
                           (sm_segment_positions segs false st Hrun) Henc) as (cs & Hall & Hvals & Honly).
  rewrite Hall in H2. cbn [mapr fst snd] in H2. injection H2 as Hl _.
  pose proof (all_items_abs l cs Hl) as Hab.
  assert (Hinv : alloc_inv (all_channels h) cd0).
  { apply (alloc_outer_inv raw mm (all_channels h) (groups_of h) [] cd0); [| |exact E5].
    - apply forall_groups. rewrite <- all_channels_concat. exact (chans_plain_of_wf segs st h chunkss Hrun Hh Henc Hcanon).
    - intros p r Hp. discriminate Hp. }
  split.
  - apply (plain_of_abs _ _ Hab). apply forall_concat. exact Honly.
  - intros p r Hp. destruct (Hinv p r Hp) as [Hwfr [Hnd Hor]].
    assert (Htp : forall rc v, In (p, rc) (all_items l) -> rc_data rc = Some v -> val_ok (shape r) v).
    { intros rc v Hin Hv. exact (Hty cd0 l f E5 Er p r rc v Hp Hin Hv). }
    split; [exact Hwfr|]. split; [|exact Htp].
    destruct Hor as [Hsl|[c [Hc [Hpc Hroom]]]].
    + rewrite (shape_list_room r Hsl). rewrite items_demand_zero; [lia|].
      intros rc v Hin Hv. pose proof (Htp rc v Hin Hv) as Hok. rewrite Hsl in Hok. destruct v; [contradiction|reflexivity].
    + rewrite Hroom, <- (lengths_all segs false st h chunkss Hrun Hh Henc Hcanon c Hc), Hpc, <- Hvals, chan_values_concat.
      apply (demand_of_abs p _ _ Hab). intros rc v vs Hin Hv Hvs. exact (val_ok_len (shape r) v vs (Htp rc v Hin Hv) Hnd Hvs).
Qed.

Hypothesis Htyped : typed_objects_are_channels (rs_om st).

Theorem tdmsfile_read_data_ser_typed0 asdt raw mm p0 :
  segs_data_ok0 (ser_file segs) (rs_segments st) ->
  run_typed (groups_of h) raw mm (rs_segments st) (mkPf (ser_file segs) p0) ->
  exists cd rawd f recv,
    tdmsfile_read_data_gen asdt (groups_of h) [] raw mm (Some (rs_segments st)) (mkPf (ser_file segs) p0) tt
    = Ok (cd, rawd, true, f) /\
    pf_data f = ser_file segs /\
    cd_abs cd = Some recv /\ rd_eager st h (ser_file segs) = Ok recv /\
    (forall c, In c (all_channels h) -> alookup (ch_path c) recv = Some (expected_data (concat chunkss) c)) /\
    fold_left (handover_step cd) (concat (groups_of h)) (Ok []) = Ok rawd.
Proof.
  intros Hsegs Hty.
  destruct (rd_eager_ser segs st h chunkss Hwf Hrun Henc
              (data_paths_are_channels_ser segs false st h chunkss Hrun Hh Henc Hcanon Htyped)
              (no_daqmx_channels_ser segs false st h chunkss Hrun Hh Henc)
              (channel_paths_distinct_ser _ h Hh Hcanon)) as (recv & Hrd & Hexp).
  pose proof (tdmsfile_read_data_eq0 asdt st h (ser_file segs) raw mm p0 (chan_ok_of_wf segs st h chunkss Hrun Hh Henc Hcanon) Hsegs
                (read_data_fits_of_wf_typed0 asdt raw mm p0 Hsegs Hty)) as Hag.
  rewrite Hrd in Hag. cbn [mapr] in Hag.
  destruct (tdmsfile_read_data_gen asdt (groups_of h) [] raw mm (Some (rs_segments st)) (mkPf (ser_file segs) p0) tt)
    as [[[[cd rawd] flag] f]|e] eqn:Eg; cbn [mapr res_agree] in Hag; [|contradiction].
  injection Hag as Hcd Hflag Hf. subst flag.
  destruct (tdmsfile_read_data_handover asdt _ _ _ _ _ _ _ _ _ _ Eg) as [Hho _].
  exists cd, rawd, f, recv. repeat split; assumption.
Qed.
End Wf0.

(* ---- the weaker domain IS derived, with the UTF-8 hypothesis only ------------------------------------------------------------------ *)

Theorem seg_data_ok0_encoded g data cs rest :
  seg_encodes g data cs ->
  calculate_chunks (sg_toc g) (sg_incomplete g) (sg_objs g) (blen data) = Ok (sg_nchunks g, sg_final g) ->
  Forall (chunk_utf8 (data_objs (sg_objs g))) cs ->
  seg_data_ok0 g (data ++ rest).
Proof.
  intros Henc Hcc Hutf.
  assert (Hd : (seg_layout g = Ok LContig /\ sg_nchunks g = 0) \/ ~ (seg_layout g = Ok LContig /\ sg_nchunks g = 0)).
  { destruct (Z.eq_dec (sg_nchunks g) 0) as [Hn|Hn]; [|right; intros [_ H]; contradiction].
    destruct (seg_layout g) as [[| |]|]; [left; split; [reflexivity|exact Hn]| | |]; right; intros [H _]; discriminate H. }
  destruct Hd as [Hd|Hd]; [right; exact Hd|]. left.
  apply (seg_data_ok_encoded g data cs rest Henc Hcc Hutf). intros Hl Hn. exfalso. apply Hd. split; assumption.
Qed.

Lemma segs_data_ok0_ser : forall segs gs chunkss pre,
    wf_file segs -> segs_at (blen pre) segs gs -> segs_encode gs segs chunkss ->
    strings_utf8 gs chunkss ->
    segs_data_ok0 (pre ++ ser_file segs) gs.
Proof.
  induction segs as [|s r IH]; intros gs chunkss pre Hwf Hat Henc Hutf.
  - inversion Hat; subst. constructor.
  - inversion Hat as [|pos s' r' g gs' Hg Hat']; subst.
    inversion Henc as [|g' gs'' s' r' cs css Hcs Henc']; subst.
    inversion Hutf as [|? ? ? ? Hu Hutf']; subst.
    unfold wf_file in Hwf. cbn [forallb] in Hwf. apply andb_prop in Hwf. destruct Hwf as [Hs Hr].
    rewrite ser_file_cons. constructor.
    + destruct (seg_at_positions pre s (ser_file r) g Hs Hg) as (Hp & Hd & Hdrop).
      split; [exact Hp|]. split; [exact Hd|]. rewrite Hdrop.
      destruct Hg as (_ & _ & _ & _ & _ & Hcc).
      exact (seg_data_ok0_encoded g (fs_data s) cs (ser_file r) Hcs Hcc Hu).
    + rewrite app_assoc. apply (IH gs' css (pre ++ ser_seg TAG_DATA true s) Hr); try assumption.
      rewrite blen_app. change TAG_DATA with (tag_of false). change true with (negb false).
      rewrite (blen_ser_seg false s Hs). unfold fseg_len in Hat'. exact Hat'.
Qed.

Theorem segs_data_ok0_of_wf segs st chunkss :
  wf_file segs -> sm_run segs false = Ok st -> segs_encode (rs_segments st) segs chunkss ->
  strings_utf8 (rs_segments st) chunkss ->
  segs_data_ok0 (ser_file segs) (rs_segments st).
Proof.
  intros Hwf Hrun Henc Hutf.
  exact (segs_data_ok0_ser segs (rs_segments st) chunkss [] Hwf (sm_segment_positions segs false st Hrun) Henc Hutf).
Qed.

Lemma segs_data_ok_weaken data gs : segs_data_ok data gs -> segs_data_ok0 data gs.
Proof.
  unfold segs_data_ok, segs_data_ok0. apply Forall_impl. intros s (H1 & H2 & H3). split; [exact H1|]. split; [exact H2|].
  left. exact H3.
Qed.

(* the translated TdmsFile._read_data on a serialised well-formed file: read_correct's hypotheses, the UTF-8 hypothesis on the
   encoded values, the timestamp restriction -- nothing else *)
Theorem tdmsfile_read_data_ser_utf8 segs st h chunkss asdt raw mm p0 :
  wf_file segs -> sm_run segs false = Ok st -> build_hierarchy (rs_om st) = Ok h ->
  segs_encode (rs_segments st) segs chunkss -> om_paths_canonical (rs_om st) ->
  typed_objects_are_channels (rs_om st) ->
  strings_utf8 (rs_segments st) chunkss ->
  (raw = true \/ forall c, In c (all_channels h) -> ch_dtype c <> Some dec_cls_TimeStamp) ->
  exists cd rawd f recv,
    tdmsfile_read_data_gen asdt (groups_of h) [] raw mm (Some (rs_segments st)) (mkPf (ser_file segs) p0) tt
    = Ok (cd, rawd, true, f) /\
    pf_data f = ser_file segs /\
    cd_abs cd = Some recv /\ rd_eager st h (ser_file segs) = Ok recv /\
    (forall c, In c (all_channels h) -> alookup (ch_path c) recv = Some (expected_data (concat chunkss) c)) /\
    fold_left (handover_step cd) (concat (groups_of h)) (Ok []) = Ok rawd.
Proof.
  intros Hwf Hrun Hh Henc Hcanon Htyped Hutf Hts.
  apply (tdmsfile_read_data_ser_typed0 segs st h chunkss Hwf Hrun Hh Henc Hcanon Htyped asdt raw mm p0
           (segs_data_ok0_of_wf segs st chunkss Hwf Hrun Henc Hutf)).
  exact (run_typed_plain segs st h chunkss raw mm _ Hrun Hh Henc Hcanon Hts).
Qed.

(* the witness of the refutation is covered *)
Example rc3_segs_data_ok0 : segs_data_ok0 (ser_file rc3_file) (rs_segments rc3_st).
Proof. exact (segs_data_ok0_of_wf rc3_file rc3_st rc3_chunks rc3_wf rc3_run rc3_encodes rc3_strings_utf8). Qed.

Theorem read_data_fits_of_wf_utf8 segs st h chunkss asdt raw mm p0 :
  wf_file segs -> sm_run segs false = Ok st -> build_hierarchy (rs_om st) = Ok h ->
  segs_encode (rs_segments st) segs chunkss -> om_paths_canonical (rs_om st) ->
  strings_utf8 (rs_segments st) chunkss ->
  (raw = true \/ forall c, In c (all_channels h) -> ch_dtype c <> Some dec_cls_TimeStamp) ->
  read_data_fits asdt (groups_of h) raw mm (rs_segments st) (mkPf (ser_file segs) p0).
Proof.
  intros Hwf Hrun Hh Henc Hcanon Hutf Hts.
  apply (read_data_fits_of_wf_typed0 segs st h chunkss Hwf Hrun Hh Henc Hcanon asdt raw mm p0
           (segs_data_ok0_of_wf segs st chunkss Hwf Hrun Henc Hutf)).
  exact (run_typed_plain segs st h chunkss raw mm _ Hrun Hh Henc Hcanon Hts).
Qed.
