(* Proofs about Model/SensorsR.v: the sensor scalings invert their laws. *)
From Coq Require Import Reals ZArith List Bool Lra Lia Psatz Permutation.
Import ListNotations.
From NpTdms Require Import Model.SensorsR.
Open Scope R_scope.
(* no .lia.cache/.nra.cache files: checks run many coqc in parallel *)
Unset Lia Cache. Unset Nia Cache. Unset Nra Cache.

(* ------------------------------------------------------------------------ *)
(* Lead-wire compensation cancels the lead term of the forward law           *)

Lemma adjust_cancels_lead : forall e w lead r,
  adjust_for_lead_resistance (r + lead_in_measurement e w lead)
                             (excitation_code e) (wiring_code w) lead = r.
Proof.
  intros e w lead r. destruct e, w; unfold adjust_for_lead_resistance; cbn; ring.
Qed.

(* ------------------------------------------------------------------------ *)
(* polyval = Horner = sum of c_i x^i                                          *)

Lemma sum_powers_from_shift : forall c k x,
  sum_powers_from (S k) c x = x * sum_powers_from k c x.
Proof.
  induction c as [|ci rest IH]; intros k x; cbn [sum_powers_from].
  - ring.
  - rewrite IH. cbn [pow]. ring.
Qed.

Lemma polyval_sum_powers : forall c x, polyval x c = sum_powers c x.
Proof.
  unfold sum_powers. induction c as [|ci rest IH]; intros x.
  - reflexivity.
  - cbn [polyval fold_right sum_powers_from]. fold (polyval x rest).
    rewrite sum_powers_from_shift, IH. cbn [pow]. ring.
Qed.

Lemma polynomial_scale_sum_powers : forall c x, polynomial_scale c x = sum_powers c x.
Proof.
  intros [|c0 rest] x.
  - reflexivity.
  - unfold polynomial_scale. apply polyval_sum_powers.
Qed.

(* ------------------------------------------------------------------------ *)
(* RTD, T >= 0: the quadratic branch                                          *)

Lemma rtd_scale_pos_inverts : forall r0 a b t,
  r0 > 0 -> b < 0 -> a + 2 * b * t > 0 ->
  rtd_scale_pos a b r0 (cvd_pos r0 a b t) = t.
Proof.
  intros r0 a b t Hr Hb Hv. unfold rtd_scale_pos, cvd_pos.
  replace (a ^ 2 - 4 * b * (1 - r0 * (1 + a * t + b * t ^ 2) / r0))
    with ((a + 2 * b * t) * (a + 2 * b * t)) by (field; lra).
  rewrite sqrt_square by lra. field. lra.
Qed.

Lemma rtd_r_t_of_voltage : forall i w lead r,
  i <> 0 ->
  rtd_r_t i lead (wiring_code w) (current_excitation_voltage i w lead r) = r.
Proof.
  intros i w lead r Hi. unfold rtd_r_t, current_excitation_voltage.
  replace (i * (r + lead_in_measurement CurrentExcitation w lead) / i)
    with (r + lead_in_measurement CurrentExcitation w lead) by (field; exact Hi).
  exact (adjust_cancels_lead CurrentExcitation w lead r).
Qed.

Lemma cvd_pos_ge_r0 : forall r0 a b t,
  r0 > 0 -> b < 0 -> 0 <= t -> a + 2 * b * t > 0 -> r0 <= cvd_pos r0 a b t.
Proof.
  intros r0 a b t Hr Hb Ht Hv. unfold cvd_pos.
  assert (H1 : 0 <= t * (a + b * t)) by (apply Rmult_le_pos; nra).
  nra.
Qed.

Lemma rtd_scale_nonneg : forall polyroots r0 a b c t i lead w,
  r0 > 0 -> a > 0 -> b < 0 -> 0 <= t -> a + 2 * b * t > 0 -> i <> 0 ->
  rtd_scale polyroots i r0 a b c lead (wiring_code w)
            (current_excitation_voltage i w lead (cvd r0 a b c t)) = Some t.
Proof.
  intros pr r0 a b c t i lead w Hr Ha Hb Ht Hv Hi.
  unfold rtd_scale. rewrite rtd_r_t_of_voltage by exact Hi.
  unfold cvd. destruct (Rle_dec 0 t) as [_|Hn]; [|contradiction].
  destruct (Rle_dec r0 (cvd_pos r0 a b t)) as [_|Hn].
  - now rewrite rtd_scale_pos_inverts.
  - exfalso. apply Hn. now apply cvd_pos_ge_r0.
Qed.

(* ------------------------------------------------------------------------ *)
(* RTD, T < 0: the quartic                                                    *)

Lemma rtd_quartic_expand : forall a b c r0 rt t,
  rtd_quartic a b c r0 rt t
  = r0 * (1 + a * t + b * t ^ 2 + c * (t - 100) * t ^ 3) - rt.
Proof.
  intros. unfold rtd_quartic, rtd_quartic_coefficients, polyval. cbn [fold_right]. ring.
Qed.

(* T is a root of the quartic the code builds *)
Lemma rtd_quartic_root : forall a b c r0 t,
  rtd_quartic a b c r0 (cvd_neg r0 a b c t) t = 0.
Proof. intros. rewrite rtd_quartic_expand. unfold cvd_neg. ring. Qed.

(* derivative of (quartic / r0), positive on (-inf, 0] *)
Definition rtd_quartic_derivative (a b c t : R) : R :=
  a + 2 * b * t - 300 * c * t ^ 2 + 4 * c * t ^ 3.

Lemma rtd_quartic_derivative_pos : forall a b c t,
  a > 0 -> b < 0 -> c < 0 -> t <= 0 -> rtd_quartic_derivative a b c t > 0.
Proof.
  intros a b c t HA HB HC Ht. unfold rtd_quartic_derivative.
  assert (H1 : 0 <= b * t) by nra. assert (H2 : 0 <= t * t) by nra.
  assert (H3 : 0 <= c * t) by nra.
  assert (H4 : 0 <= (c * t) * (t * t)) by (apply Rmult_le_pos; assumption).
  assert (H5 : 0 <= - c * (t * t)) by nra. nra.
Qed.

Lemma rtd_quartic_derivative_correct : forall a b c r0 rt t,
  derivable_pt_lim (rtd_quartic a b c r0 rt) t (r0 * rtd_quartic_derivative a b c t).
Proof.
  intros a b c r0 rt t.
  assert (E : forall x, rtd_quartic a b c r0 rt x
              = (r0 - rt) + (r0 * a) * x + (r0 * b) * x ^ 2
                + (-100 * r0 * c) * x ^ 3 + (r0 * c) * x ^ 4).
  { intro x. rewrite rtd_quartic_expand. ring. }
  apply (derivable_pt_lim_ext
           (fun x => (r0 - rt) + (r0 * a) * x + (r0 * b) * x ^ 2
                     + (-100 * r0 * c) * x ^ 3 + (r0 * c) * x ^ 4)).
  { intro x. symmetry. apply E. }
  unfold rtd_quartic_derivative.
  replace (r0 * (a + 2 * b * t - 300 * c * t ^ 2 + 4 * c * t ^ 3))
    with (0 + (r0 * a) * 1 + (r0 * b) * (INR 2 * t ^ pred 2)
          + (-100 * r0 * c) * (INR 3 * t ^ pred 3) + (r0 * c) * (INR 4 * t ^ pred 4))
    by (simpl; ring).
  repeat apply derivable_pt_lim_plus.
  - apply derivable_pt_lim_const.
  - apply derivable_pt_lim_scal. apply derivable_pt_lim_id.
  - apply derivable_pt_lim_scal. apply derivable_pt_lim_pow.
  - apply derivable_pt_lim_scal. apply derivable_pt_lim_pow.
  - apply derivable_pt_lim_scal. apply derivable_pt_lim_pow.
Qed.

(* strictly increasing on (-inf, 0], with slope at least r0 * a *)
Lemma rtd_quartic_increasing : forall a b c r0 rt x y,
  r0 > 0 -> a > 0 -> b < 0 -> c < 0 -> x < y -> y <= 0 ->
  rtd_quartic a b c r0 rt x < rtd_quartic a b c r0 rt y.
Proof.
  intros a b c r0 rt x y Hr Ha Hb Hc Hxy Hy.
  rewrite !rtd_quartic_expand.
  assert (E : r0 * (1 + a * y + b * y ^ 2 + c * (y - 100) * y ^ 3) - rt
              - (r0 * (1 + a * x + b * x ^ 2 + c * (x - 100) * x ^ 3) - rt)
              = r0 * ((y - x) * (a + b * (x + y) + (-100 * c) * (x * x + x * y + y * y)
                                 + c * ((x + y) * (x * x + y * y))))) by ring.
  assert (H1 : 0 <= b * (x + y)) by nra.
  assert (Hq : 0 <= x * x + x * y + y * y) by nra.
  assert (H2 : 0 <= (-100 * c) * (x * x + x * y + y * y)) by (apply Rmult_le_pos; lra).
  assert (Hs : 0 <= x * x + y * y) by nra.
  assert (H3' : 0 <= (- (x + y)) * (x * x + y * y)) by (apply Rmult_le_pos; lra).
  assert (H3 : 0 <= c * ((x + y) * (x * x + y * y))) by nra.
  assert (Hpos : 0 < (y - x) * (a + b * (x + y) + (-100 * c) * (x * x + x * y + y * y)
                                 + c * ((x + y) * (x * x + y * y)))).
  { apply Rmult_lt_0_compat; lra. }
  assert (0 < r0 * ((y - x) * (a + b * (x + y) + (-100 * c) * (x * x + x * y + y * y)
                                 + c * ((x + y) * (x * x + y * y))))).
  { apply Rmult_lt_0_compat; lra. }
  lra.
Qed.

(* hence: at most one non-positive real root; any negative real root is T *)
Lemma rtd_quartic_root_unique : forall a b c r0 rt x y,
  r0 > 0 -> a > 0 -> b < 0 -> c < 0 -> x <= 0 -> y <= 0 ->
  rtd_quartic a b c r0 rt x = 0 -> rtd_quartic a b c r0 rt y = 0 -> x = y.
Proof.
  intros a b c r0 rt x y Hr Ha Hb Hc Hx Hy Ex Ey.
  destruct (Rtotal_order x y) as [L|[E|G]]; [|exact E|].
  - pose proof (rtd_quartic_increasing a b c r0 rt x y Hr Ha Hb Hc L Hy). lra.
  - pose proof (rtd_quartic_increasing a b c r0 rt y x Hr Ha Hb Hc G Hx). lra.
Qed.

Lemma rtd_negative_root_is_T : forall a b c r0 t x,
  r0 > 0 -> a > 0 -> b < 0 -> c < 0 -> t < 0 ->
  x < 0 -> rtd_quartic a b c r0 (cvd_neg r0 a b c t) x = 0 -> x = t.
Proof.
  intros a b c r0 t x Hr Ha Hb Hc Ht Hx Ex.
  apply (rtd_quartic_root_unique a b c r0 (cvd_neg r0 a b c t)); try assumption; try lra.
  apply rtd_quartic_root.
Qed.

(* below 0 degrees the resistance is below R0: the code takes the quartic branch *)
Lemma cvd_neg_lt_r0 : forall r0 a b c t,
  r0 > 0 -> a > 0 -> b < 0 -> c < 0 -> t < 0 -> cvd_neg r0 a b c t < r0.
Proof.
  intros r0 a b c t Hr Ha Hb Hc Ht.
  pose proof (rtd_quartic_increasing a b c r0 r0 t 0 Hr Ha Hb Hc Ht (Rle_refl 0)) as H.
  rewrite !rtd_quartic_expand in H. unfold cvd_neg. lra.
Qed.

(* ------------------------------------------------------------------------ *)
(* RTD: the filter  r.real < 1e-9  (repair 874ad35 of defect D23)             *)

Lemma RTD_ROOT_TOLERANCE_pos : 0 < RTD_ROOT_TOLERANCE.
Proof. unfold RTD_ROOT_TOLERANCE. lra. Qed.

(* For a resistance strictly below R0 the quartic is positive on
   [0, tolerance): p(x) = (r0 - rt) + r0 x (a + b x + c x^2 (x - 100)), and
   a + b x >= a + b tolerance >= 0,  c x^2 (x - 100) >= 0.
   The parameter condition  a + b * tolerance >= 0  (with b < 0 it gives
   a > 0) is needed: see rtd_tolerance_condition_needed below. *)
Lemma rtd_quartic_pos_near_zero : forall a b c r0 rt x,
  r0 > 0 -> b < 0 -> c < 0 -> a + b * RTD_ROOT_TOLERANCE >= 0 ->
  rt < r0 -> 0 <= x < RTD_ROOT_TOLERANCE ->
  rtd_quartic a b c r0 rt x > 0.
Proof.
  intros a b c r0 rt x Hr Hb Hc Hab Hrt [Hx0 Hx1].
  pose proof RTD_ROOT_TOLERANCE_pos as Htol.
  assert (Htol1 : RTD_ROOT_TOLERANCE < 100) by (unfold RTD_ROOT_TOLERANCE; lra).
  rewrite rtd_quartic_expand.
  replace (r0 * (1 + a * x + b * x ^ 2 + c * (x - 100) * x ^ 3) - rt)
    with ((r0 - rt) + r0 * (x * ((a + b * x) + (- c) * ((100 - x) * (x * x))))) by ring.
  assert (H1 : 0 <= a + b * x) by nra.
  assert (H2 : 0 <= x * x) by nra.
  assert (H3 : 0 <= (100 - x) * (x * x)) by (apply Rmult_le_pos; lra).
  assert (H4 : 0 <= (- c) * ((100 - x) * (x * x))) by (apply Rmult_le_pos; lra).
  assert (H5 : 0 <= x * ((a + b * x) + (- c) * ((100 - x) * (x * x))))
    by (apply Rmult_le_pos; lra).
  assert (H6 : 0 <= r0 * (x * ((a + b * x) + (- c) * ((100 - x) * (x * x)))))
    by (apply Rmult_le_pos; lra).
  lra.
Qed.

(* hence every real root below the tolerance is negative ... *)
Lemma rtd_small_root_negative : forall a b c r0 rt x,
  r0 > 0 -> b < 0 -> c < 0 -> a + b * RTD_ROOT_TOLERANCE >= 0 ->
  rt < r0 -> x < RTD_ROOT_TOLERANCE -> rtd_quartic a b c r0 rt x = 0 -> x < 0.
Proof.
  intros a b c r0 rt x Hr Hb Hc Hab Hrt Hx Ex.
  destruct (Rlt_dec x 0) as [L|G]; [exact L | exfalso].
  pose proof (rtd_quartic_pos_near_zero a b c r0 rt x Hr Hb Hc Hab Hrt) as H.
  lra.
Qed.

(* ... and, for the resistance of a temperature T < 0, equals T *)
Lemma rtd_small_root_is_T : forall a b c r0 t x,
  r0 > 0 -> a > 0 -> b < 0 -> c < 0 -> a + b * RTD_ROOT_TOLERANCE >= 0 -> t < 0 ->
  x < RTD_ROOT_TOLERANCE -> rtd_quartic a b c r0 (cvd_neg r0 a b c t) x = 0 -> x = t.
Proof.
  intros a b c r0 t x Hr Ha Hb Hc Hab Ht Hx Ex.
  apply (rtd_negative_root_is_T a b c r0 t x); try assumption.
  apply (rtd_small_root_negative a b c r0 (cvd_neg r0 a b c t)); try assumption.
  now apply cvd_neg_lt_r0.
Qed.

(* _get_negative_real_root on an answer of polyroots that satisfies small_roots_ok *)
Lemma is_small_real_true : forall z,
  is_small_real z = true <-> snd z = 0 /\ fst z < RTD_ROOT_TOLERANCE.
Proof.
  intros [re im]. unfold is_small_real. cbn [fst snd].
  destruct (Req_EM_T im 0) as [E|N]; [destruct (Rlt_dec re RTD_ROOT_TOLERANCE) as [L|G]|];
    split; intros H; try discriminate; try tauto; try reflexivity.
Qed.

Lemma is_small_real_false : forall z,
  is_small_real z = false <-> snd z <> 0 \/ RTD_ROOT_TOLERANCE <= fst z.
Proof.
  intros z. pose proof (is_small_real_true z) as H.
  destruct (is_small_real z); split; intros H'.
  - discriminate.
  - exfalso. destruct H as [H _]. destruct (H eq_refl) as [E L]. destruct H' as [N|G]; [tauto | lra].
  - destruct (Req_EM_T (snd z) 0) as [E|N]; [|now left].
    right. destruct (Rle_dec RTD_ROOT_TOLERANCE (fst z)) as [G|L]; [exact G | exfalso].
    destruct H as [_ H]. assert (true = false) by (symmetry; apply H; split; [exact E | lra]).
    discriminate.
  - reflexivity.
Qed.

Lemma nodup_all_equal : forall (A : Type) (l : list A) (z : A),
  NoDup l -> In z l -> (forall y, In y l -> y = z) -> l = [z].
Proof.
  intros A l z Hnd Hin Hall. destruct l as [|y0 [|y1 rest]].
  - contradiction.
  - f_equal. apply Hall. now left.
  - exfalso. inversion Hnd as [|? ? Hnot _]. subst. apply Hnot.
    rewrite (Hall y0) by now left. rewrite (Hall y1) by (right; now left). now left.
Qed.

Lemma get_negative_real_root_unique : forall roots cs t,
  small_roots_ok roots cs ->
  t < RTD_ROOT_TOLERANCE -> polyval t cs = 0 ->
  (forall x, x < RTD_ROOT_TOLERANCE -> polyval x cs = 0 -> x = t) ->
  get_negative_real_root roots = Some t.
Proof.
  intros roots cs t [Hnd Hiff] Ht Et Huniq. unfold get_negative_real_root.
  rewrite (nodup_all_equal _ (filter is_small_real roots) (t, 0)).
  - reflexivity.
  - exact Hnd.
  - apply filter_In. split.
    + apply (Hiff t Ht). exact Et.
    + apply is_small_real_true. cbn. split; [reflexivity | exact Ht].
  - intros [re im] Hin. apply filter_In in Hin. destruct Hin as [Hin Hsm].
    apply is_small_real_true in Hsm. cbn [fst snd] in Hsm. destruct Hsm as [Him Hre].
    subst im. f_equal. apply Huniq; [exact Hre|]. apply (Hiff re Hre). exact Hin.
Qed.

Lemma rtd_scale_neg : forall polyroots r0 a b c t i lead w,
  r0 > 0 -> a > 0 -> b < 0 -> c < 0 -> a + b * RTD_ROOT_TOLERANCE >= 0 -> t < 0 -> i <> 0 ->
  small_roots_ok
    (polyroots (rtd_quartic_coefficients a b c r0 (cvd r0 a b c t)))
    (rtd_quartic_coefficients a b c r0 (cvd r0 a b c t)) ->
  rtd_scale polyroots i r0 a b c lead (wiring_code w)
            (current_excitation_voltage i w lead (cvd r0 a b c t)) = Some t.
Proof.
  intros pr r0 a b c t i lead w Hr Ha Hb Hc Hab Ht Hi Hok.
  unfold rtd_scale. rewrite rtd_r_t_of_voltage by exact Hi.
  revert Hok. unfold cvd. destruct (Rle_dec 0 t) as [Hp|_]; [lra|]. intro Hok.
  destruct (Rle_dec r0 (cvd_neg r0 a b c t)) as [Hge|_].
  - pose proof (cvd_neg_lt_r0 r0 a b c t Hr Ha Hb Hc Ht). lra.
  - unfold solve_quartic_form.
    pose proof RTD_ROOT_TOLERANCE_pos as Htol.
    apply (get_negative_real_root_unique _ _ t Hok); [lra | apply rtd_quartic_root |].
    intros x Hx Ex. now apply (rtd_small_root_is_T a b c r0 t x).
Qed.

(* ------------------------------------------------------------------------ *)
(* RTD: what the repair is for.  An answer of polyroots whose only real entry
   below the tolerance is x with 0 <= x < tolerance (the root near zero of a
   resistance a few ulp below R0, found as 0.0 or as a tiny positive number):
   the code returns x; before the repair it raised ValueError.               *)

(* RtdScaling._get_negative_real_root before 874ad35:
       filtered = [r for r in roots if not np.iscomplex(r) and r.real < 0.0] *)
Definition is_negative_real (z : R * R) : bool :=
  if Req_EM_T (snd z) 0 then (if Rlt_dec (fst z) 0 then true else false) else false.

Definition get_negative_real_root_before_repair (roots : list (R * R)) : option R :=
  match filter is_negative_real roots with
  | [z] => Some (fst z)
  | _ => None
  end.

Definition rtd_scale_before_repair (polyroots : list R -> list (R * R))
           (current_excitation r_0 a b c lead_wire_resistance : R)
           (resistance_configuration : Z) (v : R) : option R :=
  let r_t := rtd_r_t current_excitation lead_wire_resistance resistance_configuration v in
  if Rle_dec r_0 r_t then Some (rtd_scale_pos a b r_0 r_t)
  else get_negative_real_root_before_repair (polyroots (rtd_quartic_coefficients a b c r_0 r_t)).

Lemma is_negative_real_true : forall z,
  is_negative_real z = true <-> snd z = 0 /\ fst z < 0.
Proof.
  intros [re im]. unfold is_negative_real. cbn [fst snd].
  destruct (Req_EM_T im 0) as [E|N]; [destruct (Rlt_dec re 0) as [L|G]|]; split; intros H;
    try discriminate; try tauto; try reflexivity.
Qed.

Lemma is_negative_real_small : forall z, is_negative_real z = true -> is_small_real z = true.
Proof.
  intros z H. apply is_negative_real_true in H. apply is_small_real_true.
  pose proof RTD_ROOT_TOLERANCE_pos. split; [tauto | lra].
Qed.

Lemma filter_none : forall (A : Type) (f : A -> bool) (l : list A),
  (forall z, In z l -> f z = false) -> filter f l = [].
Proof.
  intros A f l. induction l as [|y l IH]; intros H; [reflexivity|].
  cbn [filter]. rewrite (H y) by now left. apply IH. intros z Hz. apply H. now right.
Qed.

(* the one entry that passes the filter, anywhere in the list *)
Lemma filter_single : forall (A : Type) (f : A -> bool) (l1 l2 : list A) (z : A),
  f z = true -> (forall y, In y (l1 ++ l2) -> f y = false) ->
  filter f (l1 ++ z :: l2) = [z].
Proof.
  intros A f l1 l2 z Hz Hrest. rewrite filter_app. cbn [filter]. rewrite Hz.
  rewrite (filter_none A f l1) by (intros y Hy; apply Hrest, in_or_app; now left).
  rewrite (filter_none A f l2) by (intros y Hy; apply Hrest, in_or_app; now right).
  reflexivity.
Qed.

Lemma get_negative_real_root_small_accepted : forall l1 l2 x,
  x < RTD_ROOT_TOLERANCE ->
  (forall z, In z (l1 ++ l2) -> snd z <> 0 \/ RTD_ROOT_TOLERANCE <= fst z) ->
  get_negative_real_root (l1 ++ (x, 0) :: l2) = Some x.
Proof.
  intros l1 l2 x Hx Hrest. unfold get_negative_real_root.
  rewrite (filter_single _ is_small_real l1 l2 (x, 0)); [reflexivity | |].
  - apply is_small_real_true. cbn. split; [reflexivity | exact Hx].
  - intros y Hy. apply is_small_real_false. now apply Hrest.
Qed.

Lemma get_negative_real_root_before_repair_rejects : forall l1 l2 x,
  0 <= x ->
  (forall z, In z (l1 ++ l2) -> snd z <> 0 \/ RTD_ROOT_TOLERANCE <= fst z) ->
  get_negative_real_root_before_repair (l1 ++ (x, 0) :: l2) = None.
Proof.
  intros l1 l2 x Hx Hrest. unfold get_negative_real_root_before_repair.
  rewrite (filter_none _ is_negative_real); [reflexivity|].
  intros z Hz. destruct (is_negative_real z) eqn:E; [exfalso | reflexivity].
  apply is_negative_real_true in E. destruct E as [Eim Ere].
  pose proof RTD_ROOT_TOLERANCE_pos as Htol.
  apply in_app_or in Hz. destruct Hz as [Hz|[Hz|Hz]].
  - destruct (Hrest z) as [N|G]; [apply in_or_app; now left | tauto | lra].
  - subst z. cbn [fst] in Ere. lra.
  - destruct (Hrest z) as [N|G]; [apply in_or_app; now right | tauto | lra].
Qed.

Lemma rtd_scale_small_root_accepted : forall polyroots i r0 a b c lead cfg v x l1 l2,
  rtd_r_t i lead cfg v < r0 ->
  polyroots (rtd_quartic_coefficients a b c r0 (rtd_r_t i lead cfg v)) = l1 ++ (x, 0) :: l2 ->
  0 <= x < RTD_ROOT_TOLERANCE ->
  (forall z, In z (l1 ++ l2) -> snd z <> 0 \/ RTD_ROOT_TOLERANCE <= fst z) ->
  rtd_scale polyroots i r0 a b c lead cfg v = Some x /\
  rtd_scale_before_repair polyroots i r0 a b c lead cfg v = None.
Proof.
  intros pr i r0 a b c lead cfg v x l1 l2 Hrt Hroots [Hx0 Hx1] Hrest.
  unfold rtd_scale, rtd_scale_before_repair, solve_quartic_form.
  destruct (Rle_dec r0 (rtd_r_t i lead cfg v)) as [Hge|_]; [lra|].
  rewrite Hroots. split.
  - now apply get_negative_real_root_small_accepted.
  - now apply get_negative_real_root_before_repair_rejects.
Qed.

(* where the answer has a negative real entry the repair changes nothing as
   long as no real entry lies in [0, tolerance) *)
Lemma get_negative_real_root_repair_conservative : forall roots,
  (forall z, In z roots -> snd z = 0 -> fst z < 0 \/ RTD_ROOT_TOLERANCE <= fst z) ->
  get_negative_real_root roots = get_negative_real_root_before_repair roots.
Proof.
  intros roots H. unfold get_negative_real_root, get_negative_real_root_before_repair.
  replace (filter is_small_real roots) with (filter is_negative_real roots); [reflexivity|].
  apply filter_ext_in. intros z Hz.
  destruct (is_small_real z) eqn:E.
  - apply is_small_real_true in E. destruct E as [Eim Ere].
    apply is_negative_real_true. split; [exact Eim|].
    destruct (H z Hz Eim) as [L|G]; [exact L | lra].
  - destruct (is_negative_real z) eqn:E'; [|reflexivity].
    apply is_negative_real_small in E'. congruence.
Qed.

(* ------------------------------------------------------------------------ *)
(* RTD: bracketing the negative root (used by the per-sample correspondence)  *)

Lemma rtd_quartic_continuous : forall a b c r0 rt, continuity (rtd_quartic a b c r0 rt).
Proof.
  intros a b c r0 rt. apply derivable_continuous. intro t.
  exists (r0 * rtd_quartic_derivative a b c t). apply rtd_quartic_derivative_correct.
Qed.

Lemma rtd_quartic_bracket : forall a b c r0 rt lo hi,
  r0 > 0 -> a > 0 -> b < 0 -> c < 0 -> lo < hi -> hi <= 0 ->
  rtd_quartic a b c r0 rt lo < 0 -> 0 < rtd_quartic a b c r0 rt hi ->
  exists t, lo < t < hi /\ rtd_quartic a b c r0 rt t = 0 /\
            forall x, x < 0 -> rtd_quartic a b c r0 rt x = 0 -> x = t.
Proof.
  intros a b c r0 rt lo hi Hr Ha Hb Hc Hlh Hhi Qlo Qhi.
  destruct (IVT_cor (rtd_quartic a b c r0 rt) lo hi (rtd_quartic_continuous a b c r0 rt))
    as [t [[Ht1 Ht2] Et]]; [lra | nra |].
  assert (lo < t) by (destruct Ht1 as [L|E]; [exact L | subst t; lra]).
  assert (t < hi) by (destruct Ht2 as [L|E]; [exact L | subst t; lra]).
  exists t. repeat split; try assumption.
  intros x Hx Ex. apply (rtd_quartic_root_unique a b c r0 rt); try assumption; lra.
Qed.

Definition corr (o : option R) (y tol : R) : Prop :=
  match o with Some m => Rabs (m - y) <= tol | None => False end.

Lemma rtd_scale_corr_pos : forall pr i r0 a b c lead cfg v y tol,
  r0 <= rtd_r_t i lead cfg v ->
  Rabs (rtd_scale_pos a b r0 (rtd_r_t i lead cfg v) - y) <= tol ->
  corr (rtd_scale pr i r0 a b c lead cfg v) y tol.
Proof.
  intros pr i r0 a b c lead cfg v y tol Hb Hy. unfold rtd_scale.
  destruct (Rle_dec r0 (rtd_r_t i lead cfg v)) as [_|N]; [exact Hy | contradiction].
Qed.

(* the same bracket for the filter of the code: with the resistance below R0
   the root found is the only real root below the tolerance *)
Lemma rtd_quartic_bracket_small : forall a b c r0 rt lo hi,
  r0 > 0 -> a > 0 -> b < 0 -> c < 0 -> a + b * RTD_ROOT_TOLERANCE >= 0 -> rt < r0 ->
  lo < hi -> hi <= 0 ->
  rtd_quartic a b c r0 rt lo < 0 -> 0 < rtd_quartic a b c r0 rt hi ->
  exists t, lo < t < hi /\ rtd_quartic a b c r0 rt t = 0 /\
            forall x, x < RTD_ROOT_TOLERANCE -> rtd_quartic a b c r0 rt x = 0 -> x = t.
Proof.
  intros a b c r0 rt lo hi Hr Ha Hb Hc Hab Hrt Hlh Hhi Qlo Qhi.
  destruct (rtd_quartic_bracket a b c r0 rt lo hi Hr Ha Hb Hc Hlh Hhi Qlo Qhi)
    as [t [Ht [Et Huniq]]].
  exists t. repeat split; try assumption; try tauto.
  intros x Hx Ex. apply Huniq; [|exact Ex].
  now apply (rtd_small_root_negative a b c r0 rt x).
Qed.

Lemma rtd_scale_corr_neg : forall pr i r0 a b c lead cfg v y tol lo hi,
  r0 > 0 -> a > 0 -> b < 0 -> c < 0 -> a + b * RTD_ROOT_TOLERANCE >= 0 ->
  rtd_r_t i lead cfg v < r0 ->
  lo < hi -> hi <= 0 -> y - tol <= lo -> hi <= y + tol ->
  rtd_quartic a b c r0 (rtd_r_t i lead cfg v) lo < 0 ->
  0 < rtd_quartic a b c r0 (rtd_r_t i lead cfg v) hi ->
  small_roots_ok (pr (rtd_quartic_coefficients a b c r0 (rtd_r_t i lead cfg v)))
                 (rtd_quartic_coefficients a b c r0 (rtd_r_t i lead cfg v)) ->
  corr (rtd_scale pr i r0 a b c lead cfg v) y tol.
Proof.
  intros pr i r0 a b c lead cfg v y tol lo hi Hr Ha Hb Hc Hab Hrt Hlh Hhi Hlo' Hhi' Qlo Qhi Hok.
  unfold rtd_scale. destruct (Rle_dec r0 (rtd_r_t i lead cfg v)) as [Hge|_]; [lra|].
  destruct (rtd_quartic_bracket_small a b c r0 _ lo hi Hr Ha Hb Hc Hab Hrt Hlh Hhi Qlo Qhi)
    as [t [[Ht1 Ht2] [Et Huniq]]].
  unfold solve_quartic_form.
  pose proof RTD_ROOT_TOLERANCE_pos as Htol.
  rewrite (get_negative_real_root_unique _ _ t Hok); [| lra | exact Et | exact Huniq].
  unfold corr. apply Rabs_le. lra.
Qed.

(* The parameter condition of rtd_quartic_pos_near_zero cannot be dropped:
   with A = 1, B = -10^10, C = -1, R0 = 1 the resistance 1 - 10^-12 is below
   R0 and the quartic has a root in [0, 5e-10], besides its negative one. *)
Lemma rtd_tolerance_condition_needed :
  exists x, 0 <= x < RTD_ROOT_TOLERANCE /\ rtd_quartic 1 (-1e10) (-1) 1 (1 - 1e-12) x = 0.
Proof.
  destruct (IVT_cor (rtd_quartic 1 (-1e10) (-1) 1 (1 - 1e-12)) 0 5e-10)
    as [x [[Hx0 Hx1] Ex]].
  - apply rtd_quartic_continuous.
  - lra.
  - rewrite !rtd_quartic_expand. nra.
  - exists x. unfold RTD_ROOT_TOLERANCE. split; [lra | exact Ex].
Qed.

(* ------------------------------------------------------------------------ *)
(* Thermistor                                                                 *)
Lemma cbrt_pos_pos : forall y, 0 < cbrt_pos y.
Proof. intro y. unfold cbrt_pos, Rpower. apply exp_pos. Qed.

Lemma cbrt_pos_cube : forall y, 0 < y -> cbrt_pos y ^ 3 = y.
Proof.
  intros y Hy. rewrite <- (Rpower_pow 3) by apply cbrt_pos_pos.
  unfold cbrt_pos. rewrite Rpower_mult.
  replace (/ 3 * INR 3) with 1 by (simpl; field). now apply Rpower_1.
Qed.

Lemma cbrt_pos_of_cube : forall p, 0 < p -> cbrt_pos (p ^ 3) = p.
Proof.
  intros p Hp. unfold cbrt_pos. rewrite <- (Rpower_pow 3) by exact Hp.
  rewrite Rpower_mult. replace (INR 3 * / 3) with 1 by (simpl; field). now apply Rpower_1.
Qed.

Lemma steinhart_hart_of_R : forall a b c t,
  b > 0 -> c > 0 ->
  steinhart_hart_recip_T a b c (R_of_steinhart_hart a b c t) = / t.
Proof.
  intros a b c t Hb Hc. unfold steinhart_hart_recip_T, R_of_steinhart_hart.
  generalize (/ t). intro it.
  set (alpha := (a - it) / c). set (p := b / (3 * c)).
  assert (Hp : 0 < p) by (unfold p; apply Rdiv_lt_0_compat; lra).
  assert (Hp3 : 0 < p ^ 3) by (apply pow_lt; exact Hp).
  set (beta := sqrt (p ^ 3 + alpha ^ 2 / 4)).
  assert (Hrad : 0 <= p ^ 3 + alpha ^ 2 / 4) by nra.
  assert (Hb2 : beta * beta = p ^ 3 + alpha ^ 2 / 4) by (apply sqrt_sqrt; exact Hrad).
  assert (Hb0 : 0 <= beta) by apply sqrt_pos.
  assert (Hprod : (beta - alpha / 2) * (beta + alpha / 2) = p ^ 3) by nra.
  assert (Hu : 0 < beta - alpha / 2) by nra.
  assert (Hw : 0 < beta + alpha / 2) by nra.
  rewrite ln_exp.
  set (u := cbrt_pos (beta - alpha / 2)). set (w := cbrt_pos (beta + alpha / 2)).
  assert (Eu : u ^ 3 = beta - alpha / 2) by (apply cbrt_pos_cube; exact Hu).
  assert (Ew : w ^ 3 = beta + alpha / 2) by (apply cbrt_pos_cube; exact Hw).
  assert (Euw : u * w = p).
  { unfold u, w, cbrt_pos. rewrite Rpower_mult_distr by assumption.
    rewrite Hprod. now apply cbrt_pos_of_cube. }
  assert (Ex : (u - w) ^ 3 = - alpha - 3 * p * (u - w)).
  { replace ((u - w) ^ 3) with (u ^ 3 - w ^ 3 - 3 * (u * w) * (u - w)) by ring.
    rewrite Eu, Ew, Euw. field. }
  rewrite Ex. unfold alpha, p. field. lra.
Qed.

Lemma R_of_steinhart_hart_pos : forall a b c t, 0 < R_of_steinhart_hart a b c t.
Proof. intros. unfold R_of_steinhart_hart. apply exp_pos. Qed.

Lemma polyval_steinhart_hart : forall a b c r,
  polyval (ln r) [a; b; 0; c] = steinhart_hart_recip_T a b c r.
Proof. intros. unfold polyval, steinhart_hart_recip_T. cbn [fold_right]. ring. Qed.

(* any resistance obeying Steinhart-Hart at temperature t *)
Lemma thermistor_current_inverts_rel : forall a b c t r i w lead r1 offset,
  t <> 0 -> i <> 0 -> steinhart_hart_recip_T a b c r = / t ->
  thermistor_scale CURRENT_EXCITATION i (wiring_code w) r1 lead a b c offset
                   (current_excitation_voltage i w lead r) = Some (t - offset).
Proof.
  intros a b c t r i w lead r1 offset Ht Hi Hsh.
  unfold thermistor_scale, thermistor_resistance. rewrite Z.eqb_refl.
  unfold current_excitation_voltage.
  replace (i * (r + lead_in_measurement CurrentExcitation w lead) / i)
    with (r + lead_in_measurement CurrentExcitation w lead) by (field; exact Hi).
  pose proof (adjust_cancels_lead CurrentExcitation w lead r) as E.
  cbn [excitation_code] in E. rewrite E.
  rewrite polyval_steinhart_hart, Hsh, Rinv_inv. reflexivity.
Qed.

Lemma voltage_divider_resistance : forall vex r1 rm,
  vex <> 0 -> r1 <> 0 -> rm <> 0 -> r1 + rm <> 0 ->
  r1 * / (vex * / (vex * rm / (r1 + rm)) - 1) = rm.
Proof. intros vex r1 rm Hv H1 Hm Hs. field. repeat split; try assumption. lra. Qed.

Lemma thermistor_voltage_inverts_rel : forall a b c t r vex w lead r1 offset,
  t <> 0 -> vex <> 0 -> r1 > 0 -> r > 0 -> lead >= 0 ->
  steinhart_hart_recip_T a b c r = / t ->
  thermistor_scale VOLTAGE_EXCITATION vex (wiring_code w) r1 lead a b c offset
                   (voltage_divider_voltage vex r1 w lead r) = Some (t - offset).
Proof.
  intros a b c t r vex w lead r1 offset Ht Hv H1 Hr Hl Hsh.
  unfold thermistor_scale, thermistor_resistance.
  replace (VOLTAGE_EXCITATION =? CURRENT_EXCITATION)%Z with false by reflexivity.
  rewrite Z.eqb_refl. unfold voltage_divider_voltage.
  assert (Hlm : 0 <= lead_in_measurement VoltageExcitation w lead)
    by (destruct w; cbn; lra).
  rewrite voltage_divider_resistance by lra.
  pose proof (adjust_cancels_lead VoltageExcitation w lead r) as E.
  cbn [excitation_code] in E. rewrite E.
  rewrite polyval_steinhart_hart, Hsh, Rinv_inv. reflexivity.
Qed.

Lemma thermistor_current_inverts : forall a b c t i w lead r1 offset,
  b > 0 -> c > 0 -> t > 0 -> i <> 0 ->
  thermistor_scale CURRENT_EXCITATION i (wiring_code w) r1 lead a b c offset
    (current_excitation_voltage i w lead (R_of_steinhart_hart a b c t)) = Some (t - offset).
Proof.
  intros a b c t i w lead r1 offset Hb Hc Ht Hi.
  apply thermistor_current_inverts_rel; [lra | exact Hi | now apply steinhart_hart_of_R].
Qed.

Lemma thermistor_voltage_inverts : forall a b c t vex w lead r1 offset,
  b > 0 -> c > 0 -> t > 0 -> vex <> 0 -> r1 > 0 -> lead >= 0 ->
  thermistor_scale VOLTAGE_EXCITATION vex (wiring_code w) r1 lead a b c offset
    (voltage_divider_voltage vex r1 w lead (R_of_steinhart_hart a b c t)) = Some (t - offset).
Proof.
  intros a b c t vex w lead r1 offset Hb Hc Ht Hv H1 Hl.
  apply thermistor_voltage_inverts_rel; try assumption; try lra.
  - apply R_of_steinhart_hart_pos.
  - now apply steinhart_hart_of_R.
Qed.

Lemma thermistor_invalid_excitation : forall e v cfg r1 lead a b c off x,
  e <> CURRENT_EXCITATION -> e <> VOLTAGE_EXCITATION ->
  thermistor_scale e v cfg r1 lead a b c off x = None.
Proof.
  intros e v cfg r1 lead a b c off x H1 H2. unfold thermistor_scale, thermistor_resistance.
  apply Z.eqb_neq in H1, H2. now rewrite H1, H2.
Qed.

(* ------------------------------------------------------------------------ *)
(* Strain                                                                     *)
Lemma strain_voltage_out_eq : forall init v, strain_voltage_out init v = v - init.
Proof.
  intros init v. unfold strain_voltage_out. destruct (Req_EM_T init 0) as [E|N]; [subst; ring | reflexivity].
Qed.

Lemma lead_adjustment_eq : forall rl r0, r0 <> 0 -> r0 + rl <> 0 ->
  lead_adjustment rl r0 = r0 / (r0 + rl).
Proof. intros rl r0 H0 H1. unfold lead_adjustment. field. split; [lra | exact H0]. Qed.


(* "This gives Vo = ..." : the closed forms quoted in the code's comments *)
Lemma wheatstone_full_bridge_1 : forall vex r0 g x, r0 <> 0 ->
  wheatstone vex (r0 * (1 - x * g)) (r0 * (1 + x * g)) (r0 * (1 - x * g)) (r0 * (1 + x * g))
  = - x * g * vex.
Proof.
  intros vex r0 g x H0. unfold wheatstone.
  replace (r0 * (1 - x * g) + r0 * (1 + x * g)) with (2 * r0) by ring.
  field. exact H0.
Qed.

Lemma wheatstone_full_bridge_2 : forall vex r0 nu g x, r0 <> 0 ->
  wheatstone vex (r0 * (1 - x * nu * g)) (r0 * (1 + x * nu * g))
             (r0 * (1 - x * g)) (r0 * (1 + x * g))
  = - (1 / 2) * x * g * vex * (1 + nu).
Proof.
  intros vex r0 nu g x H0. unfold wheatstone.
  replace (r0 * (1 - x * g) + r0 * (1 + x * g)) with (2 * r0) by ring.
  replace (r0 * (1 - x * nu * g) + r0 * (1 + x * nu * g)) with (2 * r0) by ring.
  field. exact H0.
Qed.

Lemma wheatstone_full_bridge_3 : forall vex r0 nu g x,
  r0 <> 0 -> 2 + x * g * (1 - nu) <> 0 ->
  wheatstone vex (r0 * (1 - x * nu * g)) (r0 * (1 + x * g))
             (r0 * (1 - x * nu * g)) (r0 * (1 + x * g))
  = - x * g * (1 + nu) * vex / (2 + x * g * (1 - nu)).
Proof.
  intros vex r0 nu g x H0 HD. unfold wheatstone.
  replace (r0 * (1 - x * nu * g) + r0 * (1 + x * g)) with (r0 * (2 + x * g * (1 - nu))) by ring.
  field. split; assumption.
Qed.

(* with leads: the effective gauge factor is g' = g * r0 / (r0 + rl) *)
Lemma wheatstone_half_bridge_1 : forall vex r0 rl nu g x,
  r0 <> 0 -> r0 + rl <> 0 ->
  2 + x * (g * (r0 / (r0 + rl))) * (1 - nu) <> 0 ->
  wheatstone vex r0 r0 (r0 * (1 - x * nu * g) + rl) (r0 * (1 + x * g) + rl)
  = ((1 - x * nu * (g * (r0 / (r0 + rl))))
     / (2 + x * (g * (r0 / (r0 + rl))) - x * nu * (g * (r0 / (r0 + rl)))) - 1 / 2) * vex.
Proof.
  intros vex r0 rl nu g x H0 H1 HD. unfold wheatstone.
  set (D := 2 + x * (g * (r0 / (r0 + rl))) * (1 - nu)) in *.
  replace (r0 * (1 - x * nu * g) + rl + (r0 * (1 + x * g) + rl)) with ((r0 + rl) * D)
    by (unfold D; field; exact H1).
  replace (2 + x * (g * (r0 / (r0 + rl))) - x * nu * (g * (r0 / (r0 + rl)))) with D
    by (unfold D; field; exact H1).
  replace (r0 + r0) with (2 * r0) by ring.
  field. repeat split; assumption.
Qed.

Lemma wheatstone_half_bridge_2 : forall vex r0 rl g x,
  r0 <> 0 -> r0 + rl <> 0 ->
  wheatstone vex r0 r0 (r0 * (1 - x * g) + rl) (r0 * (1 + x * g) + rl)
  = - x * (g * (r0 / (r0 + rl))) * vex / 2.
Proof.
  intros vex r0 rl g x H0 H1. unfold wheatstone.
  replace (r0 * (1 - x * g) + rl + (r0 * (1 + x * g) + rl)) with (2 * (r0 + rl)) by ring.
  replace (r0 + r0) with (2 * r0) by ring.
  field. split; assumption.
Qed.

Lemma wheatstone_quarter_bridge : forall vex r0 rl g x,
  r0 <> 0 -> r0 + rl <> 0 -> 2 + x * (g * (r0 / (r0 + rl))) <> 0 ->
  wheatstone vex r0 r0 (r0 + rl) (r0 * (1 + x * g) + rl)
  = (1 / (2 + x * (g * (r0 / (r0 + rl)))) - 1 / 2) * vex.
Proof.
  intros vex r0 rl g x H0 H1 HD. unfold wheatstone.
  set (D := 2 + x * (g * (r0 / (r0 + rl)))) in *.
  replace (r0 + rl + (r0 * (1 + x * g) + rl)) with ((r0 + rl) * D)
    by (unfold D; field; exact H1).
  replace (r0 + r0) with (2 * r0) by ring.
  field. repeat split; assumption.
Qed.

Ltac bridge_cbn :=
  cbn [Z.eqb Pos.eqb orb FULL_BRIDGE_1 FULL_BRIDGE_2 FULL_BRIDGE_3 HALF_BRIDGE_1 HALF_BRIDGE_2
       QUARTER_BRIDGE_1 QUARTER_BRIDGE_2].

Ltac bridge_cbn_in H :=
  cbn [Z.eqb Pos.eqb orb FULL_BRIDGE_1 FULL_BRIDGE_2 FULL_BRIDGE_3 HALF_BRIDGE_1 HALF_BRIDGE_2
       QUARTER_BRIDGE_1 QUARTER_BRIDGE_2] in H.

Ltac strain_start Hm :=
  unfold strain_measured_voltage, bridge_output in Hm; bridge_cbn_in Hm;
  injection Hm as Hm; subst;
  unfold strain_scale; bridge_cbn; rewrite strain_voltage_out_eq; f_equal.

Lemma strain_full_bridge_1_inverts : forall nu r0 rl init g gain vex e v,
  r0 <> 0 -> g <> 0 -> gain <> 0 -> vex <> 0 ->
  strain_measured_voltage FULL_BRIDGE_1 nu r0 rl init g gain vex e = Some v ->
  strain_scale FULL_BRIDGE_1 nu r0 rl init g gain vex v = Some e.
Proof.
  intros nu r0 rl init g gain vex e v H0 Hg Hk Hv Hm. strain_start Hm.
  rewrite wheatstone_full_bridge_1 by exact H0. field. repeat split; assumption.
Qed.

Lemma strain_full_bridge_2_inverts : forall nu r0 rl init g gain vex e v,
  r0 <> 0 -> g <> 0 -> gain <> 0 -> vex <> 0 -> 1 + nu <> 0 ->
  strain_measured_voltage FULL_BRIDGE_2 nu r0 rl init g gain vex e = Some v ->
  strain_scale FULL_BRIDGE_2 nu r0 rl init g gain vex v = Some e.
Proof.
  intros nu r0 rl init g gain vex e v H0 Hg Hk Hv Hn Hm. strain_start Hm.
  rewrite wheatstone_full_bridge_2 by exact H0. field. repeat split; assumption.
Qed.

Lemma strain_full_bridge_3_inverts : forall nu r0 rl init g gain vex e v,
  r0 <> 0 -> g <> 0 -> gain <> 0 -> vex <> 0 -> 1 + nu <> 0 ->
  2 + e / gain * g * (1 - nu) <> 0 ->
  strain_measured_voltage FULL_BRIDGE_3 nu r0 rl init g gain vex e = Some v ->
  strain_scale FULL_BRIDGE_3 nu r0 rl init g gain vex v = Some e.
Proof.
  intros nu r0 rl init g gain vex e v H0 Hg Hk Hv Hn HD Hm. strain_start Hm.
  rewrite wheatstone_full_bridge_3 by assumption.
  set (x := e / gain) in *.
  assert (Ee : e = x * gain) by (unfold x; field; assumption). clearbody x. subst e.
  replace (init + - x * g * (1 + nu) * vex / (2 + x * g * (1 - nu)) - init)
    with (- x * g * (1 + nu) * vex / (2 + x * g * (1 - nu))) by ring.
  replace (- x * g * (1 + nu) * vex / (2 + x * g * (1 - nu)) * (- (1 / 2) / gain * (1 - nu) * g)
           + - (1 / 2) / gain * vex * g * (1 + nu))
    with (- (g * vex * (1 + nu)) / (gain * (2 + x * g * (1 - nu))))
    by (field; split; assumption).
  field. repeat split; assumption.
Qed.

Lemma effective_gauge_factor_nz : forall g r0 rl,
  g <> 0 -> r0 <> 0 -> r0 + rl <> 0 -> g * (r0 / (r0 + rl)) <> 0.
Proof.
  intros g r0 rl Hg H0 H1. apply Rmult_integral_contrapositive_currified; [exact Hg|].
  unfold Rdiv. apply Rmult_integral_contrapositive_currified; [exact H0|].
  now apply Rinv_neq_0_compat.
Qed.

Lemma strain_half_bridge_1_inverts : forall nu r0 rl init g gain vex e v,
  r0 <> 0 -> r0 + rl <> 0 -> g <> 0 -> gain <> 0 -> vex <> 0 -> 1 + nu <> 0 ->
  2 + e / gain * (g * (r0 / (r0 + rl))) * (1 - nu) <> 0 ->
  strain_measured_voltage HALF_BRIDGE_1 nu r0 rl init g gain vex e = Some v ->
  strain_scale HALF_BRIDGE_1 nu r0 rl init g gain vex v = Some e.
Proof.
  intros nu r0 rl init g gain vex e v H0 H1 Hg Hk Hv Hn HD Hm. strain_start Hm.
  rewrite wheatstone_half_bridge_1 by assumption.
  rewrite lead_adjustment_eq by assumption.
  pose proof (effective_gauge_factor_nz g r0 rl Hg H0 H1) as HG.
  replace (- g * vex * (r0 / (r0 + rl))) with (- (g * (r0 / (r0 + rl))) * vex) by ring.
  set (G := g * (r0 / (r0 + rl))) in *. clearbody G.
  set (x := e / gain) in *.
  assert (Ee : e = x * gain) by (unfold x; field; assumption). clearbody x. subst e.
  assert (HD' : 2 + x * G - x * nu * G <> 0).
  { intro Hc. apply HD. rewrite <- Hc. ring. }
  replace (init + ((1 - x * nu * G) / (2 + x * G - x * nu * G) - 1 / 2) * vex - init)
    with (- x * G * (1 + nu) * vex / (2 * (2 + x * G - x * nu * G))) by (field; exact HD').
  replace (- x * G * (1 + nu) * vex / (2 * (2 + x * G - x * nu * G))
           * (- G * vex / (4 * gain) * 2 * (1 - nu) / vex)
           + - G * vex / (4 * gain) * (1 + nu))
    with (- (G * vex * (1 + nu)) / (2 * gain * (2 + x * G - x * nu * G)))
    by (field; repeat split; assumption).
  field. repeat split; assumption.
Qed.

Lemma strain_half_bridge_2_inverts : forall nu r0 rl init g gain vex e v,
  r0 <> 0 -> r0 + rl <> 0 -> g <> 0 -> gain <> 0 -> vex <> 0 ->
  strain_measured_voltage HALF_BRIDGE_2 nu r0 rl init g gain vex e = Some v ->
  strain_scale HALF_BRIDGE_2 nu r0 rl init g gain vex v = Some e.
Proof.
  intros nu r0 rl init g gain vex e v H0 H1 Hg Hk Hv Hm. strain_start Hm.
  rewrite wheatstone_half_bridge_2 by assumption.
  rewrite lead_adjustment_eq by assumption.
  field. repeat split; assumption.
Qed.

Lemma strain_quarter_bridge_core : forall r0 rl init g gain vex e,
  r0 <> 0 -> r0 + rl <> 0 -> g <> 0 -> gain <> 0 -> vex <> 0 ->
  2 + e / gain * (g * (r0 / (r0 + rl))) <> 0 ->
  (/ ((init + (1 / (2 + e / gain * (g * (r0 / (r0 + rl)))) - 1 / 2) * vex - init) * (2 / vex) + 1) - 1)
  * (2 * gain / (g * lead_adjustment rl r0)) = e.
Proof.
  intros r0 rl init g gain vex e H0 H1 Hg Hk Hv HD.
  rewrite lead_adjustment_eq by assumption.
  pose proof (effective_gauge_factor_nz g r0 rl Hg H0 H1) as HG.
  set (G := g * (r0 / (r0 + rl))) in *. clearbody G.
  set (x := e / gain) in *.
  assert (Ee : e = x * gain) by (unfold x; field; assumption). clearbody x. subst e.
  replace ((init + (1 / (2 + x * G) - 1 / 2) * vex - init) * (2 / vex) + 1)
    with (2 / (2 + x * G)) by (field; split; assumption).
  field. repeat split; try assumption.
Qed.

Lemma strain_quarter_bridge_1_inverts : forall nu r0 rl init g gain vex e v,
  r0 <> 0 -> r0 + rl <> 0 -> g <> 0 -> gain <> 0 -> vex <> 0 ->
  2 + e / gain * (g * (r0 / (r0 + rl))) <> 0 ->
  strain_measured_voltage QUARTER_BRIDGE_1 nu r0 rl init g gain vex e = Some v ->
  strain_scale QUARTER_BRIDGE_1 nu r0 rl init g gain vex v = Some e.
Proof.
  intros nu r0 rl init g gain vex e v H0 H1 Hg Hk Hv HD Hm. strain_start Hm.
  rewrite wheatstone_quarter_bridge by assumption.
  now apply strain_quarter_bridge_core.
Qed.

Lemma strain_quarter_bridge_2_inverts : forall nu r0 rl init g gain vex e v,
  r0 <> 0 -> r0 + rl <> 0 -> g <> 0 -> gain <> 0 -> vex <> 0 ->
  2 + e / gain * (g * (r0 / (r0 + rl))) <> 0 ->
  strain_measured_voltage QUARTER_BRIDGE_2 nu r0 rl init g gain vex e = Some v ->
  strain_scale QUARTER_BRIDGE_2 nu r0 rl init g gain vex v = Some e.
Proof.
  intros nu r0 rl init g gain vex e v H0 H1 Hg Hk Hv HD Hm. strain_start Hm.
  rewrite wheatstone_quarter_bridge by assumption.
  now apply strain_quarter_bridge_core.
Qed.

Lemma strain_unsupported : forall cfg nu r0 rl init g gain vex v,
  cfg <> FULL_BRIDGE_1 -> cfg <> FULL_BRIDGE_2 -> cfg <> FULL_BRIDGE_3 ->
  cfg <> HALF_BRIDGE_1 -> cfg <> HALF_BRIDGE_2 -> cfg <> QUARTER_BRIDGE_1 -> cfg <> QUARTER_BRIDGE_2 ->
  strain_scale cfg nu r0 rl init g gain vex v = None.
Proof.
  intros cfg nu r0 rl init g gain vex v H1 H2 H3 H4 H5 H6 H7. unfold strain_scale.
  apply Z.eqb_neq in H1, H2, H3, H4, H5, H6, H7. now rewrite H1, H2, H3, H4, H5, H6, H7.
Qed.

(* ------------------------------------------------------------------------ *)
(* Table scaling                                                              *)

Lemma all_diff_pos_spec : forall xs, all_diff_pos xs = true <-> strictly_increasing xs.
Proof.
  induction xs as [|x0 [|x1 rest] IH]; cbn [all_diff_pos strictly_increasing]; try tauto.
  destruct (Rlt_dec x0 x1) as [L|N]; cbn [andb]; split.
  - intro H. split; [exact L | now apply IH].
  - intros [_ H]. now apply IH.
  - discriminate.
  - intros [L _]. contradiction.
Qed.

Lemma strictly_increasing_tail : forall x0 xs, strictly_increasing (x0 :: xs) -> strictly_increasing xs.
Proof. intros x0 [|x1 rest] H; [exact I | exact (proj2 H)]. Qed.

Lemma strictly_increasing_gt : forall xs x0 z,
  strictly_increasing (x0 :: xs) -> In z xs -> x0 < z.
Proof.
  induction xs as [|x1 rest IH]; intros x0 z Hs Hin; [contradiction|].
  destruct Hs as [L Hs]. destruct Hin as [E|Hin]; [subst; exact L|].
  apply Rlt_trans with x1; [exact L | now apply IH].
Qed.

Lemma table_init_increasing : forall pre scaled,
  strictly_increasing scaled -> table_init pre scaled = Some (scaled, pre).
Proof.
  intros pre scaled H. unfold table_init. apply all_diff_pos_spec in H. now rewrite H.
Qed.

Lemma table_init_decreasing : forall pre scaled,
  ~ strictly_increasing scaled -> strictly_increasing (rev scaled) ->
  table_init pre scaled = Some (rev scaled, rev pre).
Proof.
  intros pre scaled H1 H2. unfold table_init.
  destruct (all_diff_pos scaled) eqn:E1; [apply all_diff_pos_spec in E1; contradiction|].
  apply all_diff_pos_spec in H2. now rewrite H2.
Qed.

Lemma table_init_error : forall pre scaled,
  ~ strictly_increasing scaled -> ~ strictly_increasing (rev scaled) ->
  table_init pre scaled = None.
Proof.
  intros pre scaled H1 H2. unfold table_init.
  destruct (all_diff_pos scaled) eqn:E1; [apply all_diff_pos_spec in E1; contradiction|].
  destruct (all_diff_pos (rev scaled)) eqn:E2; [apply all_diff_pos_spec in E2; contradiction|].
  reflexivity.
Qed.

Lemma combine_app : forall (A B : Type) (l1 l1' : list A) (l2 l2' : list B),
  length l1 = length l2 -> combine (l1 ++ l1') (l2 ++ l2') = combine l1 l2 ++ combine l1' l2'.
Proof.
  intros A B. induction l1 as [|a l1 IH]; intros l1' [|b l2] l2' H; try discriminate; cbn.
  - reflexivity.
  - f_equal. apply IH. now injection H.
Qed.

Lemma combine_rev : forall (A B : Type) (l1 : list A) (l2 : list B),
  length l1 = length l2 -> combine (rev l1) (rev l2) = rev (combine l1 l2).
Proof.
  intros A B. induction l1 as [|a l1 IH]; intros [|b l2] H; try discriminate; cbn.
  - reflexivity.
  - injection H as H. rewrite combine_app by (now rewrite !rev_length). cbn. now rewrite IH.
Qed.

(* decomposition of knot lists *)
Lemma consecutive_cons : forall k0 k1 K p q,
  consecutive_knots (k0 :: k1 :: K) p q ->
  (p = k0 /\ q = k1) \/ consecutive_knots (k1 :: K) p q.
Proof.
  intros k0 k1 K p q [l1 [l2 E]]. destruct l1 as [|a l1]; cbn in E.
  - injection E as E0 E1 _. left. split; congruence.
  - injection E as _ E. right. now exists l1, l2.
Qed.

Lemma consecutive_single : forall k0 p q, ~ consecutive_knots [k0] p q.
Proof.
  intros k0 p q [l1 [l2 E]]. apply (f_equal (@length _)) in E.
  rewrite app_length in E. cbn in E. lia.
Qed.

Lemma consecutive_in_tail : forall k0 K p q,
  consecutive_knots (k0 :: K) p q -> In q K.
Proof.
  intros k0 K p q [l1 [l2 E]]. destruct l1 as [|a l1]; cbn in E; injection E as _ E; subst K.
  - now left.
  - apply in_or_app. right. right. now left.
Qed.

Lemma consecutive_p_in : forall K p q, consecutive_knots K p q -> In p K.
Proof. intros K p q [l1 [l2 E]]. subst K. apply in_or_app. right. now left. Qed.

Lemma last_knot_cons : forall k0 k1 K p, last_knot (k0 :: k1 :: K) p -> last_knot (k1 :: K) p.
Proof.
  intros k0 k1 K p [l E]. destruct l as [|a l]; cbn in E.
  - discriminate.
  - injection E as _ E. now exists l.
Qed.

Lemma last_knot_single : forall k0 p, last_knot [k0] p -> p = k0.
Proof.
  intros k0 p [l E]. destruct l as [|a [|b l]]; cbn in E; try congruence.
Qed.

Lemma last_knot_in : forall K p, last_knot K p -> In p K.
Proof. intros K p [l E]. subst K. apply in_or_app. right. now left. Qed.

(* interp_from, started at a knot (x0, y0) with x0 <= x *)
Lemma interp_from_spec : forall xs ys x0 y0 x y,
  length xs = length ys -> strictly_increasing (x0 :: xs) -> x0 <= x ->
  interp_from x x0 y0 xs ys = Some y ->
  let K := (x0, y0) :: combine xs ys in
  (x = x0 -> y = y0) /\
  (forall p, last_knot K p -> fst p <= x -> y = snd p) /\
  (forall p q, consecutive_knots K p q -> fst p <= x <= fst q ->
               y = snd p + (snd q - snd p) * (x - fst p) / (fst q - fst p)).
Proof.
  induction xs as [|x1 xs IH]; intros [|y1 ys] x0 y0 x y Hlen Hs Hx Hi; try discriminate.
  - cbn in Hi. injection Hi as Hi. subst y. cbn. repeat split.
    + intros p Hp _. apply last_knot_single in Hp. now subst p.
    + intros p q Hc. now apply consecutive_single in Hc.
  - cbn [interp_from] in Hi. cbn [combine]. injection Hlen as Hlen.
    assert (L01 : x0 < x1) by (destruct Hs as [L _]; exact L).
    assert (Htail : forall z, In z ((x1, y1) :: combine xs ys) -> x1 <= fst z).
    { intros [zx zy] [E|Hin]; cbn [fst].
      - injection E as E _. lra.
      - apply in_combine_l in Hin. left.
        apply (strictly_increasing_gt xs x1 zx); [exact (proj2 Hs) | exact Hin]. }
    destruct (Rlt_dec x x1) as [Lx|Gx].
    + injection Hi as Hi. subst y. repeat split.
      * intro E. subst x. field. lra.
      * intros p Hp Hpx. apply last_knot_cons in Hp. apply last_knot_in, Htail in Hp. lra.
      * intros p q Hc [Hpx Hxq]. apply consecutive_cons in Hc. destruct Hc as [[Ep Eq]|Hc].
        -- subst p q. cbn [fst snd]. field. lra.
        -- apply consecutive_p_in, Htail in Hc. lra.
    + assert (Hx1 : x1 <= x) by lra.
      destruct (IH ys x1 y1 x y Hlen (proj2 Hs) Hx1 Hi) as [Ha [Hb Hc]].
      repeat split.
      * intro E. lra.
      * intros p Hp Hpx. apply last_knot_cons in Hp. now apply Hb.
      * intros p q Hcq [Hpx Hxq]. apply consecutive_cons in Hcq. destruct Hcq as [[Ep Eq]|Hcq].
        -- subst p q. cbn [fst snd] in *. assert (E : x = x1) by lra.
           rewrite (Ha E). subst x. field. lra.
        -- now apply Hc.
Qed.

Theorem interp_is_clamped_pwl : forall xp fp x y,
  length xp = length fp -> strictly_increasing xp ->
  interp x xp fp = Some y -> clamped_pwl (combine xp fp) x y.
Proof.
  intros [|x0 xs] [|y0 ys] x y Hlen Hs Hi; try discriminate.
  injection Hlen as Hlen. cbn [interp] in Hi. rewrite Hlen, Nat.eqb_refl in Hi.
  cbn [combine]. destruct (Rle_dec x x0) as [Lx|Gx].
  - injection Hi as Hi. subst y. repeat split.
    + intros p [l E] _. injection E as E _. now subst p.
    + intros p Hp Hpx.
      destruct xs as [|x1 xs]; destruct ys as [|y1 ys]; try discriminate.
      * apply last_knot_single in Hp. now subst p.
      * cbn [combine] in Hp. apply last_knot_cons, last_knot_in in Hp.
        destruct p as [px py]. cbn [fst] in Hpx.
        assert (x0 < px).
        { apply (strictly_increasing_gt (x1 :: xs) x0 px Hs).
          apply (in_combine_l (x1 :: xs) (y1 :: ys) px py). exact Hp. }
        lra.
    + intros p q Hc [Hpx Hxq].
      destruct xs as [|x1 xs]; destruct ys as [|y1 ys]; try discriminate.
      * now apply consecutive_single in Hc.
      * cbn [combine] in Hc. pose proof (consecutive_in_tail _ _ _ _ Hc) as Hq.
        destruct q as [qx qy]. cbn [fst snd] in *.
        assert (x0 < qx).
        { apply (strictly_increasing_gt (x1 :: xs) x0 qx Hs).
          apply (in_combine_l (x1 :: xs) (y1 :: ys) qx qy). exact Hq. }
        apply consecutive_cons in Hc. destruct Hc as [[Ep Eq]|Hc].
        -- subst p. cbn [fst snd] in *. assert (x = x0) by lra. subst x. field. lra.
        -- apply consecutive_p_in in Hc. destruct p as [px py]. cbn [fst snd] in *.
           assert (x0 < px).
           { apply (strictly_increasing_gt (x1 :: xs) x0 px Hs).
             apply (in_combine_l (x1 :: xs) (y1 :: ys) px py). exact Hc. }
           lra.
  - assert (Hx : x0 <= x) by lra.
    destruct (interp_from_spec xs ys x0 y0 x y Hlen Hs Hx Hi) as [Ha [Hb Hc]].
    repeat split.
    + intros p [l E] Hpx. injection E as E _. subst p. cbn [fst snd] in *. lra.
    + exact Hb.
    + exact Hc.
Qed.

(* np.interp answers on every non-empty table with equal-length columns *)
Lemma interp_from_total : forall xs ys x x0 y0,
  length xs = length ys -> exists y, interp_from x x0 y0 xs ys = Some y.
Proof.
  induction xs as [|x1 xs IH]; intros [|y1 ys] x x0 y0 Hlen; try discriminate.
  - now exists y0.
  - cbn [interp_from]. destruct (Rlt_dec x x1); [eexists; reflexivity|].
    apply IH. now injection Hlen.
Qed.

Lemma interp_total : forall xp fp x,
  xp <> [] -> length xp = length fp -> exists y, interp x xp fp = Some y.
Proof.
  intros [|x0 xs] [|y0 ys] x Hne Hlen; try discriminate; [contradiction|].
  injection Hlen as Hlen. cbn [interp]. rewrite Hlen, Nat.eqb_refl.
  destruct (Rle_dec x x0); [eexists; reflexivity|]. now apply interp_from_total.
Qed.

Theorem table_scale_is_clamped_pwl : forall pre scaled x y,
  length pre = length scaled ->
  table_scale pre scaled x = Some y ->
  (strictly_increasing scaled /\ clamped_pwl (combine scaled pre) x y) \/
  (~ strictly_increasing scaled /\ strictly_increasing (rev scaled) /\
   clamped_pwl (rev (combine scaled pre)) x y).
Proof.
  intros pre scaled x y Hlen Ht. unfold table_scale, table_init in Ht.
  destruct (all_diff_pos scaled) eqn:E1.
  - left. apply all_diff_pos_spec in E1. split; [exact E1|].
    apply interp_is_clamped_pwl; [now symmetry | exact E1 | exact Ht].
  - right. assert (N1 : ~ strictly_increasing scaled).
    { intro H. apply all_diff_pos_spec in H. congruence. }
    destruct (all_diff_pos (rev scaled)) eqn:E2; [|discriminate].
    apply all_diff_pos_spec in E2. split; [exact N1 | split; [exact E2|]].
    rewrite <- combine_rev by (now symmetry).
    apply interp_is_clamped_pwl; [now rewrite !rev_length | exact E2 | exact Ht].
Qed.

Theorem table_scale_defined_iff_monotonic : forall pre scaled x,
  scaled <> [] -> length pre = length scaled ->
  ((exists y, table_scale pre scaled x = Some y) <->
   (strictly_increasing scaled \/ strictly_increasing (rev scaled))).
Proof.
  intros pre scaled x Hne Hlen. split.
  - intros [y Ht]. destruct (table_scale_is_clamped_pwl pre scaled x y Hlen Ht) as [[H _]|[_ [H _]]];
      [now left | now right].
  - intros Hm. unfold table_scale.
    destruct (all_diff_pos scaled) eqn:E1.
    + unfold table_init. rewrite E1. apply interp_total; [exact Hne | now symmetry].
    + assert (N1 : ~ strictly_increasing scaled).
      { intro H. apply all_diff_pos_spec in H. congruence. }
      destruct Hm as [H|H]; [contradiction|].
      rewrite (table_init_decreasing pre scaled N1 H).
      apply interp_total.
      * intro E. apply Hne. apply (f_equal (@rev R)) in E. now rewrite rev_involutive in E.
      * now rewrite !rev_length.
Qed.

(* the three clauses of clamped_pwl cover every x, so the value is unique *)
Lemma knots_cover : forall K k0 x, fst k0 <= x ->
  (exists p, last_knot (k0 :: K) p /\ fst p <= x) \/
  (exists p q, consecutive_knots (k0 :: K) p q /\ fst p <= x <= fst q).
Proof.
  induction K as [|k1 K IH]; intros k0 x Hx.
  - left. exists k0. split; [now exists [] | exact Hx].
  - destruct (Rle_dec x (fst k1)) as [L|G].
    + right. exists k0, k1. split; [now exists [], K | lra].
    + destruct (IH k1 x) as [[p [[l E] Hp]]|[p [q [[l1 [l2 E]] Hpq]]]]; [lra| |].
      * left. exists p. split; [exists (k0 :: l); cbn; now rewrite E | exact Hp].
      * right. exists p, q. split; [exists (k0 :: l1), l2; cbn; now rewrite E | exact Hpq].
Qed.

Theorem clamped_pwl_unique : forall K x y1 y2,
  K <> [] -> clamped_pwl K x y1 -> clamped_pwl K x y2 -> y1 = y2.
Proof.
  intros [|k0 K] x y1 y2 Hne [A1 [B1 C1]] [A2 [B2 C2]]; [contradiction|].
  destruct (Rle_dec x (fst k0)) as [L|G].
  - rewrite (A1 k0), (A2 k0); try reflexivity; try assumption; now exists K.
  - destruct (knots_cover K k0 x) as [[p [Hp Hpx]]|[p [q [Hc Hpq]]]]; [lra| |].
    + now rewrite (B1 p Hp Hpx), (B2 p Hp Hpx).
    + now rewrite (C1 p q Hc Hpq), (C2 p q Hc Hpq).
Qed.

(* ------------------------------------------------------------------------ *)
(* Evaluation lemmas used by the generated per-sample correspondence files
   (the model's real-number comparisons do not compute; the harness proves
   each comparison it relies on with lra)                                     *)

Lemma cvd_eval_pos : forall r0 a b c t, 0 <= t -> cvd r0 a b c t = cvd_pos r0 a b t.
Proof. intros. unfold cvd. destruct (Rle_dec 0 t); [reflexivity | contradiction]. Qed.

Lemma cvd_eval_neg : forall r0 a b c t, t < 0 -> cvd r0 a b c t = cvd_neg r0 a b c t.
Proof. intros. unfold cvd. destruct (Rle_dec 0 t); [lra | reflexivity]. Qed.

Lemma table_scale_eval_incr : forall pre scaled x,
  strictly_increasing scaled -> table_scale pre scaled x = interp x scaled pre.
Proof. intros pre scaled x H. unfold table_scale. now rewrite table_init_increasing. Qed.

Lemma table_scale_eval_decr : forall pre scaled x,
  ~ strictly_increasing scaled -> strictly_increasing (rev scaled) ->
  table_scale pre scaled x = interp x (rev scaled) (rev pre).
Proof. intros pre scaled x H1 H2. unfold table_scale. now rewrite table_init_decreasing. Qed.

Lemma table_scale_eval_error : forall pre scaled x,
  ~ strictly_increasing scaled -> ~ strictly_increasing (rev scaled) ->
  table_scale pre scaled x = None.
Proof. intros pre scaled x H1 H2. unfold table_scale. now rewrite table_init_error. Qed.

Lemma interp_eval_left : forall x x0 y0 xs ys,
  x <= x0 -> length xs = length ys -> interp x (x0 :: xs) (y0 :: ys) = Some y0.
Proof.
  intros x x0 y0 xs ys H Hlen. cbn [interp]. rewrite Hlen, Nat.eqb_refl.
  destruct (Rle_dec x x0); [reflexivity | contradiction].
Qed.

Lemma interp_eval_right : forall x x0 y0 xs ys,
  x0 < x -> length xs = length ys ->
  interp x (x0 :: xs) (y0 :: ys) = interp_from x x0 y0 xs ys.
Proof.
  intros x x0 y0 xs ys H Hlen. cbn [interp]. rewrite Hlen, Nat.eqb_refl.
  destruct (Rle_dec x x0); [lra | reflexivity].
Qed.

Lemma interp_from_eval_lt : forall x x0 y0 x1 y1 xs ys,
  x < x1 ->
  interp_from x x0 y0 (x1 :: xs) (y1 :: ys) = Some ((y1 - y0) / (x1 - x0) * (x - x0) + y0).
Proof. intros. cbn [interp_from]. destruct (Rlt_dec x x1); [reflexivity | contradiction]. Qed.

Lemma interp_from_eval_ge : forall x x0 y0 x1 y1 xs ys,
  x1 <= x ->
  interp_from x x0 y0 (x1 :: xs) (y1 :: ys) = interp_from x x1 y1 xs ys.
Proof. intros. cbn [interp_from]. destruct (Rlt_dec x x1); [lra | reflexivity]. Qed.

(* ------------------------------------------------------------------------ *)
(* RTD below zero, stated on the whole chain temperature -> voltage -> code   *)

Lemma rtd_chain_r_t_neg : forall r0 a b c t i lead w,
  i <> 0 -> t < 0 ->
  rtd_r_t i lead (wiring_code w) (current_excitation_voltage i w lead (cvd r0 a b c t))
  = cvd_neg r0 a b c t.
Proof.
  intros r0 a b c t i lead w Hi Ht. rewrite rtd_r_t_of_voltage by exact Hi.
  now apply cvd_eval_neg.
Qed.

Lemma rtd_chain_root : forall r0 a b c t i lead w,
  i <> 0 -> t < 0 ->
  polyval t (rtd_quartic_coefficients a b c r0
               (rtd_r_t i lead (wiring_code w)
                        (current_excitation_voltage i w lead (cvd r0 a b c t)))) = 0.
Proof.
  intros r0 a b c t i lead w Hi Ht. rewrite rtd_chain_r_t_neg by assumption.
  exact (rtd_quartic_root a b c r0 t).
Qed.

Lemma rtd_chain_unique : forall r0 a b c t i lead w x,
  r0 > 0 -> a > 0 -> b < 0 -> c < 0 -> i <> 0 -> t < 0 ->
  x < 0 ->
  polyval x (rtd_quartic_coefficients a b c r0
               (rtd_r_t i lead (wiring_code w)
                        (current_excitation_voltage i w lead (cvd r0 a b c t)))) = 0 ->
  x = t.
Proof.
  intros r0 a b c t i lead w x Hr Ha Hb Hc Hi Ht Hx Ex.
  rewrite rtd_chain_r_t_neg in Ex by assumption.
  now apply (rtd_negative_root_is_T a b c r0 t x).
Qed.

Lemma rtd_chain_branch : forall r0 a b c t i lead w,
  r0 > 0 -> a > 0 -> b < 0 -> c < 0 -> i <> 0 -> t < 0 ->
  rtd_r_t i lead (wiring_code w) (current_excitation_voltage i w lead (cvd r0 a b c t)) < r0.
Proof.
  intros r0 a b c t i lead w Hr Ha Hb Hc Hi Ht. rewrite rtd_chain_r_t_neg by assumption.
  now apply cvd_neg_lt_r0.
Qed.

(* the same for the filter of the code: any real root below the tolerance *)
Lemma rtd_chain_unique_small : forall r0 a b c t i lead w x,
  r0 > 0 -> a > 0 -> b < 0 -> c < 0 -> a + b * RTD_ROOT_TOLERANCE >= 0 -> i <> 0 -> t < 0 ->
  x < RTD_ROOT_TOLERANCE ->
  polyval x (rtd_quartic_coefficients a b c r0
               (rtd_r_t i lead (wiring_code w)
                        (current_excitation_voltage i w lead (cvd r0 a b c t)))) = 0 ->
  x = t.
Proof.
  intros r0 a b c t i lead w x Hr Ha Hb Hc Hab Hi Ht Hx Ex.
  rewrite rtd_chain_r_t_neg in Ex by assumption.
  now apply (rtd_small_root_is_T a b c r0 t x).
Qed.

(* no real root in [0, tolerance) for the voltage of a temperature below 0 *)
Lemma rtd_chain_no_root_near_zero : forall r0 a b c t i lead w x,
  r0 > 0 -> a > 0 -> b < 0 -> c < 0 -> a + b * RTD_ROOT_TOLERANCE >= 0 -> i <> 0 -> t < 0 ->
  0 <= x < RTD_ROOT_TOLERANCE ->
  polyval x (rtd_quartic_coefficients a b c r0
               (rtd_r_t i lead (wiring_code w)
                        (current_excitation_voltage i w lead (cvd r0 a b c t)))) > 0.
Proof.
  intros r0 a b c t i lead w x Hr Ha Hb Hc Hab Hi Ht Hx.
  apply (rtd_quartic_pos_near_zero a b c r0); try assumption.
  now apply rtd_chain_branch.
Qed.
