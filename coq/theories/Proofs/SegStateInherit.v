(* C02 — object-list inheritance in the segment state machine (Model/SegState.v).

   T1  positional_update_is_update_by_path : the index map built ONCE from the
       copied list ([existing_lookup ... base]) and used for replace-at-index in
       the evolving list agrees with looking the path up in the CURRENT list,
       as long as paths are unique in the copied list and in the metadata.
   T2  explicit_reencoding_same_objects : restating every object of a segment
       explicitly under a new object list reproduces the same ordered list.
   T3  forbidden_rejected_* : the three forbidden encodings are errors.
   T4  prev_objs_tracks_segments : the global map after a segment.           *)
From Coq Require Import List ZArith Bool Lia.
From Coq Require Import Init.Byte.
Import ListNotations.
From NpTdms Require Import Base.Bytes Base.Res Model.Tokens Model.SegState Proofs.SegStateProofs.
Local Open Scope Z_scope.

(* ======================================================================== *)
(* Specification: update BY PATH in the current list                         *)
(* ======================================================================== *)

Fixpoint find_path (k : bytes) (l : list sobj) : option sobj :=
  match l with
  | [] => None
  | o :: r => if bytes_eqb k (so_path o) then Some o else find_path k r
  end.

Fixpoint replace_path (k : bytes) (x : sobj) (l : list sobj) : list sobj :=
  match l with
  | [] => []
  | o :: r => if bytes_eqb k (so_path o) then x :: r else o :: replace_path k x r
  end.

Definition spec_step (prev_objs : alist sobj) (ordered : list sobj) (x : entry)
  : res (list sobj) :=
  let path := e_path x in
  match find_path path ordered with
  | Some o =>
    do o' <- update_existing o (e_idx x); Ok (replace_path path o' ordered)
  | None =>
    match alookup path prev_objs with
    | Some po => do o' <- reuse_previous po (e_idx x); Ok (ordered ++ [o'])
    | None =>
      match e_idx x with
      | IMatchPrev => Err EValue
      | i => do o' <- new_object path i; Ok (ordered ++ [o'])
      end
    end
  end.

Fixpoint spec_fold_entries (prev_objs : alist sobj) (ordered : list sobj) (es : list entry)
  : res (list sobj) :=
  match es with
  | [] => Ok ordered
  | x :: r => do o' <- spec_step prev_objs ordered x; spec_fold_entries prev_objs o' r
  end.

(* ---- small list facts ------------------------------------------------------ *)

Lemma NoDup_app_intro {A} (l1 l2 : list A) :
  NoDup l1 -> NoDup l2 -> (forall x, In x l1 -> ~ In x l2) -> NoDup (l1 ++ l2).
Proof.
  induction l1 as [|a l1 IH]; intros H1 H2 Hd; cbn; [exact H2|].
  apply NoDup_cons_iff in H1. destruct H1 as [Ha H1].
  apply NoDup_cons.
  - intros Hin. apply in_app_or in Hin. destruct Hin as [Hin|Hin]; [exact (Ha Hin)|].
    apply (Hd a); [left; reflexivity|exact Hin].
  - apply IH; [exact H1|exact H2|]. intros x Hx. apply Hd. right. exact Hx.
Qed.

Lemma NoDup_app_elim {A} (l1 l2 : list A) :
  NoDup (l1 ++ l2) -> NoDup l1 /\ NoDup l2 /\ (forall x, In x l1 -> ~ In x l2).
Proof.
  induction l1 as [|a l1 IH]; cbn; intros H.
  - split; [apply NoDup_nil|]. split; [exact H|]. intros x [].
  - apply NoDup_cons_iff in H. destruct H as [Ha H]. destruct (IH H) as (H1 & H2 & Hd).
    split; [|split; [exact H2|]].
    + apply NoDup_cons; [|exact H1]. intros Hin. apply Ha. apply in_or_app. left. exact Hin.
    + intros x [->|Hx]; [|exact (Hd x Hx)]. intros Hin. apply Ha. apply in_or_app. right. exact Hin.
Qed.

Lemma replace_nth_map {A B} (f : A -> B) (l : list A) : forall i x,
  map f (replace_nth i x l) = replace_nth i (f x) (map f l).
Proof.
  induction l as [|a l IH]; intros [|i] x; cbn; try reflexivity.
  f_equal. apply IH.
Qed.

Lemma replace_nth_same {A} (l : list A) : forall i v,
  nth_error l i = Some v -> replace_nth i v l = l.
Proof.
  induction l as [|a l IH]; intros [|i] v H; cbn in *; try discriminate.
  - injection H as ->. reflexivity.
  - f_equal. apply IH. exact H.
Qed.

Lemma nth_error_replace_nth_other {A} (l : list A) : forall i j x,
  i <> j -> nth_error (replace_nth i x l) j = nth_error l j.
Proof.
  induction l as [|a l IH]; intros [|i] [|j] x Hij; cbn; try reflexivity.
  - contradiction.
  - apply IH. intros E. apply Hij. f_equal. exact E.
Qed.

Lemma In_replace_nth {A} (l : list A) : forall i x y,
  In y (replace_nth i x l) -> y = x \/ In y l.
Proof.
  induction l as [|a l IH]; intros [|i] x y H; cbn in *; try contradiction.
  - destruct H as [H|H]; [left; symmetry; exact H|right; right; exact H].
  - destruct H as [H|H]; [right; left; exact H|].
    apply IH in H. destruct H as [H|H]; [left; exact H|right; right; exact H].
Qed.

Lemma map_path_replace_nth (l : list sobj) i o x :
  nth_error l i = Some o -> so_path x = so_path o ->
  map so_path (replace_nth i x l) = map so_path l.
Proof.
  intros Hn Hp. rewrite replace_nth_map. apply replace_nth_same.
  rewrite Hp. apply map_nth_error. exact Hn.
Qed.

(* ---- the index map --------------------------------------------------------- *)

Lemma existing_lookup_acc k l : forall i acc,
  existing_lookup k i l acc =
  match existing_lookup k i l None with Some r => Some r | None => acc end.
Proof.
  induction l as [|a l IH]; intros i acc; cbn; [reflexivity|].
  rewrite (IH (S i) (if bytes_eqb k (so_path a) then Some (i, a) else acc)).
  rewrite (IH (S i) (if bytes_eqb k (so_path a) then Some (i, a) else None)).
  destruct (existing_lookup k (S i) l None); [reflexivity|].
  destruct (bytes_eqb k (so_path a)); reflexivity.
Qed.

Lemma existing_lookup_none k l : forall i,
  existing_lookup k i l None = None <-> ~ In k (map so_path l).
Proof.
  induction l as [|a l IH]; intros i; cbn.
  - split; [intros _ []|reflexivity].
  - rewrite existing_lookup_acc.
    destruct (existing_lookup k (S i) l None) as [r|] eqn:E.
    + split; [discriminate|]. intros Hn. exfalso.
      assert (Hx : existing_lookup k (S i) l None = None).
      { apply IH. intros Hin. apply Hn. right. exact Hin. }
      rewrite Hx in E. discriminate.
    + apply IH in E. destruct (bytes_eqb k (so_path a)) eqn:Ek.
      * apply bytes_eqb_eq in Ek. split; [discriminate|]. intros Hn. exfalso. apply Hn.
        left. symmetry. exact Ek.
      * apply bytes_eqb_neq in Ek. split; [|reflexivity]. intros _ [H|H].
        -- apply Ek. symmetry. exact H.
        -- exact (E H).
Qed.

Lemma existing_lookup_some k l : forall i j o,
  existing_lookup k i l None = Some (j, o) ->
  (i <= j)%nat /\ nth_error l (j - i) = Some o /\ so_path o = k.
Proof.
  induction l as [|a l IH]; intros i j o H; cbn in H; [discriminate|].
  rewrite existing_lookup_acc in H.
  destruct (existing_lookup k (S i) l None) as [r|] eqn:E.
  - injection H as ->. apply IH in E. destruct E as (Hle & Hn & Hp).
    split; [lia|]. split; [|exact Hp].
    replace (j - i)%nat with (S (j - S i)) by lia. exact Hn.
  - destruct (bytes_eqb k (so_path a)) eqn:Ek; [|discriminate].
    injection H as <- <-. apply bytes_eqb_eq in Ek.
    split; [lia|]. rewrite Nat.sub_diag. split; [reflexivity|symmetry; exact Ek].
Qed.

(* ---- lookup by path in a duplicate-free list -------------------------------- *)

Lemma find_path_nth (l : list sobj) : forall i o,
  NoDup (map so_path l) -> nth_error l i = Some o ->
  find_path (so_path o) l = Some o /\
  forall x, replace_path (so_path o) x l = replace_nth i x l.
Proof.
  induction l as [|a l IH]; intros [|i] o Hnd Hn; cbn in *; try discriminate.
  - injection Hn as ->. rewrite bytes_eqb_refl. split; reflexivity.
  - apply NoDup_cons_iff in Hnd. destruct Hnd as [Ha Hnd].
    assert (Hne : bytes_eqb (so_path o) (so_path a) = false).
    { apply bytes_eqb_neq. intros E. apply Ha. rewrite <- E.
      apply in_map. apply (nth_error_In _ _ Hn). }
    rewrite Hne. destruct (IH i o Hnd Hn) as [Hf Hr]. split; [exact Hf|].
    intros x. f_equal. apply Hr.
Qed.

Lemma find_path_none k (l : list sobj) : ~ In k (map so_path l) -> find_path k l = None.
Proof.
  induction l as [|a l IH]; intros Hn; cbn; [reflexivity|].
  destruct (bytes_eqb k (so_path a)) eqn:E.
  - apply bytes_eqb_eq in E. exfalso. apply Hn. left. symmetry. exact E.
  - apply IH. intros Hin. apply Hn. right. exact Hin.
Qed.

(* ---- objects keep their path ------------------------------------------------- *)

Lemma new_object_path p i o : new_object p i = Ok o -> so_path o = p.
Proof.
  unfold new_object. intros H.
  destruct i as [| |lf dt dim n total|kind dt dim n scalers widths].
  - injection H as <-. reflexivity.
  - injection H as <-. reflexivity.
  - destruct (tds_size dt) as [sz|]; [|discriminate].
    destruct (_ && _); [discriminate|].
    destruct (negb (dim =? 1)); [discriminate|].
    injection H as <-. reflexivity.
  - destruct (tds_size dt) as [sz|]; [|discriminate].
    destruct (negb (dim =? 1)); [discriminate|].
    destruct (negb (forallb _ scalers)); [discriminate|].
    destruct (_ && _); [discriminate|].
    injection H as <-. reflexivity.
Qed.

Lemma set_has_data_path o b : so_path (set_has_data o b) = so_path o.
Proof. reflexivity. Qed.

Lemma update_existing_path o i o' : update_existing o i = Ok o' -> so_path o' = so_path o.
Proof.
  unfold update_existing. intros H.
  destruct i as [| |lf dt dim n total|kind dt dim n scalers widths].
  - injection H as <-. destruct (so_has_data o); reflexivity.
  - injection H as <-. destruct (so_has_data o); reflexivity.
  - apply new_object_path in H. exact H.
  - apply new_object_path in H. exact H.
Qed.

Lemma reuse_previous_path o i o' : reuse_previous o i = Ok o' -> so_path o' = so_path o.
Proof. exact (update_existing_path o i o'). Qed.

(* ======================================================================== *)
(* T1                                                                         *)
(* ======================================================================== *)

(* what the fixed index map says about path [p] is still true of the evolving list *)
Definition agree (b ordered : list sobj) (p : bytes) : Prop :=
  match existing_lookup p 0 b None with
  | Some (i, o) => nth_error ordered i = Some o
  | None => ~ In p (map so_path ordered)
  end.

Lemma agree_init b p : agree b b p.
Proof.
  unfold agree. destruct (existing_lookup p 0 b None) as [[i o]|] eqn:E.
  - apply existing_lookup_some in E. destruct E as (_ & Hn & _).
    rewrite Nat.sub_0_r in Hn. exact Hn.
  - apply existing_lookup_none in E. exact E.
Qed.

Lemma step_agree b prev ordered x :
  NoDup (map so_path ordered) -> agree b ordered (e_path x) ->
  step_entry (Some b) prev ordered x = spec_step prev ordered x.
Proof.
  intros Hnd Hag. unfold step_entry, spec_step, agree in *.
  destruct (existing_lookup (e_path x) 0 b None) as [[i o]|] eqn:E.
  - apply existing_lookup_some in E. destruct E as (_ & _ & Hp).
    destruct (find_path_nth ordered i o Hnd Hag) as [Hf Hr].
    rewrite Hp in Hf, Hr. rewrite Hf.
    destruct (update_existing o (e_idx x)) as [o'|e]; cbn; [|reflexivity].
    rewrite Hr. reflexivity.
  - rewrite (find_path_none _ _ Hag). reflexivity.
Qed.

(* the global map is keyed by the path of the object it stores (established by
   [update_object_metadata], see [update_object_metadata_keys_ok] below) *)
Definition prev_keys_ok (prev : alist sobj) : Prop :=
  forall p po, alookup p prev = Some po -> so_path po = p.

Lemma step_inv b prev ordered x ordered' :
  prev_keys_ok prev ->
  NoDup (map so_path ordered) -> agree b ordered (e_path x) ->
  step_entry (Some b) prev ordered x = Ok ordered' ->
  NoDup (map so_path ordered') /\
  forall q, q <> e_path x -> agree b ordered q -> agree b ordered' q.
Proof.
  intros Hk Hnd Hag Hs. unfold step_entry, agree in *.
  destruct (existing_lookup (e_path x) 0 b None) as [[i o]|] eqn:E.
  - apply existing_lookup_some in E. destruct E as (_ & _ & Hp).
    destruct (update_existing o (e_idx x)) as [o'|e] eqn:Eu; cbn in Hs; [|discriminate].
    injection Hs as <-. apply update_existing_path in Eu.
    split.
    + rewrite (map_path_replace_nth ordered i o o' Hag Eu). exact Hnd.
    + intros q Hq Hagq.
      destruct (existing_lookup q 0 b None) as [[j oj]|] eqn:Eq.
      * apply existing_lookup_some in Eq. destruct Eq as (_ & _ & Hpj).
        rewrite nth_error_replace_nth_other; [exact Hagq|].
        intros Eij. subst j. rewrite Hag in Hagq. injection Hagq as ->.
        apply Hq. rewrite <- Hpj, <- Hp. reflexivity.
      * rewrite (map_path_replace_nth ordered i o o' Hag Eu). exact Hagq.
  - assert (Hx : exists o', ordered' = ordered ++ [o'] /\ so_path o' = e_path x).
    { destruct (alookup (e_path x) prev) as [po|] eqn:Ea.
      - destruct (reuse_previous po (e_idx x)) as [o'|e] eqn:Er; cbn in Hs; [|discriminate].
        injection Hs as <-. exists o'. split; [reflexivity|].
        apply reuse_previous_path in Er. rewrite Er. apply Hk. exact Ea.
      - destruct (e_idx x) as [| |lf dt dim n total|kind dt dim n scalers widths] eqn:Ei;
          [|discriminate| |];
          match type of Hs with
          | bind ?r _ = _ => destruct r as [o'|e] eqn:En; cbn in Hs; [|discriminate]
          end;
          injection Hs as <-; exists o'; (split; [reflexivity|]);
          apply new_object_path in En; exact En. }
    destruct Hx as (o' & -> & Hp). split.
    + rewrite map_app. cbn. apply NoDup_app_intro; [exact Hnd| |].
      * apply NoDup_cons; [intros []|apply NoDup_nil].
      * intros y Hy [Hy'|[]]. subst y. rewrite Hp in Hy. exact (Hag Hy).
    + intros q Hq Hagq.
      destruct (existing_lookup q 0 b None) as [[j oj]|] eqn:Eq.
      * rewrite nth_error_app1; [exact Hagq|]. apply nth_error_Some. rewrite Hagq. discriminate.
      * rewrite map_app. cbn. intros Hin. apply in_app_or in Hin. destruct Hin as [Hin|[Hin|[]]].
        -- exact (Hagq Hin).
        -- apply Hq. rewrite <- Hin. exact Hp.
Qed.

Lemma fold_entries_spec_gen b prev : forall es ordered,
  prev_keys_ok prev ->
  NoDup (map so_path ordered) -> NoDup (map e_path es) ->
  (forall p, In p (map e_path es) -> agree b ordered p) ->
  fold_entries (Some b) prev ordered es = spec_fold_entries prev ordered es.
Proof.
  induction es as [|x es IH]; intros ordered Hk Hnd Hes Hag; cbn; [reflexivity|].
  cbn in Hes. apply NoDup_cons_iff in Hes. destruct Hes as [Hx Hes].
  assert (Hagx : agree b ordered (e_path x)) by (apply Hag; left; reflexivity).
  rewrite <- (step_agree b prev ordered x Hnd Hagx).
  destruct (step_entry (Some b) prev ordered x) as [ordered'|e] eqn:Es; cbn; [|reflexivity].
  destruct (step_inv b prev ordered x ordered' Hk Hnd Hagx Es) as [Hnd' Hag'].
  apply IH; [exact Hk|exact Hnd'|exact Hes|].
  intros p Hp. apply Hag'.
  - intros ->. exact (Hx Hp).
  - apply Hag. right. exact Hp.
Qed.

(* T1: the stale positional index map is harmless *)
Theorem positional_update_is_update_by_path base prev_objs es :
  prev_keys_ok prev_objs ->
  NoDup (map so_path base) ->
  NoDup (map e_path es) ->
  fold_entries (Some base) prev_objs base es = spec_fold_entries prev_objs base es.
Proof.
  intros Hk Hb Hes. apply fold_entries_spec_gen; [exact Hk|exact Hb|exact Hes|].
  intros p _. apply agree_init.
Qed.

(* with a new object list the mechanism never looks into the evolving list: it
   is the machine over an EMPTY copied list *)
Lemma fold_entries_None_empty prev : forall es ordered,
  fold_entries None prev ordered es = fold_entries (Some []) prev ordered es.
Proof.
  induction es as [|x es IH]; intros ordered; cbn [fold_entries]; [reflexivity|].
  change (step_entry None prev ordered x) with (step_entry (Some []) prev ordered x).
  destruct (step_entry (Some []) prev ordered x); cbn [bind]; [apply IH|reflexivity].
Qed.

Theorem new_list_update_is_update_by_path prev_objs ordered es :
  prev_keys_ok prev_objs ->
  NoDup (map so_path ordered ++ map e_path es) ->
  fold_entries None prev_objs ordered es = spec_fold_entries prev_objs ordered es.
Proof.
  intros Hk Hnd. rewrite fold_entries_None_empty.
  apply NoDup_app_elim in Hnd. destruct Hnd as (H1 & H2 & Hd).
  apply fold_entries_spec_gen; [exact Hk|exact H1|exact H2|].
  intros p Hp. unfold agree. cbn. intros Hin. exact (Hd p Hin Hp).
Qed.

Corollary new_list_update_is_update_by_path0 prev_objs es :
  prev_keys_ok prev_objs ->
  NoDup (map e_path es) ->
  fold_entries None prev_objs [] es = spec_fold_entries prev_objs [] es.
Proof. intros Hk Hes. apply new_list_update_is_update_by_path; [exact Hk|exact Hes]. Qed.

(* ---- the paths of the result, exactly ---------------------------------------- *)

Definition in_paths (p : bytes) (l : list sobj) : bool :=
  existsb (fun o => bytes_eqb p (so_path o)) l.

Lemma in_paths_iff p l : in_paths p l = true <-> In p (map so_path l).
Proof.
  unfold in_paths. rewrite existsb_exists, in_map_iff. split.
  - intros (o & Hin & He). apply bytes_eqb_eq in He. exists o. split; [symmetry; exact He|exact Hin].
  - intros (o & He & Hin). exists o. split; [exact Hin|]. apply bytes_eqb_eq. symmetry. exact He.
Qed.

(* the listed paths that are not in the copied list, in listing order *)
Definition appended_paths (b : list sobj) (es : list entry) : list bytes :=
  filter (fun p => negb (in_paths p b)) (map e_path es).

(* No uniqueness assumption: listed objects of the copied list are replaced in
   place (same path, same position), all others are appended in listing order. *)
Lemma fold_entries_paths_gen b prev : forall es ordered ext r,
  prev_keys_ok prev ->
  map so_path ordered = map so_path b ++ ext ->
  fold_entries (Some b) prev ordered es = Ok r ->
  map so_path r = map so_path ordered ++ appended_paths b es.
Proof.
  induction es as [|x es IH]; intros ordered ext r Hk Hext Hf; cbn [fold_entries] in Hf.
  - injection Hf as <-. unfold appended_paths. cbn. rewrite app_nil_r. reflexivity.
  - destruct (step_entry (Some b) prev ordered x) as [ordered'|e] eqn:Es; cbn [bind] in Hf; [|discriminate].
    unfold appended_paths. cbn [map filter]. fold (appended_paths b es).
    unfold step_entry in Es.
    destruct (existing_lookup (e_path x) 0 b None) as [[i o]|] eqn:E.
    + destruct (update_existing o (e_idx x)) as [o'|e] eqn:Eu; cbn [bind] in Es; [|discriminate].
      injection Es as <-. apply update_existing_path in Eu.
      apply existing_lookup_some in E. destruct E as (_ & Hn & Hp).
      rewrite Nat.sub_0_r in Hn.
      assert (Hin : in_paths (e_path x) b = true).
      { apply in_paths_iff. rewrite <- Hp. apply in_map. apply (nth_error_In _ _ Hn). }
      rewrite Hin. cbn [negb].
      assert (Hsame : map so_path (replace_nth i o' ordered) = map so_path ordered).
      { rewrite replace_nth_map. apply replace_nth_same. rewrite Hext, Eu.
        rewrite nth_error_app1.
        - apply map_nth_error. exact Hn.
        - rewrite map_length. apply nth_error_Some. rewrite Hn. discriminate. }
      rewrite <- Hsame. apply (IH _ ext r Hk); [|exact Hf]. rewrite Hsame. exact Hext.
    + apply existing_lookup_none in E.
      assert (Hin : in_paths (e_path x) b = false).
      { destruct (in_paths (e_path x) b) eqn:Ei; [|reflexivity].
        apply in_paths_iff in Ei. contradiction. }
      rewrite Hin. cbn [negb].
      assert (Hx : exists o', ordered' = ordered ++ [o'] /\ so_path o' = e_path x).
      { destruct (alookup (e_path x) prev) as [po|] eqn:Ea.
        - destruct (reuse_previous po (e_idx x)) as [o'|e] eqn:Er; cbn [bind] in Es; [|discriminate].
          injection Es as <-. exists o'. split; [reflexivity|].
          apply reuse_previous_path in Er. rewrite Er. apply Hk. exact Ea.
        - destruct (e_idx x) as [| |lf dt dim n total|kind dt dim n scalers widths] eqn:Ei;
            [|discriminate| |];
            match type of Es with
            | bind ?r _ = _ => destruct r as [o'|e] eqn:En; cbn [bind] in Es; [|discriminate]
            end;
            injection Es as <-; exists o'; (split; [reflexivity|]);
            apply new_object_path in En; exact En. }
      destruct Hx as (o' & -> & Hp).
      rewrite (IH (ordered ++ [o']) (ext ++ [e_path x]) r Hk).
      * rewrite map_app. cbn [map]. rewrite Hp, <- app_assoc. reflexivity.
      * rewrite map_app. cbn [map]. rewrite Hp, Hext, <- app_assoc. reflexivity.
      * exact Hf.
Qed.

Theorem fold_entries_paths base prev_objs es r :
  prev_keys_ok prev_objs ->
  fold_entries (Some base) prev_objs base es = Ok r ->
  map so_path r = map so_path base ++ appended_paths base es.
Proof.
  intros Hk Hf. apply (fold_entries_paths_gen base prev_objs es base [] r Hk); [|exact Hf].
  rewrite app_nil_r. reflexivity.
Qed.

Lemma appended_paths_nil es : appended_paths [] es = map e_path es.
Proof.
  unfold appended_paths. induction (map e_path es) as [|p l IH]; cbn; [reflexivity|].
  f_equal. exact IH.
Qed.

Theorem fold_entries_paths_new_list prev_objs es r :
  prev_keys_ok prev_objs ->
  fold_entries None prev_objs [] es = Ok r ->
  map so_path r = map e_path es.
Proof.
  intros Hk Hf. rewrite fold_entries_None_empty in Hf.
  rewrite (fold_entries_paths_gen [] prev_objs es [] [] r Hk eq_refl Hf).
  cbn. apply appended_paths_nil.
Qed.

(* the no-duplicate invariant is re-established: it is enough that no listed
   path OUTSIDE the copied list is repeated (a path of the copied list may be
   listed several times without creating a duplicate) *)
Theorem fold_entries_nodup base prev_objs es r :
  prev_keys_ok prev_objs ->
  NoDup (map so_path base) ->
  NoDup (appended_paths base es) ->
  fold_entries (Some base) prev_objs base es = Ok r ->
  NoDup (map so_path r).
Proof.
  intros Hk Hb Ha Hf. rewrite (fold_entries_paths base prev_objs es r Hk Hf).
  apply NoDup_app_intro; [exact Hb|exact Ha|].
  intros p Hp Hin. unfold appended_paths in Hin. apply filter_In in Hin.
  destruct Hin as [_ Hn]. apply in_paths_iff in Hp. rewrite Hp in Hn. discriminate.
Qed.

Corollary fold_entries_nodup_listed_once base prev_objs es r :
  prev_keys_ok prev_objs ->
  NoDup (map so_path base) ->
  NoDup (map e_path es) ->
  fold_entries (Some base) prev_objs base es = Ok r ->
  NoDup (map so_path r).
Proof.
  intros Hk Hb Hes. apply fold_entries_nodup; [exact Hk|exact Hb|].
  unfold appended_paths. apply NoDup_filter. exact Hes.
Qed.

Theorem fold_entries_nodup_new_list prev_objs es r :
  prev_keys_ok prev_objs ->
  NoDup (map e_path es) ->
  fold_entries None prev_objs [] es = Ok r ->
  NoDup (map so_path r).
Proof.
  intros Hk Hes Hf. rewrite (fold_entries_paths_new_list prev_objs es r Hk Hf). exact Hes.
Qed.

(* ======================================================================== *)
(* T2: explicit re-encoding                                                   *)
(* ======================================================================== *)

(* the index header that restates object [o] in full *)
Definition idx_of (o : sobj) : idx :=
  if so_has_data o then
    let dt := match so_dtype o with Some d => d | None => 0 end in
    match so_daqmx o with
    | Some q => IDaqmx (dq_kind q) dt 1 (so_nvals o) (dq_scalers q) (dq_widths q)
    | None => IFull (if dt =? T_STRING then 28 else 20) dt 1 (so_nvals o)
                    (if dt =? T_STRING then Some (so_dsize o) else None)
    end
  else INoData.

Definition explicit_entries (objs : list sobj) : list entry :=
  map (fun o => mkEntry (so_path o) (idx_of o) []) objs.

(* [o] is exactly what a full index header defines *)
Definition canonical (o : sobj) : Prop :=
  so_has_data o = true -> new_object (so_path o) (idx_of o) = Ok o.

(* the object a first "no data" mention creates *)
Definition blank (p : bytes) : sobj := mkSobj p false 0 0 None None.

(* an object without data is the global map's object with the flag cleared, or,
   for a path never seen, the blank object *)
Definition nodata_ok (prev : alist sobj) (o : sobj) : Prop :=
  so_has_data o = false ->
  match alookup (so_path o) prev with
  | Some po => set_has_data po false = o
  | None => o = blank (so_path o)
  end.

Lemma set_has_data_id o : set_has_data o (so_has_data o) = o.
Proof. destruct o; reflexivity. Qed.

Lemma set_has_data_same o b : so_has_data o = b -> set_has_data o b = o.
Proof. intros <-. apply set_has_data_id. Qed.

Lemma explicit_step prev ordered o :
  prev_keys_ok prev -> canonical o -> nodata_ok prev o ->
  step_entry None prev ordered (mkEntry (so_path o) (idx_of o) []) = Ok (ordered ++ [o]).
Proof.
  intros Hk Hc Hn. unfold step_entry. cbn [e_path e_idx].
  destruct (so_has_data o) eqn:Hd.
  - specialize (Hc Hd). unfold idx_of in *. rewrite Hd in *. cbv zeta in *.
    destruct (alookup (so_path o) prev) as [po|] eqn:Ea.
    + apply Hk in Ea.
      destruct (so_daqmx o) as [q|]; unfold reuse_previous; cbv beta iota;
        rewrite Ea, Hc; reflexivity.
    + destruct (so_daqmx o) as [q|]; cbv beta iota; rewrite Hc; reflexivity.
  - specialize (Hn Hd). unfold idx_of. rewrite Hd.
    destruct (alookup (so_path o) prev) as [po|] eqn:Ea.
    + unfold reuse_previous. cbn [bind]. destruct (so_has_data po) eqn:Hpd.
      * rewrite Hn. reflexivity.
      * rewrite <- Hn. rewrite (set_has_data_same po false Hpd). reflexivity.
    + cbn [new_object bind]. fold (blank (so_path o)). rewrite <- Hn. reflexivity.
Qed.

Lemma explicit_fold prev : forall objs ordered,
  prev_keys_ok prev ->
  Forall canonical objs ->
  Forall (nodata_ok prev) objs ->
  fold_entries None prev ordered (explicit_entries objs) = Ok (ordered ++ objs).
Proof.
  induction objs as [|o objs IH]; intros ordered Hk Hc Hn; cbn [explicit_entries map fold_entries].
  - rewrite app_nil_r. reflexivity.
  - apply Forall_cons_iff in Hc. destruct Hc as [Hco Hc].
    apply Forall_cons_iff in Hn. destruct Hn as [Hno Hn].
    rewrite (explicit_step prev ordered o Hk Hco Hno). cbn [bind].
    fold (explicit_entries objs). rewrite (IH (ordered ++ [o]) Hk Hc Hn).
    rewrite <- app_assoc. reflexivity.
Qed.

(* T2.  (The mechanism under a new object list never consults the evolving
   list, so uniqueness of paths is NOT needed here; with it, the by-path
   specification gives the same list too: [explicit_reencoding_same_objects_spec].) *)
Theorem explicit_reencoding_same_objects prev_objs objs :
  prev_keys_ok prev_objs ->
  Forall canonical objs ->
  Forall (nodata_ok prev_objs) objs ->
  fold_entries None prev_objs [] (explicit_entries objs) = Ok objs.
Proof. intros Hk Hc Hn. exact (explicit_fold prev_objs objs [] Hk Hc Hn). Qed.

Lemma explicit_entries_paths objs : map e_path (explicit_entries objs) = map so_path objs.
Proof. unfold explicit_entries. rewrite map_map. reflexivity. Qed.

Theorem explicit_reencoding_same_objects_spec prev_objs objs :
  prev_keys_ok prev_objs ->
  Forall canonical objs ->
  Forall (nodata_ok prev_objs) objs ->
  NoDup (map so_path objs) ->
  spec_fold_entries prev_objs [] (explicit_entries objs) = Ok objs.
Proof.
  intros Hk Hc Hn Hnd. rewrite <- new_list_update_is_update_by_path0.
  - apply explicit_reencoding_same_objects; assumption.
  - exact Hk.
  - rewrite explicit_entries_paths. exact Hnd.
Qed.

Lemma collect_props_explicit objs : forall acc, collect_props (explicit_entries objs) acc = acc.
Proof. induction objs as [|o objs IH]; intros acc; cbn; [reflexivity|apply IH]. Qed.

(* the whole metadata step: new-object-list flag set, every object restated *)
Theorem explicit_segment_same_objects toc prev_objs prev_seg objs :
  toc_has toc TOC_NEWLIST = true ->
  prev_keys_ok prev_objs ->
  Forall canonical objs ->
  Forall (nodata_ok prev_objs) objs ->
  read_segment_objects toc (Some (explicit_entries objs)) prev_objs prev_seg = Ok (objs, []).
Proof.
  intros Ht Hk Hc Hn. unfold read_segment_objects. rewrite Ht.
  rewrite (explicit_reencoding_same_objects prev_objs objs Hk Hc Hn). cbn [bind].
  rewrite collect_props_explicit. reflexivity.
Qed.

(* ---- canonicity is established and kept by the machine ----------------------- *)

Lemma new_object_has_data p i o :
  new_object p i = Ok o ->
  so_has_data o = match i with INoData | IMatchPrev => false | _ => true end.
Proof.
  unfold new_object. intros H.
  destruct i as [| |lf dt dim n total|kind dt dim n scalers widths].
  - injection H as <-. reflexivity.
  - injection H as <-. reflexivity.
  - destruct (tds_size dt) as [sz|]; [|discriminate].
    destruct (_ && _); [discriminate|].
    destruct (negb (dim =? 1)); [discriminate|].
    injection H as <-. reflexivity.
  - destruct (tds_size dt) as [sz|]; [|discriminate].
    destruct (negb (dim =? 1)); [discriminate|].
    destruct (negb (forallb _ scalers)); [discriminate|].
    destruct (_ && _); [discriminate|].
    injection H as <-. reflexivity.
Qed.

Theorem new_object_canonical p i o : new_object p i = Ok o -> canonical o.
Proof.
  intros H Hd. rewrite (new_object_path p i o H). unfold new_object in H.
  destruct i as [| |lf dt dim n total|kind dt dim n scalers widths].
  - injection H as <-. discriminate Hd.
  - injection H as <-. discriminate Hd.
  - destruct (tds_size dt) as [sz|] eqn:Hsz; [|discriminate].
    destruct ((match sz with None => true | Some _ => false end) && negb (dt =? T_STRING)) eqn:Hc1;
      [discriminate|].
    destruct (negb (dim =? 1)) eqn:Hdim; [discriminate|].
    injection H as <-.
    unfold idx_of. cbn [so_has_data so_dtype so_daqmx so_nvals so_dsize]. cbv zeta.
    unfold new_object. rewrite Hsz, Hc1. change (1 =? 1) with true. cbn [negb].
    destruct sz as [s|]; [reflexivity|].
    destruct (dt =? T_STRING); [reflexivity|discriminate Hc1].
  - destruct (tds_size dt) as [sz|] eqn:Hsz; [|discriminate].
    destruct (negb (dim =? 1)) eqn:Hdim; [discriminate|].
    destruct (negb (forallb _ scalers)) eqn:Hc2; [discriminate|].
    destruct (_ && _) eqn:Hc3; [discriminate|].
    injection H as <-.
    unfold idx_of. cbn [so_has_data so_dtype so_daqmx so_nvals so_dsize dq_kind dq_scalers dq_widths].
    cbv zeta. unfold new_object. rewrite Hsz. change (1 =? 1) with true. cbn [negb].
    rewrite Hc2, Hc3. reflexivity.
Qed.

(* [o] carries an index that a full header defines, whether or not it has data
   in this segment *)
Definition indexed (o : sobj) : Prop := canonical (set_has_data o true).

Lemma indexed_canonical o : indexed o -> canonical o.
Proof.
  unfold indexed. intros Hi Hd. rewrite (set_has_data_same o true Hd) in Hi. exact (Hi Hd).
Qed.

Lemma canonical_data_indexed o : so_has_data o = true -> canonical o -> indexed o.
Proof. unfold indexed. intros Hd Hc. rewrite (set_has_data_same o true Hd). exact Hc. Qed.

Lemma new_object_indexed_or_blank p i o :
  new_object p i = Ok o -> indexed o \/ o = blank p.
Proof.
  intros H. pose proof (new_object_canonical p i o H) as Hc.
  pose proof (new_object_has_data p i o H) as Hd.
  destruct i as [| |lf dt dim n total|kind dt dim n scalers widths].
  - right. cbn in H. injection H as <-. reflexivity.
  - right. cbn in H. injection H as <-. reflexivity.
  - left. apply canonical_data_indexed; assumption.
  - left. apply canonical_data_indexed; assumption.
Qed.

Theorem update_existing_indexed o i o' :
  update_existing o i = Ok o' -> indexed o -> indexed o'.
Proof.
  unfold update_existing. intros H Hi.
  destruct i as [| |lf dt dim n total|kind dt dim n scalers widths].
  - injection H as <-. destruct (so_has_data o); exact Hi.
  - injection H as <-. destruct (so_has_data o); exact Hi.
  - apply canonical_data_indexed; [apply (new_object_has_data _ _ _ H)|apply (new_object_canonical _ _ _ H)].
  - apply canonical_data_indexed; [apply (new_object_has_data _ _ _ H)|apply (new_object_canonical _ _ _ H)].
Qed.

Theorem reuse_previous_indexed po i o' :
  reuse_previous po i = Ok o' -> indexed po -> indexed o'.
Proof. exact (update_existing_indexed po i o'). Qed.

(* canonicity itself is kept, except that "matches previous" applied to an
   object without data needs that object to carry an index *)
Theorem update_existing_canonical o i o' :
  update_existing o i = Ok o' -> canonical o ->
  (i = IMatchPrev -> so_has_data o = false -> indexed o) ->
  canonical o'.
Proof.
  unfold update_existing. intros H Hc Hm.
  destruct i as [| |lf dt dim n total|kind dt dim n scalers widths].
  - injection H as <-. destruct (so_has_data o); [intros Hd; discriminate Hd|exact Hc].
  - injection H as <-. destruct (so_has_data o) eqn:Hd; [exact Hc|].
    apply (Hm eq_refl eq_refl).
  - apply (new_object_canonical _ _ _ H).
  - apply (new_object_canonical _ _ _ H).
Qed.

Theorem reuse_previous_canonical po i o' :
  reuse_previous po i = Ok o' -> canonical po ->
  (i = IMatchPrev -> so_has_data po = false -> indexed po) ->
  canonical o'.
Proof. exact (update_existing_canonical po i o'). Qed.

(* ======================================================================== *)
(* T3: forbidden encodings are rejected                                       *)
(* ======================================================================== *)

(* (a) a first segment without a metadata block *)
Theorem forbidden_rejected_first_without_metadata toc prev_objs :
  read_segment_objects toc None prev_objs None = Err EValue.
Proof. reflexivity. Qed.

Lemma fold_entries_app base prev : forall pre ordered suf,
  fold_entries base prev ordered (pre ++ suf) =
  do mid <- fold_entries base prev ordered pre; fold_entries base prev mid suf.
Proof.
  induction pre as [|x pre IH]; intros ordered suf; cbn [app fold_entries bind]; [reflexivity|].
  destruct (step_entry base prev ordered x) as [o'|e]; cbn [bind]; [apply IH|reflexivity].
Qed.

(* the path is neither in the list copied from the previous segment nor has it
   ever been seen in an earlier segment *)
Definition unseen (base : option (list sobj)) (prev_objs : alist sobj) (p : bytes) : Prop :=
  match base with Some b => ~ In p (map so_path b) | None => True end /\
  alookup p prev_objs = None.

Lemma step_entry_unseen_match_prev base prev_objs ordered x :
  unseen base prev_objs (e_path x) -> e_idx x = IMatchPrev ->
  step_entry base prev_objs ordered x = Err EValue.
Proof.
  intros [Hb Hp] Hi. unfold step_entry.
  assert (Hl : match base with Some b => existing_lookup (e_path x) 0 b None | None => None end = None).
  { destruct base as [b|]; [|reflexivity]. apply existing_lookup_none. exact Hb. }
  rewrite Hl, Hp, Hi. reflexivity.
Qed.

(* (b) "same as before" for an object that was never defined *)
Theorem forbidden_rejected_unseen_match_prev base prev_objs ordered x es :
  unseen base prev_objs (e_path x) -> e_idx x = IMatchPrev ->
  fold_entries base prev_objs ordered (x :: es) = Err EValue.
Proof.
  intros Hu Hi. cbn [fold_entries].
  rewrite (step_entry_unseen_match_prev base prev_objs ordered x Hu Hi). reflexivity.
Qed.

Theorem forbidden_rejected_unseen_match_prev_after base prev_objs ordered pre mid x es :
  fold_entries base prev_objs ordered pre = Ok mid ->
  unseen base prev_objs (e_path x) -> e_idx x = IMatchPrev ->
  fold_entries base prev_objs ordered (pre ++ x :: es) = Err EValue.
Proof.
  intros Hpre Hu Hi. rewrite fold_entries_app, Hpre. cbn [bind].
  apply forbidden_rejected_unseen_match_prev; assumption.
Qed.

(* whatever happens in the prefix, the segment is never accepted *)
Theorem forbidden_rejected_unseen_match_prev_never_ok base prev_objs ordered pre x es r :
  unseen base prev_objs (e_path x) -> e_idx x = IMatchPrev ->
  fold_entries base prev_objs ordered (pre ++ x :: es) <> Ok r.
Proof.
  intros Hu Hi. rewrite fold_entries_app.
  destruct (fold_entries base prev_objs ordered pre) as [mid|e]; cbn [bind]; [|discriminate].
  rewrite (forbidden_rejected_unseen_match_prev base prev_objs mid x es Hu Hi). discriminate.
Qed.

Theorem forbidden_rejected_unseen_match_prev_segment toc prev_objs prev_seg pre mid x es :
  let base := if toc_has toc TOC_NEWLIST then None else prev_seg in
  fold_entries base prev_objs (match base with Some l => l | None => [] end) pre = Ok mid ->
  unseen base prev_objs (e_path x) -> e_idx x = IMatchPrev ->
  read_segment_objects toc (Some (pre ++ x :: es)) prev_objs prev_seg = Err EValue.
Proof.
  intros base Hpre Hu Hi. unfold read_segment_objects. fold base.
  rewrite (forbidden_rejected_unseen_match_prev_after base prev_objs _ pre mid x es Hpre Hu Hi).
  reflexivity.
Qed.

(* (c) a channel changing its data type *)
Theorem forbidden_rejected_type_change m o n f t :
  om_dtype m = Some t -> so_dtype o <> Some t ->
  update_ometa m o n f = Err EValue.
Proof.
  intros Hm Ho. unfold update_ometa. rewrite Hm.
  assert (He : oz_eqb (Some t) (so_dtype o) = false).
  { destruct (so_dtype o) as [y|]; cbn; [|reflexivity].
    apply Z.eqb_neq. intros ->. apply Ho. reflexivity. }
  rewrite He. reflexivity.
Qed.

Theorem forbidden_rejected_type_change_segment o r n f prev_objs om m t :
  alookup (so_path o) om = Some m -> om_dtype m = Some t -> so_dtype o <> Some t ->
  update_object_metadata (o :: r) n f prev_objs om = Err EValue.
Proof.
  intros Ha Hm Ho. cbn [update_object_metadata]. unfold get_ometa. rewrite Ha.
  rewrite (forbidden_rejected_type_change m o n f t Hm Ho). reflexivity.
Qed.

(* ======================================================================== *)
(* T4: the global map after a segment                                         *)
(* ======================================================================== *)

Lemma prev_keys_ok_nil : prev_keys_ok [].
Proof. intros p po H. discriminate H. Qed.

Lemma prev_keys_ok_aset prev o : prev_keys_ok prev -> prev_keys_ok (aset (so_path o) o prev).
Proof.
  intros Hk p po H. rewrite alookup_aset in H.
  destruct (bytes_eqb p (so_path o)) eqn:E.
  - injection H as <-. apply bytes_eqb_eq in E. symmetry. exact E.
  - apply Hk. exact H.
Qed.

Lemma prev_keys_ok_Forall prev :
  Forall (fun kv => so_path (snd kv) = fst kv) prev -> prev_keys_ok prev.
Proof.
  induction prev as [|[k v] r IH]; intros HF p po H; cbn in H; [discriminate|].
  apply Forall_cons_iff in HF. destruct HF as [Hkv HF]. cbn in Hkv.
  destruct (bytes_eqb p k) eqn:E.
  - injection H as <-. apply bytes_eqb_eq in E. rewrite E. exact Hkv.
  - apply (IH HF p po H).
Qed.

Theorem update_object_metadata_keys_ok : forall objs n f prev om prev' om',
  update_object_metadata objs n f prev om = Ok (prev', om') ->
  prev_keys_ok prev -> prev_keys_ok prev'.
Proof.
  induction objs as [|o r IH]; intros n f prev om prev' om' H Hk; cbn [update_object_metadata] in H.
  - injection H as <- _. exact Hk.
  - destruct (update_ometa (get_ometa (so_path o) om) o n f) as [m|e]; cbn [bind] in H; [|discriminate].
    apply (IH _ _ _ _ _ _ H). apply prev_keys_ok_aset. exact Hk.
Qed.

Lemma update_object_metadata_other : forall objs n f prev om prev' om',
  update_object_metadata objs n f prev om = Ok (prev', om') ->
  forall p, ~ In p (map so_path objs) -> alookup p prev' = alookup p prev.
Proof.
  induction objs as [|o r IH]; intros n f prev om prev' om' H p Hp; cbn [update_object_metadata] in H.
  - injection H as <- _. reflexivity.
  - destruct (update_ometa (get_ometa (so_path o) om) o n f) as [m|e]; cbn [bind] in H; [|discriminate].
    rewrite (IH _ _ _ _ _ _ H p).
    + rewrite alookup_aset. destruct (bytes_eqb p (so_path o)) eqn:E; [|reflexivity].
      apply bytes_eqb_eq in E. exfalso. apply Hp. left. symmetry. exact E.
    + intros Hin. apply Hp. right. exact Hin.
Qed.

Theorem prev_objs_tracks_segments objs n f prev om prev' om' :
  update_object_metadata objs n f prev om = Ok (prev', om') ->
  NoDup (map so_path objs) ->
  (forall o, In o objs -> alookup (so_path o) prev' = Some o) /\
  (forall p, ~ In p (map so_path objs) -> alookup p prev' = alookup p prev).
Proof.
  intros H Hnd. split; [|exact (update_object_metadata_other objs n f prev om prev' om' H)].
  revert n f prev om prev' om' H Hnd.
  induction objs as [|o r IH]; intros n f prev om prev' om' H Hnd o0 Hin; [destruct Hin|].
  cbn [update_object_metadata] in H.
  destruct (update_ometa (get_ometa (so_path o) om) o n f) as [m|e]; cbn [bind] in H; [|discriminate].
  cbn [map] in Hnd. apply NoDup_cons_iff in Hnd. destruct Hnd as [Ho Hnd].
  destruct Hin as [<-|Hin].
  - rewrite (update_object_metadata_other _ _ _ _ _ _ _ H (so_path o) Ho).
    rewrite alookup_aset, bytes_eqb_refl. reflexivity.
  - exact (IH _ _ _ _ _ _ H Hnd o0 Hin).
Qed.

Lemma update_object_metadata_values (P : sobj -> Prop) : forall objs n f prev om prev' om',
  update_object_metadata objs n f prev om = Ok (prev', om') ->
  (forall p po, alookup p prev = Some po -> P po) ->
  Forall P objs ->
  forall p po, alookup p prev' = Some po -> P po.
Proof.
  induction objs as [|o r IH]; intros n f prev om prev' om' H Hp HF; cbn [update_object_metadata] in H.
  - injection H as <- _. exact Hp.
  - destruct (update_ometa (get_ometa (so_path o) om) o n f) as [m|e]; cbn [bind] in H; [|discriminate].
    apply Forall_cons_iff in HF. destruct HF as [Ho HF].
    apply (IH _ _ _ _ _ _ H); [|exact HF].
    intros p po Ha. rewrite alookup_aset in Ha. destruct (bytes_eqb p (so_path o)).
    + injection Ha as <-. exact Ho.
    + exact (Hp p po Ha).
Qed.

(* ======================================================================== *)
(* The machine establishes the hypotheses of T2 by itself                     *)
(* ======================================================================== *)

(* an object that has only ever been declared "no data" (possibly followed by
   "matches previous", which the reader accepts) *)
Definition never_indexed (o : sobj) : Prop := set_has_data o false = blank (so_path o).

(* closed under every transition of the machine *)
Definition wf_obj (o : sobj) : Prop := indexed o \/ never_indexed o.

Lemma new_object_wf p i o : new_object p i = Ok o -> wf_obj o.
Proof.
  intros H. destruct (new_object_indexed_or_blank p i o H) as [Hi| ->].
  - left. exact Hi.
  - right. reflexivity.
Qed.

Theorem update_existing_wf o i o' : update_existing o i = Ok o' -> wf_obj o -> wf_obj o'.
Proof.
  intros H Hw. pose proof H as H0. unfold update_existing in H.
  destruct i as [| |lf dt dim n total|kind dt dim n scalers widths].
  - injection H as <-. destruct (so_has_data o); exact Hw.
  - injection H as <-. destruct (so_has_data o); exact Hw.
  - apply (new_object_wf _ _ _ H).
  - apply (new_object_wf _ _ _ H).
Qed.

Theorem reuse_previous_wf po i o' : reuse_previous po i = Ok o' -> wf_obj po -> wf_obj o'.
Proof. exact (update_existing_wf po i o'). Qed.

Lemma never_indexed_dtype o : never_indexed o -> so_dtype o = None.
Proof. intros H. apply (f_equal so_dtype) in H. exact H. Qed.

Lemma new_object_dtype p i o :
  new_object p i = Ok o -> so_has_data o = true -> so_dtype o <> None.
Proof.
  unfold new_object. intros H Hd.
  destruct i as [| |lf dt dim n total|kind dt dim n scalers widths].
  - injection H as <-. discriminate Hd.
  - injection H as <-. discriminate Hd.
  - destruct (tds_size dt) as [sz|]; [|discriminate].
    destruct (_ && _); [discriminate|].
    destruct (negb (dim =? 1)); [discriminate|].
    injection H as <-. discriminate.
  - destruct (tds_size dt) as [sz|]; [|discriminate].
    destruct (negb (dim =? 1)); [discriminate|].
    destruct (negb (forallb _ scalers)); [discriminate|].
    destruct (_ && _); [discriminate|].
    injection H as <-. discriminate.
Qed.

Lemma indexed_dtype o : indexed o -> so_dtype o <> None.
Proof.
  intros Hi. specialize (Hi eq_refl).
  exact (new_object_dtype _ _ _ Hi eq_refl).
Qed.

(* a well-formed object fails to be canonical only in the degenerate case
   "has data but never got an index" *)
Lemma wf_obj_canonical o :
  wf_obj o -> (so_has_data o = true -> so_dtype o <> None) -> canonical o.
Proof.
  intros [Hi|Hn] Hd.
  - apply indexed_canonical. exact Hi.
  - intros Hh. exfalso. apply (Hd Hh). apply never_indexed_dtype. exact Hn.
Qed.

Lemma update_existing_nodata o i o' :
  update_existing o i = Ok o' -> so_has_data o' = false -> o' = set_has_data o false.
Proof.
  intros H Hd. pose proof H as H0. unfold update_existing in H.
  destruct i as [| |lf dt dim n total|kind dt dim n scalers widths].
  - injection H as <-. destruct (so_has_data o) eqn:Ho; [reflexivity|].
    symmetry. apply set_has_data_same. exact Ho.
  - injection H as <-. destruct (so_has_data o) eqn:Ho.
    + rewrite Ho in Hd. discriminate Hd.
    + discriminate Hd.
  - rewrite (new_object_has_data _ _ _ H) in Hd. discriminate Hd.
  - rewrite (new_object_has_data _ _ _ H) in Hd. discriminate Hd.
Qed.

Definition base_tracked (base : option (list sobj)) (prev : alist sobj) : Prop :=
  match base with
  | Some b => forall o, In o b -> alookup (so_path o) prev = Some o
  | None => True
  end.

Definition prev_wf (prev : alist sobj) : Prop :=
  forall p po, alookup p prev = Some po -> wf_obj po.

Definition obj_ok (prev : alist sobj) (o : sobj) : Prop := wf_obj o /\ nodata_ok prev o.

Lemma Forall_replace_nth {A} (P : A -> Prop) (l : list A) i x :
  Forall P l -> P x -> Forall P (replace_nth i x l).
Proof.
  intros Hl Hx. apply Forall_forall. intros y Hy. apply In_replace_nth in Hy.
  destruct Hy as [->|Hy]; [exact Hx|]. rewrite Forall_forall in Hl. exact (Hl y Hy).
Qed.

Lemma step_entry_obj_ok base prev ordered x ordered' :
  prev_keys_ok prev -> prev_wf prev -> base_tracked base prev ->
  step_entry base prev ordered x = Ok ordered' ->
  Forall (obj_ok prev) ordered -> Forall (obj_ok prev) ordered'.
Proof.
  intros Hk Hw Hb Hs HF. unfold step_entry in Hs.
  destruct (match base with Some b => existing_lookup (e_path x) 0 b None | None => None end)
    as [[i o]|] eqn:E.
  - destruct base as [b|]; [|discriminate E].
    apply existing_lookup_some in E. destruct E as (_ & Hn & Hp).
    apply nth_error_In in Hn. pose proof (Hb o Hn) as Ha.
    destruct (update_existing o (e_idx x)) as [o'|e] eqn:Eu; cbn [bind] in Hs; [|discriminate].
    injection Hs as <-. apply Forall_replace_nth; [exact HF|]. split.
    + apply (update_existing_wf _ _ _ Eu). apply (Hw _ _ Ha).
    + intros Hd. rewrite (update_existing_path _ _ _ Eu), Ha.
      symmetry. apply (update_existing_nodata _ _ _ Eu Hd).
  - destruct (alookup (e_path x) prev) as [po|] eqn:Ea.
    + destruct (reuse_previous po (e_idx x)) as [o'|e] eqn:Er; cbn [bind] in Hs; [|discriminate].
      injection Hs as <-. apply Forall_app. split; [exact HF|]. apply Forall_cons; [|apply Forall_nil].
      split.
      * apply (reuse_previous_wf _ _ _ Er). apply (Hw _ _ Ea).
      * intros Hd. rewrite (reuse_previous_path _ _ _ Er), (Hk _ _ Ea), Ea.
        symmetry. apply (update_existing_nodata _ _ _ Er Hd).
    + assert (Hx : exists o', new_object (e_path x) (e_idx x) = Ok o' /\ ordered' = ordered ++ [o']).
      { destruct (e_idx x) as [| |lf dt dim n total|kind dt dim n scalers widths] eqn:Ei;
          [|discriminate| |];
          match type of Hs with
          | bind ?r _ = _ => destruct r as [o'|e] eqn:En; cbn [bind] in Hs; [|discriminate]
          end;
          injection Hs as <-; exists o'; (split; reflexivity). }
      destruct Hx as (o' & Hn & ->).
      apply Forall_app. split; [exact HF|]. apply Forall_cons; [|apply Forall_nil].
      split; [apply (new_object_wf _ _ _ Hn)|].
      intros Hd. rewrite (new_object_path _ _ _ Hn), Ea.
      destruct (new_object_indexed_or_blank _ _ _ Hn) as [Hi|Hbl]; [|exact Hbl].
      pose proof (new_object_has_data _ _ _ Hn) as Hh. rewrite Hd in Hh.
      destruct (e_idx x); try discriminate Hh; cbn in Hn; injection Hn as <-; reflexivity.
Qed.

Lemma fold_entries_obj_ok base prev : forall es ordered r,
  prev_keys_ok prev -> prev_wf prev -> base_tracked base prev ->
  fold_entries base prev ordered es = Ok r ->
  Forall (obj_ok prev) ordered -> Forall (obj_ok prev) r.
Proof.
  induction es as [|x es IH]; intros ordered r Hk Hw Hb Hf HF; cbn [fold_entries] in Hf.
  - injection Hf as <-. exact HF.
  - destruct (step_entry base prev ordered x) as [ordered'|e] eqn:Es; cbn [bind] in Hf; [|discriminate].
    apply (IH ordered' r Hk Hw Hb Hf).
    apply (step_entry_obj_ok base prev ordered x ordered' Hk Hw Hb Es HF).
Qed.

Lemma tracked_obj_ok prev o : prev_wf prev -> alookup (so_path o) prev = Some o -> obj_ok prev o.
Proof.
  intros Hw Ha. split; [apply (Hw _ _ Ha)|].
  intros Hd. rewrite Ha. apply set_has_data_same. exact Hd.
Qed.

(* whatever encoding the segment uses (metadata absent / inherited list /
   new list; full, matches-previous, no-data or unlisted objects), the list
   it produces satisfies the hypotheses of T2 w.r.t. the same global map *)
Theorem read_segment_objects_obj_ok toc metadata prev_objs prev_seg objs props :
  prev_keys_ok prev_objs -> prev_wf prev_objs -> base_tracked prev_seg prev_objs ->
  read_segment_objects toc metadata prev_objs prev_seg = Ok (objs, props) ->
  Forall (obj_ok prev_objs) objs.
Proof.
  intros Hk Hw Hb H. unfold read_segment_objects in H.
  assert (Hbase : forall b, prev_seg = Some b -> Forall (obj_ok prev_objs) b).
  { intros b ->. apply Forall_forall. intros o Ho. apply (tracked_obj_ok _ _ Hw). apply (Hb o Ho). }
  destruct metadata as [es|].
  - set (base := if toc_has toc TOC_NEWLIST then None else prev_seg) in H.
    destruct (fold_entries base prev_objs match base with Some l => l | None => [] end es)
      as [r|e] eqn:Ef; cbn [bind] in H; [|discriminate].
    injection H as <- _.
    apply (fold_entries_obj_ok base prev_objs es (match base with Some l => l | None => [] end) r Hk Hw);
      [|exact Ef|].
    + unfold base. destruct (toc_has toc TOC_NEWLIST); [exact I|exact Hb].
    + unfold base. destruct (toc_has toc TOC_NEWLIST); [apply Forall_nil|].
      destruct prev_seg as [b|]; [apply (Hbase b eq_refl)|apply Forall_nil].
  - destruct prev_seg as [b|]; [|discriminate]. injection H as <- _. apply (Hbase b eq_refl).
Qed.

(* One step of "inheritance never changes what is read": under the reader's
   state invariants, the object list a segment produces is reproduced exactly
   by its fully explicit encoding (new object list, every object restated),
   provided no object has data without ever having received an index. *)
Theorem inheritance_transparent_step toc metadata prev_objs prev_seg objs props toc' :
  prev_keys_ok prev_objs -> prev_wf prev_objs -> base_tracked prev_seg prev_objs ->
  read_segment_objects toc metadata prev_objs prev_seg = Ok (objs, props) ->
  (forall o, In o objs -> so_has_data o = true -> so_dtype o <> None) ->
  toc_has toc' TOC_NEWLIST = true ->
  read_segment_objects toc' (Some (explicit_entries objs)) prev_objs prev_seg = Ok (objs, []).
Proof.
  intros Hk Hw Hb H Hd Ht.
  pose proof (read_segment_objects_obj_ok _ _ _ _ _ _ Hk Hw Hb H) as Hok.
  rewrite Forall_forall in Hok.
  apply explicit_segment_same_objects; [exact Ht|exact Hk| |].
  - apply Forall_forall. intros o Ho. apply wf_obj_canonical; [apply (Hok o Ho)|apply (Hd o Ho)].
  - apply Forall_forall. intros o Ho. apply (Hok o Ho).
Qed.

(* the reader starts with an empty global map and no previous segment *)
Theorem state_invariants_initial : prev_keys_ok [] /\ prev_wf [] /\ base_tracked None [].
Proof.
  split; [exact prev_keys_ok_nil|]. split; [|exact I].
  intros p po H. discriminate H.
Qed.

(* the state invariants are re-established after the segment *)
Theorem state_invariants_preserved objs n f prev_objs om prev' om' :
  update_object_metadata objs n f prev_objs om = Ok (prev', om') ->
  prev_keys_ok prev_objs -> prev_wf prev_objs ->
  Forall (obj_ok prev_objs) objs -> NoDup (map so_path objs) ->
  prev_keys_ok prev' /\ prev_wf prev' /\ base_tracked (Some objs) prev'.
Proof.
  intros H Hk Hw Hok Hnd. split; [|split].
  - apply (update_object_metadata_keys_ok _ _ _ _ _ _ _ H Hk).
  - refine (update_object_metadata_values wf_obj _ _ _ _ _ _ _ H Hw _).
    apply Forall_forall. intros o Ho. rewrite Forall_forall in Hok. apply (Hok o Ho).
  - exact (proj1 (prev_objs_tracks_segments _ _ _ _ _ _ _ H Hnd)).
Qed.

(* ======================================================================== *)
(* Concrete instances: the hypotheses are satisfiable and none is idle        *)
(* ======================================================================== *)

Fixpoint nodupb (l : list bytes) : bool :=
  match l with
  | [] => true
  | p :: r => negb (existsb (bytes_eqb p) r) && nodupb r
  end.

Lemma nodupb_sound l : nodupb l = true -> NoDup l.
Proof.
  induction l as [|p r IH]; cbn; intros H; [apply NoDup_nil|].
  apply andb_true_iff in H. destruct H as [Hp Hr].
  apply NoDup_cons; [|apply IH; exact Hr].
  intros Hin. apply negb_true_iff in Hp.
  assert (Hx : existsb (bytes_eqb p) r = true).
  { apply existsb_exists. exists p. split; [exact Hin|apply bytes_eqb_refl]. }
  rewrite Hx in Hp. discriminate Hp.
Qed.

Module Ex.
  Definition pA : bytes := ["a"%byte].
  Definition pB : bytes := ["b"%byte].
  Definition pC : bytes := ["c"%byte].
  Definition pD : bytes := ["d"%byte].
  (* int32 x 4, has data *)
  Definition oA := mkSobj pA true 4 16 (Some 3) None.
  (* float64 x 10, no data in the previous segment *)
  Definition oB := mkSobj pB false 10 80 (Some 10) None.
  (* strings, 2 values in 9 bytes; only in the global map *)
  Definition oC := mkSobj pC true 2 9 (Some T_STRING) None.
  Definition base := [oA; oB].
  Definition prev : alist sobj := [(pA, oA); (pB, oB); (pC, oC)].
  Definition aprop := mkProp ["n"%byte] 3 ["1"%byte; "0"%byte; "0"%byte; "0"%byte].
  Definition es :=
    [ mkEntry pB IMatchPrev [];
      mkEntry pC INoData [aprop];
      mkEntry pD (IFull 20 5 1 7 None) [];
      mkEntry pA (IFull 20 3 1 6 None) [] ].
  Definition result :=
    [ mkSobj pA true 6 24 (Some 3) None;
      mkSobj pB true 10 80 (Some 10) None;
      mkSobj pC false 2 9 (Some T_STRING) None;
      mkSobj pD true 7 7 (Some 5) None ].
End Ex.

Lemma ex_prev_keys_ok : prev_keys_ok Ex.prev.
Proof. apply prev_keys_ok_Forall. repeat constructor. Qed.

(* T1: an inherited list where the listing order differs from the list order,
   one object is re-activated, one is reused from the global map, one is new *)
Example positional_update_is_update_by_path_instance :
  prev_keys_ok Ex.prev /\ NoDup (map so_path Ex.base) /\ NoDup (map e_path Ex.es) /\
  fold_entries (Some Ex.base) Ex.prev Ex.base Ex.es = Ok Ex.result /\
  spec_fold_entries Ex.prev Ex.base Ex.es = Ok Ex.result.
Proof.
  split; [exact ex_prev_keys_ok|].
  split; [apply nodupb_sound; vm_compute; reflexivity|].
  split; [apply nodupb_sound; vm_compute; reflexivity|].
  split; vm_compute; reflexivity.
Qed.

(* the uniqueness hypothesis on the listed paths is needed: listing an
   inherited object twice makes the second mention act on the STALE object of
   the index map (here "full index, then matches previous" re-activates the
   old float64 x 10 index instead of keeping the new int32 x 6 one) *)
Example stale_index_map_visible_when_listed_twice :
  let es := [mkEntry Ex.pB (IFull 20 3 1 6 None) []; mkEntry Ex.pB IMatchPrev []] in
  fold_entries (Some Ex.base) Ex.prev Ex.base es
    = Ok [Ex.oA; mkSobj Ex.pB true 10 80 (Some 10) None] /\
  spec_fold_entries Ex.prev Ex.base es
    = Ok [Ex.oA; mkSobj Ex.pB true 6 24 (Some 3) None].
Proof. split; vm_compute; reflexivity. Qed.

(* same under a new object list: a path listed twice is appended twice by the
   mechanism, replaced by the specification *)
Example new_list_listed_twice :
  let es := [mkEntry Ex.pD (IFull 20 3 1 6 None) []; mkEntry Ex.pD INoData []] in
  fold_entries None [] [] es
    = Ok [mkSobj Ex.pD true 6 24 (Some 3) None; blank Ex.pD] /\
  spec_fold_entries [] [] es = Ok [mkSobj Ex.pD false 6 24 (Some 3) None].
Proof. split; vm_compute; reflexivity. Qed.

Lemma ex_result_canonical : Forall canonical Ex.result.
Proof.
  repeat (apply Forall_cons;
          [intros H; first [discriminate H | vm_compute; reflexivity]|]).
  apply Forall_nil.
Qed.

Lemma ex_result_nodata_ok : Forall (nodata_ok Ex.prev) Ex.result.
Proof.
  repeat (apply Forall_cons;
          [intros H; first [discriminate H | vm_compute; reflexivity]|]).
  apply Forall_nil.
Qed.

(* T2: the list of the T1 instance (one object without data, inherited from
   the global map; a string object; a new object) restated explicitly *)
Example explicit_reencoding_same_objects_instance :
  prev_keys_ok Ex.prev /\ Forall canonical Ex.result /\ Forall (nodata_ok Ex.prev) Ex.result /\
  explicit_entries Ex.result =
    [ mkEntry Ex.pA (IFull 20 3 1 6 None) [];
      mkEntry Ex.pB (IFull 20 10 1 10 None) [];
      mkEntry Ex.pC INoData [];
      mkEntry Ex.pD (IFull 20 5 1 7 None) [] ] /\
  fold_entries None Ex.prev [] (explicit_entries Ex.result) = Ok Ex.result.
Proof.
  split; [exact ex_prev_keys_ok|].
  split; [exact ex_result_canonical|].
  split; [exact ex_result_nodata_ok|].
  split; vm_compute; reflexivity.
Qed.

(* a string object restated in full carries its total size *)
Example idx_of_string : idx_of Ex.oC = IFull 28 T_STRING 1 2 (Some 9) /\ canonical Ex.oC.
Proof. split; [reflexivity|intros _; vm_compute; reflexivity]. Qed.

(* a DAQmx object *)
Example canonical_daqmx :
  let o := mkSobj Ex.pA true 5 0 (Some T_DAQMX)
                  (Some (mkDq 0x1269 [mkScaler 3 0 0 0 0; mkScaler 3 0 2 0 1] [4])) in
  idx_of o = IDaqmx 0x1269 T_DAQMX 1 5 [mkScaler 3 0 0 0 0; mkScaler 3 0 2 0 1] [4] /\
  canonical o.
Proof. split; [reflexivity|intros _; vm_compute; reflexivity]. Qed.

(* the side condition of [update_existing_canonical] / of
   [inheritance_transparent_step] is not idle: "no data" followed by "matches
   previous" is ACCEPTED by the reader and yields an object that has data but
   never received an index; no full header restates it *)
Example match_prev_after_only_no_data :
  fold_entries None [] [] [mkEntry Ex.pA INoData []] = Ok [blank Ex.pA] /\
  fold_entries (Some [blank Ex.pA]) [(Ex.pA, blank Ex.pA)] [blank Ex.pA]
               [mkEntry Ex.pA IMatchPrev []]
    = Ok [mkSobj Ex.pA true 0 0 None None] /\
  wf_obj (mkSobj Ex.pA true 0 0 None None) /\
  ~ canonical (mkSobj Ex.pA true 0 0 None None).
Proof.
  split; [reflexivity|]. split; [reflexivity|]. split; [right; reflexivity|].
  intros Hc. specialize (Hc eq_refl). vm_compute in Hc. discriminate Hc.
Qed.

(* T3 instances *)
Example forbidden_rejected_unseen_match_prev_instance :
  let x := mkEntry Ex.pD IMatchPrev [] in
  unseen (Some Ex.base) Ex.prev (e_path x) /\ e_idx x = IMatchPrev /\
  fold_entries (Some Ex.base) Ex.prev Ex.base [mkEntry Ex.pA INoData []] =
    Ok [mkSobj Ex.pA false 4 16 (Some 3) None; Ex.oB] /\
  fold_entries (Some Ex.base) Ex.prev Ex.base
               ([mkEntry Ex.pA INoData []] ++ x :: [mkEntry Ex.pB IMatchPrev []]) = Err EValue.
Proof.
  split; [|split; [reflexivity|split; reflexivity]].
  split; [|reflexivity].
  cbn. intros [H|[H|[]]]; discriminate H.
Qed.

Example forbidden_rejected_type_change_instance :
  let m := mkOmeta [] (Some 3) None 4 in
  om_dtype m = Some 3 /\ so_dtype Ex.oB <> Some 3 /\
  update_ometa m Ex.oB 1 None = Err EValue /\
  (* whereas the same type is accepted and the length accumulates *)
  update_ometa m Ex.oA 2 None = Ok (mkOmeta [] (Some 3) None 12).
Proof.
  split; [reflexivity|]. split; [discriminate|]. split; reflexivity.
Qed.

(* T4 instance, and the whole chain on the running example *)
Example prev_objs_tracks_segments_instance :
  exists om',
    update_object_metadata Ex.result 1 None Ex.prev [] =
      Ok ([(Ex.pA, mkSobj Ex.pA true 6 24 (Some 3) None);
           (Ex.pB, mkSobj Ex.pB true 10 80 (Some 10) None);
           (Ex.pC, mkSobj Ex.pC false 2 9 (Some T_STRING) None);
           (Ex.pD, mkSobj Ex.pD true 7 7 (Some 5) None)], om') /\
    NoDup (map so_path Ex.result).
Proof.
  eexists. split; [vm_compute; reflexivity|apply nodupb_sound; vm_compute; reflexivity].
Qed.

Lemma ex_prev_wf : prev_wf Ex.prev.
Proof.
  intros p po H. cbn in H.
  destruct (bytes_eqb p Ex.pA); [injection H as <-; left; intros _; vm_compute; reflexivity|].
  destruct (bytes_eqb p Ex.pB); [injection H as <-; left; intros _; vm_compute; reflexivity|].
  destruct (bytes_eqb p Ex.pC); [injection H as <-; left; intros _; vm_compute; reflexivity|].
  discriminate H.
Qed.

Lemma ex_base_tracked : base_tracked (Some Ex.base) Ex.prev.
Proof. intros o [<-|[<-|[]]]; reflexivity. Qed.

Example inheritance_transparent_step_instance :
  prev_keys_ok Ex.prev /\ prev_wf Ex.prev /\ base_tracked (Some Ex.base) Ex.prev /\
  read_segment_objects 2 (Some Ex.es) Ex.prev (Some Ex.base) =
    Ok (Ex.result, [(Ex.pC, [Ex.aprop])]) /\
  toc_has 6 TOC_NEWLIST = true /\
  read_segment_objects 6 (Some (explicit_entries Ex.result)) Ex.prev (Some Ex.base) =
    Ok (Ex.result, []).
Proof.
  split; [exact ex_prev_keys_ok|]. split; [exact ex_prev_wf|]. split; [exact ex_base_tracked|].
  split; [vm_compute; reflexivity|]. split; vm_compute; reflexivity.
Qed.
