(* The writer's VALUE DISPATCH as TRANSLATED FROM THE SOURCE on every run (Gen/PyFuncsWVal.v, written by
   harness/gen/gen_pyfuncs_wval.py from nptdms/writer.py) against Model/Writer.v.

   Model/Writer.v receives properties and channel data ALREADY TYPED (PPTyped / PDTyped), except Python ints (PPInt,
   PDInts); which TDMS type a Python value gets was so far decided by the harness (writer_cases.py) when it wrote
   the model's input.  Here that typing is the code's own: [classify] spells out, class by class, the typed
   property the model is given for a Python value, and [to_tdms_value_lowering] proves that the translated
   _to_tdms_value produces exactly Model/Writer.v lower_prop of it (ints through to_int_property_value, bools as
   Boolean - isinstance(value, bool) is tested BEFORE isinstance(value, int) -, np.number scalars by dtype, ...);
   likewise channel data: _to_np_array, ChannelObject.data_type, _has_raw_data, write_data against int_list_data,
   obj_raw. *)
From Coq Require Import String.
From Coq Require Import ZArith List Bool Lia.
From Coq Require Import Init.Byte.
Import ListNotations.
From NpTdms Require Import Base.Bytes Base.Res Base.PySlice Model.Tokens Model.TokensWf Model.ByteStr Model.StrictParse Model.SegState Model.Writer Gen.PyFuncsWriter
     Gen.PyFuncsWVal Proofs.SegStateProofs.
Local Open Scope Z_scope.

Definition res_map {A B} (f : A -> B) (r : res A) : res B :=
  match r with Ok a => Ok (f a) | Err e => Err e end.

(* ---- properties ------------------------------------------------------------------------------------------------ *)

Definition bool_byte (b : bool) : bytes := [if b then x01 else x00].
Definition is_complex (c : Z) : bool := (c =? cls_ComplexSingleFloat) || (c =? cls_ComplexDoubleFloat).

(* the model's input for a Python value given as a property value (None: the writer refuses the value) *)
Definition classify (name : bytes) (v : pyval) : option pyprop :=
  match v with
  | VInt z => Some (PPInt name z)
  | VBool b | VNpBool b => Some (PPTyped (mkProp name cls_Boolean (bool_byte b)))
  | VNpNumber (Some c) bs => if is_complex c then None else Some (PPTyped (mkProp name c bs))
  | VNpNumber None _ => None
  | VTdms c bs => Some (PPTyped (mkProp name c bs))
  | VFloat bs => Some (PPTyped (mkProp name cls_DoubleFloat bs))
  | VDatetime bs | VDatetime64 bs | VTimestamp bs => Some (PPTyped (mkProp name cls_TimeStamp bs))
  | VStr bs => Some (PPTyped (mkProp name cls_String bs))
  | VBytes _ | VOther => None
  end.

(* the property TdmsSegment.metadata writes for a value object: String(name), Int32(value.enum_value), value *)
Definition prop_of (name : bytes) (t : tval) : prop := mkProp name (wcls_enum (fst t)) (snd t).

Theorem to_tdms_value_lowering name v pp :
  classify name v = Some pp ->
  res_map (prop_of name) (to_tdms_value_gen v) = lower_prop pp.
Proof.
  destruct v as [[c|] bs|c bs|b|b|z|bs|bs|bs|bs|bs|bs|]; cbn [classify]; try discriminate.
  - unfold is_complex. destruct ((c =? cls_ComplexSingleFloat) || (c =? cls_ComplexDoubleFloat)) eqn:E; [discriminate|].
    intros [= <-]. unfold to_tdms_value_gen. cbn [pv_is_np_number np_number_value bind]. rewrite E. reflexivity.
  - intros [= <-]. reflexivity.
  - intros [= <-]. destruct b; reflexivity.
  - intros [= <-]. destruct b; reflexivity.
  - intros [= <-]. unfold to_tdms_value_gen.
    cbn [pv_is_np_number pv_is_tdms_type pv_is_bool pv_is_np_bool pv_is_int orb to_int_property_value_py bind lower_prop].
    unfold int_value_object, int_prop. destruct (to_int_property_value z) as [c w]. destruct (ctor_layout c) as [[ty width] signed].
    destruct (pack_int width signed w); reflexivity.
  - intros [= <-]. reflexivity.
  - intros [= <-]. reflexivity.
  - intros [= <-]. reflexivity.
  - intros [= <-]. reflexivity.
  - intros [= <-]. reflexivity.
Qed.

Theorem to_tdms_value_rejects name v : classify name v = None -> exists e, to_tdms_value_gen v = Err e.
Proof.
  destruct v as [[c|] bs|c bs|b|b|z|bs|bs|bs|bs|bs|bs|]; cbn [classify]; try discriminate; intros H.
  - unfold is_complex in H. destruct ((c =? cls_ComplexSingleFloat) || (c =? cls_ComplexDoubleFloat)) eqn:E; [|discriminate].
    exists EType. unfold to_tdms_value_gen. cbn [pv_is_np_number np_number_value bind]. rewrite E. reflexivity.
  - exists EKey. reflexivity.
  - exists EOther. reflexivity.
  - exists EType. reflexivity.
Qed.

(* the order of the isinstance chain, where two classes overlap *)
Theorem bool_is_not_written_as_int b :
  to_tdms_value_gen (VBool b) = Ok (CTdms cls_Boolean, bool_byte b) /\ pv_is_int (VBool b) = true.
Proof. destruct b; split; reflexivity. Qed.

Theorem np_float64_goes_by_dtype bs :
  to_tdms_value_gen (VNpNumber (Some cls_DoubleFloat) bs) = Ok (CTdms cls_DoubleFloat, bs) /\
  pv_is_float (VNpNumber (Some cls_DoubleFloat) bs) = true.
Proof. split; reflexivity. Qed.

Theorem tdms_timestamp_is_returned_as_is bs :
  to_tdms_value_gen (VTimestamp bs) = Ok (CTimestampObj, bs) /\ wcls_enum CTimestampObj = T_TIME.
Proof. split; reflexivity. Qed.

(* read_properties_dict *)
Lemma dict_of_pairs_nodup' {V} : forall (l acc : alist V),
  NoDup (map fst acc ++ map fst l) ->
  fold_left (fun d kv => aset (fst kv) (snd kv) d) l acc = acc ++ l.
Proof.
  induction l as [|[k v] r IH]; intros acc Hnd; cbn [fold_left]; [rewrite app_nil_r; reflexivity|].
  cbn [map fst snd] in *.
  assert (Hk : ~ In k (map fst acc)).
  { intros Hin. apply NoDup_remove_2 in Hnd. apply Hnd. apply in_or_app. left. exact Hin. }
  assert (Ha : aset k v acc = acc ++ [(k, v)]).
  { clear -Hk. induction acc as [|[k' v'] r' IHa]; cbn; [reflexivity|].
    destruct (bytes_eqb k k') eqn:E.
    - apply bytes_eqb_eq in E. subst k'. exfalso. apply Hk. left. reflexivity.
    - f_equal. apply IHa. intros Hin. apply Hk. right. exact Hin. }
  rewrite Ha, IH; [rewrite <- app_assoc; reflexivity|].
  rewrite map_app. cbn [map fst]. rewrite <- app_assoc. exact Hnd.
Qed.

Theorem read_properties_dict_translated (d : alist pyval) (pps : list pyprop) :
  NoDup (map fst d) ->
  map (fun kv => classify (fst kv) (snd kv)) d = map Some pps ->
  res_map (map (fun kv => prop_of (fst kv) (snd kv))) (read_properties_dict_gen (Some d)) = mapM lower_prop pps.
Proof.
  intros Hnd Hc. unfold read_properties_dict_gen.
  assert (H : forall d pps, map (fun kv => classify (fst kv) (snd kv)) d = map Some pps ->
                            res_map (map (fun kv => prop_of (fst kv) (snd kv)))
                                    (mapM (fun kv => do t__ <- to_tdms_value_gen (snd kv); Ok (fst kv, t__)) d)
                            = mapM lower_prop pps /\
                            forall l, mapM (fun kv => do t__ <- to_tdms_value_gen (snd kv); Ok (fst kv, t__)) d = Ok l -> map fst l = map fst d).
  { clear. induction d as [|[k v] r IH]; intros [|pp pr] Hc; try discriminate; [split; [reflexivity|intros l [= <-]; reflexivity]|].
    cbn [map fst snd] in Hc. injection Hc as Hk Hr. destruct (IH pr Hr) as [IH1 IH2]. cbn [mapM fst snd].
    pose proof (to_tdms_value_lowering k v pp Hk) as Hl.
    destruct (to_tdms_value_gen v) as [t|e]; cbn [bind res_map] in *.
    - rewrite <- Hl. cbn [bind]. rewrite <- IH1.
      destruct (mapM _ r) as [l|e']; cbn [bind res_map map fst snd]; split; try reflexivity; try discriminate.
      intros l0 [= <-]. cbn [map fst]. f_equal. apply IH2. reflexivity.
    - rewrite <- Hl. split; [reflexivity|discriminate]. }
  destruct (H d pps Hc) as [H1 H2].
  destruct (mapM (fun kv => do t__ <- to_tdms_value_gen (snd kv); Ok (fst kv, t__)) d) as [l|e] eqn:El; cbn [bind res_map] in *; [|exact H1].
  unfold dict_of_pairs. rewrite (dict_of_pairs_nodup' l []); [exact H1|]. cbn [map app]. rewrite (H2 l eq_refl). exact Hnd.
Qed.

Theorem read_properties_dict_none : read_properties_dict_gen None = Ok [].
Proof. reflexivity. Qed.

(* ---- channel data: _infer_dtype and _to_np_array ------------------------------------------------------------------ *)

Lemma mapM_pv_int_all : forall l zs, mapM pv_int l = Ok zs -> forallb pv_is_int l = true.
Proof.
  induction l as [|v l IH]; intros zs Hi; [reflexivity|]. cbn [mapM] in Hi.
  destruct (pv_int v) as [zv|] eqn:Ev; cbn [bind] in Hi; [|discriminate].
  destruct (mapM pv_int l) as [zs'|] eqn:El; cbn [bind] in Hi; [|discriminate].
  cbn [forallb]. rewrite (IH zs' eq_refl), andb_true_r. destruct v; try discriminate; reflexivity.
Qed.

(* a non-empty list of ints (bools count as 0 / 1): the chain of Gen/PyFuncsWriter.v on max and min *)
Theorem infer_dtype_translated l a z r :
  mapM pv_int l = Ok (z :: r) ->
  infer_dtype_gen (PDList l a) = Ok (Some (infer_dtype_chain (list_max z r) (list_min z r))).
Proof.
  intros Hi. unfold infer_dtype_gen. cbn [pd_elems].
  assert (Hne : match l with [] => false | _ :: _ => true end = true) by (destruct l; [discriminate|reflexivity]).
  assert (Hall : forallb (fun value => pv_is_int value) l = true) by exact (mapM_pv_int_all l _ Hi).
  rewrite Hne, Hall. cbn [andb]. unfold py_max_ints, py_min_ints. rewrite Hi. cbn [bind].
  unfold infer_dtype_chain, list_max, list_min.
  repeat match goal with |- context [if ?c then _ else _] => destruct c end; reflexivity.
Qed.

(* anything else: no dtype is inferred, NumPy decides *)
Theorem infer_dtype_none l a :
  (l = [] \/ forallb pv_is_int l = false) -> infer_dtype_gen (PDList l a) = Ok None.
Proof.
  intros [->|H]; [reflexivity|]. unfold infer_dtype_gen. cbn [pd_elems].
  replace (forallb (fun value => pv_is_int value) l) with (forallb pv_is_int l) by reflexivity.
  rewrite H, andb_false_r. reflexivity.
Qed.

(* a list of Python ints becomes the array Model/Writer.v int_list_data describes: the inferred dtype, every element
   packed into it (OverflowError otherwise), little-endian, one-dimensional *)
Definition array_typed (a : parray) : res (Z * list bytes) :=
  match pa_lookup a with Some ty => Ok (ty, map pv_bytes (pa_elems a)) | None => Err EOther end.

Lemma pack_vals ty width signed : forall zs,
  mapM (fun z0 => match pack_int width signed z0 with Ok b => Ok (VNpNumber (Some ty) b) | Err _ => Err EOther end) zs
  = res_map (map (VNpNumber (Some ty))) (mapM (fun z0 => match pack_int width signed z0 with Ok b => Ok b | Err _ => Err EOther end) zs).
Proof.
  induction zs as [|z0 r IH]; [reflexivity|]. cbn [mapM]. destruct (pack_int width signed z0); cbn [bind]; [|reflexivity].
  rewrite IH.
  destruct (mapM (fun z1 => match pack_int width signed z1 with Ok b => Ok b | Err _ => Err EOther end) r); reflexivity.
Qed.

Theorem to_np_array_int_list l a z r :
  mapM pv_int l = Ok (z :: r) ->
  (do arr <- to_np_array_gen (PDList l a); array_typed arr) = int_list_data (z :: r).
Proof.
  intros Hi. unfold to_np_array_gen. cbn [pd_is_ndarray]. rewrite (infer_dtype_translated l a z r Hi). cbn [bind].
  unfold np_array_of_list, int_list_data, np_int_array.
  destruct (dtype_layout (infer_dtype_chain (list_max z r) (list_min z r))) as [[ty width] signed].
  rewrite Hi. cbn [bind].
  rewrite (pack_vals ty width signed (z :: r)).
  destruct (mapM (fun z0 => match pack_int width signed z0 with Ok b => Ok b | Err _ => Err EOther end) (z :: r)) as [vals|];
    cbn [res_map bind]; [|reflexivity].
  unfold array_typed, pa_lookup. cbn [pa_le pa_table pa_elems]. rewrite map_map. cbn [pv_bytes]. rewrite map_id. reflexivity.
Qed.

(* an ndarray is converted to little-endian order; a TimestampArray whose first field is 'seconds' gets the fields
   in the order that is written; the elements are the same *)
Theorem to_np_array_ndarray a :
  to_np_array_gen (PDArray a)
  = Ok (if pa_tsarray a && pa_seconds_first a then pa_ts_reorder (pa_astype_le a) else pa_astype_le a).
Proof.
  unfold to_np_array_gen. cbn [pd_is_ndarray pd_array bind].
  cbn [pa_astype_le pa_tsarray pa_seconds_first]. destruct (pa_tsarray a && pa_seconds_first a); reflexivity.
Qed.

Corollary to_np_array_ndarray_normal a arr :
  to_np_array_gen (PDArray a) = Ok arr ->
  pa_le arr = true /\ (pa_tsarray arr = true -> pa_seconds_first arr = false) /\ pa_elems arr = pa_elems a /\
  pa_table arr = pa_table a /\ pa_ndim arr = pa_ndim a.
Proof.
  rewrite to_np_array_ndarray. intros [= <-].
  destruct (pa_tsarray a) eqn:Et, (pa_seconds_first a) eqn:Es; cbn [andb pa_ts_reorder pa_astype_le pa_le pa_tsarray pa_seconds_first
    pa_elems pa_table pa_ndim]; repeat split; try reflexivity; try (intros; assumption); try (intros; discriminate); intros; congruence.
Qed.

(* ---- ChannelObject.data_type, _has_raw_data ---------------------------------------------------------------------------- *)

Theorem channel_data_type_translated a :
  channel_data_type_gen a
  = match pa_lookup a with
    | Some ty => Ok (CTdms ty)
    | None => match pa_elems a with
              | [] => Ok (CTdms cls_Void)
              | v :: _ => do t <- to_tdms_value_gen v; Ok (fst t)
              end
    end.
Proof.
  unfold channel_data_type_gen. destruct (pa_lookup a) as [ty|]; [reflexivity|]. cbn [option_map need bind py_catch2 err_eqb orb].
  destruct (pa_elems a) as [|v r]; [reflexivity|].
  change (py_index (v :: r) 0) with (Ok v). cbn [bind].
  destruct (to_tdms_value_gen v) as [t|e] eqn:Et; cbn [bind py_catch]; [reflexivity|].
  (* _to_tdms_value raises no IndexError *)
  assert (He : e <> EIndex).
  { intros ->. unfold to_tdms_value_gen in Et.
    destruct v as [[c|] bs|c bs|b|b|z|bs|bs|bs|bs|bs|bs|]; cbn in Et; try discriminate.
    - destruct ((c =? cls_ComplexSingleFloat) || (c =? cls_ComplexDoubleFloat)); discriminate.
    - unfold int_value_object in Et. destruct (to_int_property_value z) as [c w]. destruct (ctor_layout c) as [[ty w'] s].
      unfold pack_int in Et. destruct s; [destruct (_ && _)|destruct (_ && _)]; discriminate. }
  destruct e; try reflexivity. contradiction.
Qed.

Theorem has_raw_data_translated a :
  has_raw_data_gen (Some a) = (do c <- channel_data_type_gen a; Ok (negb (wcls_eqb c (CTdms cls_Void)))) /\
  has_raw_data_gen None = Ok false.
Proof. split; reflexivity. Qed.

(* ---- write_data --------------------------------------------------------------------------------------------------------- *)

Lemma yield_loop3 : forall l acc, write_data_gen_loop3 l acc = Ok (acc ++ l).
Proof. induction l as [|x r IH]; intros acc; cbn; [rewrite app_nil_r; reflexivity|]. rewrite IH, <- app_assoc. reflexivity. Qed.
Lemma yield_loop4 : forall l acc, write_data_gen_loop4 l acc = Ok (acc ++ l).
Proof. induction l as [|x r IH]; intros acc; cbn; [rewrite app_nil_r; reflexivity|]. rewrite IH, <- app_assoc. reflexivity. Qed.
Lemma yield_loop5 : forall l acc, write_data_gen_loop5 l acc = Ok (acc ++ l).
Proof. induction l as [|x r IH]; intros acc; cbn; [rewrite app_nil_r; reflexivity|]. rewrite IH, <- app_assoc. reflexivity. Qed.
Lemma yield_loop7 : forall l acc, segment_write_data_gen_loop7 l acc = Ok (acc ++ l).
Proof. induction l as [|x r IH]; intros acc; cbn; [rewrite app_nil_r; reflexivity|]. rewrite IH, <- app_assoc. reflexivity. Qed.

(* the array is in the layout _to_np_array leaves *)
Definition normal (a : parray) : Prop := pa_le a = true /\ pa_seconds_first a = false.

Lemma pa_raw_normal a : normal a -> pa_raw a = concat (map pv_bytes (pa_elems a)).
Proof. intros [Hl Hs]. unfold pa_raw. rewrite Hl, Hs. reflexivity. Qed.

(* every element is written by write_values with its own value bytes *)
Definition elems_by_value (a : parray) : Prop :=
  Forall (fun v => exists t, to_tdms_value_gen v = Ok t /\ tval_bytes t = pv_bytes v) (pa_elems a).
(* string data: all str or all bytes *)
Definition elems_strings (a : parray) : Prop :=
  forallb pv_is_str (pa_elems a) = true \/ forallb pv_is_bytes (pa_elems a) = true.

Lemma write_values_eq a : elems_by_value a -> write_values_gen a = Ok [concat (map pv_bytes (pa_elems a))].
Proof.
  intros H. unfold write_values_gen.
  assert (Hm : mapM (fun val => do t__ <- to_tdms_value_gen val; Ok (tval_bytes t__)) (pa_elems a) = Ok (map pv_bytes (pa_elems a))).
  { induction H as [|v r (t & Ht & Hb) Hr IH]; [reflexivity|]. cbn [mapM map]. rewrite Ht. cbn [bind]. rewrite IH, Hb. reflexivity. }
  rewrite Hm. reflexivity.
Qed.


(* write_string_values: the cumulative end offsets (Uint32: struct.error beyond 2^32 - 1), then the strings *)
Fixpoint plain_total (l : list bytes) : Z := match l with [] => 0 | s :: r => blen s + plain_total r end.

Lemma plain_total_nonneg l : 0 <= plain_total l.
Proof. induction l as [|s r IH]; cbn [plain_total]; unfold blen; lia. Qed.

Lemma string_loop1 : forall l off acc,
  0 <= off -> is_u32 (off + plain_total l) = true ->
  exists chunks,
    write_string_values_gen_loop1 l off acc = Ok (off + plain_total l, acc ++ chunks) /\
    concat chunks = wr_string_offsets off l.
Proof.
  induction l as [|s r IH]; intros off acc Ho Hu; cbn [write_string_values_gen_loop1 plain_total wr_string_offsets].
  - exists []. rewrite Z.add_0_r, app_nil_r. split; reflexivity.
  - change (Z.of_nat (length s)) with (blen s). cbn [plain_total] in Hu.
    pose proof (plain_total_nonneg r) as Hr. assert (Hs : 0 <= blen s) by (unfold blen; lia).
    unfold is_u32 in Hu. apply andb_true_iff in Hu. destruct Hu as [_ Hu]. apply Z.ltb_lt in Hu.
    assert (Hp : uint32_bytes (off + blen s) = Ok (u_enc LE 4 (off + blen s))).
    { unfold uint32_bytes, pack_int. change (256 ^ Z.of_nat 4) with 4294967296.
      destruct (Z.leb_spec 0 (off + blen s)); [|lia]. destruct (Z.ltb_spec (off + blen s) 4294967296); [|lia]. reflexivity. }
    rewrite Hp. cbn [bind].
    destruct (IH (off + blen s) (acc ++ [u_enc LE 4 (off + blen s)])) as (chunks & He & Hc); [lia| |].
    { unfold is_u32. apply andb_true_iff. split; [apply Z.leb_le|apply Z.ltb_lt]; lia. }
    exists (u_enc LE 4 (off + blen s) :: chunks). rewrite He. split.
    + rewrite <- app_assoc, Z.add_assoc. reflexivity.
    + cbn [concat]. rewrite Hc. reflexivity.
Qed.

Lemma string_loop2 : forall l acc, write_string_values_gen_loop2 l acc = Ok (acc ++ l).
Proof. induction l as [|x r IH]; intros acc; cbn; [rewrite app_nil_r; reflexivity|]. rewrite IH, <- app_assoc. reflexivity. Qed.

Lemma encode_strings_eq a : elems_strings a -> py_encode_strings (pa_elems a) = Ok (map pv_bytes (pa_elems a)).
Proof.
  intros [H|H]; unfold py_encode_strings.
  - rewrite H. reflexivity.
  - destruct (forallb pv_is_str (pa_elems a)); [reflexivity|].
    induction (pa_elems a) as [|v r IH]; [reflexivity|]. cbn [forallb] in H. apply andb_true_iff in H. destruct H as [Hv Hr].
    cbn [mapM map]. destruct v; try discriminate. cbn [bind pv_bytes]. rewrite (IH Hr). reflexivity.
Qed.

Lemma write_string_values_eq a :
  elems_strings a -> is_u32 (plain_total (map pv_bytes (pa_elems a))) = true ->
  res_map (@concat byte) (write_string_values_gen a)
  = Ok (wr_string_offsets 0 (map pv_bytes (pa_elems a)) ++ concat (map pv_bytes (pa_elems a))).
Proof.
  intros Hs Hu. unfold write_string_values_gen. rewrite (encode_strings_eq a Hs). cbn [bind].
  destruct (string_loop1 (map pv_bytes (pa_elems a)) 0 []) as (chunks & He & Hc); [lia|exact Hu|].
  rewrite He. cbn [bind app]. rewrite string_loop2. cbn [bind res_map]. rewrite concat_app, Hc. reflexivity.
Qed.

(* write_data on an array in the layout _to_np_array leaves: what Model/Writer.v obj_raw says for the channel with
   the TDMS type ChannelObject.data_type reports and the elements' value bytes as values *)
Definition chan_of (g n : bytes) (c : wcls) (a : parray) (ps : list prop) : wobj :=
  WChan g n (wcls_enum c) (map pv_bytes (pa_elems a)) ps.

Theorem write_data_translated g n ps a c :
  normal a ->
  channel_data_type_gen a = Ok c ->
  wcls_enum c <> T_VOID ->
  (* timestamps given as datetimes / TdmsTimestamp objects are converted one by one *)
  (wcls_eqb c (CTdms cls_TimeStamp) || (wcls_eqb c CTimestampObj && pa_object a) = true -> elems_by_value a) ->
  (* string data *)
  (wcls_enum c = T_STRING -> elems_strings a /\ is_u32 (plain_total (map pv_bytes (pa_elems a))) = true) ->
  res_map (@concat byte) (write_data_gen a) = Ok (obj_raw (chan_of g n c a ps)).
Proof.
  intros Hn Hc Hv Ht Hs. unfold write_data_gen. rewrite Hc. cbn [bind].
  unfold chan_of, obj_raw.
  replace (wcls_enum c =? T_VOID) with false by (symmetry; apply Z.eqb_neq; exact Hv).
  destruct (wcls_eqb c (CTdms cls_TimeStamp) || (wcls_eqb c CTimestampObj && pa_object a)) eqn:E1.
  - rewrite (write_values_eq a (Ht eq_refl)). cbn [bind]. rewrite yield_loop3. cbn [bind res_map app concat]. rewrite ?app_nil_r.
    assert (He : wcls_enum c = T_TIME).
    { apply orb_true_iff in E1. destruct E1 as [E|E].
      - destruct c as [e|]; [|discriminate]. cbn in E. apply Z.eqb_eq in E. subst e. reflexivity.
      - apply andb_true_iff in E. destruct E as [E _]. destruct c; [discriminate|reflexivity]. }
    rewrite He. reflexivity.
  - destruct (wcls_eqb c (CTdms cls_String)) eqn:E2.
    + destruct c as [e|]; [|discriminate]. cbn in E2. apply Z.eqb_eq in E2. subst e.
      destruct (Hs eq_refl) as [Hes Hu]. change (wcls_enum (CTdms cls_String) =? T_STRING) with true. cbn iota.
      pose proof (write_string_values_eq a Hes Hu) as Hw.
      destruct (write_string_values_gen a) as [l|]; cbn [bind res_map] in *; [|discriminate].
      rewrite yield_loop4. cbn [bind res_map app]. exact Hw.
    + assert (Hns : (wcls_enum c =? T_STRING) = false).
      { destruct c as [e|]; [|reflexivity]. cbn in E2 |- *. exact E2. }
      rewrite Hns. unfold to_file_gen. cbn [bind app]. rewrite yield_loop5. cbn [bind res_map app concat]. rewrite ?app_nil_r.
      apply f_equal. apply pa_raw_normal. exact Hn.
Qed.

(* TdmsSegment._write_data: the raw data of the objects that have any, in order *)
Theorem segment_write_data_step (objs : list (option parray)) : forall acc,
  segment_write_data_gen_loop6 objs acc
  = match objs with
    | [] => Ok acc
    | o :: r =>
      do h <- has_raw_data_gen o;
      if h then do a <- need EType o; do l <- write_data_gen a; segment_write_data_gen_loop6 r (acc ++ l)
      else segment_write_data_gen_loop6 r acc
    end.
Proof.
  intros acc. destruct objs as [|o r]; [reflexivity|]. cbn [segment_write_data_gen_loop6].
  destruct (has_raw_data_gen o) as [[|]|]; cbn [bind]; try reflexivity.
  destruct (need EType o) as [a|]; cbn [bind]; [|reflexivity].
  destruct (write_data_gen a) as [l|]; cbn [bind]; [|reflexivity]. rewrite yield_loop7. reflexivity.
Qed.
