(* Purity of the scale methods (C13): soundness of the static check [safe] of
   Model/ArrayHeap.v, and every scale program passes it. *)
From Coq Require Import Arith List Bool Lia.
Import ListNotations.
From NpTdms Require Import Gen.NumpyPromote Model.ArrayHeap.

Section Sound.
  Variable C : Type.
  Variable opsem : opname -> list C -> C.

  Notation heap := (heap C).
  Notation exec_stmt := (exec_stmt C opsem).
  Notation exec_body := (exec_body C opsem).

  (* n0 = first buffer id that did not exist when the call started *)
  Record inv (n0 : nat) (h : heap) (e : env) (a : aenv) : Prop := {
    inv_next : n0 <= next h;
    inv_bound : forall x i, lookup e x = Some i -> i < next h;
    inv_abs : forall x i, lookup e x = Some i ->
                          exists o, alookup a x = Some o /\ (i < n0 -> o = true)
  }.

  Lemma get_lookup : forall (h : heap) e x i b,
    get C h e x = Some (i, b) -> lookup e x = Some i /\ mem h i = Some b.
  Proof.
    intros h e x i b H. unfold get in H. destruct (lookup e x) as [j|]; [|discriminate].
    destruct (mem h j) as [b'|] eqn:Em; [|discriminate]. injection H as <- <-. auto.
  Qed.

  Lemma inv_alloc : forall n0 (h : heap) e a dst b o,
    inv n0 h e a ->
    inv n0 (fst (alloc C h b)) ((dst, snd (alloc C h b)) :: e) ((dst, o) :: a) /\
    (forall i, i < n0 -> mem (fst (alloc C h b)) i = mem h i).
  Proof.
    intros n0 h e a dst b o [Hn Hb Ha]. cbn. split; [constructor; cbn|].
    - lia.
    - intros x i Hl. destruct (Nat.eqb x dst).
      + injection Hl as <-. lia.
      + apply Hb in Hl. lia.
    - intros x i Hl. destruct (Nat.eqb x dst).
      + injection Hl as <-. exists o. split; [reflexivity|lia].
      + now apply Ha.
    - intros i Hi. destruct (Nat.eqb i (next h)) eqn:E; [|reflexivity].
      apply Nat.eqb_eq in E. lia.
  Qed.

  Lemma inv_alias : forall n0 (h : heap) e a dst src i o,
    inv n0 h e a -> lookup e src = Some i -> alookup a src = Some o ->
    inv n0 h ((dst, i) :: e) ((dst, o) :: a).
  Proof.
    intros n0 h e a dst src i o [Hn Hb Ha] Hl Hal. constructor; cbn.
    - exact Hn.
    - intros x j Hx. destruct (Nat.eqb x dst); [injection Hx as <-|]; eauto.
    - intros x j Hx. destruct (Nat.eqb x dst).
      + injection Hx as <-. destruct (Ha _ _ Hl) as [o' [Ho' Hi]].
        rewrite Hal in Ho'. injection Ho' as <-. eauto.
      + now apply Ha.
  Qed.

  Lemma step_sound : forall n0 s (h : heap) e a a' h' e',
    inv n0 h e a -> safe_stmt s a = Some a' -> exec_stmt s (h, e) = Some (h', e') ->
    inv n0 h' e' a' /\ (forall i, i < n0 -> mem h' i = mem h i).
  Proof.
    intros n0 s h e a a' h' e' Hinv Hs He.
    destruct s as [dst src target copy|dst src|dst op args dt|dst src|tgt op args];
      cbn [safe_stmt] in Hs; cbn [ArrayHeap.exec_stmt] in He.
    - (* Astype *)
      destruct (alookup a src) as [o|] eqn:Hal; [|discriminate]. injection Hs as <-.
      destruct (get C h e src) as [[i b]|] eqn:Hg; [|discriminate].
      apply get_lookup in Hg. destruct Hg as [Hl Hm].
      destruct (negb copy && dtype_eqb (bdt b) target) eqn:Ec.
      + injection He as <- <-. apply andb_prop in Ec. destruct Ec as [Ec _].
        destruct copy; [discriminate|]. split; [|reflexivity]. eapply inv_alias; eauto.
      + match type of He with context [alloc C h ?b] =>
          pose proof (inv_alloc n0 h e a dst b (if copy then false else o) Hinv) as [Hi Hm'];
          destruct (alloc C h b) as [h1 j] end.
        injection He as <- <-. auto.
    - (* Copy *)
      destruct (alookup a src) as [o|] eqn:Hal; [|discriminate]. injection Hs as <-.
      destruct (get C h e src) as [[i b]|] eqn:Hg; [|discriminate].
      pose proof (inv_alloc n0 h e a dst b false Hinv) as [Hi Hm'].
      destruct (alloc C h b) as [h1 j]. injection He as <- <-. auto.
    - (* New *)
      destruct (forallb _ args); [|discriminate]. injection Hs as <-.
      destruct (get_all C h e args) as [cs|]; [|discriminate].
      match type of He with context [alloc C h ?b] =>
        pose proof (inv_alloc n0 h e a dst b false Hinv) as [Hi Hm'];
        destruct (alloc C h b) as [h1 j] end.
      injection He as <- <-. auto.
    - (* Alias *)
      destruct (alookup a src) as [o|] eqn:Hal; [|discriminate]. injection Hs as <-.
      destruct (lookup e src) as [i|] eqn:Hl; [|discriminate]. injection He as <- <-.
      split; [|reflexivity]. eapply inv_alias; eauto.
    - (* InPlace *)
      destruct (alookup a tgt) as [[|]|] eqn:Hal; try discriminate.
      destruct (forallb _ args); [|discriminate]. injection Hs as <-.
      destruct (get C h e tgt) as [[i b]|] eqn:Hg; [|discriminate].
      destruct (get_all C h e args) as [cs|]; [|discriminate]. injection He as <- <-.
      apply get_lookup in Hg. destruct Hg as [Hl Hm].
      destruct Hinv as [Hn Hb Ha].
      destruct (Ha _ _ Hl) as [o [Ho Hi]]. rewrite Hal in Ho. injection Ho as <-.
      assert (Hge : n0 <= i).
      { destruct (Nat.lt_ge_cases i n0) as [Hlt|Hge]; [|exact Hge]. specialize (Hi Hlt). discriminate. }
      split.
      + constructor; cbn; auto.
      + intros j Hj. cbn. destruct (Nat.eqb j i) eqn:E; [|reflexivity].
        apply Nat.eqb_eq in E. lia.
  Qed.

  Lemma body_sound : forall n0 ss (h : heap) e a h' e',
    inv n0 h e a -> safe_body ss a = true -> exec_body ss (h, e) = Some (h', e') ->
    forall i, i < n0 -> mem h' i = mem h i.
  Proof.
    intros n0. induction ss as [|s ss IH]; intros h e a h' e' Hinv Hs He i Hi.
    - cbn in He. now injection He as <- <-.
    - cbn [safe_body] in Hs. cbn [ArrayHeap.exec_body] in He.
      destruct (safe_stmt s a) as [a1|] eqn:Es; [|discriminate].
      destruct (exec_stmt s (h, e)) as [[h1 e1]|] eqn:Ee; [|discriminate].
      destruct (step_sound _ _ _ _ _ _ _ _ Hinv Es Ee) as [Hinv1 Hm].
      rewrite (IH _ _ _ _ _ Hinv1 Hs He i Hi). now apply Hm.
  Qed.

  Lemma init_lookup : forall inputs s x i,
    lookup (combine (seq s (List.length inputs)) inputs) x = Some i ->
    In i inputs /\ alookup (combine (seq s (List.length inputs)) (repeat true (List.length inputs))) x = Some true.
  Proof.
    induction inputs as [|j inputs IH]; intros s x i H; [discriminate|].
    cbn in *. destruct (Nat.eqb x s).
    - injection H as <-. auto.
    - destruct (IH _ _ _ H). auto.
  Qed.

  Lemma init_inv : forall (h : heap) inputs,
    (forall i, In i inputs -> i < next h) ->
    inv (next h) h (init_env inputs)
        (combine (seq 0 (List.length inputs)) (repeat true (List.length inputs))).
  Proof.
    intros h inputs Hin. unfold init_env. constructor.
    - lia.
    - intros x i Hl. apply init_lookup in Hl. now apply Hin.
    - intros x i Hl. apply init_lookup in Hl. exists true. tauto.
  Qed.

  (* a program that passes the check never changes a buffer that existed before the call *)
  Theorem safe_sound : forall p inputs (h h' : heap) out,
    safe p (List.length inputs) = true ->
    (forall i, In i inputs -> i < next h) ->
    exec C opsem p inputs h = Some (h', out) ->
    forall i, i < next h -> mem h' i = mem h i.
  Proof.
    intros p inputs h h' out Hs Hin He i Hi. unfold exec in He.
    destruct (exec_body (body p) (h, init_env inputs)) as [[h1 e1]|] eqn:Eb; [|discriminate].
    destruct (lookup e1 (ret p)); [|discriminate]. injection He as <- _.
    eapply body_sound; eauto using init_inv.
  Qed.
End Sound.

(* every scale method, for every dtype of its input, passes the check *)
Lemma scale_progs_safe : forall k d, safe (scale_prog k d) (ninputs k) = true.
Proof.
  intros k d.
  destruct k as [| [] | | | | | | [] [] | [] [] | [] [] | [] ]; destruct d; reflexivity.
Qed.

Theorem scale_pure_proof :
  forall (C : Type) (opsem : opname -> list C -> C) k d inputs (h h' : heap C) out,
    List.length inputs = ninputs k ->
    (forall i, In i inputs -> i < next h) ->
    exec C opsem (scale_prog k d) inputs h = Some (h', out) ->
    forall i, i < next h -> mem h' i = mem h i.
Proof.
  intros C opsem k d inputs h h' out Hl Hin He i Hi.
  eapply safe_sound; eauto. rewrite Hl. apply scale_progs_safe.
Qed.

(* the in-place variant is rejected, and really does overwrite a float64 input *)
Lemma linear_inplace_unsafe : safe linear_inplace_prog 1 = false.
Proof. reflexivity. Qed.

Definition demo_heap (d : dtype) : heap nat :=
  {| next := 1; mem := fun i => if Nat.eqb i 0 then Some {| bdt := d; bval := 5 |} else None |}.
Definition demo_sem (op : opname) (l : list nat) : nat := S (list_sum l).

Lemma linear_inplace_mutates_float64 :
  exists h' out, exec nat demo_sem linear_inplace_prog [0] (demo_heap Float64) = Some (h', out) /\
                 mem h' 0 <> mem (demo_heap Float64) 0.
Proof. eexists. eexists. split; [vm_compute; reflexivity|]. cbn. discriminate. Qed.

Lemma linear_inplace_spares_float32 :
  exists h' out, exec nat demo_sem linear_inplace_prog [0] (demo_heap Float32) = Some (h', out) /\
                 mem h' 0 = mem (demo_heap Float32) 0.
Proof. eexists. eexists. split; [vm_compute; reflexivity|]. reflexivity. Qed.

(* the real Linear program on the same heaps: runs, result is a new buffer, input intact *)
Lemma linear_runs_float64 :
  exists h' out, exec nat demo_sem (scale_prog KLinear Float64) [0] (demo_heap Float64) = Some (h', out) /\
                 out <> 0 /\ mem h' 0 = mem (demo_heap Float64) 0.
Proof. eexists. eexists. split; [vm_compute; reflexivity|]. split; [discriminate|reflexivity]. Qed.
