(* The writer's control logic TRANSLATED from nptdms/writer.py (Gen/PyFuncsWCtl.v, regenerated from the
   source on every run) equals the hand-written Model/Writer.v wr_objects and Model/Defrag.v defrag_calls.

   TdmsSegment.__init__        : the duplicate-path check is Model/ByteStr.v has_dup on the object paths
   TdmsWriter.write_segment    : objects (root / groups added, stable sort) and the new state are wr_objects;
                                 then the data file and (if there is one) the index file are written with
                                 the same objects; the state changes only after both writes
   TdmsWriter.defragment       : the calls are defrag_calls, the version is handed through *)
From Coq Require Import ZArith List Bool Lia ZifyBool.
From Coq Require Import Init.Byte.
Import ListNotations.
From NpTdms Require Import Base.Bytes Base.Res Model.Path Model.Tokens Model.ByteStr Model.Writer Model.Defrag
     Model.StrictParse Gen.PyFuncsWriter Gen.PyFuncsWCtl Proofs.ByteStrProofs Proofs.WriterProofs Proofs.WriterClauses.
Local Open Scope Z_scope.

(* ---- TdmsSegment.__init__: len(set(paths)) != len(objects) is "some path occurs twice" ----------- *)

Lemma bset_distinct_le l : (length (bset_distinct l) <= length l)%nat.
Proof. induction l as [|x r IH]; cbn [bset_distinct length]; [lia|]. destruct (bmem x r); cbn [length]; lia. Qed.

Lemma bset_len_dup l : (bset_len l =? Z.of_nat (length l)) = negb (has_dup l).
Proof.
  unfold bset_len. induction l as [|x r IH]; [reflexivity|].
  cbn [bset_distinct has_dup length]. pose proof (bset_distinct_le r) as Hle.
  destruct (bmem x r); cbn [orb negb length].
  - lia.
  - destruct (has_dup r); cbn [negb] in *; lia.
Qed.

Theorem tdms_segment_init_eq objs isx v :
  tdms_segment_init_gen objs isx v
  = if has_dup (map obj_path objs) then Err EValue else Ok (objs, v, isx).
Proof.
  unfold tdms_segment_init_gen.
  replace (Z.of_nat (length objs)) with (Z.of_nat (length (map obj_path objs))) by (rewrite map_length; reflexivity).
  rewrite bset_len_dup, negb_involutive. destruct (has_dup (map obj_path objs)); reflexivity.
Qed.

(* ---- ObjectPath.from_string(o.path) is the object's kind --------------------------------------------- *)

Definition opath_of (o : wobj) : opath :=
  match o with
  | WRoot _ => (None, None)
  | WGroup g _ => (Some g, None)
  | WChan g c _ _ _ => (Some g, Some c)
  end.
Definition tag (o : wobj) : opath * wobj := (opath_of o, o).

Lemma from_string_obj o : opath_from_string (obj_path o) = Ok (opath_of o).
Proof.
  unfold opath_from_string. destruct o as [ps|g ps|g c dt vs ps]; cbn [obj_path opath_of].
  - rewrite from_string_root_b. reflexivity.
  - rewrite from_string_group_b. reflexivity.
  - rewrite from_string_chan_b. reflexivity.
Qed.

Lemma pairs_ok objs :
  mapM (fun o => do p__ <- opath_from_string (obj_path o); Ok (p__, o)) objs = Ok (map tag objs).
Proof.
  induction objs as [|o r IH]; [reflexivity|].
  cbn [mapM map]. rewrite from_string_obj. cbn [bind]. rewrite IH. reflexivity.
Qed.

Lemma is_root_tag o : op_is_root (fst (tag o)) = is_root o. Proof. destruct o; reflexivity. Qed.
Lemma is_group_tag o : op_is_group (fst (tag o)) = is_group o. Proof. destruct o; reflexivity. Qed.
Lemma is_chan_tag o : op_is_channel (fst (tag o)) = is_chan o. Proof. destruct o; reflexivity. Qed.

Lemma existsb_root objs : existsb (fun p => op_is_root (fst p)) (map tag objs) = existsb is_root objs.
Proof. induction objs as [|o r IH]; [reflexivity|]. cbn [map existsb]. rewrite is_root_tag, IH. reflexivity. Qed.

Lemma included_ok objs :
  map (fun p => op_group_str (fst p)) (filter (fun p => op_is_group (fst p)) (map tag objs)) = groups_included objs.
Proof.
  unfold groups_included. induction objs as [|o r IH]; [reflexivity|].
  cbn [map filter flat_map]. rewrite is_group_tag. destruct o; cbn [is_group map app]; rewrite IH; reflexivity.
Qed.

Lemma required_ok objs :
  map (fun p => op_group_str (fst p)) (filter (fun p => op_is_channel (fst p)) (map tag objs)) = groups_required objs.
Proof.
  unfold groups_required. induction objs as [|o r IH]; [reflexivity|].
  cbn [map filter flat_map]. rewrite is_chan_tag. destruct o; cbn [is_chan map app]; rewrite IH; reflexivity.
Qed.

Lemma filter_filter {A} (p q : A -> bool) l : filter q (filter p l) = filter (fun x => p x && q x) l.
Proof.
  induction l as [|x r IH]; [reflexivity|]. cbn [filter]. destruct (p x); cbn [filter andb]; [|exact IH].
  destruct (q x); rewrite IH; reflexivity.
Qed.

Lemma to_add_ok rw gw objs :
  sorted_set (bset_diff (bset_diff (groups_required objs) (groups_included objs)) gw)
  = groups_to_add (mkW rw gw) objs.
Proof. unfold groups_to_add, bset_diff. rewrite filter_filter. reflexivity. Qed.

(* ---- the sort ------------------------------------------------------------------------------------------ *)

Definition untag (x : Z * (opath * wobj)) : Z * wobj := (fst x, snd (snd x)).

Lemma insert_untag x l : map untag (insert_by_key x l) = insert_stable (untag x) (map untag l).
Proof.
  induction l as [|y r IH]; [reflexivity|]. cbn [insert_by_key map insert_stable untag fst].
  destruct (fst x <=? fst y); cbn [map]; [reflexivity|]. rewrite IH. reflexivity.
Qed.

Lemma sort_untag l : map untag (fold_right insert_by_key [] l) = sort_stable (map untag l).
Proof.
  unfold sort_stable. induction l as [|x r IH]; [reflexivity|]. cbn [fold_right map]. rewrite insert_untag, IH. reflexivity.
Qed.

Lemma key_tag o :
  path_ordering_key (op_is_root (fst (tag o))) (op_is_group (fst (tag o))) (op_is_channel (fst (tag o))) = Some (key_of o).
Proof. destruct o; reflexivity. Qed.

Lemma keyed_ok l :
  mapM (fun x : opath * wobj =>
          do k <- need EType (path_ordering_key (op_is_root (fst x)) (op_is_group (fst x)) (op_is_channel (fst x))); Ok (k, x))
       (map tag l)
  = Ok (map (fun o => (key_of o, tag o)) l).
Proof.
  induction l as [|o r IH]; [reflexivity|]. cbn [mapM map]. rewrite key_tag. cbn [need bind]. rewrite IH. reflexivity.
Qed.

Lemma sort_ok l :
  py_sort_by_optkey (fun p : opath * wobj => path_ordering_key (op_is_root (fst p)) (op_is_group (fst p)) (op_is_channel (fst p)))
                    (map tag l)
  = Ok (map tag (map snd (sort_stable (map kf l)))).
Proof.
  assert (Hgen : (do keyed <- mapM (fun x : opath * wobj =>
                     do k <- need EType (path_ordering_key (op_is_root (fst x)) (op_is_group (fst x)) (op_is_channel (fst x))); Ok (k, x))
                     (map tag l);
                  Ok (map snd (fold_right insert_by_key [] keyed)))
                 = Ok (map tag (map snd (sort_stable (map kf l))))).
  { rewrite keyed_ok. cbn [bind]. f_equal.
    set (keyed := map (fun o => (key_of o, tag o)) l).
    assert (Hu : map untag keyed = map kf l) by (unfold keyed; rewrite map_map; reflexivity).
    rewrite <- Hu, <- sort_untag.
    assert (Htag : forall x, In x (fold_right insert_by_key [] keyed) -> snd x = tag (snd (snd x))).
    { assert (Hin : forall x, In x (fold_right insert_by_key [] keyed) -> In x keyed).
      { clear. induction keyed as [|y r IH]; intros x Hx; [exact Hx|]. cbn [fold_right] in Hx.
        assert (Hins : forall (a : Z * (opath * wobj)) m z, In z (insert_by_key a m) -> z = a \/ In z m).
        { clear. intros a m. induction m as [|b m IH]; intros z Hz; cbn [insert_by_key] in Hz.
          - destruct Hz as [<-|[]]. left. reflexivity.
          - destruct (fst a <=? fst b); [destruct Hz as [<-|Hz]; [left; reflexivity|right; exact Hz]|].
            destruct Hz as [<-|Hz]; [right; left; reflexivity|]. destruct (IH z Hz) as [->|H]; [left; reflexivity|right; right; exact H]. }
        destruct (Hins _ _ _ Hx) as [->|H]; [left; reflexivity|right; apply IH; exact H]. }
      intros x Hx. apply Hin in Hx. unfold keyed in Hx. apply in_map_iff in Hx. destruct Hx as (o & <- & _). reflexivity. }
    rewrite !map_map. apply map_ext_in. intros x Hx. rewrite (Htag x Hx). reflexivity. }
  destruct l as [|a [|b r]]; [reflexivity|reflexivity|]. exact Hgen.
Qed.

(* ---- TdmsWriter.write_segment ---------------------------------------------------------------------------- *)

Section WriteSegment.
  Variable F : Type.
  Variable io_write : F -> list wobj * Z * bool -> res F.

  (* after the common prefix of both translated functions has been evaluated: bring the pair list into
     the model's form *)
  Ltac prefix rw gw objs :=
    rewrite pairs_ok; cbn [bind]; cbv zeta;
    rewrite ?existsb_root, ?included_ok, ?required_ok;
    rewrite ?(to_add_ok rw gw objs);
    unfold wr_objects; fold (pairs_of (mkW rw gw) objs); rewrite mapM_with_key; cbn [bind];
    assert (Hp : pairs_of (mkW rw gw) objs
                 = objs ++ (if negb rw && negb (existsb is_root objs) then [WRoot []] else []) ++
                   map (fun g => WGroup g []) (groups_to_add (mkW rw gw) objs)) by reflexivity;
    destruct (negb rw && negb (existsb is_root objs)); cbn [bind];
    destruct (groups_to_add (mkW rw gw) objs) as [|g0 r0]; cbn [bind];
    match goal with
    | |- context [py_sort_by_optkey _ ?P] =>
      replace P with (map tag (pairs_of (mkW rw gw) objs))
        by (rewrite Hp, !map_app; cbn [map]; rewrite ?app_nil_r, <- ?app_assoc, ?map_map; reflexivity)
    end; clear Hp.

  Lemma map_snd_tag l : map (fun p : opath * wobj => snd p) (map tag l) = l.
  Proof. induction l as [|x r IH]; [reflexivity|]. cbn [map tag snd]. rewrite IH. reflexivity. Qed.

  (* write_segment: the objects and the new state are wr_objects'; the data file, then the index file if
     there is one, receive the same objects; the state is updated after both writes *)
  Theorem write_segment_eq rw gw (f : F) (fi : option F) v objs :
    write_segment_gen F io_write rw gw f fi v objs
    = do '(sorted, st') <- wr_objects (mkW rw gw) objs;
      do f' <- io_write f (sorted, v, false);
      do fi' <- match fi with
                | Some x => do y <- io_write x (sorted, v, true); Ok (Some y)
                | None => Ok None
                end;
      Ok (root_written st', groups_written st', f', fi').
  Proof.
    unfold write_segment_gen. prefix rw gw objs.
    all: rewrite sort_ok; cbn [bind]; rewrite map_snd_tag.
    all: set (sorted := map snd (sort_stable (map kf (pairs_of (mkW rw gw) objs))));
      rewrite !tdms_segment_init_eq;
      (destruct (has_dup (map obj_path sorted)); [reflexivity|]); cbn [bind groups_written root_written];
      (destruct (io_write f (sorted, v, false)) as [f'|]; [|reflexivity]); cbn [bind];
      destruct fi as [x|]; cbn [bind];
      [destruct (io_write x (sorted, v, true)) as [y|]; [|reflexivity]; cbn [bind]|];
      unfold bset_union; rewrite <- ?app_assoc; reflexivity.
  Qed.

  (* the state in which a failing index write leaves the writer: the one before the call *)
  Theorem write_segment_before_last_write_eq rw gw (f : F) (fi : option F) v objs :
    write_segment_before_last_write_gen F io_write rw gw f fi v objs
    = do '(sorted, _) <- wr_objects (mkW rw gw) objs;
      do f' <- io_write f (sorted, v, false);
      Ok (sorted, rw, gw, f', fi).
  Proof.
    unfold write_segment_before_last_write_gen. prefix rw gw objs.
    all: rewrite sort_ok; cbn [bind]; rewrite map_snd_tag.
    all: set (sorted := map snd (sort_stable (map kf (pairs_of (mkW rw gw) objs))));
      rewrite tdms_segment_init_eq;
      (destruct (has_dup (map obj_path sorted)); [reflexivity|]); cbn [bind];
      destruct (io_write f (sorted, v, false)) as [f'|]; reflexivity.
  Qed.
End WriteSegment.

(* ---- TdmsWriter.defragment ------------------------------------------------------------------------------- *)

Lemma defragment_chans g : forall chans ys,
  defragment_gen_loop2 g chans ys = Ok (ys ++ map (fun ch => [defrag_chan (dg_name g) ch]) chans).
Proof.
  induction chans as [|ch r IH]; intros ys; cbn [defragment_gen_loop2 map]; [rewrite app_nil_r; reflexivity|].
  rewrite IH, <- app_assoc. reflexivity.
Qed.

Lemma defragment_groups : forall groups ys,
  defragment_gen_loop1 groups ys = Ok (ys ++ flat_map defrag_group_calls groups).
Proof.
  induction groups as [|g r IH]; intros ys; cbn [defragment_gen_loop1 flat_map]; [rewrite app_nil_r; reflexivity|].
  rewrite defragment_chans. cbn [bind]. rewrite IH. unfold defrag_group_calls. rewrite <- !app_assoc. reflexivity.
Qed.

(* defragment hands its version to the new writer and issues exactly the model's calls *)
Theorem defragment_eq c v : defragment_gen c v = Ok (v, defrag_calls c).
Proof. unfold defragment_gen. rewrite defragment_groups. reflexivity. Qed.

(* ---- an example: second segment of a session; group g already written, h not ---------------------------- *)
Section GenWCtlExample.
Import String.
Local Open Scope string_scope.

Definition ex_objs : list wobj :=
  [ WChan (hex "68") (hex "78") 3 [hex "01000000"] []; WChan (hex "67") (hex "79") 3 [] []; WGroup (hex "7a") [] ].

(* the missing group object for h is created, root is not (already written); root < groups < channels,
   channels keep their order; both files receive the same four objects; the state records h and z *)
Lemma ex_write_segment :
  write_segment_gen (list (list bytes * bool)) (fun f sg => Ok (f ++ [(List.map obj_path (fst (fst sg)), snd sg)])%list)
                    true [hex "67"] [] (Some []) 4713 ex_objs
  = Ok (true, [hex "67"; hex "7a"; hex "68"],
        [([hex "2f277a27"; hex "2f276827"; hex "2f2768272f277827"; hex "2f2767272f277927"], false)],
        Some [([hex "2f277a27"; hex "2f276827"; hex "2f2768272f277827"; hex "2f2767272f277927"], true)]).
Proof. vm_compute. reflexivity. Qed.

Lemma ex_duplicate :
  write_segment_gen (list (list bytes * bool)) (fun f sg => Ok (f ++ [(List.map obj_path (fst (fst sg)), snd sg)])%list)
                    false [] [] None 4712 [WGroup (hex "67") []; WGroup (hex "67") []] = Err EValue.
Proof. vm_compute. reflexivity. Qed.
End GenWCtlExample.

(* ---- a whole `with TdmsWriter(..) as w:` block through the translated write_segment ------------------------ *)

(* the file is the list of object lists handed to TdmsSegment.write *)
Definition log_write (f : list (list wobj)) (sg : list wobj * Z * bool) : res (list (list wobj)) :=
  Ok (f ++ [fst (fst sg)]).

Fixpoint ws_calls (rw : bool) (gw : list bytes) (f : list (list wobj)) (v : Z) (calls : list (list wobj))
  : res (list (list wobj)) :=
  match calls with
  | [] => Ok f
  | objs :: r =>
    do '(rw', gw', f', _) <- write_segment_gen (list (list wobj)) log_write rw gw f None v objs;
    ws_calls rw' gw' f' v r
  end.

Lemma ws_calls_syntax v : forall calls st f segs,
  ws_calls (root_written st) (groups_written st) f v calls = Ok segs ->
  exists written, segs = f ++ written /\
                  syntax_of_calls_from v st calls = mapM (syntax_of_objs v) written.
Proof.
  induction calls as [|objs r IH]; intros st f segs H; cbn [ws_calls] in H.
  - injection H as <-. exists []. rewrite app_nil_r. split; reflexivity.
  - rewrite write_segment_eq in H. destruct st as [rw gw]. cbn [root_written groups_written] in H.
    cbn [syntax_of_calls_from].
    destruct (wr_objects (mkW rw gw) objs) as [[sorted st']|e]; cbn [bind] in H |- *; [|discriminate].
    unfold log_write in H. cbn [bind fst] in H.
    destruct (IH st' _ _ H) as (written & -> & Hs).
    exists (sorted :: written). rewrite <- app_assoc. split; [reflexivity|].
    cbn [mapM]. destruct (syntax_of_objs v sorted); cbn [bind]; [|reflexivity]. rewrite Hs. reflexivity.
Qed.

(* Props/C07.v written_objects on the translated method *)
Lemma written_objects_gen rw gw v objs rw' gw' (written : list (list wobj)) s sorted :
  write_segment_gen (list (list wobj)) log_write rw gw [] None v objs = Ok (rw', gw', written, None) ->
  written = [sorted] ->
  syntax_of_objs v sorted = Ok s ->
  sorted = partition3 (pairs_of (mkW rw gw) objs) /\
  sg_entries s = map entry_of sorted /\
  sg_values s = map obj_values sorted.
Proof.
  intros H Hw Hs. rewrite write_segment_eq in H.
  destruct (wr_objects (mkW rw gw) objs) as [[sorted' st']|e] eqn:Eo; cbn [bind] in H; [|discriminate].
  unfold log_write in H. cbn [bind fst app] in H. injection H as _ _ Hwr. rewrite <- Hwr in Hw. injection Hw as ->.
  exact (written_objects_lemma v (mkW rw gw) objs sorted st' s Eo Hs).
Qed.

Lemma session_gen v calls segs :
  ws_calls false [] [] v calls = Ok segs -> syntax_of_calls v calls = mapM (syntax_of_objs v) segs.
Proof.
  intros H. destruct (ws_calls_syntax v calls w_init [] segs H) as (written & -> & Hs). exact Hs.
Qed.

(* TdmsWriter.defragment as translated: the calls, then the writer session *)
Definition defrag_translated (version : Z) (c : dcontent) : res (bytes * bytes) :=
  do '(v, calls) <- defragment_gen c version; wr_session v calls.

Lemma defrag_translated_eq v c : defrag_translated v c = defrag v c.
Proof. unfold defrag_translated, defrag. rewrite defragment_eq. reflexivity. Qed.
