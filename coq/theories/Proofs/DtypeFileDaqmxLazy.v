(* C14 on file bytes, LAZY reads of files with DAQmx segments: every successful lazy window
   of a scaled DAQmx channel (and of every other channel of such a file) has the dtype
   channel.dtype reports, and the lazy full read has len(channel) elements.

   Proofs/DtypeFile.v has this for lazy reads of files WITHOUT DAQmx segments
   ([reads_dtype_plain]) and for the EAGER reads of files with DAQmx segments
   ([eager_dtype_content], [eager_length_content]).  Proofs/ScaleFileDaqmxLazy.v shows that
   the lazy scaled window [scaled_read_lazy_daqmx] is the window of the eager scaled data;
   windows keep the dtype ([dtype_of_zwindow]) and have min(len, len(channel) - offs)
   elements ([vlen_zwindow]).  This file is that composition. *)
From Coq Require Import String Ascii.
From Coq Require Import List ZArith Bool Lia ZifyBool PrimFloat.
From Coq Require Import Init.Byte.
Import ListNotations.
From NpTdms Require Import Base.Bytes Base.Res Base.PySlice Model.Tokens Model.TokensWf Model.SegState
     Model.Layout Model.Reader Model.FileSyn Model.LazyRead Model.LazyBytes
     Proofs.SegStateProofs Proofs.LayoutProofs Proofs.FileSynProofs Proofs.ReadCorrect
     Proofs.ReadCorrectDaqmx Proofs.LazyEagerIndex Proofs.LazyEagerView Proofs.LazyEagerTop
     Proofs.TruncLazyDaqmxLazy Proofs.ScaleFile Proofs.ScaleFileDaqmxLazy Proofs.DtypeFile.
From NpTdms Require Gen.NumpyPromote Model.ScaleGraph Proofs.ScaleProofs.
From NpTdms Require Import Model.ScaleDtype Proofs.DtypeProofs.
Module SG := ScaleGraph.
Module NP := NumpyPromote.
Local Open Scope Z_scope.

Section Mixed.
  Variables (segs : list fseg) (st : rstate) (h : hierarchy) (chunkss : list (list chunk)).
  Hypothesis Hwf : wf_file segs.
  Hypothesis Hrun : sm_run segs false = Ok st.
  Hypothesis Hh : build_hierarchy (rs_om st) = Ok h.
  Hypothesis Hcon : segs_content (rs_segments st) segs chunkss.
  Hypothesis Hcanon : om_paths_canonical (rs_om st).
  Hypothesis Hshape : typed_objects_are_channels (rs_om st).
  Hypothesis Hdist : seg_paths_distinct st.

  Local Notation lazy_is_window :=
    (scaled_lazy_is_window_of_scaled_eager_mixed segs st h chunkss Hwf Hrun Hh Hcon Hcanon Hshape Hdist).

  (* THE PROPERTY (dtype): every successful lazy window - DaqMxRawData channels, DAQmx
     channels typed by their scaler, ordinary channels; full, partial, empty - has the dtype
     channel.dtype reports (on the read file and on the opened file) *)
  Theorem lazy_dtype_mixed c raw_ts offs len v :
    In c (all_channels h) -> 0 <= offs -> len_nonneg len ->
    scaled_read_lazy_daqmx (ser_file segs) (ch_path c) offs len = Ok (SG.Ok v) ->
    declared_dtype_file (ser_file segs) (ch_path c) raw_ts = Ok (SG.Ok (XNum (SG.dtype_of v))) /\
    declared_dtype_file_open (ser_file segs) (ch_path c) raw_ts = Ok (SG.Ok (XNum (SG.dtype_of v))).
  Proof.
    intros Hc Ho Hl H.
    destruct (lazy_is_window c offs len Hc Ho Hl) as (r & He & Hlz).
    rewrite Hlz in H. injection H as H. destruct (rmap_ok_inv _ _ _ H) as (v0 & -> & ->).
    rewrite dtype_of_zwindow.
    pose proof (eager_dtype_content segs st h chunkss Hwf Hrun Hh Hcon Hcanon Hshape c raw_ts v0 Hc He) as Hd.
    split; [exact Hd|].
    rewrite (declared_dtype_file_open_eq segs st h Hwf Hrun Hh Hcanon c raw_ts Hc). exact Hd.
  Qed.

  (* a lazy window [offs, offs+len) has min(len, len(channel) - offs) elements *)
  Theorem lazy_window_length_mixed c offs len v :
    In c (all_channels h) -> 0 <= offs -> len_nonneg len ->
    scaled_read_lazy_daqmx (ser_file segs) (ch_path c) offs len = Ok (SG.Ok v) ->
    SG.vlen v = Nat.min (match len with Some l => Z.to_nat l | None => Z.to_nat (ch_len c) end)
                        (Z.to_nat (ch_len c) - Z.to_nat offs).
  Proof.
    intros Hc Ho Hl H.
    destruct (lazy_is_window c offs len Hc Ho Hl) as (r & He & Hlz).
    rewrite Hlz in H. injection H as H. destruct (rmap_ok_inv _ _ _ H) as (v0 & -> & ->).
    rewrite vlen_zwindow.
    pose proof (eager_length_content segs st h chunkss Hwf Hrun Hh Hcon Hcanon Hshape c v0 Hc He) as Hn.
    replace (Z.to_nat (ch_len c)) with (SG.vlen v0) by lia. reflexivity.
  Qed.

  (* THE PROPERTY (length): the lazy full read has len(channel) elements *)
  Theorem lazy_full_length_mixed c v :
    In c (all_channels h) ->
    scaled_read_lazy_daqmx (ser_file segs) (ch_path c) 0 None = Ok (SG.Ok v) ->
    Z.of_nat (SG.vlen v) = ch_len c.
  Proof.
    intros Hc H.
    rewrite (scaled_lazy_full_eq_eager_mixed segs st h chunkss Hwf Hrun Hh Hcon Hcanon Hshape Hdist c Hc) in H.
    exact (eager_length_content segs st h chunkss Hwf Hrun Hh Hcon Hcanon Hshape c v Hc H).
  Qed.

  (* a successful eager full read makes every lazy window succeed *)
  Theorem lazy_windows_of_full_mixed c v offs len :
    In c (all_channels h) -> 0 <= offs -> len_nonneg len ->
    scaled_read_eager (ser_file segs) (ch_path c) = Ok (SG.Ok v) ->
    scaled_read_lazy_daqmx (ser_file segs) (ch_path c) offs len = Ok (SG.Ok (zwindow offs len v)).
  Proof.
    intros Hc Ho Hl He.
    destruct (lazy_is_window c offs len Hc Ho Hl) as (r & He' & Hlz).
    rewrite He in He'. injection He' as <-. exact Hlz.
  Qed.

  (* EMPTY lazy windows: if the channel reads at all, every empty window (length 0, offset at
     or past the end) is returned - no error - with no elements and the dtype of the full read *)
  Theorem lazy_empty_same_dtype_mixed c v offs len :
    In c (all_channels h) ->
    scaled_read_eager (ser_file segs) (ch_path c) = Ok (SG.Ok v) ->
    0 <= offs -> len_nonneg len -> len = Some 0 \/ ch_len c <= offs ->
    exists w, scaled_read_lazy_daqmx (ser_file segs) (ch_path c) offs len = Ok (SG.Ok w) /\
              SG.vlen w = 0%nat /\ SG.dtype_of w = SG.dtype_of v.
  Proof.
    intros Hc He Ho Hl Hol.
    pose proof (eager_length_content segs st h chunkss Hwf Hrun Hh Hcon Hcanon Hshape c v Hc He) as Hn.
    exists (zwindow offs len v).
    split; [exact (lazy_windows_of_full_mixed c v offs len Hc Ho Hl He)|].
    split; [|apply dtype_of_zwindow].
    rewrite vlen_zwindow. destruct Hol as [->|Hge]; [reflexivity|]. lia.
  Qed.

  (* ScaleFile.scaled_read_lazy (plain-data path) on the channels of such a file that are not
     DaqMxRawData: same statements *)
  Theorem lazy_dtype_typed_mixed c raw_ts offs len v :
    In c (all_channels h) -> ch_dtype c <> Some T_DAQMX -> 0 <= offs -> len_nonneg len ->
    scaled_read_lazy (ser_file segs) (ch_path c) offs len = Ok (SG.Ok v) ->
    declared_dtype_file (ser_file segs) (ch_path c) raw_ts = Ok (SG.Ok (XNum (SG.dtype_of v))) /\
    SG.vlen v = Nat.min (match len with Some l => Z.to_nat l | None => Z.to_nat (ch_len c) end)
                        (Z.to_nat (ch_len c) - Z.to_nat offs).
  Proof.
    intros Hc Hne Ho Hl H.
    rewrite <- (scaled_read_lazy_daqmx_plain segs st h Hwf Hrun Hh Hcanon c offs len Hc Hne Ho Hl) in H.
    split.
    - exact (proj1 (lazy_dtype_mixed c raw_ts offs len v Hc Ho Hl H)).
    - exact (lazy_window_length_mixed c offs len v Hc Ho Hl H).
  Qed.

  (* read_data(offs, len, scaled=False) of a DaqMxRawData channel: a dictionary of scaler
     arrays, each of the NumPy dtype of its declared scaler type *)
  Theorem unscaled_lazy_daqmx_agrees c offs len raw :
    In c (all_channels h) -> ch_dtype c = Some T_DAQMX -> 0 <= offs -> len_nonneg len ->
    unscaled_read_lazy_daqmx (ser_file segs) (ch_path c) offs len = Ok (Some raw) ->
    SG.rdata raw = None /\
    forall id v, SG.assoc_nat id (SG.rscalers raw) = Some v ->
                 exists scs, file_scalers c = Some scs /\ SG.assoc_nat id scs = Some (SG.dtype_of v).
  Proof.
    intros Hc Hdt Ho Hl H.
    destruct (daqmx_channel_scalers segs st h Hrun Hh Hcanon c Hc Hdt) as (sts & Hsts & _).
    rewrite (unscaled_lazy_daqmx_is_window segs st h chunkss Hwf Hrun Hh Hcon Hcanon Hdist c sts offs len
               Hc Hdt Hsts Ho Hl) in H.
    injection H as H.
    destruct (raw_of_cdata c (expected_data_dq (concat chunkss) c)) as [raw0|] eqn:E; [|discriminate].
    cbn [option_map] in H. injection H as <-.
    pose proof (file_raw_agrees segs st h chunkss Hrun Hh Hcanon c raw0 Hc E) as Ha.
    split.
    - unfold expected_data_dq, raw_of_cdata in E. rewrite Hdt, Hsts, Z.eqb_refl in E.
      destruct (decode_scalers sts _) as [l|]; [|discriminate]. cbn [option_map] in E. injection E as <-.
      reflexivity.
    - intros id v Hv. exact (raw_agrees_scaler c _ id v (raw_agrees_window c raw0 _ _ Ha) Hv).
  Qed.
End Mixed.

(* ---- dqs_file: the lazy windows are float64 like channel.dtype; lengths ---------------- *)

Example dqs_lazy_declared :
  declared_dtype_file_open (ser_file dqs_file) dqs_path false = Ok (SG.Ok (XNum NP.Float64)) /\
  declared_dtype_file (ser_file dqs_file) dqs_path false = Ok (SG.Ok (XNum NP.Float64)) /\
  len_file (ser_file dqs_file) dqs_path = Ok 6 /\
  (* empty lazy windows: offset at the end, far past the end, length 0 *)
  scaled_read_lazy_daqmx (ser_file dqs_file) dqs_path 6 None = Ok (SG.Ok (SG.VD [])) /\
  scaled_read_lazy_daqmx (ser_file dqs_file) dqs_path 20 (Some 3) = Ok (SG.Ok (SG.VD [])) /\
  scaled_read_lazy_daqmx (ser_file dqs_file) dqs_path 1 (Some 0) = Ok (SG.Ok (SG.VD [])).
Proof. repeat split; vm_compute; reflexivity. Qed.
