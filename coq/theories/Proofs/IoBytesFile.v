(* C05 on bytes, layer 2: the WHOLE file.

   For a serialised file under read_correct's hypotheses whose segments are
   regular and whose data objects are channels of the numbering [paths]:

     io_loop_ser        [mapM ioseg_of] over the segment records succeeds; every
                        abstract segment is tied to its record and chunks (seg_tie),
                        the segments tile the file (IoPlan.layout_ok)
     iofile_with_wf     IoPlan.wf_file of the computed abstract file
     file_chan_values   per channel number: IoPlan.chan_values = labelled eager values
     file_chan_chunks   the chunk sequence of channel.data_chunks()
     file_file_chunks   the chunk sequence of tdms_file.data_chunks() *)
From Coq Require Import List ZArith Bool Lia ZifyBool FinFun.
From Coq Require Import Init.Byte.
Import ListNotations.
From NpTdms Require Import Base.Bytes Base.Res Base.PySlice Model.Tokens Model.TokensWf Model.SegState
     Model.Layout Model.Reader Model.FileSyn Model.LazyBytes Model.IoBytes
     Proofs.SegStateProofs Proofs.LayoutProofs Proofs.FileSynProofs Proofs.ReadCorrect
     Proofs.LazyEagerIndex Proofs.LazyEagerView Proofs.IoBytesSeg.
From NpTdms Require Model.IoPlan Proofs.IoPlanProofs Proofs.IoBytesIndex.
Local Open Scope Z_scope.

(* what the file theorems need of every segment record *)
Definition seg_fit (paths : list bytes) (g : segment) : Prop :=
  NoDup (map so_path (sg_objs g)) /\ Forall nvals_ok (sg_objs g) /\ io_regular_seg g = true /\
  (forall o, In o (data_objs (sg_objs g)) -> In (so_path o) paths).

Definition segs_tie (paths : list bytes) (gs : list segment) (chunkss : list (list chunk))
           (sgs : list IoPlan.seg) : Prop :=
  Forall2 (fun (gc : segment * list chunk) sg => seg_tie paths (fst gc) (snd gc) sg)
          (combine gs chunkss) sgs.

(* the part of IoPlan.seg_ok that does not mention the channel list *)
Definition seg_shape_ok (sg : IoPlan.seg) : Prop :=
  IoPlan.s_pos sg + 28 <= IoPlan.s_data_pos sg.

Lemma io_loop_ser paths data : forall segs gs chunkss pre,
    wf_file segs ->
    data = pre ++ ser_file segs ->
    segs_at (blen pre) segs gs ->
    segs_encode gs segs chunkss ->
    Forall (seg_fit paths) gs ->
    exists sgs, mapM (ioseg_of paths data) gs = Ok sgs /\
                segs_tie paths gs chunkss sgs /\
                IoPlan.layout_ok (blen pre) sgs = true /\
                Forall seg_shape_ok sgs.
Proof.
  induction segs as [|s r IH]; intros gs chunkss pre Hwf Hdata Hat Henc Hfit.
  - inversion Hat; subst. inversion Henc; subst. exists []. repeat split; constructor.
  - inversion Hat as [|pos s' r' g gs' Hg Hat']; subst.
    inversion Henc as [|g' gs'' s' r' cs css Hcs Henc']; subst.
    inversion Hfit as [|x y (Hdistinct & Hnv & Hreg & Hpaths) Hfit']; subst x y.
    unfold wf_file in Hwf. cbn [forallb] in Hwf. apply andb_prop in Hwf. destruct Hwf as [Hs Hr].
    cbn [mapM]. rewrite ser_file_cons.
    destruct (ioseg_of_encoded paths pre s (ser_file r) g cs Hs Hg Hcs Hdistinct Hnv Hreg Hpaths)
      as (sg & Hsg & Htie & Hend & Hlead).
    rewrite Hsg. cbn [bind].
    destruct (IH gs' css (pre ++ ser_seg TAG_DATA true s) Hr) as (sgs & Hsgs & Hties & Hlay & Hshape).
    + rewrite <- app_assoc. reflexivity.
    + rewrite blen_app. change TAG_DATA with (tag_of false). change true with (negb false).
      rewrite (blen_ser_seg false s Hs). unfold fseg_len in Hat'. exact Hat'.
    + exact Henc'.
    + exact Hfit'.
    + rewrite ser_file_cons in Hsgs. rewrite Hsgs. cbn [bind].
      exists (sg :: sgs). split; [reflexivity|]. split; [|split].
      * unfold segs_tie. cbn [combine]. constructor; [exact Htie|exact Hties].
      * cbn [IoPlan.layout_ok]. apply andb_true_intro. split.
        { destruct Htie as (Hp & _). destruct Hg as (Hgp & _). rewrite Hp, Hgp. apply Z.eqb_refl. }
        { rewrite Hend. destruct Hg as (Hgp & _ & _ & Hnext & _). rewrite Hnext.
          rewrite blen_app in Hlay. change TAG_DATA with (tag_of false) in Hlay.
          change true with (negb false) in Hlay. rewrite (blen_ser_seg false s Hs) in Hlay.
          replace (blen pre + 28 + blen (fs_meta_bytes s) + blen (fs_data s))
            with (blen pre + (28 + blen (fs_meta_bytes s) + blen (fs_data s))) by lia.
          exact Hlay. }
      * constructor; [|exact Hshape]. unfold seg_shape_ok.
        destruct Htie as (Hp & Hd & _). rewrite Hp, Hd. exact Hlead.
Qed.

(* ---- IoPlan.wf_file ----------------------------------------------------------------- *)

Lemma nodupb_complete : forall l, NoDup l -> IoPlan.nodupb l = true.
Proof.
  induction 1 as [|x l Hx _ IH]; [reflexivity|]. cbn [IoPlan.nodupb]. rewrite IH, andb_true_r.
  apply negb_true_iff. destruct (existsb (Z.eqb x) l) eqn:E; [|reflexivity].
  apply existsb_exists in E. destruct E as (y & Hy & Exy). apply Z.eqb_eq in Exy. subst y. contradiction.
Qed.

Lemma nodup_chans n : NoDup (map Z.of_nat (seq 0 n)).
Proof.
  apply Injective_map_NoDup; [|apply seq_NoDup]. intros a b H. lia.
Qed.

Lemma in_chans n i : 0 <= i < Z.of_nat n -> existsb (Z.eqb i) (map Z.of_nat (seq 0 n)) = true.
Proof.
  intros H. apply existsb_exists. exists i. split; [|apply Z.eqb_refl].
  apply in_map_iff. exists (Z.to_nat i). split; [lia|]. apply in_seq. lia.
Qed.

Lemma obj_rel_chans_nodup paths : forall dobjs objs,
    Forall2 (obj_rel paths) dobjs objs -> NoDup (map so_path dobjs) -> NoDup (map IoPlan.o_chan objs).
Proof.
  induction 1 as [|o io dobjs objs (Hi & _ & _) Hr IH]; intros Hnd; [constructor|].
  cbn [map] in *. inversion Hnd as [|x y Hnin Hnd']; subst x y. constructor; [|exact (IH Hnd')].
  intros Hin. apply Hnin. clear IH Hnd Hnd' Hnin.
  induction Hr as [|o' io' dobjs objs (Hi' & _ & _) _ IH']; [contradiction|].
  cbn [map In] in *. destruct Hin as [Heq|Hin]; [left|right; exact (IH' Hin)].
  rewrite Heq in Hi'. exact (path_index_inj _ _ _ _ Hi' Hi).
Qed.

Lemma calc_no_objs toc inc objs total n f :
  data_objs objs = [] -> calculate_chunks toc inc objs total = Ok (n, f) -> n = 0.
Proof.
  intros Hd H. unfold calculate_chunks, chunk_size, have_daqmx in H. rewrite Hd in H. cbn in H.
  destruct (total <? 0); [discriminate|]. cbn in H. destruct (negb (total =? 0)); [discriminate|].
  injection H as <- _. reflexivity.
Qed.

Lemma seg_ok_of_tie paths g cs sg segs' :
  seg_tie paths g cs sg ->
  io_regular_seg g = true ->
  NoDup (map so_path (data_objs (sg_objs g))) ->
  (data_objs (sg_objs g) = [] -> sg_nchunks g = 0) ->
  seg_shape_ok sg ->
  IoPlan.seg_ok (IoPlan.mkFile (map Z.of_nat (seq 0 (length paths))) segs') sg = true.
Proof.
  intros (Hp & Hd & Hraw & Hr & Hlen & Hck & _) Hreg Hnd Hzero Hshape.
  destruct (io_regular_seg_parts g Hreg) as [Hpos Hrawc].
  unfold IoPlan.seg_ok. cbn [IoPlan.f_chans].
  repeat (apply andb_true_intro; split).
  - unfold sizes_pos in Hpos. clear - Hr Hpos.
    induction Hr as [|o io dobjs objs (Hi & Hn & Hs) _ IH]; [reflexivity|].
    inversion Hpos as [|x y [H1 H2] Hpos']; subst x y. cbn [forallb]. rewrite (IH Hpos'), andb_true_r.
    unfold IoPlan.obj_ok. pose proof (path_index_range _ _ _ Hi). lia.
  - apply nodupb_complete. exact (obj_rel_chans_nodup paths _ _ Hr Hnd).
  - clear - Hr. induction Hr as [|o io dobjs objs (Hi & _ & _) _ IH]; [reflexivity|].
    cbn [forallb]. rewrite IH, andb_true_r. apply in_chans. exact (path_index_range _ _ _ Hi).
  - exact Hck.
  - rewrite Hraw. pose proof (Forall2_length' _ _ _ Hr) as Hl.
    destruct (toc_has (sg_toc g) TOC_RAW).
    + destruct Hrawc as [Hne Hn]. destruct (data_objs (sg_objs g)) as [|o l]; [contradiction|].
      cbn [length] in Hl. destruct (IoPlan.s_objs sg); [discriminate|].
      destruct (IoPlan.s_chunks sg); [cbn [length] in Hlen; lia|reflexivity].
    + rewrite Hrawc in Hl. specialize (Hzero Hrawc).
      destruct (IoPlan.s_objs sg); [|discriminate].
      destruct (IoPlan.s_chunks sg); [reflexivity|cbn [length] in Hlen; lia].
  - unfold seg_shape_ok in Hshape. lia.
Qed.

(* every segment record sits on a segment of the syntax whose data it encodes *)
Lemma segs_tie_wf paths : forall gs segs chunkss pos sgs segs',
    segs_at pos segs gs -> segs_encode gs segs chunkss ->
    Forall (seg_fit paths) gs ->
    segs_tie paths gs chunkss sgs -> Forall seg_shape_ok sgs ->
    forallb (IoPlan.seg_ok (IoPlan.mkFile (map Z.of_nat (seq 0 (length paths))) segs')) sgs = true.
Proof.
  induction gs as [|g gs IH]; intros segs chunkss pos sgs segs' Hat Henc Hfit Htie Hshape.
  - inversion Henc; subst. inversion Htie; subst. reflexivity.
  - inversion Hat as [|pos' s r g' gs' Hg Hat']; subst.
    inversion Henc as [|g' gs'' s' r' cs css Hcs Henc']; subst.
    inversion Hfit as [|x y (_ & Hnv & Hreg & Hpaths) Hfit']; subst x y.
    unfold segs_tie in Htie. cbn [combine] in Htie.
    inversion Htie as [|x sg y sgs' Ht Hties]; subst. cbn [fst snd] in Ht.
    inversion Hshape as [|x y Hs1 Hshape']; subst x y.
    cbn [forallb]. apply andb_true_intro. split.
    + pose proof Hg as (_ & _ & _ & _ & _ & Hcc).
      destruct (seg_encodes_norm g (fs_data s) cs Hcs Hcc) as (il & _ & _ & _ & Hnd & _).
      apply (seg_ok_of_tie paths g cs sg segs' Ht Hreg Hnd); [|exact Hs1].
      intros Hd. exact (calc_no_objs _ _ _ _ _ _ Hd Hcc).
    + exact (IH r css _ sgs' segs' Hat' Henc' Hfit' Hties Hshape').
Qed.

(* ---- the values, through the numbering ---------------------------------------------- *)

Lemma segs_tie_length paths gs chunkss sgs :
  segs_tie paths gs chunkss sgs -> length (combine gs chunkss) = length sgs.
Proof. apply Forall2_length'. Qed.

Lemma file_chan_values paths p i : path_index p paths = Some i -> forall gs segs chunkss sgs,
    segs_encode gs segs chunkss -> segs_tie paths gs chunkss sgs ->
    flat_map (fun sg => IoPlan.seg_chan_values sg i) sgs = map lab (chan_values p (concat chunkss)).
Proof.
  intros Hp gs segs chunkss sgs Henc. revert sgs.
  induction Henc as [|g gs s r cs css Hcs _ IH]; intros sgs Htie.
  - inversion Htie; subst. reflexivity.
  - unfold segs_tie in Htie. cbn [combine] in Htie. inversion Htie as [|x sg y sgs' Ht Hties]; subst.
    cbn [fst snd] in Ht. destruct Ht as (_ & _ & _ & _ & _ & _ & Hv & _).
    cbn [flat_map concat]. rewrite (proj1 (Hv p i Hp)), (IH sgs' Hties), chan_values_app, map_app. reflexivity.
Qed.

(* the chunks channel.data_chunks() delivers, from the eager chunk lists: per
   segment in which the channel is a data object, its part of every decoded chunk
   (an interleaved segment decodes to one chunk) *)
Definition eager_chan_chunks (p : bytes) (gs : list segment) (chunkss : list (list chunk)) : list (list bytes) :=
  flat_map (fun gc : segment * list chunk =>
              if has_data_obj p (fst gc) then map (chunk_values p) (snd gc) else [])
           (combine gs chunkss).

Lemma file_chan_chunks paths p i : path_index p paths = Some i -> forall gs segs chunkss sgs,
    segs_encode gs segs chunkss -> segs_tie paths gs chunkss sgs ->
    flat_map (fun sg => IoPlan.seg_chan_chunks sg i) sgs = map (map lab) (eager_chan_chunks p gs chunkss).
Proof.
  intros Hp gs segs chunkss sgs Henc. revert sgs.
  induction Henc as [|g gs s r cs css Hcs _ IH]; intros sgs Htie.
  - inversion Htie; subst. reflexivity.
  - unfold segs_tie in Htie. cbn [combine] in Htie. inversion Htie as [|x sg y sgs' Ht Hties]; subst.
    cbn [fst snd] in Ht. destruct Ht as (_ & _ & _ & _ & _ & _ & Hv & _).
    unfold eager_chan_chunks in *. cbn [flat_map combine fst snd].
    rewrite (proj2 (Hv p i Hp)), (IH sgs' Hties), map_app.
    destruct (has_data_obj p g); [rewrite map_map|]; reflexivity.
Qed.

(* every chunk of the eager pass belongs to the channel-level sequence or holds
   nothing for the channel: the sequence delivers the whole channel *)
Lemma eager_chan_chunks_concat p : forall gs segs chunkss pos,
    segs_at pos segs gs -> segs_encode gs segs chunkss ->
    concat (eager_chan_chunks p gs chunkss) = chan_values p (concat chunkss).
Proof.
  induction gs as [|g gs IH]; intros segs chunkss pos Hat Henc.
  - inversion Henc; subst. reflexivity.
  - inversion Hat as [|pos' s r g' gs' Hg Hat']; subst.
    inversion Henc as [|g' gs'' s' r' cs css Hcs Henc']; subst.
    pose proof Hg as (_ & _ & _ & _ & _ & Hcc).
    destruct (seg_encodes_norm g (fs_data s) cs Hcs Hcc) as (il & _ & _ & _ & Hnd & Hkeys & _).
    unfold eager_chan_chunks in *. cbn [combine flat_map fst snd concat].
    rewrite concat_app, (IH r css _ Hat' Henc'), chan_values_app. f_equal.
    unfold has_data_obj. destruct (obj_for p (data_objs (sg_objs g))) as [o|] eqn:E.
    + unfold chan_values. rewrite flat_map_concat_map. reflexivity.
    + apply obj_for_none in E. symmetry.
      apply (chan_values_absent p (map so_path (data_objs (sg_objs g))) cs); [|exact E].
      eapply Forall_impl; [|exact Hkeys]. intros c [Hk _]. exact Hk.
Qed.

(* the chunks tdms_file.data_chunks() delivers: one empty chunk for a segment
   without kTocRawData, else the decoded chunks *)
Definition eager_file_chunks (gs : list segment) (chunkss : list (list chunk)) : list chunk :=
  flat_map (fun gc : segment * list chunk =>
              if toc_has (sg_toc (fst gc)) TOC_RAW then snd gc else [[]])
           (combine gs chunkss).

Lemma Forall2_app' {A B} (R : A -> B -> Prop) a a' b b' :
  Forall2 R a b -> Forall2 R a' b' -> Forall2 R (a ++ a') (b ++ b').
Proof. induction 1; intros H'; cbn [app]; [exact H'|constructor; auto]. Qed.

Lemma file_file_chunks paths : forall gs segs chunkss sgs,
    segs_encode gs segs chunkss -> segs_tie paths gs chunkss sgs ->
    Forall2 (chunk_rel paths) (eager_file_chunks gs chunkss) (flat_map IoPlan.seg_file_chunks sgs).
Proof.
  intros gs segs chunkss sgs Henc. revert sgs.
  induction Henc as [|g gs s r cs css Hcs _ IH]; intros sgs Htie.
  - inversion Htie; subst. constructor.
  - unfold segs_tie in Htie. cbn [combine] in Htie. inversion Htie as [|x sg y sgs' Ht Hties]; subst.
    cbn [fst snd] in Ht. destruct Ht as (_ & _ & _ & _ & _ & _ & _ & ls & Hls & Hf).
    unfold eager_file_chunks in *. cbn [flat_map combine fst snd]. rewrite Hf.
    apply Forall2_app'; [|exact (IH sgs' Hties)].
    destruct (toc_has (sg_toc g) TOC_RAW); [exact Hls|].
    constructor; [constructor|constructor].
Qed.

(* ---- numbers that are no channel ------------------------------------------------------ *)

Lemma find_obj_none paths i : (forall p, path_index p paths <> Some i) -> forall dobjs objs,
    Forall2 (obj_rel paths) dobjs objs -> find (fun io => IoPlan.o_chan io =? i) objs = None.
Proof.
  intros Hn. induction 1 as [|o io dobjs objs (Hi & _ & _) _ IH]; [reflexivity|].
  cbn [find]. destruct (IoPlan.o_chan io =? i) eqn:E; [|exact IH].
  apply Z.eqb_eq in E. subst i. exfalso. exact (Hn _ Hi).
Qed.

Lemma seg_tie_none paths g cs sg i :
  seg_tie paths g cs sg -> (forall p, path_index p paths <> Some i) ->
  IoPlan.seg_chan_values sg i = [] /\ IoPlan.seg_chan_chunks sg i = [].
Proof.
  intros (_ & _ & _ & Hr & _) Hn. pose proof (find_obj_none paths i Hn _ _ Hr) as Hf. split.
  - unfold IoPlan.seg_chan_values.
    rewrite (flat_map_ext _ (fun _ => [])); [apply flat_map_nil_fun|].
    intros c. apply IoBytesIndex.chunk_chan_vals_none. exact Hf.
  - unfold IoPlan.seg_chan_chunks, IoPlan.seg_obj. rewrite Hf. reflexivity.
Qed.

Lemma file_chan_none paths i : (forall p, path_index p paths <> Some i) -> forall gs chunkss sgs,
    segs_tie paths gs chunkss sgs ->
    flat_map (fun sg => IoPlan.seg_chan_values sg i) sgs = [] /\
    flat_map (fun sg => IoPlan.seg_chan_chunks sg i) sgs = [].
Proof.
  intros Hn gs chunkss sgs Htie. unfold segs_tie in Htie.
  induction Htie as [|gc sg l sgs Ht _ [IH1 IH2]]; [split; reflexivity|].
  destruct (seg_tie_none paths _ _ sg i Ht Hn) as [H1 H2].
  cbn [flat_map]. rewrite H1, H2, IH1, IH2. split; reflexivity.
Qed.

(* ---- the file-level chunk list as a function of the eager chunks --------------------- *)

Definition label_entry (paths : list bytes) (kv : bytes * cdata) : res (Z * list Z) :=
  match path_index (fst kv) paths, snd kv with
  | Some i, CData vs => Ok (i, map lab vs)
  | _, _ => Err EOther
  end.

(* a decoded chunk with its paths numbered and its values labelled *)
Definition label_chunk (paths : list bytes) (c : chunk) : res (list (Z * list Z)) :=
  mapM (label_entry paths) c.

Definition label_chunks (paths : list bytes) (cs : list chunk) : res (list (list (Z * list Z))) :=
  mapM (label_chunk paths) cs.

Lemma chunk_rel_label paths c l : chunk_rel paths c l -> label_chunk paths c = Ok l.
Proof.
  unfold chunk_rel, label_chunk. induction 1 as [|kv il c l (Hi & vs & Hv & Hl) _ IH]; [reflexivity|].
  cbn [mapM]. unfold label_entry at 1. rewrite Hi, Hv. cbn [bind]. rewrite IH. cbn [bind].
  destruct il as [i vl]. cbn [fst snd] in *. rewrite Hl. reflexivity.
Qed.

Lemma chunks_rel_label paths cs ls : Forall2 (chunk_rel paths) cs ls -> label_chunks paths cs = Ok ls.
Proof.
  unfold label_chunks. induction 1 as [|c l cs ls Hc _ IH]; [reflexivity|].
  cbn [mapM]. rewrite (chunk_rel_label _ _ _ Hc). cbn [bind]. rewrite IH. reflexivity.
Qed.

(* ---- the record with its object_index: nothing the abstract file looks at ------------ *)

Lemma eager_chan_chunks_with_index p : forall gs chunkss,
    eager_chan_chunks p (map with_index gs) chunkss = eager_chan_chunks p gs chunkss.
Proof.
  unfold eager_chan_chunks. induction gs as [|g gs IH]; intros [|cs css]; try reflexivity.
  cbn [map combine flat_map fst snd]. rewrite IH. reflexivity.
Qed.

Lemma eager_file_chunks_with_index : forall gs chunkss,
    eager_file_chunks (map with_index gs) chunkss = eager_file_chunks gs chunkss.
Proof.
  unfold eager_file_chunks. induction gs as [|g gs IH]; intros [|cs css]; try reflexivity.
  cbn [map combine flat_map fst snd]. rewrite IH. reflexivity.
Qed.
