(* Bytes, hex literals, and little/big-endian integer codecs (struct.pack /
   struct.unpack for the formats npTDMS uses: b B h H l L q Q in '<' and '>').
   Values are Z; a byte string is a [list byte]. *)

From Coq Require Import List ZArith NArith Lia Bool.
From Coq Require String Ascii.
From Coq Require Import Init.Byte.
Import ListNotations.
Local Open Scope Z_scope.

Definition bytes := list byte.

Definition b2z (b : byte) : Z := Z.of_N (Byte.to_N b).

Definition z2b (z : Z) : byte :=
  match Byte.of_N (Z.to_N (z mod 256)) with
  | Some b => b
  | None => x00
  end.

Lemma b2z_range b : 0 <= b2z b < 256.
Proof.
  unfold b2z. pose proof (Byte.to_N_bounded b) as H. lia.
Qed.

Lemma z2b_b2z b : z2b (b2z b) = b.
Proof.
  unfold z2b. pose proof (b2z_range b) as H.
  rewrite Z.mod_small by lia. unfold b2z. rewrite N2Z.id.
  rewrite Byte.of_to_N. reflexivity.
Qed.

Lemma b2z_z2b z : 0 <= z < 256 -> b2z (z2b z) = z.
Proof.
  intros H. unfold z2b. rewrite Z.mod_small by lia.
  destruct (Byte.of_N (Z.to_N z)) as [b|] eqn:E.
  - apply Byte.to_of_N in E. unfold b2z. rewrite E. lia.
  - exfalso. apply Byte.of_N_None_iff in E. lia.
Qed.

Lemma b2z_z2b_mod z : b2z (z2b z) = z mod 256.
Proof.
  assert (E : z2b z = z2b (z mod 256)).
  { unfold z2b. rewrite Z.mod_mod by lia. reflexivity. }
  rewrite E. apply b2z_z2b. apply Z.mod_pos_bound. lia.
Qed.

(* ---- hex literals (used by generated case files) ---------------------- *)

Definition hexval (a : Ascii.ascii) : N :=
  let n := Ascii.N_of_ascii a in
  if (n <? 58)%N then (n - 48)%N else if (n <? 71)%N then (n - 55)%N else (n - 87)%N.

Fixpoint hex (s : String.string) : bytes :=
  match s with
  | String.String a (String.String b r) =>
    z2b (Z.of_N (16 * hexval a + hexval b)) :: hex r
  | _ => []
  end.

(* ---- unsigned little endian ------------------------------------------ *)

Fixpoint le_enc (n : nat) (z : Z) : bytes :=
  match n with
  | O => []
  | S k => z2b z :: le_enc k (z / 256)
  end.

Fixpoint le_dec (l : bytes) : Z :=
  match l with
  | [] => 0
  | b :: r => b2z b + 256 * le_dec r
  end.

Lemma le_enc_length n z : length (le_enc n z) = n.
Proof. revert z. induction n as [|n IH]; intros z; cbn; [reflexivity|]. rewrite IH. reflexivity. Qed.

Lemma le_dec_range l : 0 <= le_dec l < 256 ^ Z.of_nat (length l).
Proof.
  induction l as [|b r IH].
  - cbn. lia.
  - cbn [le_dec length]. rewrite Nat2Z.inj_succ, Z.pow_succ_r by lia.
    pose proof (b2z_range b). lia.
Qed.

Lemma le_dec_enc n : forall z, 0 <= z < 256 ^ Z.of_nat n -> le_dec (le_enc n z) = z.
Proof.
  induction n as [|n IH]; intros z Hz.
  - cbn in *. lia.
  - cbn [le_enc le_dec]. rewrite Nat2Z.inj_succ, Z.pow_succ_r in Hz by lia.
    rewrite b2z_z2b_mod. rewrite IH.
    + pose proof (Z.div_mod z 256). lia.
    + split; [apply Z.div_pos; lia|]. apply Z.div_lt_upper_bound; lia.
Qed.

Lemma le_enc_dec l : le_enc (length l) (le_dec l) = l.
Proof.
  induction l as [|b r IH]; [reflexivity|].
  cbn [length le_enc le_dec]. pose proof (b2z_range b) as Hb.
  assert (Hm : (b2z b + 256 * le_dec r) mod 256 = b2z b)
    by (Z.div_mod_to_equations; lia).
  assert (Hd : (b2z b + 256 * le_dec r) / 256 = le_dec r)
    by (Z.div_mod_to_equations; lia).
  f_equal.
  - unfold z2b. rewrite Hm. fold (z2b (b2z b)).
    replace (b2z b) with (b2z b mod 256) at 1 by (apply Z.mod_small; lia).
    fold (z2b (b2z b)). apply z2b_b2z.
  - rewrite Hd. exact IH.
Qed.

(* ---- big endian -------------------------------------------------------- *)

Definition be_enc (n : nat) (z : Z) : bytes := rev (le_enc n z).
Definition be_dec (l : bytes) : Z := le_dec (rev l).

Lemma be_enc_length n z : length (be_enc n z) = n.
Proof. unfold be_enc. rewrite rev_length. apply le_enc_length. Qed.

Lemma be_dec_enc n z : 0 <= z < 256 ^ Z.of_nat n -> be_dec (be_enc n z) = z.
Proof. intros H. unfold be_dec, be_enc. rewrite rev_involutive. apply le_dec_enc. exact H. Qed.

Lemma be_enc_dec l : be_enc (length l) (be_dec l) = l.
Proof.
  unfold be_enc, be_dec. rewrite <- (rev_length l). rewrite le_enc_dec. apply rev_involutive.
Qed.

(* ---- byte order as a parameter ---------------------------------------- *)

Inductive endian := LE | BE.

Definition u_enc (e : endian) (n : nat) (z : Z) : bytes :=
  match e with LE => le_enc n z | BE => be_enc n z end.
Definition u_dec (e : endian) (l : bytes) : Z :=
  match e with LE => le_dec l | BE => be_dec l end.

Lemma u_enc_length e n z : length (u_enc e n z) = n.
Proof. destruct e; [apply le_enc_length | apply be_enc_length]. Qed.

Lemma u_dec_enc e n z : 0 <= z < 256 ^ Z.of_nat n -> u_dec e (u_enc e n z) = z.
Proof. destruct e; [apply le_dec_enc | apply be_dec_enc]. Qed.

Lemma u_enc_dec e l : u_enc e (length l) (u_dec e l) = l.
Proof. destruct e; [apply le_enc_dec | apply be_enc_dec]. Qed.

Lemma u_dec_range e l : 0 <= u_dec e l < 256 ^ Z.of_nat (length l).
Proof.
  destruct e; cbn; [apply le_dec_range|].
  unfold be_dec. rewrite <- (rev_length l). apply le_dec_range.
Qed.

(* The same value read in either order from its own encoding. *)
Lemma u_dec_enc_any e e' n z :
  0 <= z < 256 ^ Z.of_nat n -> u_dec e (u_enc e n z) = u_dec e' (u_enc e' n z).
Proof. intros H. rewrite !u_dec_enc by exact H. reflexivity. Qed.

(* ---- two's complement -------------------------------------------------- *)

Definition s_of_u (n : nat) (u : Z) : Z :=
  if u <? 256 ^ Z.of_nat n / 2 then u else u - 256 ^ Z.of_nat n.
Definition u_of_s (n : nat) (z : Z) : Z := z mod 256 ^ Z.of_nat n.

Definition s_enc (e : endian) (n : nat) (z : Z) : bytes := u_enc e n (u_of_s n z).
Definition s_dec (e : endian) (l : bytes) : Z := s_of_u (length l) (u_dec e l).

Lemma pow256_pos n : 0 < 256 ^ Z.of_nat n.
Proof. apply Z.pow_pos_nonneg; lia. Qed.

Lemma pow256_even n : (0 < n)%nat -> 256 ^ Z.of_nat n = 2 * (256 ^ Z.of_nat n / 2).
Proof.
  intros Hn. destruct n as [|k]; [lia|].
  rewrite Nat2Z.inj_succ, Z.pow_succ_r by lia.
  replace (256 * 256 ^ Z.of_nat k) with (2 * (128 * 256 ^ Z.of_nat k)) by lia.
  rewrite Z.mul_comm, Z.div_mul by lia. lia.
Qed.

Lemma s_of_u_of_s n z :
  (0 < n)%nat ->
  - (256 ^ Z.of_nat n / 2) <= z < 256 ^ Z.of_nat n / 2 ->
  s_of_u n (u_of_s n z) = z.
Proof.
  intros Hn Hz. unfold s_of_u, u_of_s.
  pose proof (pow256_even n Hn) as Hev. pose proof (pow256_pos n) as Hp.
  set (M := 256 ^ Z.of_nat n) in *. set (H := M / 2) in *.
  destruct (Z_lt_le_dec z 0) as [Hneg|Hpos].
  - assert (E : z mod M = z + M).
    { symmetry. apply Z.mod_unique with (q := -1); lia. }
    rewrite E. destruct (z + M <? H) eqn:C; lia.
  - rewrite Z.mod_small by lia. destruct (z <? H) eqn:C; lia.
Qed.

Lemma s_dec_enc e n z :
  (0 < n)%nat ->
  - (256 ^ Z.of_nat n / 2) <= z < 256 ^ Z.of_nat n / 2 ->
  s_dec e (s_enc e n z) = z.
Proof.
  intros Hn Hz. unfold s_dec, s_enc. rewrite u_enc_length.
  rewrite u_dec_enc.
  - apply s_of_u_of_s; assumption.
  - unfold u_of_s. apply Z.mod_pos_bound. apply pow256_pos.
Qed.

(* ---- slicing a byte string (seek + read, short at EOF) ----------------- *)

Definition blen (l : bytes) : Z := Z.of_nat (length l).

(* The [Z.min] guards keep evaluation cheap when a length field read from a
   file is astronomically large; they do not change the result (lemmas below). *)
Definition take (n : Z) (l : bytes) : bytes := firstn (Z.to_nat (Z.min n (blen l))) l.
Definition drop (n : Z) (l : bytes) : bytes := skipn (Z.to_nat (Z.min n (blen l))) l.
Definition read_at (pos n : Z) (l : bytes) : bytes := take n (drop pos l).

Lemma take_firstn n l : take n l = firstn (Z.to_nat n) l.
Proof.
  unfold take, blen. destruct (Z_le_gt_dec n (Z.of_nat (length l))) as [H|H].
  - rewrite Z.min_l by lia. reflexivity.
  - rewrite Z.min_r by lia. rewrite Nat2Z.id.
    rewrite firstn_all. symmetry. apply firstn_all2. lia.
Qed.

Lemma drop_skipn n l : drop n l = skipn (Z.to_nat n) l.
Proof.
  unfold drop, blen. destruct (Z_le_gt_dec n (Z.of_nat (length l))) as [H|H].
  - rewrite Z.min_l by lia. reflexivity.
  - rewrite Z.min_r by lia. rewrite Nat2Z.id.
    rewrite skipn_all. symmetry. apply skipn_all2. lia.
Qed.

Lemma take_app_exact x r : take (blen x) (x ++ r) = x.
Proof.
  rewrite take_firstn. unfold blen. rewrite Nat2Z.id.
  rewrite firstn_app, Nat.sub_diag, firstn_all. cbn. apply app_nil_r.
Qed.

Lemma drop_app_exact x r : drop (blen x) (x ++ r) = r.
Proof.
  rewrite drop_skipn. unfold blen. rewrite Nat2Z.id.
  rewrite skipn_app, Nat.sub_diag, skipn_all. reflexivity.
Qed.

Lemma read_at_app pre x post :
  read_at (blen pre) (blen x) (pre ++ x ++ post) = x.
Proof.
  unfold read_at. rewrite drop_app_exact. apply take_app_exact.
Qed.

Lemma blen_app a b : blen (a ++ b) = blen a + blen b.
Proof. unfold blen. rewrite app_length. lia. Qed.

Lemma blen_nonneg l : 0 <= blen l.
Proof. unfold blen. lia. Qed.
