(* Error monad shared by the models.  Error kinds mirror the exception classes
   the implementation raises; the correspondence compares Ok-vs-Err and, where
   it is stable, the kind. *)
From Coq Require Import List.
Import ListNotations.

Inductive err :=
| EEof        (* EOFError inside read_metadata: normal end of file *)
| EValue      (* ValueError *)
| EKey        (* KeyError *)
| EStruct     (* struct.error: short read while unpacking *)
| ENotImpl    (* NotImplementedError *)
| EIndex      (* IndexError *)
| ERuntime    (* RuntimeError *)
| EType       (* TypeError *)
| EOther      (* plain Exception *)
| EFuel.      (* model ran out of fuel: never a normal result *)

Inductive res (A : Type) :=
| Ok (a : A)
| Err (e : err).
Arguments Ok {A} a.
Arguments Err {A} e.

Definition bind {A B} (r : res A) (f : A -> res B) : res B :=
  match r with Ok a => f a | Err e => Err e end.

Notation "'do' x <- r ; k" := (bind r (fun x => k))
  (at level 200, x name, r at level 100, k at level 200, right associativity).
Notation "'do' ' p <- r ; k" := (bind r (fun x => let 'p := x in k))
  (at level 200, p pattern, r at level 100, k at level 200, right associativity).

Definition is_ok {A} (r : res A) : bool :=
  match r with Ok _ => true | Err _ => false end.

Fixpoint mapM {A B} (f : A -> res B) (l : list A) : res (list B) :=
  match l with
  | [] => Ok []
  | x :: r => do y <- f x; do ys <- mapM f r; Ok (y :: ys)
  end.
