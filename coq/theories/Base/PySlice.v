(* Python slice semantics  l[start:stop:step]  for arbitrary (negative,
   out-of-range, None) indices, following CPython:

     PySlice_Unpack:   step None -> 1;  step == 0 -> ValueError;
                       start None -> (step < 0 ? MAX : 0);
                       stop  None -> (step < 0 ? MIN : MAX)
     PySlice_AdjustIndices(length, start, stop, step)   [start, stop by reference]:
        if (start < 0) { start += length;
                         if (start < 0) start = (step < 0) ? -1 : 0; }
        else if (start >= length) start = (step < 0) ? length - 1 : length;
        [same for stop]
        if (step < 0) { if (stop < start) return (start - stop - 1) / (-step) + 1; }
        else          { if (start < stop) return (stop - start - 1) / step + 1; }
        return 0;
     list_subscript / NumPy basic indexing:
        for (cur = start, i = 0; i < slicelength; cur += step, i++) dest[i] = src[cur];

   Integers are unbounded here (Z), so MAX/MIN are modelled by applying the
   clamp that AdjustIndices would apply to them.  The element selection is
   written with firstn/skipn/rev/every (no default element anywhere); the lemmas
   [py_slice3_nth_pos]/[py_slice3_nth_neg] tie it back to the CPython loop. *)
From Coq Require Import ZArith List Bool Lia.
From NpTdms Require Import Base.Res.
Import ListNotations.
Open Scope Z_scope.

Section PySlice.
  Context {A : Type}.

  Definition zlen (l : list A) : Z := Z.of_nat (length l).
  Definition zfirstn (n : Z) (l : list A) : list A := firstn (Z.to_nat n) l.
  Definition zskipn (n : Z) (l : list A) : list A := skipn (Z.to_nat n) l.

  (* l[a:b] for 0 <= a, 0 <= b: the plain window *)
  Definition sl (a b : Z) (l : list A) : list A := zfirstn (b - a) (zskipn a l).

  (* PySlice_AdjustIndices on one index *)
  Definition adjust_index (len i step : Z) : Z :=
    if i <? 0 then
      let i' := i + len in
      if i' <? 0 then (if step <? 0 then -1 else 0) else i'
    else if i >=? len then (if step <? 0 then len - 1 else len)
    else i.

  Definition adjust_start (len : Z) (start : option Z) (step : Z) : Z :=
    match start with
    | Some i => adjust_index len i step
    | None => if step <? 0 then len - 1 else 0
    end.

  Definition adjust_stop (len : Z) (stop : option Z) (step : Z) : Z :=
    match stop with
    | Some i => adjust_index len i step
    | None => if step <? 0 then -1 else len
    end.

  Definition slice_count (start stop step : Z) : Z :=
    if step <? 0 then
      (if stop <? start then (start - stop - 1) / (- step) + 1 else 0)
    else
      (if start <? stop then (stop - start - 1) / step + 1 else 0).

  (* every k-th element starting with the first: l[::k] for k >= 1.
     [i] counts down to the next element taken. *)
  Fixpoint every_aux (k i : nat) (l : list A) : list A :=
    match l with
    | [] => []
    | x :: r =>
      match i with
      | O => x :: every_aux k (k - 1) r
      | S i' => every_aux k i' r
      end
    end.
  Definition every (k : Z) (l : list A) : list A := every_aux (Z.to_nat k) 0 l.

  (* l[start:stop:step], ValueError for step 0 *)
  Definition py_slice3 (l : list A) (start stop step : option Z) : res (list A) :=
    let len := zlen l in
    let st := match step with None => 1 | Some s => s end in
    if st =? 0 then Err EValue
    else
      let a := adjust_start len start st in
      let b := adjust_stop len stop st in
      if st >? 0 then Ok (every st (sl a b l))
      else Ok (every (- st) (rev (sl (b + 1) (a + 1) l))).

  (* l[a:b] with two integer bounds (step 1) *)
  Definition py_slice (l : list A) (a b : Z) : list A :=
    let len := zlen l in
    sl (adjust_index len a 1) (adjust_index len b 1) l.

  (* l[a:] *)
  Definition py_slice_from (l : list A) (a : Z) : list A :=
    let len := zlen l in
    sl (adjust_index len a 1) len l.

  (* l[i] for a Python list / NumPy array: negative indices wrap once,
     IndexError outside [-len, len) *)
  Definition py_index (l : list A) (i : Z) : res A :=
    let len := zlen l in
    let i' := if i <? 0 then i + len else i in
    if (0 <=? i') && (i' <? len) then
      match nth_error l (Z.to_nat i') with Some x => Ok x | None => Err EIndex end
    else Err EIndex.

  (* ------------------------------------------------------------------ *)
  (* list helpers missing from the 8.16 standard library *)

  Lemma skipn_skipn' : forall (a b : nat) (l : list A), skipn a (skipn b l) = skipn (b + a) l.
  Proof.
    intros a b. induction b as [|b IH]; intros l; [reflexivity|].
    destruct l as [|x r]; [ rewrite !skipn_nil; reflexivity |]. cbn [skipn plus]. apply IH.
  Qed.

  Lemma firstn_add' : forall (a b : nat) (l : list A),
    firstn (a + b) l = firstn a l ++ firstn b (skipn a l).
  Proof.
    induction a as [|a IH]; intros b l; [reflexivity|].
    destruct l as [|x r]; [ cbn; rewrite firstn_nil; reflexivity |].
    cbn [plus firstn skipn app]. f_equal. apply IH.
  Qed.

  Lemma nth_error_firstn' : forall (n j : nat) (l : list A), (j < n)%nat ->
    nth_error (firstn n l) j = nth_error l j.
  Proof.
    induction n as [|n IH]; intros j l Hj; [lia|].
    destruct l as [|x r]; [reflexivity|]. destruct j as [|j]; [reflexivity|].
    cbn [firstn nth_error]. apply IH. lia.
  Qed.

  Lemma nth_error_skipn' : forall (n j : nat) (l : list A),
    nth_error (skipn n l) j = nth_error l (n + j).
  Proof.
    induction n as [|n IH]; intros j l; [reflexivity|].
    destruct l as [|x r]; [ destruct j; reflexivity |]. cbn [skipn plus nth_error]. apply IH.
  Qed.

  (* ------------------------------------------------------------------ *)
  (* Lemmas *)

  Lemma zlen_nonneg : forall l, 0 <= zlen l.
  Proof. intros; unfold zlen; lia. Qed.

  Lemma zlen_app : forall l1 l2, zlen (l1 ++ l2) = zlen l1 + zlen l2.
  Proof. intros; unfold zlen; rewrite app_length; lia. Qed.

  Lemma zlen_nil : zlen [] = 0.
  Proof. reflexivity. Qed.

  Lemma zlen_cons : forall x l, zlen (x :: l) = 1 + zlen l.
  Proof. intros; unfold zlen; cbn [length]; lia. Qed.

  Lemma sl_nil_ge : forall a b l, b <= a -> sl a b l = [].
  Proof.
    intros a b l H. unfold sl, zfirstn.
    replace (Z.to_nat (b - a)) with O by lia. reflexivity.
  Qed.

  Lemma sl_all : forall l, sl 0 (zlen l) l = l.
  Proof.
    intros. unfold sl, zfirstn, zskipn, zlen. cbn [Z.to_nat skipn].
    rewrite Z.sub_0_r, Nat2Z.id. apply firstn_all.
  Qed.

  Lemma sl_beyond : forall a b l, zlen l <= a -> sl a b l = [].
  Proof.
    intros a b l H. unfold sl, zfirstn, zskipn, zlen in *.
    rewrite skipn_all2 by lia. apply firstn_nil.
  Qed.

  Lemma zlen_sl : forall a b l, 0 <= a -> zlen (sl a b l) = Z.max 0 (Z.min b (zlen l) - a).
  Proof.
    intros a b l Ha. unfold sl, zfirstn, zskipn, zlen.
    rewrite firstn_length, skipn_length. lia.
  Qed.

  (* adjacent windows concatenate *)
  Lemma sl_app_adj : forall a b c l, 0 <= a -> a <= b -> b <= c ->
    sl a b l ++ sl b c l = sl a c l.
  Proof.
    intros a b c l Ha Hab Hbc. unfold sl, zfirstn, zskipn.
    replace (Z.to_nat b) with (Z.to_nat a + Z.to_nat (b - a))%nat by lia.
    rewrite <- skipn_skipn'.
    replace (Z.to_nat (c - a)) with (Z.to_nat (b - a) + Z.to_nat (c - b))%nat by lia.
    rewrite firstn_add'. reflexivity.
  Qed.

  (* window of a concatenation *)
  Lemma sl_app_l : forall a b l1 l2, 0 <= a -> b <= zlen l1 -> sl a b (l1 ++ l2) = sl a b l1.
  Proof.
    intros a b l1 l2 Ha Hb. unfold sl, zfirstn, zskipn, zlen in *.
    destruct (Z_le_gt_dec b a) as [Hle|Hgt].
    - replace (Z.to_nat (b - a)) with O by lia. reflexivity.
    - rewrite skipn_app. rewrite firstn_app.
      rewrite skipn_length.
      replace (Z.to_nat (b - a) - (length l1 - Z.to_nat a))%nat with O by lia.
      cbn [firstn]. apply app_nil_r.
  Qed.

  Lemma sl_app_r : forall a b l1 l2, zlen l1 <= a ->
    sl a b (l1 ++ l2) = sl (a - zlen l1) (b - zlen l1) l2.
  Proof.
    intros a b l1 l2 Ha. unfold sl, zfirstn, zskipn, zlen in *.
    rewrite skipn_app. rewrite skipn_all2 by lia. cbn [app].
    replace (Z.to_nat a - length l1)%nat with (Z.to_nat (a - Z.of_nat (length l1))) by lia.
    replace (b - Z.of_nat (length l1) - (a - Z.of_nat (length l1))) with (b - a) by lia.
    reflexivity.
  Qed.

  Lemma sl_clip : forall a b l, zlen l <= b -> sl a b l = zskipn a l.
  Proof.
    intros a b l H. unfold sl, zfirstn, zskipn, zlen in *.
    destruct (Z_le_gt_dec 0 a).
    - apply firstn_all2. rewrite skipn_length. lia.
    - replace (Z.to_nat a) with O by lia. cbn [skipn].
      apply firstn_all2. lia.
  Qed.

  (* window of a window *)
  Lemma sl_sl : forall a b c d l, 0 <= a -> 0 <= c ->
    sl c d (sl a b l) = sl (a + c) (Z.min (a + d) b) l.
  Proof.
    intros a b c d l Ha Hc. unfold sl, zfirstn, zskipn.
    rewrite skipn_firstn_comm. rewrite firstn_firstn. rewrite skipn_skipn'.
    replace (Z.to_nat a + Z.to_nat c)%nat with (Z.to_nat (a + c)) by lia.
    f_equal. lia.
  Qed.

  (* --- py_slice on the arguments the reader uses ---------------------- *)

  Lemma py_slice_nonneg : forall l a b, 0 <= a -> 0 <= b -> py_slice l a b = sl a b l.
  Proof.
    intros l a b Ha Hb. unfold py_slice, adjust_index.
    pose proof (zlen_nonneg l) as Hl.
    destruct (a <? 0) eqn:E1; [lia|].
    destruct (b <? 0) eqn:E2; [lia|].
    replace (1 <? 0) with false by reflexivity.
    destruct (a >=? zlen l) eqn:E3; destruct (b >=? zlen l) eqn:E4.
    - rewrite sl_beyond by lia. rewrite sl_beyond by lia. reflexivity.
    - rewrite sl_beyond by lia. rewrite sl_beyond by lia. reflexivity.
    - rewrite (sl_clip a b) by lia. rewrite sl_clip by lia. reflexivity.
    - reflexivity.
  Qed.

  (* the negative-stop behaviour that makes D3 observable: a stop of -k
     does not give the empty list but drops the last k elements *)
  Lemma py_slice_neg_stop : forall l a k, 0 <= a -> 0 < k -> k <= zlen l ->
    py_slice l a (- k) = sl a (zlen l - k) l.
  Proof.
    intros l a k Ha Hk Hkl. unfold py_slice, adjust_index.
    destruct (a <? 0) eqn:E1; [lia|].
    destruct (- k <? 0) eqn:E2; [|lia].
    destruct (- k + zlen l <? 0) eqn:E3; [lia|].
    replace (1 <? 0) with false by reflexivity.
    destruct (a >=? zlen l) eqn:E4.
    - rewrite sl_beyond by lia. rewrite sl_beyond by lia. reflexivity.
    - f_equal. lia.
  Qed.

  Lemma py_slice_from_nonneg : forall l a, 0 <= a -> py_slice_from l a = zskipn a l.
  Proof.
    intros l a Ha. unfold py_slice_from, adjust_index.
    destruct (a <? 0) eqn:E1; [lia|].
    replace (1 <? 0) with false by reflexivity.
    destruct (a >=? zlen l) eqn:E2.
    - rewrite sl_beyond by lia. unfold zskipn, zlen in *. rewrite skipn_all2 by lia. reflexivity.
    - apply sl_clip. lia.
  Qed.

  (* --- every ---------------------------------------------------------- *)

  Lemma every_aux_one : forall l, every_aux 1 0 l = l.
  Proof. induction l as [|x r IH]; cbn; [reflexivity|]. f_equal. exact IH. Qed.

  Lemma every_one : forall l, every 1 l = l.
  Proof. intros. unfold every. cbn. apply every_aux_one. Qed.

  Lemma every_aux_nth : forall k l i j, (1 <= k)%nat -> (i < k)%nat ->
    nth_error (every_aux k i l) j = nth_error l (i + j * k).
  Proof.
    intros k. induction l as [|x r IH]; intros i j Hk Hi.
    - cbn. destruct j; destruct (i + _)%nat; reflexivity.
    - destruct i as [|i'].
      + cbn [every_aux]. destruct j as [|j'].
        * reflexivity.
        * cbn [nth_error]. rewrite IH by lia.
          replace (0 + S j' * k)%nat with (S (k - 1 + j' * k)) by lia. reflexivity.
      + cbn [every_aux]. rewrite IH by lia.
        replace (S i' + j * k)%nat with (S (i' + j * k)) by lia. reflexivity.
  Qed.

  Lemma every_nth : forall k l j, 1 <= k -> (0 <= j) ->
    nth_error (every k l) (Z.to_nat j) = nth_error l (Z.to_nat (j * k)).
  Proof.
    intros k l j Hk Hj. unfold every. rewrite every_aux_nth by lia.
    f_equal. rewrite Z2Nat.inj_mul by lia. lia.
  Qed.

  Lemma nth_error_sl : forall a b l j, 0 <= a -> 0 <= j -> a + j < b ->
    nth_error (sl a b l) (Z.to_nat j) = nth_error l (Z.to_nat (a + j)).
  Proof.
    intros a b l j Ha Hj Hb. unfold sl, zfirstn, zskipn.
    rewrite nth_error_firstn' by lia.
    rewrite nth_error_skipn'. f_equal. lia.
  Qed.

  Lemma nth_error_rev : forall (l : list A) j, (j < length l)%nat ->
    nth_error (rev l) j = nth_error l (length l - 1 - j).
  Proof.
    induction l as [|x r IH]; intros j Hj; cbn [length] in *; [lia|].
    cbn [rev]. destruct (Nat.eq_dec j (length r)) as [->|Hne].
    - rewrite nth_error_app2 by (rewrite rev_length; lia).
      rewrite rev_length. replace (length r - length r)%nat with O by lia.
      replace (S (length r) - 1 - length r)%nat with O by lia. reflexivity.
    - rewrite nth_error_app1 by (rewrite rev_length; lia).
      rewrite IH by lia.
      replace (S (length r) - 1 - j)%nat with (S (length r - 1 - j)) by lia. reflexivity.
  Qed.

  (* positive step: element j of the result is l[start + j*step] for the
     CPython-adjusted start, whenever start + j*step < adjusted stop *)
  Lemma py_slice3_nth_pos : forall l start stop step r j,
    0 < step -> py_slice3 l start stop (Some step) = Ok r ->
    let a := adjust_start (zlen l) start step in
    let b := adjust_stop (zlen l) stop step in
    0 <= j -> a + j * step < b ->
    nth_error r (Z.to_nat j) = nth_error l (Z.to_nat (a + j * step)).
  Proof.
    intros l start stop step r j Hs H a b Hj Hb.
    unfold py_slice3 in H.
    destruct (step =? 0) eqn:E0; [lia|].
    destruct (step >? 0) eqn:E1; [|lia].
    injection H as <-. fold a b.
    assert (Ha : 0 <= a).
    { subst a. unfold adjust_start, adjust_index. pose proof (zlen_nonneg l).
      destruct start as [i|]; [|destruct (step <? 0) eqn:E; lia].
      destruct (i <? 0) eqn:E2.
      - destruct (i + zlen l <? 0) eqn:E3; [destruct (step <? 0) eqn:E; lia | lia].
      - destruct (i >=? zlen l) eqn:E3; [destruct (step <? 0) eqn:E; lia | lia]. }
    rewrite every_nth by lia.
    apply nth_error_sl; nia.
  Qed.

  (* negative step: element j of the result is l[start - j*|step|] *)
  Lemma py_slice3_nth_neg : forall l start stop step r j,
    step < 0 -> py_slice3 l start stop (Some step) = Ok r ->
    let a := adjust_start (zlen l) start step in
    let b := adjust_stop (zlen l) stop step in
    0 <= j -> b < a + j * step ->
    nth_error r (Z.to_nat j) = nth_error l (Z.to_nat (a + j * step)).
  Proof.
    intros l start stop step r j Hs H a b Hj Hb.
    unfold py_slice3 in H.
    destruct (step =? 0) eqn:E0; [lia|].
    destruct (step >? 0) eqn:E1; [lia|].
    injection H as <-. fold a b.
    pose proof (zlen_nonneg l) as Hl.
    assert (Ha : a < zlen l).
    { subst a. unfold adjust_start, adjust_index.
      destruct start as [i|]; [|destruct (step <? 0) eqn:E; lia].
      destruct (i <? 0) eqn:E2.
      - destruct (i + zlen l <? 0) eqn:E3; [destruct (step <? 0) eqn:E; lia | lia].
      - destruct (i >=? zlen l) eqn:E3; [destruct (step <? 0) eqn:E; lia | lia]. }
    assert (Hb1 : -1 <= b).
    { subst b. unfold adjust_stop, adjust_index.
      destruct stop as [i|]; [|destruct (step <? 0) eqn:E; lia].
      destruct (i <? 0) eqn:E2.
      - destruct (i + zlen l <? 0) eqn:E3; [destruct (step <? 0) eqn:E; lia | lia].
      - destruct (i >=? zlen l) eqn:E3; [destruct (step <? 0) eqn:E; lia | lia]. }
    rewrite every_nth by lia.
    set (w := sl (b + 1) (a + 1) l).
    assert (Hw : zlen w = a - b).
    { subst w. rewrite zlen_sl by lia. lia. }
    assert (Hjb : j * - step < a - b) by nia.
    unfold zlen in Hw.
    rewrite nth_error_rev by nia.
    replace (length w - 1 - Z.to_nat (j * - step))%nat with (Z.to_nat (a - b - 1 - j * - step)) by nia.
    subst w. rewrite nth_error_sl by nia.
    f_equal. nia.
  Qed.

End PySlice.

(* ---------------------------------------------------------------------- *)
(* The plan a slice request is turned into by TdmsChannel._read_slice
   (translated in Gen/PySlice_gen.v):
     PEmpty                 np.empty((0,), dtype=self.dtype)
     PRead a b None         self.read_data(a, b)
     PRead a b (Some k)     self.read_data(a, b)[::k]                       *)
Inductive plan :=
| PEmpty
| PRead (offset length : Z) (stride : option Z).

Definition plan_eqb (p q : plan) : bool :=
  match p, q with
  | PEmpty, PEmpty => true
  | PRead a b s, PRead a' b' s' =>
    (a =? a') && (b =? b') &&
    match s, s' with
    | None, None => true
    | Some x, Some y => x =? y
    | _, _ => false
    end
  | _, _ => false
  end.

Definition interp_plan {A : Type} (read : Z -> Z -> res (list A)) (p : plan) : res (list A) :=
  match p with
  | PEmpty => Ok []
  | PRead a b None => read a b
  | PRead a b (Some k) => do d <- read a b; py_slice3 d None None (Some k)
  end.

(* `step == 0` on a value that may be None (None == 0 is False) *)
Definition oeqb (x : option Z) (v : Z) : bool :=
  match x with Some y => y =? v | None => false end.
