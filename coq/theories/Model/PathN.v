(* The path model instantiated at code points (N), quote = 39, slash = 47:
   this is the instance the correspondence check runs against
   nptdms.common.ObjectPath. *)
From Coq Require Import List NArith.
Import ListNotations.
From NpTdms Require Import Model.Path.

Definition cp := N.
Definition QUOTE : cp := 39%N.
Definition SLASH : cp := 47%N.

Definition to_pathN := components_to_path cp N.eqb QUOTE SLASH.
Definition to_path_listN := components_to_path_list cp N.eqb QUOTE SLASH.
Definition path_componentsN := path_components cp N.eqb QUOTE SLASH.
Definition from_stringN := from_string cp N.eqb QUOTE SLASH.

(* ---- boolean comparison with observations of the implementation -------- *)
From Coq Require Import Bool.

Fixpoint leqb (a b : list N) : bool :=
  match a, b with
  | [], [] => true
  | x :: a', y :: b' => N.eqb x y && leqb a' b'
  | _, _ => false
  end.

Definition oleqb (a b : option (list N)) : bool :=
  match a, b with
  | None, None => true
  | Some x, Some y => leqb x y
  | _, _ => false
  end.

(* observed result of ObjectPath.from_string: None = ValueError *)
Definition obs_from := option (option (list N) * option (list N)).

Definition from_agrees (p : list N) (o : obs_from) : bool :=
  match from_stringN p, o with
  | inl _, None => true
  | inr (g, c), Some (g', c') => oleqb g g' && oleqb c c'
  | _, _ => false
  end.

(* case: (group, channel, observed str(ObjectPath(g,c)), observed from_string of it) *)
Definition check_pair (c : option (list N) * option (list N) * list N * obs_from) : bool :=
  let '(g, ch, p, o) := c in
  leqb (to_pathN g ch) p && from_agrees p o.

(* case: (raw path string, observed from_string) *)
Definition check_raw (c : list N * obs_from) : bool :=
  let '(p, o) := c in from_agrees p o.
