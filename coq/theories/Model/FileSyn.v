(* Syntax of a whole TDMS file, its canonical serialiser, and the reader's
   metadata pass stated directly on the syntax ([sm_run]: no bytes, positions
   computed arithmetically).  Proofs/FileSynProofs.v shows that reading the
   serialised bytes (Model/Reader.v rd_metadata) IS sm_run on the syntax, which
   is what lets the theorems about the state machine speak about files. *)
From Coq Require Import List ZArith Bool.
From Coq Require Import Init.Byte.
Import ListNotations.
From NpTdms Require Import Base.Bytes Base.Res Model.Tokens Model.SegState Model.Layout Model.Reader.
Local Open Scope Z_scope.

Record fseg := mkFseg {
  fs_toc : Z;                       (* ToC mask; bit 1 (metadata) must agree with fs_meta *)
  fs_version : Z;
  fs_meta : option (list entry);    (* None: no metadata block *)
  fs_data : bytes }.                (* raw data block *)

Definition fs_meta_bytes (s : fseg) : bytes :=
  match fs_meta s with
  | Some es => ser_metadata (toc_endian (fs_toc s)) es
  | None => []
  end.

(* next segment offset and raw data offset are exact *)
Definition ser_seg (tag : bytes) (with_data : bool) (s : fseg) : bytes :=
  let m := fs_meta_bytes s in
  ser_leadin (mkLeadin tag (fs_toc s) (fs_version s) (blen m + blen (fs_data s)) (blen m))
  ++ m ++ (if with_data then fs_data s else []).

Definition ser_file (segs : list fseg) : bytes := flat_map (ser_seg TAG_DATA true) segs.

(* the matching index file: raw data removed, tag replaced *)
Definition ser_index (segs : list fseg) : bytes := flat_map (ser_seg TAG_INDEX false) segs.

(* the metadata pass on syntax *)
Fixpoint sm_loop (segs : list fseg) (want_index : bool) (seg_pos : Z)
         (prev_seg : option (list sobj)) (prev_index : alist nat) (st : rstate) : res rstate :=
  match segs with
  | [] => Ok st
  | s :: r =>
    let toc := fs_toc s in
    let ver := match rs_version st with Some v => Some v | None => Some (fs_version s) end in
    let st := mkRstate (rs_segments st) (rs_prev_objs st) (rs_om st) (rs_cache st) ver in
    let dp := seg_pos + 28 + blen (fs_meta_bytes s) in
    let np := dp + blen (fs_data s) in
    do '(objs, props) <- read_segment_objects toc (fs_meta s) (rs_prev_objs st) prev_seg;
    let '(idx, cache) :=
        match fs_meta s with
        | None => (prev_index, rs_cache st)
        | Some _ => if want_index then get_index (rs_cache st) objs else ([], rs_cache st)
        end in
    do '(nch, fin) <- calculate_chunks toc false objs (np - dp);
    do '(po, om) <- update_object_metadata objs nch fin (rs_prev_objs st) (rs_om st);
    let om' := update_object_properties props om in
    let seg := mkSeg seg_pos toc np dp false objs idx nch fin in
    sm_loop r want_index np (Some objs) idx
            (mkRstate (rs_segments st ++ [seg]) po om' cache ver)
  end.

Definition sm_run (segs : list fseg) (want_index : bool) : res rstate :=
  sm_loop segs want_index 0 None [] rstate0.
