(* An independent strict structural parser for TDMS byte streams of the shape
   TdmsWriter emits (one chunk per segment, metadata and a new object list in
   every segment, contiguous data, no DAQmx).  It checks what npTDMS's own
   reader ignores:

   - the lead-in tag, the version (4712/4713) and the ToC shape;
   - raw_data_offset <= next_segment_offset and the segment lies inside the file;
   - the metadata block parses to exactly raw_data_offset bytes with nothing
     left over, and is the canonical serialisation of what was parsed (so every
     length field in it - paths, property names, string values, counts - equals
     the bytes that follow it);
   - every raw data index has dimension 1 and a length field equal to the bytes
     of index that follow it: 20, or 28 for strings (which carry a total size);
   - the raw data is exactly what the declared types and counts imply
     (strings: n cumulative u32 end offsets, non-decreasing, then the bytes;
     declared total = 4 n + sum of lengths), with nothing left over, so
     next_segment_offset = metadata length + raw data length;
   - object paths are canonical, no path occurs twice in a segment, the first
     segment declares the root object "/", and each channel's group object is
     declared in an earlier segment or earlier in the same segment.

   The result is the syntax of every segment: lead-in, metadata entries, and
   the values of every object (canonical little-endian value bytes; strings:
   their bytes). *)

From Coq Require Import List ZArith Bool.
From Coq Require Import Init.Byte.
Import ListNotations.
From NpTdms Require Import Base.Bytes Base.Res Model.Tokens Model.ByteStr.
Local Open Scope Z_scope.

Record segsyn := mkSeg {
  sg_leadin : leadin;
  sg_entries : list entry;
  sg_values : list (list bytes) }.    (* one list per entry, [] for objects without data *)

Definition TAG_DATA : bytes := [x54; x44; x53; x6d].   (* "TDSm" *)
Definition TAG_INDEX : bytes := [x54; x44; x53; x68].  (* "TDSh" *)

(* channel data types of fixed size *)
Definition sized_type (dt : Z) : option Z :=
  if has_nptype dt || (dt =? T_TIME) then
    match tds_size dt with Some (Some k) => Some k | _ => None end
  else None.

(* total size of string data: 4 bytes of offset plus the bytes, per string *)
Fixpoint string_total (vals : list bytes) : Z :=
  match vals with
  | [] => 0
  | s :: r => 4 + blen s + string_total r
  end.

(* ---- raw data -> values ---------------------------------------------------- *)

Definition get_value (e : endian) (dt k : Z) (bs : bytes) : res (bytes * bytes) :=
  do '(x, r) <- get_exact k bs; Ok (canon_value e dt x, r).

(* the strings addressed by cumulative end offsets, starting at [prev] *)
Fixpoint cut_strings (prev : Z) (offs : list Z) (bs : bytes) : res (list bytes * bytes) :=
  match offs with
  | [] => Ok ([], bs)
  | o :: r =>
    if o <? prev then Err EValue
    else
      do '(s, bs1) <- get_exact (o - prev) bs;
      do '(ss, bs2) <- cut_strings o r bs1;
      Ok (s :: ss, bs2)
  end.

Definition parse_obj_raw (e : endian) (i : idx) (raw : bytes) : res (list bytes * bytes) :=
  match i with
  | INoData => Ok ([], raw)
  | IFull _ dt _ n total =>
    if dt =? T_STRING then
      do '(offs, r1) <- parse_n (get_u32 e) n raw;
      do '(ss, r2) <- cut_strings 0 offs r1;
      match total with
      | Some t => if t =? blen raw - blen r2 then Ok (ss, r2) else Err EValue
      | None => Err EValue
      end
    else
      match sized_type dt with
      | Some k => parse_n (get_value e dt k) n raw
      | None => Err EValue
      end
  | _ => Err ENotImpl
  end.

Fixpoint parse_raw (e : endian) (es : list entry) (raw : bytes) : res (list (list bytes) * bytes) :=
  match es with
  | [] => Ok ([], raw)
  | x :: r =>
    do '(vals, raw1) <- parse_obj_raw e (e_idx x) raw;
    do '(vs, raw2) <- parse_raw e r raw1;
    Ok (vals :: vs, raw2)
  end.

(* ---- one segment: positions -------------------------------------------------- *)

Definition parse_segment (bs : bytes) : res (segsyn * bytes) :=
  if blen bs <? 28 then Err EStruct else
  do l <- parse_leadin (take 28 bs);
  let e := toc_endian (l_toc l) in
  if negb ((l_raw l <=? l_next l) && (28 + l_next l <=? blen bs)) then Err EValue else
  let meta := take (l_raw l) (drop 28 bs) in
  do '(es, mleft) <- parse_metadata e meta;
  match mleft with
  | _ :: _ => Err EValue                       (* metadata shorter than raw_data_offset *)
  | [] =>
    if negb (bytes_eqb (ser_metadata e es) meta) then Err EValue else
    let raw := take (l_next l - l_raw l) (drop (28 + l_raw l) bs) in
    do '(vals, rleft) <- parse_raw e es raw;
    match rleft with
    | _ :: _ => Err EValue                     (* more raw data than declared *)
    | [] => Ok (mkSeg l es vals, drop (28 + l_next l) bs)
    end
  end.

Fixpoint parse_segments (fuel : nat) (bs : bytes) : res (list segsyn) :=
  match bs with
  | [] => Ok []
  | _ :: _ =>
    match fuel with
    | O => Err EFuel
    | S f =>
      do '(s, rest) <- parse_segment bs;
      do ss <- parse_segments f rest;
      Ok (s :: ss)
    end
  end.

(* ---- one segment: consistency of the parsed syntax -------------------------- *)

Definition toc_ok (toc : Z) : bool :=
  toc_has toc TOC_META && toc_has toc TOC_NEWLIST &&
  negb (toc_has toc TOC_INTERLEAVED) && negb (toc_has toc TOC_DAQMX) &&
  (Z.land toc (Z.lnot (TOC_META + TOC_NEWLIST + TOC_RAW + TOC_BIGENDIAN)) =? 0).

Definition version_ok (v : Z) : bool := (v =? 4712) || (v =? 4713).

Definition idx_ok (i : idx) (vals : list bytes) : bool :=
  match i with
  | INoData => match vals with [] => true | _ => false end
  | IFull lf dt dim n total =>
    (dim =? 1) && (n =? Z.of_nat (length vals)) &&
    if dt =? T_STRING then
      (lf =? 28) && match total with Some t => t =? string_total vals | None => false end
    else
      (lf =? 20) && match total with None => true | Some _ => false end &&
      match sized_type dt with
      | Some k => forallb (fun v => blen v =? k) vals
      | None => false
      end
  | _ => false
  end.

Fixpoint idxs_ok (es : list entry) (vs : list (list bytes)) : bool :=
  match es, vs with
  | [], [] => true
  | x :: r, v :: vr => idx_ok (e_idx x) v && idxs_ok r vr
  | _, _ => false
  end.

(* bytes of raw data an index declares *)
Definition idx_raw_size (i : idx) : Z :=
  match i with
  | IFull _ dt _ n total =>
    if dt =? T_STRING then match total with Some t => t | None => 0 end
    else match sized_type dt with Some k => k * n | None => 0 end
  | _ => 0
  end.

Fixpoint raw_size (es : list entry) : Z :=
  match es with
  | [] => 0
  | x :: r => idx_raw_size (e_idx x) + raw_size r
  end.

(* [declared]: every path declared so far (earlier segments and earlier in this
   one).  Every path is canonical; a channel's group is already declared. *)
Fixpoint order_ok (declared : list bytes) (es : list entry) : bool :=
  match es with
  | [] => true
  | x :: r =>
    let p := e_path x in
    match classify p with
    | Some (KChan g _) => bmem (group_path g) declared
    | Some _ => true
    | None => false
    end &&
    order_ok (p :: declared) r
  end.

Definition seg_ok (first : bool) (declared : list bytes) (s : segsyn) : bool :=
  let l := sg_leadin s in
  let e := toc_endian (l_toc l) in
  bytes_eqb (l_tag l) TAG_DATA && version_ok (l_version l) && toc_ok (l_toc l) &&
  (l_raw l =? blen (ser_metadata e (sg_entries s))) &&
  (l_next l =? l_raw l + raw_size (sg_entries s)) &&
  (toc_has (l_toc l) TOC_RAW || (raw_size (sg_entries s) =? 0)) &&
  idxs_ok (sg_entries s) (sg_values s) &&
  negb (has_dup (map e_path (sg_entries s))) &&
  order_ok declared (sg_entries s) &&
  (negb first || bmem ROOT_PATH (map e_path (sg_entries s))).

Fixpoint segs_ok (first : bool) (declared : list bytes) (segs : list segsyn) : bool :=
  match segs with
  | [] => true
  | s :: r =>
    seg_ok first declared s &&
    segs_ok false (rev (map e_path (sg_entries s)) ++ declared) r
  end.

Definition strict_parse (bs : bytes) : option (list segsyn) :=
  match parse_segments (length bs) bs with
  | Ok segs => if segs_ok true [] segs then Some segs else None
  | Err _ => None
  end.

(* ---- the index twin: raw data removed, tag replaced -------------------------- *)

Fixpoint strip_fuel (fuel : nat) (bs : bytes) : res bytes :=
  match bs with
  | [] => Ok []
  | _ :: _ =>
    match fuel with
    | O => Err EFuel
    | S f =>
      if blen bs <? 28 then Err EStruct else
      do l <- parse_leadin (take 28 bs);
      if negb ((l_raw l <=? l_next l) && (28 + l_next l <=? blen bs)) then Err EValue else
      do rest <- strip_fuel f (drop (28 + l_next l) bs);
      Ok (TAG_INDEX ++ take 24 (drop 4 bs) ++ take (l_raw l) (drop 28 bs) ++ rest)
    end
  end.

Definition strip_raw_and_retag (bs : bytes) : option bytes :=
  match strip_fuel (length bs) bs with Ok x => Some x | Err _ => None end.

(* ---- canonical serialiser of the strict syntax (used by the theorems) -------- *)

Fixpoint string_offsets (e : endian) (off : Z) (vals : list bytes) : bytes :=
  match vals with
  | [] => []
  | s :: r => put_u32 e (off + blen s) ++ string_offsets e (off + blen s) r
  end.

Definition ser_obj_raw (e : endian) (i : idx) (vals : list bytes) : bytes :=
  match i with
  | IFull _ dt _ _ _ =>
    if dt =? T_STRING then string_offsets e 0 vals ++ concat vals
    else flat_map (store_value e dt) vals
  | _ => []
  end.

Fixpoint ser_raw (e : endian) (es : list entry) (vs : list (list bytes)) : bytes :=
  match es, vs with
  | x :: r, v :: vr => ser_obj_raw e (e_idx x) v ++ ser_raw e r vr
  | _, _ => []
  end.

Definition ser_segment (s : segsyn) : bytes :=
  let e := toc_endian (l_toc (sg_leadin s)) in
  ser_leadin (sg_leadin s) ++ ser_metadata e (sg_entries s) ++
  ser_raw e (sg_entries s) (sg_values s).

Definition retag (l : leadin) : leadin :=
  mkLeadin TAG_INDEX (l_toc l) (l_version l) (l_next l) (l_raw l).

Definition ser_index_segment (s : segsyn) : bytes :=
  let e := toc_endian (l_toc (sg_leadin s)) in
  ser_leadin (retag (sg_leadin s)) ++ ser_metadata e (sg_entries s).
