(* Model/ThermoF.v -- executable binary64 (PrimFloat) model of nptdms/thermocouples.py
   and of ThermocoupleScaling.scale (nptdms/scaling.py), function by function.

   The comparisons of Range.within_range and the condition of the exponential
   term are NOT written here: they come from Gen/ThermoTables.v (wrF_*,
   exp_condF), translated from the source on every run.

   PrimFloat has no exp, so the type-K exponential term itself is only
   modelled over R (Model/ThermoR.v); here celsius_to_mv_poly is the value
   `voltage` the code holds before that term is added.  No proofs in this file. *)
From Coq Require Import PrimFloat Uint63 ZArith List Bool.
Import ListNotations.
From NpTdms Require Import Gen.ThermoTables.

Inductive err : Set :=
| ValueError   (* Range.__init__, _verify_contiguous *)
| IndexError.  (* polyval on an empty coefficient array: c[-1] *)

Inductive res (A : Type) : Type := Ok (a : A) | Err (e : err).
Arguments Ok {A} a.
Arguments Err {A} e.

Definition bind {A B} (r : res A) (f : A -> res B) : res B :=
  match r with Ok a => f a | Err e => Err e end.

(* class Range: "A range with inclusive start and exclusive end" *)
Inductive range : Set :=
| REnd (e : float)          (* start is None *)
| RStart (s : float)        (* end is None *)
| RBoth (s e : float).

(* Range.__init__:
     if start is None and end is None: raise ValueError
     if start is not None and end is not None and start >= end: raise ValueError *)
Definition mk_range (s e : option float) : res range :=
  match s, e with
  | None, None => Err ValueError
  | None, Some e => Ok (REnd e)
  | Some s, None => Ok (RStart s)
  | Some s, Some e => if (e <=? s)%float then Err ValueError else Ok (RBoth s e)
  end.

Definition range_start (r : range) : option float :=
  match r with REnd _ => None | RStart s => Some s | RBoth s _ => Some s end.
Definition range_end (r : range) : option float :=
  match r with REnd e => Some e | RStart _ => None | RBoth _ e => Some e end.

(* Range.within_range (the three returns are the generated comparisons) *)
Definition within_range (r : range) (value : float) : bool :=
  match r with
  | REnd e => wrF_end_only value e
  | RStart s => wrF_start_only s value
  | RBoth s e => wrF_both s e value
  end.

(* class Polynomial *)
Record polynomial : Set := { applicable_range : range; coefficients : list float }.

(* numpy.polynomial.polynomial.polyval(x, c), scalar x, 1-d c:
     c0 = c[-1] + x*0
     for i in range(2, len(c) + 1): c0 = c[-i] + c0*x
   written as a recursion from c[0]:  horner c0 [c1..cn] x = c0 + (horner c1 [c2..cn] x) * x,
   horner cn [] x = cn + x*0 -- the same operations in the same order. *)
Fixpoint horner (c : float) (cs : list float) (x : float) : float :=
  match cs with
  | [] => (c + x * 0)%float
  | c' :: r => (c + horner c' r x * x)%float
  end.

Definition polyval (x : float) (c : list float) : res float :=
  match c with [] => Err IndexError | c0 :: cs => Ok (horner c0 cs x) end.

(* Polynomial.apply *)
Definition apply (p : polynomial) (x : float) : res float := polyval x (coefficients p).

(* _verify_contiguous(polynomials):
     prev_end = None
     for polynomial in polynomials:
         if prev_end is not None and polynomial.applicable_range.start != prev_end: raise ValueError
         prev_end = polynomial.applicable_range.end
   (None != number is True in Python) *)
Fixpoint verify_contiguous (prev_end : option float) (ps : list polynomial) : bool :=
  match ps with
  | [] => true
  | p :: rest =>
    (match prev_end with
     | None => true
     | Some pe => match range_start (applicable_range p) with
                  | None => false
                  | Some s => (s =? pe)%float
                  end
     end) && verify_contiguous (range_end (applicable_range p)) rest
  end.

(* the literal  Polynomial(applicable_range=Range(a, b), coefficients=[...])  *)
Definition mk_polynomial (raw : pieceF) : res polynomial :=
  let '(s, e, cs) := raw in
  bind (mk_range s e) (fun r => Ok {| applicable_range := r; coefficients := cs |}).

Fixpoint mk_polynomials (raw : list pieceF) : res (list polynomial) :=
  match raw with
  | [] => Ok []
  | p :: rest => bind (mk_polynomial p) (fun p' => bind (mk_polynomials rest) (fun r => Ok (p' :: r)))
  end.

(* class Thermocouple *)
Record thermocouple : Set := {
  forward_polynomials : list polynomial;
  inverse_polynomials : list polynomial;
  exponential_term : option (float * float * float) }.

(* Thermocouple.__init__ applied to the literal arguments *)
Definition mk_thermocouple (fwd inv : list pieceF) (e : option (float * float * float)) : res thermocouple :=
  bind (mk_polynomials fwd) (fun f =>
  bind (mk_polynomials inv) (fun i =>
  if negb (verify_contiguous None f) then Err ValueError
  else if negb (verify_contiguous None i) then Err ValueError
  else Ok {| forward_polynomials := f; inverse_polynomials := i; exponential_term := e |})).

(* np.piecewise(x, conditions, functions + [nan]) for one element x:
     y = 0; for each (cond, f): if cond: y = f(x)      -- later pieces overwrite earlier ones
     if no cond holds: y = nan
   `sel` remembers whether any condition held. *)
Fixpoint piecewise_go (x : float) (ps : list polynomial) (y : float) (sel : bool) : res float :=
  match ps with
  | [] => Ok (if sel then y else nan)
  | p :: rest =>
    if within_range (applicable_range p) x
    then bind (apply p x) (fun v => piecewise_go x rest v true)
    else piecewise_go x rest y sel
  end.

Definition piecewise (x : float) (ps : list polynomial) : res float := piecewise_go x ps 0%float false.

(* Thermocouple.celsius_to_mv up to `voltage = np.piecewise(...)`; when exponential_term is None
   this is the returned value; otherwise the code adds
     np.piecewise(temperature, [exp_cond], [lambda t: a_0*np.exp(a_1*np.square(t - a_2)), 0.0]) *)
Definition celsius_to_mv_poly (tc : thermocouple) (temperature : float) : res float :=
  piecewise temperature (forward_polynomials tc).

(* Thermocouple.mv_to_celsius *)
Definition mv_to_celsius (tc : thermocouple) (voltage : float) : res float :=
  piecewise voltage (inverse_polynomials tc).

(* Result of celsius_to_mv.  PrimFloat has no exp, so where the exponential term is
   switched on the model returns its two summands unevaluated:
     PlusExp v (a_0, a_1, a_2) t   stands for   v + a_0*np.exp(a_1*np.square(t - a_2)). *)
Inductive fwd_result : Set :=
| Exact (v : float)
| PlusExp (v : float) (a : float * float * float) (t : float).

(* Thermocouple.celsius_to_mv:
     if self._exponential_term is None: return voltage
     return voltage + np.piecewise(temperature, [exp_cond], [lambda t: ..., 0.0]) *)
Definition celsius_to_mv (tc : thermocouple) (temperature : float) : res fwd_result :=
  bind (celsius_to_mv_poly tc temperature) (fun v =>
  match exponential_term tc with
  | None => Ok (Exact v)
  | Some a => if exp_condF temperature then Ok (PlusExp v a temperature) else Ok (Exact (v + 0)%float)
  end).

(* ThermocoupleScaling.scale:
     if self.scaling_direction == 1: return 1000.0 * self.thermocouple.celsius_to_mv(data)
     else: milli_volts = data / 1000.0; return self.thermocouple.mv_to_celsius(milli_volts)
   `c2mv` is the float celsius_to_mv returned (the correspondence passes the observed value
   where the exponential term is on, and the model's own Exact value elsewhere). *)
Definition scale (tc : thermocouple) (scaling_direction : Z) (c2mv : float -> res float) (data : float)
  : res float :=
  if Z.eqb scaling_direction 1
  then bind (c2mv data) (fun mv => Ok (1000 * mv)%float)
  else mv_to_celsius tc (data / 1000)%float.

(* the eight module-level objects *)
Definition type_tc (T : tctype) : res thermocouple :=
  mk_thermocouple (code_fwdF T) (code_invF T) (code_expF T).

(* number of pieces whose condition holds (the coverage theorem is about this) *)
Definition count_selected (ps : list polynomial) (x : float) : nat :=
  length (filter (fun p => within_range (applicable_range p) x) ps).
