(* The textbook meaning of a TDMS file that may hold DAQmx raw data: a
   SPECIFICATION, not a model of the code.  Model/Spec.v's rules, plus the rules for
   DAQmx raw data indexes.  Nothing here refers to how npTDMS works (no positions, no
   index maps, no caches, no segment records, no decoder loops).  Used from the other
   files: what Spec.v uses (syntax, tds_size, byte helpers, tokens, Spec.v's own
   definitions for ordinary data) and the TABLE of DAQmx scaler type codes
   SegState.daqmx_type (nptdms.daqmx.DAQMX_TYPES).
   Props/C11_spec.v proves that the reader model refines this specification and that
   on files without DAQmx indexes it is Spec.v's.

   THE ADDITIONAL RULES.
   A DAQmx raw data index (format-changing scalers 0x1269 / digital lines 0x126A)
   declares for its object: the data type, the number n of values per chunk, the list
   of raw buffer WIDTHS (bytes per row of each raw buffer of a chunk), and a list of
   SCALERS, each with a DAQmx type code, the raw buffer it lives in, its byte offset in
   a row (digital lines: bit offset) and a scale id.  It is accepted when the dimension
   is 1, the data type and all scaler type codes are known, and the data type is either
   DaqMxRawData (the channel then holds, per scale id, that scaler's values) or the type
   of the object's ONLY scaler (the channel then holds that scaler's values as its
   data).  Like a full index it becomes the object's most recent index ("same as
   before" re-uses it); a different data type is an error, and so is a scale id -> type
   map different from the one the object's earlier DAQmx indexes declared.
   Raw data: the objects with data of a segment are either all ordinary (Spec.v's
   rules) or all DAQmx objects.  In the second case they must declare the SAME widths;
   raw buffer k has rows_k = the largest n among the objects with a scaler in buffer k
   (every such object must have exactly that n); a chunk is the raw buffers one after
   another, sum_k rows_k * width_k bytes, and the block is a whole number of chunks.
   Value i (0 <= i < n) of a scaler in chunk j is the value of the scaler's type stored
   at byte
        j * chunk + base_k + i * width_k + offset        (base_k = sum_{k' < k} rows_k' * width_k')
   in the segment's byte order -- for digital lines: bit (offset mod 8) of the value at
   byte offset / 8 of the row, as 0 / 1 in the scaler's type.  The scaler's bytes must
   lie inside the row and the scale ids of one object must be distinct.  Values are
   appended in file order; len(channel) grows by n per chunk (by the number of values
   added, for ordinary data). *)
From Coq Require Import List ZArith Bool.
From Coq Require Import Init.Byte.
Import ListNotations.
From NpTdms Require Import Base.Bytes Model.Tokens Model.SegState Model.Reader Model.FileSyn Model.Spec.
Local Open Scope Z_scope.

(* ---- raw data indexes ------------------------------------------------------------- *)

Record dqidx := mkDqi {
  qi_kind : Z;                  (* 0x1269 format changing / 0x126A digital line *)
  qi_dt : Z;                    (* data type of the channel *)
  qi_n : Z;                     (* values per chunk *)
  qi_scalers : list scaler;
  qi_widths : list Z }.         (* bytes per row of each raw buffer *)

Inductive gidx := GP (i : rawidx) | GQ (q : dqidx).

Definition gi_dt (i : gidx) : Z := match i with GP i => ri_dt i | GQ q => qi_dt q end.

Definition scaler_dt (s : scaler) : option Z := daqmx_type (sc_type s).

Definition dq_index_of (kind dt dim n : Z) (scalers : list scaler) (widths : list Z) : option dqidx :=
  if negb (dim =? 1) then None
  else match tds_size dt with
       | None => None
       | Some _ =>
         if negb (forallb (fun s => match scaler_dt s with Some _ => true | None => false end) scalers)
         then None
         else if (dt =? T_DAQMX) ||
                 match scalers with
                 | [s] => match scaler_dt s with Some t => t =? dt | None => false end
                 | _ => false
                 end
              then Some (mkDqi kind dt n scalers widths)
              else None
       end.

(* scale id -> data type; a later scaler with the same id replaces an earlier one *)
Fixpoint zput (k v : Z) (l : list (Z * Z)) : list (Z * Z) :=
  match l with
  | [] => [(k, v)]
  | (k', v') :: r => if k =? k' then (k', v) :: r else (k', v') :: zput k v r
  end.

Definition type_map (scalers : list scaler) : list (Z * Z) :=
  fold_left (fun acc s => zput (sc_id s) (match scaler_dt s with Some t => t | None => -1 end) acc)
            scalers [].

Definition map_sub (a b : list (Z * Z)) : bool :=
  forallb (fun kv => existsb (fun kv' => (fst kv =? fst kv') && (snd kv =? snd kv')) b) a.

Definition same_map (a b : list (Z * Z)) : bool := map_sub a b && map_sub b a.

(* ---- content ------------------------------------------------------------------------ *)

Record dcobj := mkDc {
  d_props : dict prop;
  d_dtype : option Z;
  d_vals : list bytes;                   (* data of a channel whose type is not DaqMxRawData *)
  d_types : option (list (Z * Z));       (* scale id -> type, once the object had a DAQmx index *)
  d_len : Z;                             (* len(channel): values / samples received so far *)
  d_svals : list (Z * list bytes) }.     (* DaqMxRawData channel: scale id -> values *)

Definition dcobj0 := mkDc [] None [] None 0 [].

Record dcontent := mkDcontent { dc_version : Z; dc_objs : dict dcobj }.

Record dstate := mkDstate {
  dactive : dict (option gidx);
  dlast : dict gidx;
  dobjs : dict dcobj }.

Definition dstate0 := mkDstate [] [] [].

(* ---- metadata ------------------------------------------------------------------------- *)

Definition type_ok (st : dstate) (p : bytes) (dt : Z) : bool :=
  match get p (dlast st) with Some i' => gi_dt i' =? dt | None => true end.

Definition types_ok (st : dstate) (p : bytes) (scalers : list scaler) : bool :=
  match get p (dobjs st) with
  | Some o => match d_types o with Some t0 => same_map t0 (type_map scalers) | None => true end
  | None => true
  end.

Definition apply_entry_dq (st : dstate) (x : entry) : spec_res dstate :=
  let p := e_path x in
  let upd (a : option gidx) (lst : dict gidx) :=
      SOk (mkDstate (put p a (dactive st)) lst (dobjs st)) in
  match e_idx x with
  | INoData => upd None (dlast st)
  | IMatchPrev =>
    match get p (dlast st), get p (dobjs st) with
    | Some i, _ => upd (Some i) (dlast st)
    | None, Some _ => SErr MatchPrevNeverIndexed
    | None, None => SErr MatchPrevUndefined
    end
  | IFull _ dt dim n total =>
    match index_of dt dim n total with
    | None => SErr UnsupportedIndex
    | Some i => if type_ok st p dt then upd (Some (GP i)) (put p (GP i) (dlast st)) else SErr TypeChange
    end
  | IDaqmx kind dt dim n scalers widths =>
    match dq_index_of kind dt dim n scalers widths with
    | None => SErr UnsupportedIndex
    | Some q => if type_ok st p dt && types_ok st p scalers
                then upd (Some (GQ q)) (put p (GQ q) (dlast st)) else SErr TypeChange
    end
  end.

Fixpoint apply_entries_dq (st : dstate) (es : list entry) : spec_res dstate :=
  match es with
  | [] => SOk st
  | x :: r => sdo st' <- apply_entry_dq st x; apply_entries_dq st' r
  end.

(* an active object is part of the content; data type and scale id -> type map are
   those of its most recent index *)
Definition touch_dq (lst : dict gidx) (c : dict dcobj) (p : bytes) : dict dcobj :=
  let o := match get p c with Some o => o | None => dcobj0 end in
  put p (mkDc (d_props o) (option_map gi_dt (get p lst)) (d_vals o)
              (match get p lst with Some (GQ q) => Some (type_map (qi_scalers q)) | _ => d_types o end)
              (d_len o) (d_svals o)) c.

Definition set_props_dq (c : dict dcobj) (x : entry) : dict dcobj :=
  match get (e_path x) c with
  | Some o => put (e_path x)
                  (mkDc (fold_left (fun ps pr => put (p_name pr) pr ps) (e_props x) (d_props o))
                        (d_dtype o) (d_vals o) (d_types o) (d_len o) (d_svals o)) c
  | None => c
  end.

Definition apply_metadata_dq (first : bool) (st : dstate) (s : fseg) : spec_res dstate :=
  sdo st1 <- match fs_meta s with
             | None => if first then SErr FirstWithoutMetadata else SOk st
             | Some es =>
               apply_entries_dq (if toc_has (fs_toc s) TOC_NEWLIST
                                 then mkDstate [] (dlast st) (dobjs st) else st) es
             end;
  let c1 := fold_left (touch_dq (dlast st1)) (map fst (dactive st1)) (dobjs st1) in
  let c2 := fold_left set_props_dq (match fs_meta s with Some es => es | None => [] end) c1 in
  SOk (mkDstate (dactive st1) (dlast st1) c2).

(* ---- raw data: the objects with data ---------------------------------------------------- *)

Definition data_objects_dq (act : dict (option gidx)) : list (bytes * gidx) :=
  flat_map (fun pa => match snd pa with Some i => [(fst pa, i)] | None => [] end) act.

(* all ordinary / all DAQmx *)
Fixpoint plain_part (l : list (bytes * gidx)) : option (list (bytes * rawidx)) :=
  match l with
  | [] => Some []
  | (p, GP i) :: r => option_map (cons (p, i)) (plain_part r)
  | (_, GQ _) :: _ => None
  end.

Fixpoint daq_part (l : list (bytes * gidx)) : option (list (bytes * dqidx)) :=
  match l with
  | [] => Some []
  | (p, GQ q) :: r => option_map (cons (p, q)) (daq_part r)
  | (_, GP _) :: _ => None
  end.

(* ordinary data: Spec.v's decode_data; one chunk's values go to their objects *)
Definition add_values_dq (c : dict dcobj) (pv : bytes * list bytes) : dict dcobj :=
  match get (fst pv) c with
  | Some o => put (fst pv) (mkDc (d_props o) (d_dtype o) (d_vals o ++ snd pv) (d_types o)
                                 (d_len o + Z.of_nat (length (snd pv))) (d_svals o)) c
  | None => c
  end.

Definition add_chunk_dq (pobjs : list (bytes * rawidx)) (c : dict dcobj) (vss : list (list bytes))
  : dict dcobj :=
  fold_left add_values_dq (combine (map fst pobjs) vss) c.

(* ---- raw data: DAQmx ------------------------------------------------------------------------ *)

Definition q_widths (qobjs : list (bytes * dqidx)) : list Z :=
  match qobjs with (_, q) :: _ => qi_widths q | [] => [] end.

Definition q_uses (q : dqidx) (k : Z) : bool := existsb (fun s => sc_buf s =? k) (qi_scalers q).

(* rows of raw buffer k *)
Definition q_rows (qobjs : list (bytes * dqidx)) (k : Z) : Z :=
  fold_right (fun o acc => if q_uses (snd o) k then Z.max (qi_n (snd o)) acc else acc) 0 qobjs.

Fixpoint q_dims_from (k : Z) (qobjs : list (bytes * dqidx)) (widths : list Z) : list (Z * Z) :=
  match widths with
  | [] => []
  | w :: r => (q_rows qobjs k, w) :: q_dims_from (k + 1) qobjs r
  end.

(* (rows, width) of every raw buffer *)
Definition q_dims (qobjs : list (bytes * dqidx)) : list (Z * Z) := q_dims_from 0 qobjs (q_widths qobjs).

Definition q_chunk (dims : list (Z * Z)) : Z := sum_z (map (fun d => snd d * fst d) dims).
Definition q_base (dims : list (Z * Z)) (k : nat) : Z := sum_z (map (fun d => snd d * fst d) (firstn k dims)).

(* bit [bit] of a little-endian value, as 0 / 1 of the same width *)
Definition the_bit (bit : Z) (v : bytes) : bytes := le_enc (length v) (Z.land (Z.shiftr (le_dec v) bit) 1).

(* the value of scaler s (type dt, sz bytes) in the row that starts at byte [row] *)
Definition q_value (e : endian) (kind : Z) (s : scaler) (dt sz row : Z) (d : bytes) : bytes :=
  if kind =? DIGITAL_LINE_SCALER
  then the_bit (sc_off s mod 8) (canon_value e dt (read_at (row + sc_off s / 8) sz d))
  else canon_value e dt (read_at (row + sc_off s) sz d).

(* the values of scaler s in chunk j *)
Definition q_scaler_values (e : endian) (kind : Z) (dims : list (Z * Z)) (d : bytes) (j : nat) (s : scaler)
  : list bytes :=
  match nth_error dims (Z.to_nat (sc_buf s)), scaler_dt s with
  | Some (n, w), Some dt =>
    match type_size dt with
    | Some sz =>
      map (fun i => q_value e kind s dt sz
                            (Z.of_nat j * q_chunk dims + q_base dims (Z.to_nat (sc_buf s)) + Z.of_nat i * w) d)
          (seq 0 (Z.to_nat n))
    | None => []
    end
  | _, _ => []
  end.

Fixpoint zs_eqb (a b : list Z) : bool :=
  match a, b with
  | [], [] => true
  | x :: a', y :: b' => (x =? y) && zs_eqb a' b'
  | _, _ => false
  end.

Fixpoint z_nodup (l : list Z) : bool :=
  match l with
  | [] => true
  | x :: r => negb (existsb (Z.eqb x) r) && z_nodup r
  end.

(* scaler s of an object with n values per chunk: sized type, its buffer exists and has
   n rows, its bytes lie inside a row *)
Definition q_scaler_ok (kind n : Z) (dims : list (Z * Z)) (s : scaler) : bool :=
  match scaler_dt s with
  | Some dt =>
    match type_size dt with
    | Some sz =>
      (0 <=? sc_off s) && (0 <=? sc_buf s) &&
      match nth_error dims (Z.to_nat (sc_buf s)) with
      | Some (rows, w) =>
        (rows =? n) && ((if kind =? DIGITAL_LINE_SCALER then sc_off s / 8 else sc_off s) + sz <=? w)
      | None => false
      end
    | None => false
    end
  | None => false
  end.

Definition q_obj_ok (qobjs : list (bytes * dqidx)) (dims : list (Z * Z)) (o : bytes * dqidx) : bool :=
  zs_eqb (qi_widths (snd o)) (q_widths qobjs) &&
  z_nodup (map sc_id (qi_scalers (snd o))) &&
  forallb (q_scaler_ok (qi_kind (snd o)) (qi_n (snd o)) dims) (qi_scalers (snd o)).

Definition q_layout_ok (qobjs : list (bytes * dqidx)) : bool :=
  forallb (fun w => 0 <=? w) (q_widths qobjs) && forallb (q_obj_ok qobjs (q_dims qobjs)) qobjs.

(* number of chunks of a block of [len] bytes *)
Definition q_nchunks (cb len : Z) : spec_res nat :=
  if cb =? 0 then (if len =? 0 then SOk 0%nat else SErr BadRawData)
  else if negb (len mod cb =? 0) then SErr BadRawData
  else SOk (Z.to_nat (len / cb)).

(* append values under a scale id *)
Fixpoint zapp (id : Z) (vs : list bytes) (sv : list (Z * list bytes)) : list (Z * list bytes) :=
  match sv with
  | [] => [(id, vs)]
  | (k, v) :: r => if k =? id then (k, v ++ vs) :: r else (k, v) :: zapp id vs r
  end.

Fixpoint zget (id : Z) (sv : list (Z * list bytes)) : list bytes :=
  match sv with
  | [] => []
  | (k, v) :: r => if k =? id then v else zget id r
  end.

(* what chunk j holds for one object goes to the object *)
Definition add_daq (e : endian) (dims : list (Z * Z)) (d : bytes) (j : nat)
           (c : dict dcobj) (o : bytes * dqidx) : dict dcobj :=
  match get (fst o) c with
  | None => c
  | Some x =>
    let q := snd o in
    let vals s := q_scaler_values e (qi_kind q) dims d j s in
    put (fst o)
        (if qi_dt q =? T_DAQMX
         then mkDc (d_props x) (d_dtype x) (d_vals x) (d_types x) (d_len x + qi_n q)
                   (fold_left (fun sv s => zapp (sc_id s) (vals s) sv) (qi_scalers q) (d_svals x))
         else mkDc (d_props x) (d_dtype x) (d_vals x ++ flat_map vals (qi_scalers q)) (d_types x)
                   (d_len x + qi_n q) (d_svals x))
        c
  end.

Definition add_daq_chunk (e : endian) (qobjs : list (bytes * dqidx)) (dims : list (Z * Z)) (d : bytes)
           (c : dict dcobj) (j : nat) : dict dcobj :=
  fold_left (add_daq e dims d j) qobjs c.

(* ---- the meaning of a file ------------------------------------------------------------------ *)

Definition spec_segment_dq (first : bool) (st : dstate) (s : fseg) : spec_res dstate :=
  sdo st1 <- apply_metadata_dq first st s;
  let withdata := data_objects_dq (dactive st1) in
  match plain_part withdata, daq_part withdata with
  | Some pobjs, _ =>
    sdo css <- decode_data (fs_toc s) pobjs (fs_data s);
    SOk (mkDstate (dactive st1) (dlast st1) (fold_left (add_chunk_dq pobjs) css (dobjs st1)))
  | None, Some qobjs =>
    if negb (q_layout_ok qobjs) then SErr BadLayout
    else
      let dims := q_dims qobjs in
      sdo m <- q_nchunks (q_chunk dims) (blen (fs_data s));
      SOk (mkDstate (dactive st1) (dlast st1)
                    (fold_left (add_daq_chunk (toc_endian (fs_toc s)) qobjs dims (fs_data s))
                               (seq 0 m) (dobjs st1)))
  | None, None => SErr BadLayout       (* ordinary and DAQmx data objects in one segment *)
  end.

Fixpoint spec_segments_dq (first : bool) (st : dstate) (segs : list fseg) : spec_res dstate :=
  match segs with
  | [] => SOk st
  | s :: r => sdo st' <- spec_segment_dq first st s; spec_segments_dq false st' r
  end.

Definition spec_meaning_dq (segs : list fseg) : spec_res dcontent :=
  sdo st <- spec_segments_dq true dstate0 segs;
  SOk (mkDcontent (match segs with s :: _ => fs_version s | [] => 0 end) (dobjs st)).

(* ---- the content as TdmsFile shows it ---------------------------------------------------------- *)

Definition props_of_dq (c : dict dcobj) (p : bytes) : dict prop :=
  match get p c with Some o => d_props o | None => [] end.

Definition group_names_dq (c : dict dcobj) : list bytes :=
  dedup (flat_map (fun po => match parse_path (fst po) with Some [g] => [g] | _ => [] end) c ++
         flat_map (fun po => match parse_path (fst po) with Some [g; _] => [g] | _ => [] end) c).

Definition channels_of_dq (c : dict dcobj) (g : bytes) : list (bytes * bytes * dcobj) :=
  flat_map (fun po => match parse_path (fst po) with
                      | Some [g'; ch] => if beq g g' then [(ch, fst po, snd po)] else []
                      | _ => []
                      end) c.

(* len(channel) *)
Definition channel_len (o : dcobj) : Z := d_len o.

(* scale ids in ascending order *)
Fixpoint insert_id (x : Z * Z) (l : list (Z * Z)) : list (Z * Z) :=
  match l with
  | [] => [x]
  | y :: r => if fst x <=? fst y then x :: l else y :: insert_id x r
  end.
Definition sort_ids (l : list (Z * Z)) : list (Z * Z) := fold_right insert_id [] l.

(* plain data: [0; count; values]; DaqMxRawData: [1; number of scale ids; then per scale id,
   ascending: id; count; values] *)
Definition values_tokens_dq (o : dcobj) : list tok :=
  match d_dtype o with
  | None => [TZ 2]
  | Some dt =>
    if dt =? T_DAQMX then
      match d_types o with
      | Some ts =>
        TZ 1 :: TZ (Z.of_nat (length ts)) ::
        flat_map (fun kv => TZ (fst kv) :: TZ (Z.of_nat (length (zget (fst kv) (d_svals o)))) ::
                               map TB (zget (fst kv) (d_svals o)))
                 (sort_ids ts)
      | None => [TZ 2]
      end
    else TZ 0 :: TZ (Z.of_nat (length (d_vals o))) :: map TB (d_vals o)
  end.

Definition channel_tokens_dq (g : bytes) (ch : bytes * bytes * dcobj) : list tok :=
  let '(name, path, o) := ch in
  TB name :: TB g :: TB path ::
  TZ (match d_dtype o with Some t => t | None => -1 end) :: TZ (channel_len o) ::
  props_tokens (d_props o) ++ values_tokens_dq o.

Definition group_tokens_dq (c : dict dcobj) (g : bytes) : list tok :=
  TB g :: props_tokens (props_of_dq c (path_of [g])) ++
  TZ (Z.of_nat (length (channels_of_dq c g))) :: flat_map (channel_tokens_dq g) (channels_of_dq c g).

Definition hierarchy_tokens_dq (c : dict dcobj) : list tok :=
  props_tokens (props_of_dq c (path_of [])) ++
  TZ (Z.of_nat (length (group_names_dq c))) :: flat_map (group_tokens_dq c) (group_names_dq c).

Definition spec_tokens_dq (c : dcontent) : list tok :=
  TZ (dc_version c) :: hierarchy_tokens_dq (dc_objs c) ++ [TZ 0; TZ 0].

(* ---- the syntactic side conditions (Spec.v's; an index of either kind only under a
   channel path) ----------------------------------------------------------------------------- *)

Definition entry_ok_dq (x : entry) : bool :=
  canonical_path (e_path x) &&
  match e_idx x with
  | IFull _ _ _ _ _ | IDaqmx _ _ _ _ _ _ => is_channel_path (e_path x)
  | _ => true
  end.

Definition seg_ok_dq (s : fseg) : bool :=
  match fs_meta s with
  | None => true
  | Some es => nodup_b (map e_path es) && forallb entry_ok_dq es
  end.

Definition spec_ok_dq (segs : list fseg) : Prop := forallb seg_ok_dq segs = true.

(* ---- files without DAQmx indexes: Spec.v's content, embedded -------------------------------- *)

Definition embed_obj (o : cobj) : dcobj :=
  mkDc (o_props o) (o_dtype o) (o_vals o) None (Z.of_nat (length (o_vals o))) [].

Definition embed (c : content) : dcontent :=
  mkDcontent (c_version c) (map (fun po => (fst po, embed_obj (snd po))) (c_objs c)).

Definition no_daqmx_index (segs : list fseg) : bool :=
  forallb (fun s => match fs_meta s with
                    | None => true
                    | Some es => forallb (fun x => match e_idx x with IDaqmx _ _ _ _ _ _ => false | _ => true end) es
                    end) segs.
