(* Raw data decoders: nptdms/tdms_segment.py (TdmsSegment.read_raw_data,
   _get_data_reader, _have_interleaved_data, ContiguousDataReader._read_data_chunk,
   _get_channel_number_values, InterleavedDataReader.read_data_chunks,
   _read_interleaved_chunks, TdmsSegmentObject.read_values),
   nptdms/base_segment.py (fromfile, read_interleaved_segment_bytes,
   BaseDataReader.read_data_chunks), nptdms/daqmx.py (DaqmxDataReader._read_data_chunk,
   DigitalLineScaler.postprocess_data), nptdms/types.py (String.read_values,
   StructType.from_bytes, TimeStamp.from_bytes).

   Eager reading consumes the file sequentially from the segment's
   data_position; the decoders are therefore consuming functions on the file
   suffix ("cursor"), bounded only by the end of the file, as the code is. *)

From Coq Require Import List ZArith Bool.
From Coq Require Import Init.Byte.
Import ListNotations.
From NpTdms Require Import Base.Bytes Base.Res Model.Tokens Model.SegState.
Local Open Scope Z_scope.

(* the data a chunk holds for one object *)
Inductive cdata :=
| CData (vals : list bytes)                   (* RawChannelDataChunk.data *)
| CScalers (sc : list (Z * list bytes)).      (* RawChannelDataChunk.scaler_data: scale_id -> values *)

Definition chunk := alist cdata.              (* RawDataChunk.channel_data (dict by path) *)

(* complete items of [sz] bytes (buffer[:rounded_bytes] viewed as dtype) *)
Fixpoint items_of (fuel : nat) (sz : Z) (bs : bytes) : list bytes :=
  match fuel with
  | O => []
  | S f => if (blen bs <? sz) || (sz <=? 0) then [] else take sz bs :: items_of f sz (drop sz bs)
  end.
Definition items (sz : Z) (bs : bytes) : list bytes := items_of (length bs) sz bs.

(* String.read_values: n end offsets, then the strings one after another;
   file.read(k) with k < 0 reads to the end of the file *)
Fixpoint read_strings (offsets : list Z) (prev : Z) (cur : bytes) : list bytes * bytes :=
  match offsets with
  | [] => ([], cur)
  | o :: r =>
    let k := o - prev in
    let '(s, cur1) := if k <? 0 then (cur, []) else get_raw k cur in
    let '(ss, cur2) := read_strings r o cur1 in
    (s :: ss, cur2)
  end.

(* TdmsSegmentObject.read_values *)
Definition read_values (e : endian) (o : sobj) (n : Z) (cur : bytes) : res (list bytes * bytes) :=
  match so_dtype o with
  | None => Err EOther
  | Some dt =>
    match tds_size dt with
    | Some (Some sz) =>
      let '(raw, rest) := get_raw (n * sz) cur in
      if has_nptype dt then Ok (map (canon_value e dt) (items sz raw), rest)
      else (* TimeStamp.from_bytes: reshape((-1, 16)) *)
        if negb (blen raw mod sz =? 0) then Err EValue
        else Ok (map (canon_value e dt) (items sz raw), rest)
    | _ =>
      do '(offs, cur1) <- parse_n (get_u32 e) n cur;
      Ok (read_strings offs 0 cur1)
    end
  end.

(* ContiguousDataReader._get_channel_number_values *)
Definition chunk_nvals (o : sobj) (ci nchunks : Z) (final : option (alist Z)) : Z :=
  match final with
  | Some f => if ci =? nchunks - 1
              then match alookup (so_path o) f with Some v => v | None => 0 end
              else so_nvals o
  | None => so_nvals o
  end.

(* ContiguousDataReader._read_data_chunk *)
Fixpoint read_contig_chunk (e : endian) (objs : list sobj) (ci nchunks : Z) (final : option (alist Z))
         (cur : bytes) (acc : chunk) : res (chunk * bytes) :=
  match objs with
  | [] => Ok (acc, cur)
  | o :: r =>
    do '(vs, cur1) <- read_values e o (chunk_nvals o ci nchunks final) cur;
    read_contig_chunk e r ci nchunks final cur1 (aset (so_path o) (CData vs) acc)
  end.

(* combined_data[:, columns].ravel() then from_bytes: one value per row *)
Definition column_values (e : endian) (dt : Z) (rows : list bytes) (off sz : Z) : list bytes :=
  map (fun row => canon_value e dt (take sz (drop off row))) rows.

(* read_interleaved_segment_bytes: rows of [width] bytes, cropped to whole rows *)
Definition read_rows (width nrows : Z) (cur : bytes) : list bytes * bytes :=
  let '(raw, rest) := get_raw (width * nrows) cur in (items width raw, rest).

Fixpoint interleaved_columns (e : endian) (objs : list sobj) (rows : list bytes) (pos : Z) (acc : chunk)
  : res chunk :=
  match objs with
  | [] => Ok acc
  | o :: r =>
    match so_dtype o, sized o with
    | Some dt, Some sz =>
      interleaved_columns e r rows (pos + sz) (aset (so_path o) (CData (column_values e dt rows pos sz)) acc)
    | _, _ => Err EOther
    end
  end.

(* InterleavedDataReader.read_data_chunks: a single chunk for the whole segment *)
Definition read_interleaved (e : endian) (objs : list sobj) (nchunks : Z) (cur : bytes)
  : res (list chunk * bytes) :=
  match objs with
  | [] => Ok ([], cur)
  | o0 :: _ =>
    if negb (forallb (fun o => so_nvals o =? so_nvals o0) objs) then Err EValue
    else
      let width := zsum (map (fun o => match sized o with Some s => s | None => 0 end) objs) in
      let '(rows, rest) := read_rows width (so_nvals o0 * nchunks) cur in
      do c <- interleaved_columns e objs rows 0 [];
      Ok ([c], rest)
  end.

(* DigitalLineScaler.postprocess_data on a little-endian value *)
Definition digital_bit (bit : Z) (v : bytes) : bytes :=
  le_enc (length v) (Z.shiftr (Z.land (le_dec v) (Z.shiftl 1 bit)) bit).

Definition scaler_values (e : endian) (kind : Z) (s : scaler) (rows : list bytes) (width : Z)
  : res (list bytes) :=
  match daqmx_type (sc_type s) with
  | None => Err EKey
  | Some dt =>
    match tds_size dt with
    | Some (Some sz) =>
      let off := if kind =? DIGITAL_LINE_SCALER then sc_off s / 8 else sc_off s in
      (* numpy fancy indexing: a column outside the row raises IndexError
         (only evaluated when there is at least... always evaluated) *)
      if (width <? off + sz) then Err EIndex
      else
        let vs := column_values e dt rows off sz in
        Ok (if kind =? DIGITAL_LINE_SCALER then map (digital_bit (sc_off s mod 8)) vs else vs)
    | _ => Err EOther
    end
  end.

Definition cdata_set_scaler (id : Z) (vs : list bytes) (c : option cdata) : cdata :=
  match c with
  | Some (CScalers l) =>
    CScalers ((fix upd (l : list (Z * list bytes)) :=
                 match l with
                 | [] => [(id, vs)]
                 | (k, v) :: r => if k =? id then (k, vs) :: r else (k, v) :: upd r
                 end) l)
  | _ => CScalers [(id, vs)]
  end.

(* scalers of one object that live in raw buffer [bi] *)
Fixpoint daqmx_obj_scalers (e : endian) (o : sobj) (q : dq) (bi : Z) (rows : list bytes) (width : Z)
         (scalers : list scaler) (data : chunk) (sdata : chunk) : res (chunk * chunk) :=
  match scalers with
  | [] => Ok (data, sdata)
  | s :: r =>
    if negb (sc_buf s =? bi) then daqmx_obj_scalers e o q bi rows width r data sdata
    else
      do vs <- scaler_values e (dq_kind q) s rows width;
      if oz_eqb (so_dtype o) (Some T_DAQMX)
      then daqmx_obj_scalers e o q bi rows width r data
             (aset (so_path o) (cdata_set_scaler (sc_id s) vs (alookup (so_path o) sdata)) sdata)
      else daqmx_obj_scalers e o q bi rows width r (aset (so_path o) (CData vs) data) sdata
  end.

Fixpoint daqmx_buffer_objs (e : endian) (objs : list sobj) (bi : Z) (rows : list bytes) (width : Z)
         (data sdata : chunk) : res (chunk * chunk) :=
  match objs with
  | [] => Ok (data, sdata)
  | o :: r =>
    match so_daqmx o with
    | None => Err EOther
    | Some q =>
      do '(d, s) <- daqmx_obj_scalers e o q bi rows width (dq_scalers q) data sdata;
      daqmx_buffer_objs e r bi rows width d s
    end
  end.

Fixpoint daqmx_buffers (e : endian) (objs : list sobj) (dims : list (Z * Z)) (bi : Z) (cur : bytes)
         (data sdata : chunk) : res (chunk * chunk * bytes) :=
  match dims with
  | [] => Ok (data, sdata, cur)
  | (n, w) :: r =>
    let '(rows, cur1) := read_rows w n cur in
    do '(d, s) <- daqmx_buffer_objs e objs bi rows w data sdata;
    daqmx_buffers e objs r (bi + 1) cur1 d s
  end.

(* DaqmxDataReader._read_data_chunk: plain data entries first, then scaler entries *)
Definition read_daqmx_chunk (e : endian) (objs : list sobj) (cur : bytes) : res (chunk * bytes) :=
  do dims <- buffer_dims objs;
  do '(d, s, cur1) <- daqmx_buffers e objs dims 0 cur [] [];
  Ok (fold_left (fun acc kv => aset (fst kv) (snd kv) acc) s d, cur1).

(* for chunk in range(num_chunks): yield self._read_data_chunk(...) *)
Fixpoint read_chunks_loop (fuel : nat) (rd : Z -> bytes -> res (chunk * bytes)) (ci nchunks : Z)
         (cur : bytes) : res (list chunk * bytes) :=
  if nchunks <=? ci then Ok ([], cur)
  else match fuel with
       | O => Err EFuel
       | S f =>
         do '(c, cur1) <- rd ci cur;
         do '(cs, cur2) <- read_chunks_loop f rd (ci + 1) nchunks cur1;
         Ok (c :: cs, cur2)
       end.

(* _have_interleaved_data *)
Definition have_interleaved (toc : Z) (dobjs : list sobj) : res bool :=
  if negb (toc_has toc TOC_INTERLEAVED) then Ok false
  else
    let unsized := length (filter (fun o => match sized o with None => true | Some _ => false end) dobjs) in
    if Nat.eqb unsized 0 then Ok true
    else if Nat.eqb unsized 1 && Nat.eqb (length dobjs) 1 then Ok false
    else Err EValue.

Inductive layout := LContig | LInterleaved | LDaqmx.

Definition seg_layout (s : segment) : res layout :=
  do dq <- have_daqmx (sg_objs s);
  if dq then Ok LDaqmx
  else do il <- have_interleaved (sg_toc s) (data_objs (sg_objs s));
       Ok (if il then LInterleaved else LContig).

(* TdmsSegment.read_raw_data: all chunks of a segment, reading from the cursor
   positioned at data_position.  (The kTocRawData flag only adds an empty
   chunk in front; it does not stop the reading.) *)
Definition read_segment_chunks (s : segment) (cur : bytes) : res (list chunk * bytes) :=
  let e := toc_endian (sg_toc s) in
  let dobjs := data_objs (sg_objs s) in
  do lay <- seg_layout s;
  match lay with
  | LDaqmx =>
    read_chunks_loop (S (S (length cur))) (fun _ c => read_daqmx_chunk e dobjs c) 0 (sg_nchunks s) cur
  | LInterleaved => read_interleaved e dobjs (sg_nchunks s) cur
  | LContig =>
    read_chunks_loop (S (S (length cur)))
                     (fun ci c => read_contig_chunk e dobjs ci (sg_nchunks s) (sg_final s) c [])
                     0 (sg_nchunks s) cur
  end.
