(* The lazy-read model instantiated at integer value codes (V := Z, zero := 0):
   the instance the correspondence checks (harness/c04.py, harness/c19.py) run
   against nptdms.  A value of a generated file is identified by its code k+1
   (k = position in the channel), so 0 is never a value. *)
From Coq Require Import ZArith List Bool.
From NpTdms Require Import Base.Res Base.PySlice Gen.PySlice_gen Model.LazyRead.
Import ListNotations.
Open Scope Z_scope.

Definition segz := segv Z.
Definition mk (chunk nchunks : Z) (final : option Z) (inter : bool) (vals : list (list Z)) : segz :=
  mk_segv chunk nchunks final inter vals.

(* a channel of a generated file: receiver kind (strings: list) and its segments *)
Definition chan := (recv_kind * list segz)%type.

Fixpoint leqb (a b : list Z) : bool :=
  match a, b with
  | [], [] => true
  | x :: a', y :: b' => (x =? y) && leqb a' b'
  | _, _ => false
  end.

(* observed result of a read: Some values, None = ValueError *)
Definition vals_agree (r : res (list Z)) (o : option (list Z)) : bool :=
  match r, o with
  | Ok l, Some l' => leqb l l'
  | Err EValue, None => true
  | _, _ => false
  end.

(* read_data(offs, len) on a lazily opened file *)
Definition check_window (c : chan * Z * option Z * option (list Z)) : bool :=
  let '(ch, offs, len, o) := c in
  let '(rk, segs) := ch in
  wf Z segs && vals_agree (lz_read Z 0 rk segs offs len) o.

(* today's code (used to show which model the unfixed tree follows) *)
Definition check_window_asis (c : chan * Z * option Z * option (list Z)) : bool :=
  let '(ch, offs, len, o) := c in
  let '(rk, segs) := ch in
  vals_agree (lz_read_asis Z 0 rk segs offs len) o.

(* read_data(offs, len) on an eagerly read file (slice_raw_data) *)
Definition check_eager (c : chan * Z * option Z * option (list Z)) : bool :=
  let '(ch, offs, len, o) := c in
  let '(rk, segs) := ch in
  vals_agree (Ok (eager_read Z (full Z segs) offs len)) o.

(* channel[start:stop:step] on a lazily opened file: translated _read_slice,
   its plan executed by the lazy read *)
Definition slice_model (ch : chan) (start stop step : option Z) : res (list Z) :=
  let '(rk, segs) := ch in
  do p <- read_slice_gen (total_values Z segs) start stop step;
  interp_plan (fun a b => lz_read Z 0 rk segs a (Some b)) p.

Definition check_slice (c : chan * option Z * option Z * option Z * option (list Z)) : bool :=
  let '(ch, start, stop, step, o) := c in
  vals_agree (slice_model ch start stop step) o.

(* the same request answered by Python slice semantics on the full data *)
Definition check_slice_spec (c : chan * option Z * option Z * option Z * option (list Z)) : bool :=
  let '(ch, start, stop, step, o) := c in
  vals_agree (py_slice3 (full Z (snd ch)) start stop step) o.

(* a sequence of channel[i] on one channel object (the cache persists);
   observation per step: Some value, None = IndexError *)
Fixpoint index_seq (segs : list segz) (st : cache Z) (steps : list (Z * option Z)) : bool :=
  match steps with
  | [] => true
  | (i, o) :: r =>
    match read_at_index Z segs st i, o with
    | Ok (v, st', _), Some v' => (v =? v') && index_seq segs st' r
    | Err EIndex, None => index_seq segs st r
    | _, _ => false
    end
  end.

Definition check_index_seq (c : chan * list (Z * option Z)) : bool :=
  let '(ch, steps) := c in index_seq (snd ch) None steps.

(* ---- C19: which chunks were touched ----------------------------------- *)

Definition pair_eqb (a b : Z * Z) : bool := (fst a =? fst b) && (snd a =? snd b).
Definition mem (x : Z * Z) (l : list (Z * Z)) : bool := existsb (pair_eqb x) l.

(* does chunk (i, c) hold at least one value of the channel? *)
Definition chunk_nonempty (segs : list segz) (ic : Z * Z) : bool :=
  match nth_error segs (Z.to_nat (fst ic)) with
  | Some sv => match chunk_at Z sv (snd ic) with Ok ch => negb (zlen ch =? 0) | Err _ => false end
  | None => false
  end.

(* observed: the (segment, chunk) pairs in whose raw data bytes were fetched.
   Every observed chunk is in the plan; every planned chunk that holds values
   was fetched. *)
Definition plan_agrees (segs : list segz) (plan : list (Z * Z)) (observed : list (Z * Z)) : bool :=
  forallb (fun x => mem x plan) observed &&
  forallb (fun x => negb (chunk_nonempty segs x) || mem x observed) plan.

Definition check_plan (c : chan * Z * option Z * list (Z * Z)) : bool :=
  let '(ch, offs, len, observed) := c in
  match lz_plan Z (snd ch) offs len with
  | Ok plan => plan_agrees (snd ch) plan observed
  | Err _ => false
  end.

(* sequence of channel[i] with the chunks touched at each step *)
Fixpoint index_io_seq (segs : list segz) (st : cache Z) (steps : list (Z * list (Z * Z))) : bool :=
  match steps with
  | [] => true
  | (i, observed) :: r =>
    match read_at_index Z segs st i with
    | Ok (_, st', fetched) => plan_agrees segs fetched observed && index_io_seq segs st' r
    | Err _ => match observed with [] => index_io_seq segs st r | _ => false end
    end
  end.

Definition check_index_io (c : chan * list (Z * list (Z * Z))) : bool :=
  let '(ch, steps) := c in index_io_seq (snd ch) None steps.

(* channel[start:stop:step]: chunks touched by the read its plan issues *)
Definition check_slice_io (c : chan * option Z * option Z * option Z * list (Z * Z)) : bool :=
  let '(ch, start, stop, step, observed) := c in
  let segs := snd ch in
  match read_slice_gen (total_values Z segs) start stop step with
  | Ok PEmpty => match observed with [] => true | _ => false end
  | Ok (PRead a b _) =>
    match lz_plan Z segs a (Some b) with
    | Ok plan => plan_agrees segs plan observed
    | Err _ => match observed with [] => true | _ => false end
    end
  | Err _ => match observed with [] => true | _ => false end
  end.
