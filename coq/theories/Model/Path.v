(* Model of nptdms/common.py: _components_to_path, _path_components,
   ObjectPath.from_string.  Over an arbitrary alphabet [A] with two
   distinguished symbols: [q] (the quote, "'") and [s] (the slash, "/").
   The harness instantiates A := N (code points), q := 39, s := 47.

   Python source mirrored (nptdms/common.py):

     def _components_to_path(group, channel):
         components = [c for c in (group, channel) if c is not None]
         return '/' + '/'.join(["'" + c.replace("'", "''") + "'" for c in components])

     def _path_components(path):        # generator over zip_longest(path, path[1:])
         while True:
             char, next_char = next(chars)
             if char != '/': raise ValueError
             elif next_char is not None and next_char != "'": raise ValueError
             else: next(chars)                    # consume "'" (StopIteration at the end)
             component = []
             while True:
                 char, next_char = next(chars)
                 if char == "'" and next_char == "'": component += "'"; next(chars)
                 elif char == "'": yield component; break
                 else: component += char
         (StopIteration anywhere: return)

   The pair scanner looks one character ahead; the model is the same automaton
   written with the look-ahead made explicit in the pattern match. *)

From Coq Require Import List Bool.
Import ListNotations.

Section Path.
  Variable A : Type.
  Variable eqb : A -> A -> bool.
  Variables q s : A.

  (* c.replace("'", "''") *)
  Fixpoint escape (c : list A) : list A :=
    match c with
    | [] => []
    | x :: r => if eqb x q then q :: q :: escape r else x :: escape r
    end.

  Definition quote (c : list A) : list A := q :: escape c ++ [q].

  (* '/'.join(quoted components) with a leading '/' *)
  Fixpoint join_components (cs : list (list A)) : list A :=
    match cs with
    | [] => []
    | [c] => quote c
    | c :: r => quote c ++ s :: join_components r
    end.

  Definition components_to_path_list (cs : list (list A)) : list A :=
    s :: join_components cs.

  (* _components_to_path(group, channel) *)
  Definition components_to_path (group channel : option (list A)) : list A :=
    components_to_path_list
      ((match group with Some g => [g] | None => [] end) ++
       (match channel with Some c => [c] | None => [] end)).

  Inductive perr := PathError.

  (* Scanner state: where the generator is in its two nested loops. *)
  Inductive st :=
  | Outer                      (* at "char, next_char = next(chars)" of the outer loop *)
  | Inner (comp : list A).     (* at the same statement of the inner loop; comp reversed *)

  (* [scan st l]: l is the rest of the path starting at the character the next
     next(chars) call returns as [char].  Returns the components yielded from
     here on, or the ValueError. *)
  Fixpoint scan (l : list A) (state : st) {struct l} : perr + list (list A) :=
    match l with
    | [] => inr []                                   (* StopIteration: return *)
    | c :: rest =>
      match state with
      | Outer =>
        if negb (eqb c s) then inl PathError
        else match rest with
             | [] => inr []                          (* next_char None; next(chars) stops *)
             | n :: rest' =>
               if negb (eqb n q) then inl PathError
               else scan_skip rest (Inner [])        (* consume the quote *)
             end
      | Inner comp =>
        match rest with
        | [] => if eqb c q then inr [rev comp]       (* closing quote at end of string *)
                else inr []                          (* unterminated: StopIteration, nothing yielded *)
        | n :: rest' =>
          if eqb c q && eqb n q then scan_skip rest (Inner (q :: comp))
          else if eqb c q then
                 match scan rest Outer with
                 | inl e => inl e
                 | inr cs => inr (rev comp :: cs)
                 end
               else scan rest (Inner (c :: comp))
        end
      end
    end
  (* consume one more character (the "next(chars)" whose result is ignored) *)
  with scan_skip (l : list A) (state : st) {struct l} : perr + list (list A) :=
    match l with
    | [] => inr []
    | _ :: rest => scan rest state
    end.

  Definition path_components (p : list A) : perr + list (list A) := scan p Outer.

  (* ObjectPath.from_string: at most two components, else ValueError *)
  Definition from_string (p : list A) : perr + (option (list A) * option (list A)) :=
    match path_components p with
    | inl e => inl e
    | inr [] => inr (None, None)
    | inr [g] => inr (Some g, None)
    | inr [g; c] => inr (Some g, Some c)
    | inr _ => inl PathError
    end.

End Path.

