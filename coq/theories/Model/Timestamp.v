(* C12 — model of the TDMS timestamp code.

   Mirrors (function by function):
     nptdms/types.py      TimeStamp.__init__ (encode), TimeStamp.read, TimeStamp.from_bytes
     nptdms/timestamp.py  TdmsTimestamp.as_datetime64, TdmsTimestamp.bytes,
                          TimestampArray.as_datetime64, _steps_per_second, _fraction_tolerance
     nptdms/tdms.py       TdmsChannel.time_track

   Part 1 (Z)         : the code AFTER repair D5 (dev/patches/D5.patch): exact integers.
   Part 2 (PrimFloat) : the code BEFORE the repair (float scaling), kept so that the
                        refutation of the round trip on the unchanged tree is a lemma.
   Part 3 (R)         : time_track.
   No proofs here (Proofs/TimestampProofs.v). *)

From Coq Require Import ZArith List Bool.
From NpTdms Require Import Base.Bytes.
Import ListNotations.
Local Open Scope Z_scope.

(* ======================================================================= *)
(* Part 1.  Repaired code, exact integers                                   *)
(* ======================================================================= *)

(* A datetime64[unit] is the int64 count of units since 1970-01-01 (NumPy's
   representation).  timestamp.py: EPOCH = np.datetime64('1904-01-01 00:00:00', 's');
   types.py: _tdms_epoch = np.datetime64('1904-01-01 00:00:00', 'us'). *)
Definition EPOCH_S : Z := -2082844800.
Definition TDMS_EPOCH_US : Z := -2082844800 * 1000000.

Definition in_i64 (z : Z) : Prop := - 2 ^ 63 <= z < 2 ^ 63.
Definition in_u64 (z : Z) : Prop := 0 <= z < 2 ^ 64.

(* ---- types.py: TimeStamp.__init__ ---------------------------------------
     epoch_delta = value - self._tdms_epoch                  (timedelta64[us])
     seconds = int(epoch_delta // np.timedelta64(1, 's'))    (floor division)
     remainder = epoch_delta - np.timedelta64(seconds, 's')
     microseconds = int(remainder / np.timedelta64(1, 'us')) (0 <= remainder < 10^6 us:
                                                              the float quotient is exact)
     second_fractions = -((-microseconds * 2 ** 64) // 10 ** 6)
     self.bytes = _struct_pack('<Qq', second_fractions, seconds)
   [enc_us v]: v = microseconds since the TDMS epoch (epoch_delta). *)
Definition enc_us (v : Z) : Z * Z :=
  let seconds := v / 1000000 in
  let remainder := v - seconds * 1000000 in
  let microseconds := remainder in
  let second_fractions := - ((- microseconds * 2 ^ 64) / 10 ^ 6) in
  (seconds, second_fractions).

(* value : datetime64[us] integer (since 1970) *)
Definition enc_dt (d : Z) : Z * Z := enc_us (d - TDMS_EPOCH_US).

(* ---- timestamp.py: resolutions -------------------------------------------
     _steps_per_second = {'s': 1, 'ms': 10 ** 3, 'us': 10 ** 6, 'ns': 10 ** 9}
     _fraction_tolerance = 2 ** 12
   ('ps' keeps the float path and is not modelled: not claimed by C12.)
   The tolerance (2^12 units = 2^-52 s, added before truncating) is what keeps
   fractions written by truncating float encoders readable: the unchanged
   encoder and the test-suite's own generator store up to 1858 units less than
   the exact value of the microsecond (measured over all 10^6 values), which an
   exact floor would read back one microsecond early; the test-suite also pins
   669260.594 us -> 669260, which excludes rounding to nearest. *)
Inductive resolution := Rs | Rms | Rus | Rns.

Definition steps_per_second (r : resolution) : Z :=
  match r with Rs => 1 | Rms => 1000 | Rus => 1000000 | Rns => 1000000000 end.

Definition TOL : Z := 2 ^ 12.

(* ---- TdmsTimestamp.as_datetime64 (scalar path, Python ints) ---------------
     steps = ((int(self.second_fractions) + _fraction_tolerance)
              * _steps_per_second[resolution]) >> 64
     return EPOCH + np.timedelta64(self.seconds, 's') + steps * np.timedelta64(1, resolution) *)
Definition frac_steps_scalar (r : resolution) (f : Z) : Z :=
  Z.shiftr ((f + TOL) * steps_per_second r) 64.

(* ---- TimestampArray.as_datetime64 (array path, uint64 arithmetic) ---------
     steps_per_second = np.uint64(_steps_per_second[resolution])
     shift = np.uint64(32)
     high = second_fractions >> shift
     low = (second_fractions & np.uint64(0xFFFFFFFF)) + np.uint64(_fraction_tolerance)
     steps = (high * steps_per_second + ((low * steps_per_second) >> shift)) >> shift
   Every uint64 operation that can wrap is followed by [u64]. *)
Definition u64 (z : Z) : Z := z mod 2 ^ 64.

Definition frac_steps_array (r : resolution) (f : Z) : Z :=
  let m := steps_per_second r in
  let high := Z.shiftr f 32 in
  let low := u64 (Z.land f 0xFFFFFFFF + TOL) in
  Z.shiftr (u64 (u64 (high * m) + Z.shiftr (u64 (low * m)) 32)) 32.

(* The datetime64[r] integer (units since 1970).  NumPy forms
   (EPOCH + seconds) in seconds, scales it to the unit and adds the steps;
   the theorems assume the result is representable (no int64 wrap-around). *)
Definition dt64_of (r : resolution) (s steps : Z) : Z :=
  (EPOCH_S + s) * steps_per_second r + steps.

Definition conv_scalar (r : resolution) (s f : Z) : Z := dt64_of r s (frac_steps_scalar r f).
Definition conv_array (r : resolution) (s f : Z) : Z := dt64_of r s (frac_steps_array r f).

(* The same instants counted from the TDMS epoch (1904) instead of 1970. *)
Definition conv (r : resolution) (s f : Z) : Z := s * steps_per_second r + frac_steps_scalar r f.
Definition conv_arr (r : resolution) (s f : Z) : Z := s * steps_per_second r + frac_steps_array r f.

(* decode to microseconds since the TDMS epoch / to a datetime64[us] *)
Definition dec_us (sf : Z * Z) : Z := conv Rus (fst sf) (snd sf).
Definition dec_dt (sf : Z * Z) : Z := conv_scalar Rus (fst sf) (snd sf).

(* ---- raw 16-byte layout ----------------------------------------------------
   TdmsTimestamp.bytes / TimeStamp.__init__ : struct.pack('<Qq', second_fractions, seconds)
   TimeStamp.read:  '<' : (second_fractions, seconds) = unpack('<Qq', data)
                    '>' : (seconds, second_fractions) = unpack('>qQ', data)
   TimeStamp.from_bytes: dtype [('second_fractions','<u8'),('seconds','<i8')]
                      or       [('seconds','>i8'),('second_fractions','>u8')]
   struct.pack raises struct.error outside the field ranges, struct.unpack on a
   buffer that is not 16 bytes long: both are [None]. *)
Definition i64b (z : Z) : bool := (- 2 ^ 63 <=? z) && (z <? 2 ^ 63).
Definition u64b (z : Z) : bool := (0 <=? z) && (z <? 2 ^ 64).

Definition wr_ts (e : endian) (s f : Z) : option bytes :=
  if i64b s && u64b f then
    Some match e with
         | LE => u_enc LE 8 f ++ s_enc LE 8 s
         | BE => s_enc BE 8 s ++ u_enc BE 8 f
         end
  else None.

(* result: (seconds, second_fractions) *)
Definition rd_ts (e : endian) (b : bytes) : option (Z * Z) :=
  if (length b =? 16)%nat then
    Some match e with
         | LE => (s_dec LE (read_at 8 8 b), u_dec LE (read_at 0 8 b))
         | BE => (s_dec BE (read_at 0 8 b), u_dec BE (read_at 8 8 b))
         end
  else None.

(* from_bytes: byte_array.reshape((-1, 16)) viewed with the structured dtype:
   the n records one after the other. *)
Fixpoint rd_ts_array (e : endian) (n : nat) (b : bytes) : option (list (Z * Z)) :=
  match n with
  | O => match b with [] => Some [] | _ => None end
  | S k =>
    match rd_ts e (take 16 b), rd_ts_array e k (drop 16 b) with
    | Some x, Some r => Some (x :: r)
    | _, _ => None
    end
  end.

(* write_values: b''.join(_to_tdms_value(val).bytes for val in array) *)
Fixpoint wr_ts_array (e : endian) (l : list (Z * Z)) : option bytes :=
  match l with
  | [] => Some []
  | (s, f) :: r =>
    match wr_ts e s f, wr_ts_array e r with
    | Some x, Some y => Some (x ++ y)
    | _, _ => None
    end
  end.

(* ---- boolean comparison with observations of the implementation ----------- *)
Definition pair_eqb (a b : Z * Z) : bool := (fst a =? fst b) && (snd a =? snd b).

(* case: datetime64[us] integer written, observed (seconds, second_fractions) in
   the bytes, observed datetime64[us] integer read back (scalar and array path) *)
Definition check_roundtrip (c : Z * Z * Z * Z * Z) : bool :=
  let '(d, s, f, o_scalar, o_array) := c in
  pair_eqb (enc_dt d) (s, f) && (conv_scalar Rus s f =? o_scalar) && (conv_array Rus s f =? o_array).

Definition all_res : list resolution := [Rs; Rms; Rus; Rns].

Definition res_of (k : Z) : resolution :=
  if k =? 0 then Rs else if k =? 1 then Rms else if k =? 2 then Rus else Rns.

(* case: (seconds, second_fractions), and for some resolutions (0 = s, 1 = ms,
   2 = us, 3 = ns) the observed as_datetime64 integers on the scalar path and on
   the array path *)
Definition check_conv (c : Z * Z * list (Z * Z * Z)) : bool :=
  let '(s, f, l) := c in
  forallb (fun x => let '(k, a, b) := x in
                    (conv_scalar (res_of k) s f =? a) && (conv_array (res_of k) s f =? b)) l.

Fixpoint bytes_eqb (a b : bytes) : bool :=
  match a, b with
  | [], [] => true
  | x :: a', y :: b' => (b2z x =? b2z y) && bytes_eqb a' b'
  | _, _ => false
  end.

(* case: byte order, 16 raw bytes, observed (seconds, second_fractions) from
   TimeStamp.read and from_bytes, and (little endian only) the bytes that
   TdmsTimestamp(seconds, second_fractions).bytes produced *)
Definition check_raw (c : bool * bytes * Z * Z * option bytes) : bool :=
  let '(big, b, s, f, w) := c in
  let e := if big then BE else LE in
  match rd_ts e b with
  | Some sf => pair_eqb sf (s, f)
  | None => false
  end &&
  match wr_ts e s f with
  | Some b' => bytes_eqb b' b
  | None => false
  end &&
  match w with
  | Some wb => match wr_ts LE s f with Some b' => bytes_eqb b' wb | None => false end
  | None => true
  end.

(* ======================================================================= *)
(* Part 2.  The code before repair D5 (float scaling), bit-exact            *)
(* ======================================================================= *)

From Coq Require Import PrimFloat Uint63 FloatOps SpecFloat.

Module AsIs.

  (* types.py: _fractions_per_microsecond = float(10**-6) / 2**-64
     (= timestamp.py _fractions_per_step['us'] = (10 ** -6) / 2 ** -64),
     float.hex() of the value computed by CPython *)
  Definition fractions_per_microsecond : float := 0x1.0c6f7a0b5ed8dp+44%float.

  (* int(x) of a non-negative finite double / the truncating float -> int64
     cast NumPy applies in  float * np.timedelta64(1, 'us') *)
  Definition trunc_pos (x : float) : Z :=
    match Prim2SF x with
    | S754_finite false m e => if 0 <=? e then Z.pos m * 2 ^ e else Z.pos m / 2 ^ (- e)
    | _ => 0
    end.

  (* Python int -> float and uint64 -> double: correctly rounded (nearest even) *)
  Definition z2f (z : Z) : float :=
    if (0 <=? z) && (z <? 2 ^ 63) then of_uint63 (Uint63.of_Z z)
    else SF2Prim (binary_normalize 53 1024 z 0 false).

  (* second_fractions = int(microseconds * self._fractions_per_microsecond) *)
  Definition enc_frac (us : Z) : Z := trunc_pos (PrimFloat.mul (z2f us) fractions_per_microsecond).

  (* (self.second_fractions / fractions_per_step) * np.timedelta64(1, 'us') *)
  Definition dec_frac (f : Z) : Z := trunc_pos (PrimFloat.div (z2f f) fractions_per_microsecond).

  (* seconds = int(epoch_delta / np.timedelta64(1, 's')); remainder < 0 adjustment;
     restricted to |v| < 2^53 microseconds, where the float quotient has the
     right integer part *)
  Definition enc_us (v : Z) : Z * Z :=
    let seconds := Z.quot v 1000000 in
    let remainder := v - seconds * 1000000 in
    let '(seconds, remainder) :=
      if remainder <? 0 then (seconds - 1, 1000000 + remainder) else (seconds, remainder) in
    (seconds, enc_frac remainder).

  Definition dec_us (sf : Z * Z) : Z := fst sf * 1000000 + dec_frac (snd sf).

  (* case: microsecond part written, observed second_fractions, observed microsecond
     part read back *)
  Definition check_asis (c : Z * Z * Z) : bool :=
    let '(us, f, o) := c in (enc_frac us =? f) && (dec_frac f =? o).

End AsIs.

(* ======================================================================= *)
(* Part 3.  TdmsChannel.time_track over the reals                            *)
(* ======================================================================= *)

From Coq Require Import Reals.
From Flocq Require Import Core.Raux.

(*   relative_time = np.linspace(offset, offset + (len(self) - 1) * increment, len(self))
     if not absolute_time: return relative_time
     ...
     return (start_time + (relative_time * unit_correction).astype(time_type))
   linspace over R: n points, the i-th is start + i * (stop - start) / (n - 1);
   for n = 1 the single point is start. *)
Definition linspace_R (start stop : R) (n : nat) : list R :=
  match n with
  | O => []
  | S O => [start]
  | _ => map (fun i => (start + INR i * ((stop - start) / INR (n - 1)))%R) (seq 0 n)
  end.

Definition time_track_R (offset increment : R) (n : nat) : list R :=
  linspace_R offset (offset + (INR n - 1) * increment)%R n.

(* unit_correction = {'s': 1e0, 'ms': 1e3, 'us': 1e6, 'ns': 1e9}[accuracy] *)
Definition unit_correction (r : resolution) : R := IZR (steps_per_second r).

(* astype(timedelta64[accuracy]) of a finite float truncates towards zero;
   start : datetime64[accuracy] integer *)
Definition time_track_abs (start : Z) (r : resolution) (offset increment : R) (n : nat) : list Z :=
  map (fun t => (start + Ztrunc (t * unit_correction r))%Z) (time_track_R offset increment n).

(* ======================================================================= *)
(* Literals for the generated case files                                    *)
(* ======================================================================= *)

(* Coq elaborates a 64-bit Z literal in about a millisecond and a primitive
   integer literal in microseconds, so the harness writes the integer
   n = (hi - 2^61) * 2^62 + lo, 0 <= lo < 2^62, as [zi hi lo]. *)
Definition zi (hi lo : int) : Z := ((Uint63.to_Z hi - 2 ^ 61) * 2 ^ 62 + Uint63.to_Z lo)%Z.
