(* Byte strings as Python str values (their UTF-8 encoding): equality, the order
   Python's sorted() uses on str (code point order, which on valid UTF-8 is the
   lexicographic order of the bytes), and the object path grammar of
   Model/Path.v instantiated at bytes (quote 0x27, slash 0x2F; UTF-8
   continuation and lead bytes are >= 0x80, so escaping on bytes and on code
   points coincide). *)

From Coq Require Import List ZArith Bool.
From Coq Require Import Init.Byte.
Import ListNotations.
From NpTdms Require Import Base.Bytes Model.Path.
Local Open Scope Z_scope.

Definition byte_eqb (a b : byte) : bool := b2z a =? b2z b.

Fixpoint bytes_eqb (a b : bytes) : bool :=
  match a, b with
  | [], [] => true
  | x :: a', y :: b' => byte_eqb x y && bytes_eqb a' b'
  | _, _ => false
  end.

(* a < b in Python's str order *)
Fixpoint bytes_ltb (a b : bytes) : bool :=
  match a, b with
  | _, [] => false
  | [], _ :: _ => true
  | x :: a', y :: b' =>
    if b2z x <? b2z y then true
    else if b2z y <? b2z x then false
    else bytes_ltb a' b'
  end.

Definition bmem (x : bytes) (l : list bytes) : bool := existsb (bytes_eqb x) l.

Fixpoint has_dup (l : list bytes) : bool :=
  match l with
  | [] => false
  | x :: r => bmem x r || has_dup r
  end.

Definition QUOTE : byte := x27.
Definition SLASH : byte := x2f.

(* str(ObjectPath(...)) encoded as UTF-8 *)
Definition path_of (g c : option bytes) : bytes :=
  components_to_path byte byte_eqb QUOTE SLASH g c.

Definition ROOT_PATH : bytes := path_of None None.
Definition group_path (g : bytes) : bytes := path_of (Some g) None.
Definition chan_path (g c : bytes) : bytes := path_of (Some g) (Some c).

Inductive pkind :=
| KRoot
| KGroup (g : bytes)
| KChan (g c : bytes).

(* ObjectPath.from_string, accepted only when the string is the canonical
   print of what it parses to *)
Definition classify (p : bytes) : option pkind :=
  match from_string byte byte_eqb QUOTE SLASH p with
  | inr (None, None) => if bytes_eqb p ROOT_PATH then Some KRoot else None
  | inr (Some g, None) => if bytes_eqb p (group_path g) then Some (KGroup g) else None
  | inr (Some g, Some c) => if bytes_eqb p (chan_path g c) then Some (KChan g c) else None
  | _ => None
  end.
