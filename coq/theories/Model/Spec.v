(* The textbook meaning of a TDMS file: a SPECIFICATION, not a model of the code.

   [spec_meaning : list fseg -> spec_res content] says what a file (as syntax,
   Model/FileSyn.v: per segment a ToC mask, a version, an optional metadata
   block = list of (path, raw data index, properties), a raw data block) MEANS;
   [spec_tokens : content -> list tok] lays that content out the way
   TdmsFile shows it (root, groups, channels).  Nothing here refers to how
   npTDMS works: no positions, no index maps, no caches, no segment records.
   From the other files only the SYNTAX (fseg, entry, idx, prop, ToC flags,
   the table of type sizes tds_size), byte helpers (blen, u_dec, canon_value =
   stored byte order -> little endian) and the token type are used.  The same
   rules exist in Python (harness/tdmsgen.py: SpecState, meaning,
   expected_tokens); harness/spec_tie.py compares the two on generated files.
   Props/C01_spec.v proves that the reader model refines this specification.

   THE RULES.
   A file is a sequence of segments.  The state carried from segment to segment:
     active   the ordered list of objects of the current segment; each either
              has data in this segment (with its raw data index) or not
     last     for every object that ever had one: its most recent raw data index
     objs     the content so far: every object seen, in order of first appearance,
              with its properties, data type and values
   Metadata of a segment:
     * no metadata block: the active list stays as it is (an error in the
       first segment);
     * the new-object-list flag empties the active list first;
     * then every listed object, in order, is updated in place if it is in the
       active list and appended otherwise:
         "no data"          -> the object has no data in this segment
         "same as before"   -> it has data, described by its most recent index
                               (an error if it never had one)
         a full index       -> it has data, described by this index, which
                               becomes its most recent one (an error if the
                               data type differs from the earlier index)
     * every active object is (now) part of the content; a listed object's
       properties are set, later values replacing earlier ones under the same name.
   Raw data of a segment: a whole number of chunks.  Contiguous layout: a chunk
   holds, for every active object with data in list order, the n values its index
   declares (fixed size types: n * size bytes; strings: n 32-bit end offsets
   followed by the string bytes, [total] bytes in all).  Interleaved layout
   (fixed size types only, equal counts): the block is a sequence of rows, a row
   holding one value per object.  Values are appended to the object's values
   in file order.  Stored byte order is the segment's; values are kept as
   canonical little-endian bytes. *)
From Coq Require Import List ZArith Bool.
From Coq Require Import Init.Byte.
Import ListNotations.
From NpTdms Require Import Base.Bytes Model.Tokens Model.Reader Model.FileSyn.
Local Open Scope Z_scope.

(* ---- outcomes ------------------------------------------------------------- *)

Inductive spec_err :=
| MatchPrevUndefined      (* FORBIDDEN: "same as before" for an object never listed before *)
| FirstWithoutMetadata    (* FORBIDDEN: the first segment has no metadata block *)
| TypeChange              (* FORBIDDEN: a new index gives an object another data type *)
| MatchPrevNeverIndexed   (* "same as before" for an object listed before, but only ever as "no data" *)
| UnsupportedIndex        (* DAQmx index, unknown or size-less data type, dimension <> 1 *)
| BadLayout               (* interleaved flag with unequal counts, or with strings among several objects *)
| BadRawData.             (* raw data block is not a whole number of chunks, or string offsets malformed *)

Inductive spec_res (A : Type) := SOk (a : A) | SErr (e : spec_err).
Arguments SOk {A} a.
Arguments SErr {A} e.

Definition sbind {A B} (r : spec_res A) (f : A -> spec_res B) : spec_res B :=
  match r with SOk a => f a | SErr e => SErr e end.
Notation "'sdo' x <- r ; k" := (sbind r (fun x => k))
  (at level 200, x name, r at level 100, k at level 200, right associativity).

(* the three encodings the format forbids *)
Definition forbidden (e : spec_err) : Prop :=
  e = MatchPrevUndefined \/ e = FirstWithoutMetadata \/ e = TypeChange.

(* ---- dictionaries keyed by byte strings, in insertion order ---------------- *)

Fixpoint beq (a b : bytes) : bool :=
  match a, b with
  | [], [] => true
  | x :: a', y :: b' => Byte.eqb x y && beq a' b'
  | _, _ => false
  end.

Definition dict (V : Type) := list (bytes * V).

Section Dict.
  Context {V : Type}.

  Fixpoint get (k : bytes) (d : dict V) : option V :=
    match d with
    | [] => None
    | (k', v) :: r => if beq k k' then Some v else get k r
    end.

  (* set: replace in place, else append *)
  Fixpoint put (k : bytes) (v : V) (d : dict V) : dict V :=
    match d with
    | [] => [(k, v)]
    | (k', v') :: r => if beq k k' then (k', v) :: r else (k', v') :: put k v r
    end.
End Dict.

(* ---- content ----------------------------------------------------------------- *)

Record cobj := mkCobj {
  o_props : dict prop;        (* name -> (name, type, value): LAST value, in first-set order *)
  o_dtype : option Z;         (* data type of the channel; None: never had data *)
  o_vals : list bytes }.      (* values, canonical little-endian bytes (strings: their bytes) *)

Record content := mkContent {
  c_version : Z;              (* version field of the first segment (0 for the empty file) *)
  c_objs : dict cobj }.       (* every object, in order of first appearance *)

(* ---- raw data index ------------------------------------------------------------ *)

Record rawidx := mkIdx {
  ri_dt : Z;                  (* data type *)
  ri_n : Z;                   (* values per chunk *)
  ri_bytes : Z }.             (* bytes per chunk: n * size, strings: the declared total *)

Definition type_size (dt : Z) : option Z :=
  match tds_size dt with Some (Some sz) => Some sz | _ => None end.

Definition index_of (dt dim n : Z) (total : option Z) : option rawidx :=
  if negb (dim =? 1) then None
  else match type_size dt, total with
       | Some sz, _ => Some (mkIdx dt n (n * sz))
       | None, Some t => if dt =? T_STRING then Some (mkIdx dt n t) else None
       | None, None => None
       end.

(* ---- state ----------------------------------------------------------------------- *)

Record sstate := mkSstate {
  active : dict (option rawidx);   (* Some i: has data in this segment, laid out as i says *)
  last : dict rawidx;              (* most recent index of every object that ever had one *)
  objs : dict cobj }.

Definition sstate0 := mkSstate [] [] [].

Definition cobj0 := mkCobj [] None [].

(* one listed object: update it in place in the active list, or append it *)
Definition apply_entry (st : sstate) (x : entry) : spec_res sstate :=
  let p := e_path x in
  let upd (a : option rawidx) (lst : dict rawidx) :=
      SOk (mkSstate (put p a (active st)) lst (objs st)) in
  match e_idx x with
  | INoData => upd None (last st)
  | IMatchPrev =>
    match get p (last st), get p (objs st) with
    | Some i, _ => upd (Some i) (last st)
    | None, Some _ => SErr MatchPrevNeverIndexed
    | None, None => SErr MatchPrevUndefined
    end
  | IFull _ dt dim n total =>
    match index_of dt dim n total with
    | None => SErr UnsupportedIndex
    | Some i =>
      if (match get p (last st) with Some i' => ri_dt i' =? dt | None => true end)
      then upd (Some i) (put p i (last st))
      else SErr TypeChange
    end
  | IDaqmx _ _ _ _ _ _ => SErr UnsupportedIndex
  end.

Fixpoint apply_entries (st : sstate) (es : list entry) : spec_res sstate :=
  match es with
  | [] => SOk st
  | x :: r => sdo st' <- apply_entry st x; apply_entries st' r
  end.

(* an active object is part of the content; its data type is that of its index *)
Definition touch (lst : dict rawidx) (c : dict cobj) (p : bytes) : dict cobj :=
  let o := match get p c with Some o => o | None => cobj0 end in
  put p (mkCobj (o_props o) (option_map ri_dt (get p lst)) (o_vals o)) c.

Definition set_props (c : dict cobj) (x : entry) : dict cobj :=
  match get (e_path x) c with
  | Some o => put (e_path x)
                  (mkCobj (fold_left (fun ps pr => put (p_name pr) pr ps) (e_props x) (o_props o))
                          (o_dtype o) (o_vals o)) c
  | None => c
  end.

Definition apply_metadata (first : bool) (st : sstate) (s : fseg) : spec_res sstate :=
  sdo st1 <- match fs_meta s with
             | None => if first then SErr FirstWithoutMetadata else SOk st
             | Some es =>
               apply_entries (if toc_has (fs_toc s) TOC_NEWLIST
                              then mkSstate [] (last st) (objs st) else st) es
             end;
  let c1 := fold_left (touch (last st1)) (map fst (active st1)) (objs st1) in
  let c2 := fold_left set_props (match fs_meta s with Some es => es | None => [] end) c1 in
  SOk (mkSstate (active st1) (last st1) c2).

(* ---- raw data ---------------------------------------------------------------------- *)

(* n pieces of k bytes each *)
Fixpoint pieces (n k : nat) (d : bytes) : list bytes :=
  match n with
  | O => []
  | S n' => firstn k d :: pieces n' k (skipn k d)
  end.

(* strings from their end offsets; every byte of [body] must belong to a string *)
Fixpoint slices (prev : Z) (offs : list Z) (body : bytes) : option (list bytes) :=
  match offs with
  | [] => match body with [] => Some [] | _ => None end
  | o :: r =>
    if (o <? prev) || (blen body <? o - prev) then None
    else let k := Z.to_nat (o - prev) in
         option_map (cons (firstn k body)) (slices o r (skipn k body))
  end.

(* the values of one object in one chunk; [d] are its [ri_bytes] bytes *)
Definition obj_values (e : endian) (i : rawidx) (d : bytes) : option (list bytes) :=
  match type_size (ri_dt i) with
  | Some sz => Some (map (canon_value e (ri_dt i)) (pieces (Z.to_nat (ri_n i)) (Z.to_nat sz) d))
  | None =>
    if (ri_n i <? 0) || (blen d <? 4 * ri_n i) then None
    else let n := Z.to_nat (ri_n i) in
         slices 0 (map (u_dec e) (pieces n 4 d)) (skipn (4 * n) d)
  end.

(* one chunk: per object (in order) its values *)
Fixpoint chunk_values (e : endian) (dobjs : list (bytes * rawidx)) (d : bytes)
  : option (list (list bytes)) :=
  match dobjs with
  | [] => Some []
  | (_, i) :: r =>
    let k := Z.to_nat (ri_bytes i) in
    match obj_values e i (firstn k d), chunk_values e r (skipn k d) with
    | Some vs, Some vss => Some (vs :: vss)
    | _, _ => None
    end
  end.

Fixpoint all_some {A} (l : list (option A)) : option (list A) :=
  match l with
  | [] => Some []
  | Some x :: r => option_map (cons x) (all_some r)
  | None :: _ => None
  end.

Definition sum_z (l : list Z) : Z := fold_right Z.add 0 l.
Definition chunk_bytes (dobjs : list (bytes * rawidx)) : Z := sum_z (map (fun o => ri_bytes (snd o)) dobjs).

(* the block is a whole number of chunks of [cs] bytes; it is cut into units
   laid out as [unit] says (contiguous: the chunk itself; interleaved: a row) *)
Definition whole_chunks (e : endian) (cs : Z) (unit : list (bytes * rawidx)) (d : bytes)
  : spec_res (list (list (list bytes))) :=
  if cs =? 0 then (if blen d =? 0 then SOk [] else SErr BadRawData)
  else if negb (blen d mod cs =? 0) then SErr BadRawData
  else let w := chunk_bytes unit in
       match all_some (map (chunk_values e unit) (pieces (Z.to_nat (blen d / w)) (Z.to_nat w) d)) with
       | Some css => SOk css
       | None => SErr BadRawData
       end.

(* the objects with data, in list order *)
Definition data_objects (act : dict (option rawidx)) : list (bytes * rawidx) :=
  flat_map (fun pa => match snd pa with Some i => [(fst pa, i)] | None => [] end) act.

Definition is_fixed (o : bytes * rawidx) : bool :=
  match type_size (ri_dt (snd o)) with Some _ => true | None => false end.

Definition same_counts (dobjs : list (bytes * rawidx)) : bool :=
  match dobjs with
  | [] => true
  | o0 :: r => forallb (fun o => ri_n (snd o) =? ri_n (snd o0)) r
  end.

(* a row of an interleaved segment is a chunk with ONE value per object *)
Definition one_value (o : bytes * rawidx) : bytes * rawidx :=
  (fst o, mkIdx (ri_dt (snd o)) 1 (match type_size (ri_dt (snd o)) with Some sz => sz | None => 0 end)).

(* all values of a segment's raw data block: chunks (or rows) x objects x values *)
Definition decode_data (toc : Z) (dobjs : list (bytes * rawidx)) (d : bytes)
  : spec_res (list (list (list bytes))) :=
  let e := toc_endian toc in
  let cs := chunk_bytes dobjs in
  if negb (toc_has toc TOC_INTERLEAVED) then whole_chunks e cs dobjs d
  else if forallb is_fixed dobjs then
    (if same_counts dobjs then whole_chunks e cs (map one_value dobjs) d else SErr BadLayout)
  else match dobjs with
       | [_] => whole_chunks e cs dobjs d     (* a lone string channel: nothing to interleave *)
       | _ => SErr BadLayout
       end.

Definition add_values (c : dict cobj) (pv : bytes * list bytes) : dict cobj :=
  match get (fst pv) c with
  | Some o => put (fst pv) (mkCobj (o_props o) (o_dtype o) (o_vals o ++ snd pv)) c
  | None => c
  end.

(* one chunk's values go to their objects *)
Definition add_chunk (dobjs : list (bytes * rawidx)) (c : dict cobj) (vss : list (list bytes)) : dict cobj :=
  fold_left add_values (combine (map fst dobjs) vss) c.

(* ---- the meaning of a file ------------------------------------------------------- *)

Definition spec_segment (first : bool) (st : sstate) (s : fseg) : spec_res sstate :=
  sdo st1 <- apply_metadata first st s;
  let dobjs := data_objects (active st1) in
  sdo css <- decode_data (fs_toc s) dobjs (fs_data s);
  SOk (mkSstate (active st1) (last st1) (fold_left (add_chunk dobjs) css (objs st1))).

Fixpoint spec_segments (first : bool) (st : sstate) (segs : list fseg) : spec_res sstate :=
  match segs with
  | [] => SOk st
  | s :: r => sdo st' <- spec_segment first st s; spec_segments false st' r
  end.

Definition spec_meaning (segs : list fseg) : spec_res content :=
  sdo st <- spec_segments true sstate0 segs;
  SOk (mkContent (match segs with s :: _ => fs_version s | [] => 0 end) (objs st)).

(* ---- object paths: "/" (root), /'group', /'group'/'channel'; ' doubled inside ---- *)

Definition QUOTE : byte := x27.
Definition SLASH : byte := x2f.

Fixpoint escape (c : bytes) : bytes :=
  match c with
  | [] => []
  | x :: r => if Byte.eqb x QUOTE then QUOTE :: QUOTE :: escape r else x :: escape r
  end.

Definition quoted (c : bytes) : bytes := SLASH :: QUOTE :: escape c ++ [QUOTE].

Definition path_of (comps : list bytes) : bytes :=
  match comps with [] => [SLASH] | _ => flat_map quoted comps end.

(* [l] follows an opening quote: the text up to the closing quote, and the rest *)
Fixpoint unquote (l : bytes) : option (bytes * bytes) :=
  match l with
  | [] => None
  | c :: r =>
    if Byte.eqb c QUOTE then
      match r with
      | c' :: r' => if Byte.eqb c' QUOTE
                    then option_map (fun tr => (QUOTE :: fst tr, snd tr)) (unquote r')
                    else Some ([], r)
      | [] => Some ([], [])
      end
    else option_map (fun tr => (c :: fst tr, snd tr)) (unquote r)
  end.

Definition component (l : bytes) : option (bytes * bytes) :=
  match l with
  | a :: b :: r => if Byte.eqb a SLASH && Byte.eqb b QUOTE then unquote r else None
  | _ => None
  end.

Definition parse_path (p : bytes) : option (list bytes) :=
  if beq p [SLASH] then Some []
  else match component p with
       | Some (g, []) => Some [g]
       | Some (g, r) => match component r with Some (c, []) => Some [g; c] | _ => None end
       | None => None
       end.

(* ---- the content as TdmsFile shows it ---------------------------------------------- *)

(* a property value: int -> [0; v], float -> [1; the double's 8 bytes], bool -> [2; 0/1],
   string -> [3; bytes], timestamp -> [4; seconds; fractions] *)
Definition prop_value_tokens (ty : Z) (v : bytes) : list tok :=
  if (1 <=? ty) && (ty <=? 4) then [TZ 0; TZ (s_dec LE v)]
  else if (5 <=? ty) && (ty <=? 8) then [TZ 0; TZ (u_dec LE v)]
  else if (ty =? 9) || (ty =? 0x19) then [TZ 1; TB (le_enc 8 (f32_to_f64_bits (u_dec LE v)))]
  else if (ty =? 10) || (ty =? 0x1A) then [TZ 1; TB v]
  else if ty =? T_BOOL then [TZ 2; TZ (if u_dec LE v =? 0 then 0 else 1)]
  else if ty =? T_STRING then [TZ 3; TB v]
  else if ty =? T_TIME then [TZ 4; TZ (s_dec LE (drop 8 v)); TZ (u_dec LE (take 8 v))]
  else [TZ 9].

Definition props_tokens (ps : dict prop) : list tok :=
  TZ (Z.of_nat (length ps)) ::
  flat_map (fun kv => TB (fst kv) :: prop_value_tokens (p_type (snd kv)) (p_val (snd kv))) ps.

Definition props_of (c : dict cobj) (p : bytes) : dict prop :=
  match get p c with Some o => o_props o | None => [] end.

(* first occurrences, in order *)
Fixpoint dedup (l : list bytes) : list bytes :=
  match l with
  | [] => []
  | x :: r => x :: filter (fun y => negb (beq x y)) (dedup r)
  end.

(* group names: the declared groups (objects /'g') in order of first appearance,
   then the groups known only through their channels (/'g'/'c') *)
Definition group_names (c : dict cobj) : list bytes :=
  dedup (flat_map (fun po => match parse_path (fst po) with Some [g] => [g] | _ => [] end) c ++
         flat_map (fun po => match parse_path (fst po) with Some [g; _] => [g] | _ => [] end) c).

(* the channels of group g, in order of first appearance: (name, path, object) *)
Definition channels_of (c : dict cobj) (g : bytes) : list (bytes * bytes * cobj) :=
  flat_map (fun po => match parse_path (fst po) with
                      | Some [g'; ch] => if beq g g' then [(ch, fst po, snd po)] else []
                      | _ => []
                      end) c.

Definition values_tokens (o : cobj) : list tok :=
  match o_dtype o with
  | None => [TZ 2]
  | Some _ => TZ 0 :: TZ (Z.of_nat (length (o_vals o))) :: map TB (o_vals o)
  end.

Definition channel_tokens (data : cobj -> list tok) (g : bytes) (ch : bytes * bytes * cobj) : list tok :=
  let '(name, path, o) := ch in
  TB name :: TB g :: TB path ::
  TZ (match o_dtype o with Some t => t | None => -1 end) :: TZ (Z.of_nat (length (o_vals o))) ::
  props_tokens (o_props o) ++ data o.

Definition group_tokens (data : cobj -> list tok) (c : dict cobj) (g : bytes) : list tok :=
  TB g :: props_tokens (props_of c (path_of [g])) ++
  TZ (Z.of_nat (length (channels_of c g))) :: flat_map (channel_tokens data g) (channels_of c g).

Definition hierarchy_tokens (data : cobj -> list tok) (c : dict cobj) : list tok :=
  props_tokens (props_of c (path_of [])) ++
  TZ (Z.of_nat (length (group_names c))) :: flat_map (group_tokens data c) (group_names c).

(* version; root, groups, channels with their values; file status "complete" *)
Definition spec_tokens (c : content) : list tok :=
  TZ (c_version c) :: hierarchy_tokens values_tokens (c_objs c) ++ [TZ 0; TZ 0].

(* ---- the syntactic side conditions of the refinement theorem ------------------------
   (Props/C01_spec.v says, for each, what the real code does outside it) *)

Fixpoint nodup_b (l : list bytes) : bool :=
  match l with
  | [] => true
  | x :: r => negb (existsb (beq x) r) && nodup_b r
  end.

(* the path is the canonical spelling of a root, group or channel path *)
Definition canonical_path (p : bytes) : bool :=
  match parse_path p with Some cs => beq (path_of cs) p | None => false end.

Definition is_channel_path (p : bytes) : bool :=
  match parse_path p with Some [_; _] => true | _ => false end.

Definition entry_ok (x : entry) : bool :=
  canonical_path (e_path x) &&
  match e_idx x with
  | IFull _ _ _ _ _ => is_channel_path (e_path x)
  | _ => true
  end.

Definition seg_ok (s : fseg) : bool :=
  match fs_meta s with
  | None => true
  | Some es => nodup_b (map e_path es) && forallb entry_ok es
  end.

Definition spec_ok (segs : list fseg) : Prop := forallb seg_ok segs = true.
