(* Ownership model of the file handles npTDMS works with (property C20).

   Mirrors, statement by statement:
     nptdms/reader.py : TdmsReader.__init__, close, read_metadata (its
                        `finally`), _ensure_open, is_index_file_only,
                        read_raw_data / read_raw_data_for_channel /
                        read_channel_chunk_for_index (only their use of
                        self._file, self._index_file)
     nptdms/tdms.py   : TdmsFile.__init__ (its `finally`), _read_file, close,
                        __exit__, data_chunks; TdmsChannel.__getitem__,
                        read_data, _read_channel_data, _read_at_index (chunk
                        cache), data_chunks, __iter__
     nptdms/writer.py : TdmsWriter.__init__, open, close, write_segment,
                        __enter__, __exit__, defragment

   What is NOT modelled: the bytes.  Whether parsing raises is an input of the
   model (record [fcond]); the model decides what happens to the handles and
   which read calls raise because of the handle state.

   One slot per file (the .tdms data file, the .tdms_index file).  A slot says
   whether a Python file object exists for that file in the scenario, who
   created it (the library with open(), or the caller), whether it is closed,
   and whether the reader/writer attribute (`_file`, `_index_file`) currently
   references it ("held").  `X.close()` is modelled generically by [close_h]
   on whatever the attribute references - the model does not know that caller
   streams must survive; that is what the theorems establish.

   The switch [fx] selects the code variant: [false] = the code as it is in
   /repo today; [true] = the code with dev/patches/D19_C20_unclosed_on_failure.patch applied (close what was
   opened when a constructor / TdmsFile.open fails half-way). *)

From Coq Require Import List Bool Arith.
Import ListNotations.

(* ---------------------------------------------------------------------- *)
(* File objects                                                            *)

Inductive owner := Lib | Caller.
Inductive status := Open | Closed.

(* [Obj o s held]: a file object exists, created by [o], in state [s];
   [held] = the attribute (`self._file` / `self._index_file`) is not None and
   references it. *)
Inductive handle := Absent | Obj (o : owner) (s : status) (held : bool).

(* the five states of the design (+ the one that must never occur) *)
Inductive hview :=
  VAbsent | VOpenOwned | VOpenCaller | VClosedOwned | VReleased | VClosedCaller.

Definition view (h : handle) : hview :=
  match h with
  | Absent => VAbsent
  | Obj Lib Open _ => VOpenOwned
  | Obj Lib Closed _ => VClosedOwned
  | Obj Caller Open true => VOpenCaller
  | Obj Caller Open false => VReleased
  | Obj Caller Closed _ => VClosedCaller
  end.

Definition held (h : handle) : bool :=
  match h with Obj _ _ true => true | _ => false end.

(* attr.close() : closes the object, whoever created it *)
Definition close_h (h : handle) : handle :=
  match h with Obj o _ r => Obj o Closed r | Absent => Absent end.

(* attr = None *)
Definition drop_h (h : handle) : handle :=
  match h with Obj o s _ => Obj o s false | Absent => Absent end.

(* a descriptor opened by the library is still open *)
Definition lib_open (h : handle) : bool :=
  match h with Obj Lib Open _ => true | _ => false end.

(* a stream supplied by the caller has been closed *)
Definition caller_closed (h : handle) : bool :=
  match h with Obj Caller Closed _ => true | _ => false end.

Inductive err :=
| EClosed      (* RuntimeError: Cannot read data after the underlying TDMS reader is closed *)
| EIndexOnly   (* RuntimeError: Data cannot be read from index file only *)
| ENone        (* AttributeError: 'NoneType' object has no attribute ... *)
| EIO          (* ValueError: I/O operation on closed file *)
| EParse       (* any error raised by parsing / decoding the bytes *)
| EOpen        (* OSError from open() *)
| ETag         (* ValueError: File should either start with TDSh or TDSm *)
| ENoFile      (* ValueError: Neither tdms_index file nor tdms file is available *)
| EUser.       (* an exception raised by the caller's own code inside a with-block *)

Inductive outcome := Done | Stop | Raise (e : err).

(* ---------------------------------------------------------------------- *)
(* TdmsReader                                                              *)

(* data/index: the two slots (attribute + object); fp/ip: `_file_path` /
   `_index_file_path` is not None *)
Record core := mkcore { data : handle; index : handle; fp : bool; ip : bool }.

Inductive source := Path | Stream | IndexPath | IndexStream | BadStream.
(* Path        : str / pathlib.Path not ending in ".tdms_index"
   Stream      : object with .read whose first 4 bytes are TDSm
   IndexPath   : path ending in ".tdms_index"
   IndexStream : object with .read whose first 4 bytes are TDSh
   BadStream   : object with .read starting with anything else *)

Inductive cfault := CNoFault | CDataOpenFails | CIndexOpenFails.

(* before the constructor runs: only the caller's stream exists *)
Definition init_core (src : source) : core :=
  match src with
  | Stream | BadStream => mkcore (Obj Caller Open false) Absent false false
  | IndexStream => mkcore Absent (Obj Caller Open false) false false
  | Path | IndexPath => mkcore Absent Absent false false
  end.

Definition hold (h : handle) : handle :=
  match h with Obj o s _ => Obj o s true | Absent => Absent end.

(* TdmsReader.__init__:
     if hasattr(tdms_file, "read"):
         tag = tdms_file.read(4); tdms_file.seek(0)
         if tag == b"TDSh":   self._index_file = tdms_file
         elif tag == b"TDSm": self._file = tdms_file
         else: raise ValueError
     else:
         source_path = str(tdms_file)
         if source_path.endswith(".tdms_index"):
             self._index_file_path = source_path
             self._index_file = open(self._index_file_path, "rb")
         else:
             self._file_path = source_path
             self._file = open(self._file_path, "rb")
             filepath = self._file_path + '_index'
             if os.path.isfile(filepath):
                 self._index_file_path = filepath
                 self._index_file = open(self._index_file_path, "rb")
   [fx]: the second open() is wrapped in try/except that closes self._file
   before re-raising. *)
Definition construct (fx : bool) (src : source) (index_beside : bool)
           (cf : cfault) (c : core) : outcome * core :=
  match src with
  | BadStream => (Raise ETag, c)
  | Stream => (Done, mkcore (hold (data c)) (index c) (fp c) (ip c))
  | IndexStream => (Done, mkcore (data c) (hold (index c)) (fp c) (ip c))
  | IndexPath =>
      match cf with
      | CIndexOpenFails => (Raise EOpen, mkcore (data c) (index c) (fp c) true)
      | _ => (Done, mkcore (data c) (Obj Lib Open true) (fp c) true)
      end
  | Path =>
      match cf with
      | CDataOpenFails => (Raise EOpen, mkcore (data c) (index c) true (ip c))
      | _ =>
          let d := Obj Lib Open true in
          if index_beside then
            match cf with
            | CIndexOpenFails =>
                (Raise EOpen, mkcore (if fx then close_h d else d) (index c) true true)
            | _ => (Done, mkcore d (Obj Lib Open true) true true)
            end
          else (Done, mkcore d (index c) true (ip c))
      end
  end.

(* TdmsReader.close:
     if self._file is None and self._index_file is None: return
     if self._file_path is not None:       self._file.close()
     if self._index_file_path is not None: self._index_file.close()
     self._file = None; self._index_file = None *)
Definition reader_close (c : core) : outcome * core :=
  if negb (held (data c)) && negb (held (index c)) then (Done, c)
  else if fp c && negb (held (data c)) then (Raise ENone, c)
  else
    let c1 := mkcore (if fp c then close_h (data c) else data c) (index c) (fp c) (ip c) in
    if ip c1 && negb (held (index c1)) then (Raise ENone, c1)
    else
      let c2 := mkcore (data c1) (if ip c1 then close_h (index c1) else index c1)
                       (fp c1) (ip c1) in
      (Done, mkcore (drop_h (data c2)) (drop_h (index c2)) (fp c2) (ip c2)).

(* Outcomes of parsing, supplied by the scenario (the bytes are not modelled). *)
Record fcond := mkfcond {
  fc_meta_data : bool;   (* parsing all metadata from the data file succeeds *)
  fc_meta_index : bool;  (* parsing all metadata from the index file succeeds *)
  fc_build : bool;       (* building groups/channels from the metadata succeeds *)
  fc_file_data : bool;   (* reading all raw data (read_raw_data) succeeds *)
  fc_chan_all : bool;    (* reading all data of the channel under test succeeds *)
  fc_chan_first : bool;  (* reading the chunk of the channel's first value succeeds *)
  fc_layout : list nat   (* chunks of the channel per segment (segments with data) *)
}.

(* an I/O call on a file object referenced by an attribute *)
Definition io_on (h : handle) (ok : bool) : outcome :=
  match h with
  | Obj _ Open true => if ok then Done else Raise EParse
  | Obj _ Closed true => Raise EIO
  | _ => Raise ENone          (* attribute is None: AttributeError *)
  end.

(* TdmsReader.read_metadata:
     if self._index_file is not None: file = self._index_file; reading_index_file = True
     elif self._file is not None:     file = self._file;       reading_index_file = False
     else: raise ValueError
     try: ... parse ...
     finally:
         if reading_index_file and self._index_file_path is not None:
             file.close()
   Afterwards self._index_file still references the (closed) file object. *)
Definition read_metadata (fc : fcond) (c : core) : outcome * core :=
  if held (index c) then
    (io_on (index c) (fc_meta_index fc),
     mkcore (data c) (if ip c then close_h (index c) else index c) (fp c) (ip c))
  else if held (data c) then (io_on (data c) (fc_meta_data fc), c)
  else (Raise ENoFile, c).

(* is_index_file_only: self._file is None and self._index_file is not None *)
Definition is_index_file_only (c : core) : bool :=
  negb (held (data c)) && held (index c).

(* _ensure_open raises iff self._file is None and self._index_file is None *)
Definition ensure_open (c : core) : bool := held (data c) || held (index c).

(* read_raw_data / read_raw_data_for_channel / read_channel_chunk_for_index:
     self._ensure_open(); ... self._verify_segment_start(segment)  # self._file.seek(..)
     ... segment.read_raw_data...(self._file, ...) *)
Definition data_access (c : core) (ok : bool) : outcome :=
  if ensure_open c then io_on (data c) ok else Raise EClosed.

(* ---------------------------------------------------------------------- *)
(* TdmsFile                                                                *)

Inductive api := ApiRead | ApiOpen | ApiReadMetadata.

Definition keep_open (a : api) : bool := match a with ApiOpen => true | _ => false end.
Definition metadata_only (a : api) : bool := match a with ApiRead => false | _ => true end.

(* one in-flight channel.data_chunks() generator: chunks left in the current
   segment (read through the file object captured when the segment was
   entered) and the chunk counts of the segments still to come *)
Inductive gstate := GDone | GRun (inseg : nat) (later : list nat).

Record world := mkworld {
  co : core;            (* the TdmsReader shared by the TdmsFile and its channels *)
  tf_reader : bool;     (* TdmsFile._reader is not None *)
  eager : bool;         (* channels hold their data in memory (TdmsFile.read) *)
  cache : option nat;   (* TdmsChannel._cached_chunk: number of the cached chunk *)
  gen : gstate
}.

(* TdmsFile._read_file(reader, read_metadata_only, keep_open):
     tdms_reader.read_metadata(...)
     ... build groups and channels (no file access) ...
     if not read_metadata_only: self._read_data(tdms_reader)   # read_raw_data()
   called with read_metadata_only = True when reader.is_index_file_only(). *)
Definition read_file (a : api) (fc : fcond) (c : core) : outcome * core * bool :=
  let md_only := metadata_only a || is_index_file_only c in
  let '(o1, c1) := read_metadata fc c in
  match o1 with
  | Done =>
      if fc_build fc then
        if md_only then (Done, c1, false)
        else match data_access c1 (fc_file_data fc) with
             | Done => (Done, c1, true)
             | o => (o, c1, false)
             end
      else (Raise EParse, c1, false)
  | o => (o, c1, false)
  end.

(* an exception raised in a handler / finally block replaces the one in flight *)
Definition after (first second : outcome) : outcome :=
  match second with Done => first | _ => second end.

(* TdmsFile.__init__:
     self._reader = TdmsReader(file)          # outside the try
     try:
         self._read_file(self._reader, ..., keep_open)
     [fx:  except Exception: self._reader.close(); raise]
     finally:
         if not keep_open: self._reader.close()
   Returns the outcome of the call and the world afterwards.  When the outcome
   is a Raise the caller has no TdmsFile object. *)
Definition tf_init (fx : bool) (a : api) (src : source) (index_beside : bool)
           (cf : cfault) (fc : fcond) : outcome * world :=
  match construct fx src index_beside cf (init_core src) with
  | (Done, c) =>
      let '(o1, c1, eg) := read_file a fc c in
      let '(ox, cx) := match o1 with
                       | Done => (Done, c1)
                       | _ => if fx then reader_close c1 else (Done, c1)
                       end in
      let '(o2, c2) := if keep_open a then (Done, cx) else reader_close cx in
      (after (after o1 ox) o2, mkworld c2 true eg None GDone)
  | (o, c) => (o, mkworld c false false None GDone)
  end.

Inductive op :=
| OClose                 (* tdms_file.close() *)
| OExit (exc : bool)     (* leave `with tdms_file:` normally / by an exception: __exit__ *)
| OReadAll               (* channel[:] *)
| OReadData              (* channel.read_data() *)
| OReadIndex (k : nat)   (* channel[i] with i inside chunk number k *)
| OChunks                (* list(channel.data_chunks()) *)
| OIter                  (* list(iter(channel)) *)
| OFileChunks            (* list(tdms_file.data_chunks()) *)
| OGenStart              (* g = channel.data_chunks(); next(g) *)
| OGenNext.              (* next(g) *)

(* TdmsFile.close:
     if self._reader is not None:
         self._reader.close()
         self._reader = None *)
Definition tf_close (w : world) : outcome * world :=
  if tf_reader w then
    let '(o, c) := reader_close (co w) in
    (o, mkworld c (match o with Done => false | _ => true end) (eager w) (cache w) (gen w))
  else (Done, w).

(* reader.read_raw_data_for_channel(path), the generator body:
     for segment in self._segments[start:end + 1]:
         self._verify_segment_start(segment)            # through self._file
         chunk_size = ...; if chunk_size == 0: continue
         for chunk in segment.read_raw_data_for_channel(self._file, ...):  # captures the object
             yield ...
   entering the remaining segments until a chunk is produced *)
Fixpoint enter_segments (c : core) (ok : bool) (later : list nat) : outcome * gstate :=
  match later with
  | [] => (Stop, GDone)
  | n :: r =>
      match io_on (data c) ok with
      | Done => match n with
                | 0 => enter_segments c ok r
                | S m => (Done, GRun m r)
                end
      | o => (o, GDone)
      end
  end.

(* resuming the generator after a yield: the segment generator first does
   file.seek(...) on the object it captured (open or not, referenced by the
   reader or not), then reads the next chunk or moves to the next segment *)
Definition gen_next (c : core) (ok : bool) (g : gstate) : outcome * gstate :=
  match g with
  | GDone => (Stop, GDone)
  | GRun n later =>
      match data c with
      | Obj _ Open _ =>
          match n with
          | S m => if ok then (Done, GRun m later) else (Raise EParse, GDone)
          | 0 => enter_segments c ok later
          end
      | Obj _ Closed _ => (Raise EIO, GDone)
      | Absent => (Raise ENone, GDone)
      end
  end.

Definition cache_hit (w : world) (k : nat) : bool :=
  match cache w with Some k' => Nat.eqb k k' | None => false end.

Definition set_cache (w : world) (k : nat) : world :=
  mkworld (co w) (tf_reader w) (eager w) (Some k) (gen w).

Definition set_gen (w : world) (g : gstate) : world :=
  mkworld (co w) (tf_reader w) (eager w) (cache w) g.

(* TdmsChannel:
     __getitem__(slice) / read_data(): if self._raw_data is not None: from memory
        else _read_channel_data: if self._reader.is_index_file_only(): raise RuntimeError
                                 ... self._reader.read_raw_data_for_channel(...)
     __getitem__(int): from memory, or from self._cached_chunk if the index is
        inside its bounds, else self._reader.read_channel_chunk_for_index(...)
        and the chunk is cached
     data_chunks(): always through self._reader.read_raw_data_for_channel
     __iter__(): iter(self.data) if in memory else via data_chunks()
   TdmsFile.data_chunks(): self._reader.read_raw_data()  (self._reader may be None) *)
Definition step (fc : fcond) (w : world) (o : op) : outcome * world :=
  match o with
  | OClose | OExit _ => tf_close w
  | OReadAll | OReadData =>
      if eager w then (Done, w)
      else if is_index_file_only (co w) then (Raise EIndexOnly, w)
      else (data_access (co w) (fc_chan_all fc), w)
  | OReadIndex k =>
      if eager w then (Done, w)
      else if cache_hit w k then (Done, w)
      else match data_access (co w) (fc_chan_first fc) with
           | Done => (Done, set_cache w k)
           | o' => (o', w)
           end
  | OChunks => (data_access (co w) (fc_chan_all fc), w)
  | OIter => if eager w then (Done, w) else (data_access (co w) (fc_chan_all fc), w)
  | OFileChunks =>
      if tf_reader w then (data_access (co w) (fc_file_data fc), w) else (Raise ENone, w)
  | OGenStart =>
      if ensure_open (co w) then
        let '(o', g) := enter_segments (co w) (fc_chan_all fc) (fc_layout fc) in (o', set_gen w g)
      else (Raise EClosed, set_gen w GDone)
  | OGenNext =>
      let '(o', g) := gen_next (co w) (fc_chan_all fc) (gen w) in (o', set_gen w g)
  end.

Fixpoint run_ops (fc : fcond) (w : world) (ops : list op) : world :=
  match ops with
  | [] => w
  | o :: r => run_ops fc (snd (step fc w o)) r
  end.

(* what the harness can see after each call *)
Definition snapshot := (bool * bool * bool * bool)%type.
Definition snap (c : core) : snapshot :=
  (lib_open (data c), lib_open (index c), caller_closed (data c), caller_closed (index c)).

Fixpoint trace_ops (fc : fcond) (w : world) (ops : list op) : list (outcome * snapshot) :=
  match ops with
  | [] => []
  | o :: r => let '(out, w') := step fc w o in (out, snap (co w')) :: trace_ops fc w' r
  end.

Record scenario := mkscenario {
  sc_src : source; sc_index_beside : bool; sc_cfault : cfault; sc_fc : fcond;
  sc_api : api; sc_ops : list op
}.

Definition sc_init (fx : bool) (sc : scenario) : outcome * world :=
  tf_init fx (sc_api sc) (sc_src sc) (sc_index_beside sc) (sc_cfault sc) (sc_fc sc).

(* the world at the end of the scenario: no operation is possible when the
   API call raised (there is no object) *)
Definition sc_final (fx : bool) (sc : scenario) : world :=
  let '(o, w) := sc_init fx sc in
  match o with Done => run_ops (sc_fc sc) w (sc_ops sc) | _ => w end.

Definition sc_trace (fx : bool) (sc : scenario) : list (outcome * snapshot) :=
  let '(o, w) := sc_init fx sc in
  (o, snap (co w)) ::
  match o with Done => trace_ops (sc_fc sc) w (sc_ops sc) | _ => [] end.

(* ---------------------------------------------------------------------- *)
(* TdmsWriter                                                              *)

Record wstate := mkw {
  wdata : handle; windex : handle; wfp : bool; wip : bool;
  wfin_data : nat; wfin_index : nat
  (* wfin_*: file objects opened by the library whose last reference was
     overwritten while they were open (left to the runtime's finaliser) *)
}.

Inductive wtarget :=
| WPath (index_file : bool)      (* TdmsWriter(path, index_file=True/False) *)
| WStream (index_stream : bool). (* TdmsWriter(stream, index_file=stream/False) *)

(* TdmsWriter.__init__ opens nothing:
     if hasattr(file, "read"): self._file = file; [self._index_file = index_file]
     else: self._file_path = file; [self._index_file_path = file + "_index"] *)
Definition w_init (t : wtarget) : wstate :=
  match t with
  | WPath ix => mkw Absent Absent true ix 0 0
  | WStream ix => mkw (Obj Caller Open true) (if ix then Obj Caller Open true else Absent)
                      false false 0 0
  end.

Inductive wfault := WNoFault | WDataOpenFails | WIndexOpenFails.

(* attr = open(...): the previous object loses its reference *)
Definition orphaned (h : handle) : nat := if lib_open h && held h then 1 else 0.

(* TdmsWriter.open:
     if self._file_path is not None:
         self._file = open(self._file_path, mode + 'b')
         if self._index_file_path is not None:
             self._index_file = open(self._index_file_path, mode + 'b')
   [fx]: the second open() is wrapped in try/except that closes self._file
   before re-raising. *)
Definition w_open (fx : bool) (wf : wfault) (s : wstate) : outcome * wstate :=
  if wfp s then
    match wf with
    | WDataOpenFails => (Raise EOpen, s)
    | _ =>
        let d := Obj Lib Open true in
        let fd := wfin_data s + orphaned (wdata s) in
        if wip s then
          match wf with
          | WIndexOpenFails =>
              (Raise EOpen, mkw (if fx then close_h d else d) (windex s) (wfp s) (wip s)
                                fd (wfin_index s))
          | _ => (Done, mkw d (Obj Lib Open true) (wfp s) (wip s)
                            fd (wfin_index s + orphaned (windex s)))
          end
        else (Done, mkw d (windex s) (wfp s) (wip s) fd (wfin_index s))
    end
  else (Done, s).

(* TdmsWriter.close:
     if self._file_path is not None:       self._file.close()
     if self._index_file_path is not None: self._index_file.close()
     self._file = None; self._index_file = None *)
Definition w_close (s : wstate) : outcome * wstate :=
  if wfp s && negb (held (wdata s)) then (Raise ENone, s)
  else
    let s1 := mkw (if wfp s then close_h (wdata s) else wdata s) (windex s) (wfp s) (wip s)
                  (wfin_data s) (wfin_index s) in
    if wip s1 && negb (held (windex s1)) then (Raise ENone, s1)
    else
      (Done, mkw (drop_h (wdata s1))
                 (drop_h (if wip s1 then close_h (windex s1) else windex s1))
                 (wfp s1) (wip s1) (wfin_data s1) (wfin_index s1)).

(* write_segment:  [building the segment may raise: ok = false]
     segment.write(self._file)
     if self._index_file is not None: segment.write(self._index_file) *)
Definition w_write (ok : bool) (s : wstate) : outcome :=
  if ok then
    match io_on (wdata s) true with
    | Done => match windex s with
              | Obj _ _ true => io_on (windex s) true
              | _ => Done
              end
    | o => o
    end
  else Raise EParse.

(* statements inside `with TdmsWriter(...) as w:` *)
Inductive bstmt :=
| BWrite (ok : bool)   (* w.write_segment(...) *)
| BRaise               (* the caller's code raises *)
| BClose.              (* w.close() inside the block *)

Fixpoint w_body (b : list bstmt) (s : wstate) : outcome * wstate :=
  match b with
  | [] => (Done, s)
  | BWrite ok :: r => match w_write ok s with Done => w_body r s | o => (o, s) end
  | BRaise :: _ => (Raise EUser, s)
  | BClose :: r => match w_close s with (Done, s') => w_body r s' | (o, s') => (o, s') end
  end.

(* with writer: body     (__enter__ = open; __exit__ = close, returns None so
   the exception of the body propagates; an exception in __enter__ means
   neither the body nor __exit__ run) *)
Definition w_with (fx : bool) (wf : wfault) (b : list bstmt) (s : wstate) : outcome * wstate :=
  match w_open fx wf s with
  | (Done, s1) =>
      let '(ob, s2) := w_body b s1 in
      let '(oc, s3) := w_close s2 in
      (after ob oc, s3)
  | r => r
  end.

Inductive wop :=
| WWith (wf : wfault) (b : list bstmt)
| WClose
| WWrite (ok : bool).

Definition w_step (fx : bool) (s : wstate) (o : wop) : outcome * wstate :=
  match o with
  | WWith wf b => w_with fx wf b s
  | WClose => w_close s
  | WWrite ok => (w_write ok s, s)
  end.

Fixpoint w_run (fx : bool) (s : wstate) (ops : list wop) : wstate :=
  match ops with
  | [] => s
  | o :: r => w_run fx (snd (w_step fx s o)) r
  end.

Definition wsnap (s : wstate) : snapshot :=
  (lib_open (wdata s), lib_open (windex s), caller_closed (wdata s), caller_closed (windex s)).

Fixpoint w_trace (fx : bool) (s : wstate) (ops : list wop) : list (outcome * snapshot) :=
  match ops with
  | [] => []
  | o :: r => let '(out, s') := w_step fx s o in (out, wsnap s') :: w_trace fx s' r
  end.

(* file objects the library opened and never closed itself: closed (if at
   all) by the runtime's finaliser *)
Definition w_left_to_finaliser (s : wstate) : nat * nat :=
  (wfin_data s + (if lib_open (wdata s) then 1 else 0),
   wfin_index s + (if lib_open (windex s) then 1 else 0)).

(* TdmsWriter.defragment(source, destination, index_file=...):
     file = TdmsFile(source, raw_timestamps=True)            # reads everything, closes
     with cls(destination, ...) as new_file:
         new_file.write_segment(...) for the root, each group, each channel
   [b]: the statements of the with-block (a write per object; the scenario
   says which one raises, if any) *)
Definition defragment (fx : bool) (src : source) (index_beside : bool) (cf : cfault)
           (fc : fcond) (t : wtarget) (wf : wfault) (b : list bstmt)
  : outcome * world * wstate :=
  let '(o, w) := tf_init fx ApiRead src index_beside cf fc in
  match o with
  | Done => let '(o', s) := w_with fx wf b (w_init t) in (o', w, s)
  | _ => (o, w, w_init t)
  end.

(* ---------------------------------------------------------------------- *)
(* Comparison with what harness/c20.py observed on the implementation      *)

Definition err_code (e : err) : nat :=
  match e with
  | EClosed => 0 | EIndexOnly => 1 | ENone => 2 | EIO => 3 | EParse => 4
  | EOpen => 5 | ETag => 6 | ENoFile => 7 | EUser => 8
  end.

Definition outcome_code (o : outcome) : nat :=
  match o with Done => 0 | Stop => 1 | Raise e => 2 + err_code e end.

Definition snapshot_eqb (a b : snapshot) : bool :=
  let '(a1, a2, a3, a4) := a in
  let '(b1, b2, b3, b4) := b in
  Bool.eqb a1 b1 && Bool.eqb a2 b2 && Bool.eqb a3 b3 && Bool.eqb a4 b4.

Definition obs_eqb (a b : outcome * snapshot) : bool :=
  Nat.eqb (outcome_code (fst a)) (outcome_code (fst b)) && snapshot_eqb (snd a) (snd b).

Fixpoint trace_eqb (a b : list (outcome * snapshot)) : bool :=
  match a, b with
  | [], [] => true
  | x :: a', y :: b' => obs_eqb x y && trace_eqb a' b'
  | _, _ => false
  end.

(* reader scenario: observed trace (API call, then one entry per operation;
   snapshot = library descriptor open for data / index file, caller's data /
   index stream closed) and, per file, whether the runtime's finaliser had to
   close a file object when everything was dropped at the end *)
Definition check_reader (fx : bool)
           (c : scenario * list (outcome * snapshot) * (bool * bool)) : bool :=
  let '(sc, tr, fin) := c in
  trace_eqb (sc_trace fx sc) tr &&
  Bool.eqb (lib_open (data (co (sc_final fx sc)))) (fst fin) &&
  Bool.eqb (lib_open (index (co (sc_final fx sc)))) (snd fin).

Definition check_reader_unpatched := check_reader false.
Definition check_reader_patched := check_reader true.

(* writer scenario: one entry per operation; number of file objects per file
   that the finaliser had to close *)
Definition check_writer (fx : bool)
           (c : wtarget * list wop * list (outcome * snapshot) * (nat * nat)) : bool :=
  let '(t, ops, tr, fin) := c in
  trace_eqb (w_trace fx (w_init t) ops) tr &&
  Nat.eqb (fst (w_left_to_finaliser (w_run fx (w_init t) ops))) (fst fin) &&
  Nat.eqb (snd (w_left_to_finaliser (w_run fx (w_init t) ops))) (snd fin).

Definition check_writer_unpatched := check_writer false.
Definition check_writer_patched := check_writer true.

(* defragment: outcome, snapshot of the source files, snapshot of the
   destination files, finaliser work on source (data, index) *)
Definition check_defrag (fx : bool)
           (c : (source * bool * cfault * fcond) * (wtarget * wfault * list bstmt)
                * (outcome * snapshot * snapshot)) : bool :=
  let '((src, ib, cf, fc), (t, wf, b), (o, s1, s2)) := c in
  let '(o', w, s) := defragment fx src ib cf fc t wf b in
  Nat.eqb (outcome_code o') (outcome_code o) &&
  snapshot_eqb (snap (co w)) s1 && snapshot_eqb (wsnap s) s2.

Definition check_defrag_unpatched := check_defrag false.
Definition check_defrag_patched := check_defrag true.
