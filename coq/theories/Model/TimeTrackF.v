(* C12 (companion) -- binary64 model of TdmsChannel.time_track (nptdms/tdms.py), i.e. of
   NumPy's linspace for two scalar float64 endpoints (numpy/_core/function_base.py, NumPy 2.x),
   with the float operations in the order NumPy performs them, and of the absolute form
   start_time + (relative_time * unit_correction).astype(timedelta64[accuracy]).

   nptdms/tdms.py, TdmsChannel.time_track:
       increment = self.properties['wf_increment']
       offset = self.properties['wf_start_offset']
       relative_time = np.linspace(offset, offset + (len(self) - 1) * increment, len(self))
       if not absolute_time: return relative_time
       ...
       unit_correction = {'s': 1e0, 'ms': 1e3, 'us': 1e6, 'ns': 1e9}[accuracy]
       time_type = "timedelta64[{0}]".format(accuracy)
       return (start_time + (relative_time * unit_correction).astype(time_type))

   numpy/_core/function_base.py, linspace(start, stop, num, endpoint=True), scalar endpoints:
       div = num - 1
       delta = np.subtract(stop, start, dtype=float64)        (a float64 scalar)
       y = arange(0, num, dtype=float64)                      (y[i] = float(i), exact below 2^53)
       if div > 0:
           step = delta / div
           if step == 0:  y /= div; y *= delta                (gh-5437, denormals)
           else:          y *= step
       else:
           y = y * delta                                      (num = 1: y = [0.0 * delta])
       y += start
       if num > 1: y[-1] = stop

   wf_increment / wf_start_offset are float64 properties (DoubleFloat); an integer-typed
   property is outside this model.  Integers (len, index) are Z; they are converted to binary64
   by of_uint63, which is exact below 2^53 (Proofs/TimeTrackRound.v, Z2f_ok).
   No proofs here. *)
From Coq Require Import ZArith List Bool.
From Coq Require Import PrimFloat Uint63 FloatOps SpecFloat FloatClass.
From NpTdms Require Import Base.Bytes Model.Timestamp.
Import ListNotations.
Local Open Scope Z_scope.

(* int -> float64 for 0 <= z < 2^63 (round to nearest even; exact for z <= 2^53) *)
Definition Z2f (z : Z) : float := of_uint63 (Uint63.of_Z z).

(* the i-th element of np.linspace(start, stop, num), 0 <= i < num *)
Definition linspace_f (start stop : float) (num i : Z) : float :=
  let delta := (stop - start)%float in
  if num =? 1 then (Z2f 0 * delta + start)%float
  else
    let div := Z2f (num - 1) in
    let step := (delta / div)%float in
    if i =? num - 1 then stop
    else if (step =? 0)%float then (Z2f i / div * delta + start)%float
    else (Z2f i * step + start)%float.

Definition zrange (n : Z) : list Z := map Z.of_nat (seq 0 (Z.to_nat n)).

(* the whole array (empty for num = 0; NumPy raises ValueError for num < 0, which len() never is) *)
Definition linspace_list (start stop : float) (num : Z) : list float :=
  map (linspace_f start stop num) (zrange num).

(* stop as the caller computes it: offset + (len(self) - 1) * increment *)
Definition time_track_stop (offset increment : float) (n : Z) : float :=
  (offset + Z2f (n - 1) * increment)%float.

(* time_track()[i] *)
Definition time_track_f (offset increment : float) (n i : Z) : float :=
  linspace_f offset (time_track_stop offset increment n) n i.

(* time_track(): n <= 0 gives the empty array (the stop is then not used by linspace) *)
Definition time_track_fl (offset increment : float) (n : Z) : list float :=
  map (time_track_f offset increment n) (zrange n).

(* ---- the absolute form ------------------------------------------------------------------- *)

(* unit_correction = {'s': 1e0, 'ms': 1e3, 'us': 1e6, 'ns': 1e9}[accuracy] *)
Definition uc_f (r : resolution) : float :=
  match r with
  | Rs => 0x1p+0%float
  | Rms => 0x1.f4p+9%float
  | Rus => 0x1.e848p+19%float
  | Rns => 0x1.dcd65p+29%float
  end.

(* .astype(timedelta64[..]) of a float64: the C conversion double -> int64, which truncates
   towards zero.  NaN, the infinities and values outside (-2^63, 2^63) have no defined result
   (on x86-64 they give INT64_MIN, which NumPy reads as NaT; -2^63 itself is NaT as well): None *)
Definition trunc_f (x : float) : option Z :=
  match Prim2SF x with
  | S754_zero _ => Some 0
  | S754_finite s m e =>
      let a := if 0 <=? e then Zpos m * 2 ^ e else Zpos m / 2 ^ (- e) in
      let k := if s then - a else a in
      if (- 2 ^ 63 <? k) && (k <? 2 ^ 63) then Some k else None
  | _ => None
  end.

(* time_track(absolute_time=True, accuracy=r)[i] as the int64 count of a datetime64[r], for a
   start_time that is a datetime64[r] with count start (the case of a TdmsTimestamp property,
   converted by as_datetime64(accuracy)); None = NaT or int64 overflow of the sum *)
Definition time_track_abs_f (start : Z) (r : resolution) (offset increment : float) (n i : Z)
  : option Z :=
  match trunc_f (time_track_f offset increment n i * uc_f r)%float with
  | Some k => let z := start + k in
              if (- 2 ^ 63 <? z) && (z <? 2 ^ 63) then Some z else None
  | None => None
  end.

(* ---- comparison with NumPy's output (harness/c12.py, linspace_tie) ------------------------- *)

(* bit-exact, all NaNs identified *)
Definition fbits_eqb (a b : float) : bool :=
  match classify a, classify b with
  | NaN, NaN => true
  | PZero, PZero => true
  | NZero, NZero => true
  | PZero, _ | NZero, _ | _, PZero | _, NZero => false
  | _, _ => (a =? b)%float
  end.

(* case: offset, increment, len, index, the stop NumPy was given, np.linspace(..)[index],
         per accuracy (s, ms, us, ns) the int64 of (relative * unit).astype(timedelta64) or None
         when it is NaT *)
Definition check_linspace (c : float * float * Z * Z * float * float * list (option Z)) : bool :=
  let '(o, inc, n, i, stop, y, ks) := c in
  fbits_eqb (time_track_stop o inc n) stop &&
  fbits_eqb (linspace_f o stop n i) y &&
  fbits_eqb (time_track_f o inc n i) y &&
  match ks with
  | [] => true
  | _ => forallb (fun rk => match trunc_f (time_track_f o inc n i * uc_f (fst rk))%float, snd rk with
                            | Some a, Some b => a =? b
                            | None, None => true
                            | _, _ => false
                            end) (combine all_res ks)
  end.

(* case: start, stop, num, index, np.linspace(start, stop, num)[index] for arbitrary endpoints
   (the step == 0 branch with delta <> 0 needs denormal endpoints; the sampled time_track cases,
   whose stop is offset + (len - 1) * increment, reach that branch only with delta = 0) *)
Definition check_linspace_ep (c : float * float * Z * Z * float) : bool :=
  let '(a, b, n, i, y) := c in fbits_eqb (linspace_f a b n i) y.
