(* Model of nptdms/scaling.py: lookup of the NI_Scale[i] definitions in the channel /
   group / file properties (get_scaling, _get_channel_scaling, _get_number_of_scalings)
   and their evaluation as a dataflow graph (MultiScaling._compute_scaled_data and the
   `scale` methods of the structural scale types).

   Executable (vm_compute) and compared bit-exactly with npTDMS by harness/c13.py.
   No proofs in this file (Proofs/ScaleProofs.v).

   Scope of the numeric model
   * arrays are typed lists: bool, the eight integer types (elements in Z, wrap-around
     written explicitly), float32 (held as the doubles that are exactly representable in
     binary32; arithmetic = double operation followed by [round32]) and float64
     (PrimFloat, bit-exact).  Complex arrays have no numeric model here (dtype level
     only, Model/ScaleDtype.v); the sensor scalings (RTD, Strain, Thermistor,
     Thermocouple) are represented in the graph but their numerics belong to C17/C18.
   * numeric scale parameters are Python floats (TDMS double properties, as NI writes
     them); input sources and counts are Python ints.  Any other property type gives
     [Err EUnmodelled].
   * property names are ASCII (Python's \d also accepts non-ASCII decimal digits).
   * the model mirrors the code AFTER fix D8 (LinearScaling casts to double first). *)
From Coq Require Import ZArith List Bool String Ascii DecimalString PrimFloat Uint63.
Import ListNotations.
From NpTdms Require Import Gen.NumpyPromote.

(* ---------------------------------------------------------------------------- *)
(* Errors (`raise` in the Python) *)

Inductive err :=
| EKey          (* KeyError: a required property / scaler id is missing *)
| EIndex        (* IndexError: input source outside the list of scalings *)
| EValue        (* ValueError: table sizes differ, table not monotonic, empty table,
                   missing scaling information for DAQmx data *)
| EType         (* TypeError raised by NumPy (boolean subtract, interp on complex) *)
| EDaqmxSource  (* Exception("Invalid scaling input source for DAQmx data") *)
| ELength       (* operands of different lengths (cannot happen within one channel) *)
| EFuel         (* recursion deeper than the fuel: only for cyclic definitions *)
| ESensor       (* a sensor scaling: numerics not modelled in this file *)
| EUnmodelled.  (* outside the stated scope of the model *)

Inductive res (A : Type) := Ok (a : A) | Err (e : err).
Arguments Ok {A} a.
Arguments Err {A} e.

Definition bind {A B} (r : res A) (f : A -> res B) : res B :=
  match r with Ok a => f a | Err e => Err e end.
Definition rmap {A B} (f : A -> B) (r : res A) : res B :=
  match r with Ok a => Ok (f a) | Err e => Err e end.
Notation "x <- r ;; k" := (bind r (fun x => k)) (at level 61, r at next level, right associativity).

(* ---------------------------------------------------------------------------- *)
(* Values: typed arrays *)

Inductive ikind := I8 | I16 | I32 | I64 | U8 | U16 | U32 | U64.

Inductive value :=
| VB (l : list bool)             (* bool *)
| VI (k : ikind) (l : list Z)    (* int8 .. uint64, elements within the type's range *)
| VS (l : list float)            (* float32: every element representable in binary32 *)
| VD (l : list float).           (* float64 *)

Definition dtype_of_ikind (k : ikind) : dtype :=
  match k with I8 => Int8 | I16 => Int16 | I32 => Int32 | I64 => Int64
             | U8 => UInt8 | U16 => UInt16 | U32 => UInt32 | U64 => UInt64 end.

Definition ikind_of_dtype (d : dtype) : option ikind :=
  match d with Int8 => Some I8 | Int16 => Some I16 | Int32 => Some I32 | Int64 => Some I64
             | UInt8 => Some U8 | UInt16 => Some U16 | UInt32 => Some U32 | UInt64 => Some U64
             | _ => None end.

Definition ikind_eqb (a b : ikind) : bool := dtype_eqb (dtype_of_ikind a) (dtype_of_ikind b).

Definition dtype_of (v : value) : dtype :=
  match v with VB _ => Bool | VI k _ => dtype_of_ikind k | VS _ => Float32 | VD _ => Float64 end.

Definition vlen (v : value) : nat :=
  match v with VB l => List.length l | VI _ l => List.length l | VS l => List.length l | VD l => List.length l end.

(* a[o : o+l] for o, l >= 0  (read_data(offset, length) / slice_raw_data) *)
Definition win {A} (o l : nat) (xs : list A) : list A := firstn l (skipn o xs).

Definition window (o l : nat) (v : value) : value :=
  match v with
  | VB xs => VB (win o l xs) | VI k xs => VI k (win o l xs)
  | VS xs => VS (win o l xs) | VD xs => VD (win o l xs)
  end.

(* ---- integer wrap-around --------------------------------------------------- *)
Definition ibits (k : ikind) : Z :=
  match k with I8 | U8 => 8 | I16 | U16 => 16 | I32 | U32 => 32 | I64 | U64 => 64 end.
Definition isigned (k : ikind) : bool :=
  match k with I8 | I16 | I32 | I64 => true | _ => false end.

(* two's complement reduction into the range of k (C integer arithmetic as NumPy does it) *)
Definition wrap (k : ikind) (z : Z) : Z :=
  let m := (2 ^ ibits k)%Z in
  let r := (z mod m)%Z in
  if isigned k && (2 ^ (ibits k - 1) <=? r)%Z then (r - m)%Z else r.

(* ---- int -> float64 (C cast: round to nearest even), |z| < 2^64 ------------- *)
Definition Z2f (z : Z) : float :=
  let a := Z.abs z in
  let m := if (a <? 2 ^ 63)%Z then of_uint63 (Uint63.of_Z a)
           else (* 2^63 <= a < 2^64: halve keeping a sticky bit, convert, double *)
             (of_uint63 (Uint63.of_Z (Z.lor (Z.shiftr a 1) (Z.land a 1))) * 2)%float in
  if (z <? 0)%Z then (- m)%float else m.

(* ---- float64 -> float32 rounding (round to nearest even), result held as a double - *)
Definition fshift : Z := 2101.
Definition frexpZ (x : float) : float * Z :=
  let (m, e) := frshiftexp x in (m, (Uint63.to_Z e - fshift)%Z).
Definition ldexpZ (x : float) (e : Z) : float := ldshiftexp x (Uint63.of_Z (e + fshift)).

Definition round32 (x : float) : float :=
  match classify x with
  | FloatClass.NaN | FloatClass.PInf | FloatClass.NInf | FloatClass.PZero | FloatClass.NZero => x
  | _ =>
    let e := snd (frexpZ x) in                  (* |x| = m * 2^e, 1/2 <= m < 1 *)
    let q := Z.max (e - 24) (-149) in           (* binary32 spacing at x is 2^q *)
    let y := ldexpZ (abs x) (- q) in            (* exact; 0 <= y <= 2^24 *)
    let n := ((y + 0x1p+52) - 0x1p+52)%float in (* nearest integer, ties to even *)
    let r := ldexpZ n q in
    let r := if (0x1p+128 <=? r)%float then infinity else r in
    if (x <? 0)%float then (- r)%float else r
  end.

(* ---- casts ----------------------------------------------------------------- *)
Definition b2f (b : bool) : float := if b then 1%float else 0%float.
Definition b2z (b : bool) : Z := if b then 1%Z else 0%Z.

(* arr.astype(float64): exact for bool, float32, and ints up to 2^53 *)
Definition astype_f64 (v : value) : list float :=
  match v with
  | VB l => map b2f l
  | VI _ l => map Z2f l
  | VS l => l
  | VD l => l
  end.

(* conversion of an operand to the common type rt chosen by NumPy's promotion; only the
   conversions np.result_type can ask for are modelled *)
Definition promote (rt : dtype) (v : value) : res value :=
  match rt with
  | Float64 => Ok (VD (astype_f64 v))
  | Float32 =>
      match v with
      | VS l => Ok (VS l)
      | VB l => Ok (VS (map b2f l))
      | VI k l => if (ibits k <=? 16)%Z then Ok (VS (map Z2f l)) else Err EUnmodelled
      | VD _ => Err EUnmodelled
      end
  | Bool => match v with VB l => Ok (VB l) | _ => Err EUnmodelled end
  | Complex64 | Complex128 => Err EUnmodelled
  | _ =>
      match ikind_of_dtype rt, v with
      | Some k', VB l => Ok (VI k' (map b2z l))
      | Some k', VI _ l => Ok (VI k' (map (wrap k') l))
      | _, _ => Err EUnmodelled
      end
  end.

(* ---------------------------------------------------------------------------- *)
(* The `scale` methods *)

Definition zip_with {A B} (f : A -> A -> B) (a b : list A) : res (list B) :=
  if Nat.eqb (List.length a) (List.length b)
  then Ok (map (fun p => f (fst p) (snd p)) (combine a b))
  else Err ELength.

(* a + b / a - b on arrays: common type from the generated table, operands converted,
   then the operation of that type *)
Definition np_arith (sub : bool) (tbl : option dtype) (a b : value) : res value :=
  match tbl with
  | None => Err EType
  | Some rt =>
      a' <- promote rt a ;;
      b' <- promote rt b ;;
      match a', b' with
      | VB x, VB y => if sub then Err EUnmodelled else rmap VB (zip_with orb x y)
      | VI k x, VI k' y =>
          if ikind_eqb k k'
          then rmap (VI k) (zip_with (fun p q => wrap k (if sub then p - q else p + q)%Z) x y)
          else Err EUnmodelled
      | VS x, VS y =>
          rmap VS (zip_with (fun p q => round32 (if sub then p - q else p + q)%float) x y)
      | VD x, VD y =>
          rmap VD (zip_with (fun p q => (if sub then p - q else p + q)%float) x y)
      | _, _ => Err EUnmodelled
      end
  end.

(* AddScaling.scale:       return left_data + right_data *)
Definition scale_add (l r : value) : res value :=
  np_arith false (add_arr (dtype_of l) (dtype_of r)) l r.

(* SubtractScaling.scale:  return right_data - left_data     (right minus left!) *)
Definition scale_subtract (l r : value) : res value :=
  np_arith true (sub_arr (dtype_of l) (dtype_of r)) r l.

(* LinearScaling.scale (after D8):
       data = data.astype(_double_precision_dtype(data.dtype), copy=False)
       return data * self.slope + self.intercept
   two separately rounded operations (two ufunc calls) *)
Definition scale_linear (slope intercept : float) (v : value) : res value :=
  if is_complexfloating (dtype_of v) then Err EUnmodelled
  else Ok (VD (map (fun x => (x * slope + intercept)%float) (astype_f64 v))).

(* PolynomialScaling.scale:
       if len(self.coefficients) == 0: return np.zeros(len(data), dtype=float64)
       data = data.astype(float64, copy=False)
       return polyval(data, self.coefficients)
   numpy.polynomial.polynomial.polyval:
       c0 = c[-1] + x*0
       for i in range(2, len(c) + 1): c0 = c[-i] + c0*x *)
(* clast = c[-1], rest = c[-2], c[-3], ..., c[0] *)
Definition horner (clast : float) (rest : list float) (x : float) : float :=
  fold_left (fun c0 c => (c + c0 * x)%float) rest (clast + x * 0)%float.

Definition scale_polynomial (coeffs : list float) (v : value) : res value :=
  match rev coeffs with
  | [] => Ok (VD (repeat 0%float (vlen v)))
  | clast :: rest => Ok (VD (map (horner clast rest) (astype_f64 v)))
  end.

(* TableScaling.scale: np.interp(data, self.input_values, self.output_values)
   (numpy/_core/src/multiarray/compiled_base.c: arr_interp, left = fp[0], right = fp[-1]) *)
Definition fnan (x : float) : bool := negb (x =? x)%float.

(* invariant: fst p0 <= x, and x <= the last abscissa *)
Fixpoint interp_search (p0 : float * float) (rest : list (float * float)) (x : float) : float :=
  match rest with
  | [] => snd p0                                            (* j == lenxp - 1 *)
  | p1 :: rest' =>
      if (fst p1 <=? x)%float then interp_search p1 rest' x (* key >= arr[i]: advance *)
      else if (fst p0 =? x)%float then snd p0               (* dx[j] == x_val *)
      else
        let slope := ((snd p1 - snd p0) / (fst p1 - fst p0))%float in
        let r := (slope * (x - fst p0) + snd p0)%float in
        if fnan r then
          let r2 := (slope * (x - fst p1) + snd p1)%float in
          if fnan r2 && (snd p0 =? snd p1)%float then snd p0 else r2
        else r
  end.

(* last point of the non-empty list p0 :: rest *)
Fixpoint last_point (p0 : float * float) (rest : list (float * float)) : float * float :=
  match rest with [] => p0 | p1 :: rest' => last_point p1 rest' end.

Definition interp1 (p0 : float * float) (rest : list (float * float)) (x : float) : float :=
  match rest with
  | [] =>                                                   (* lenxp == 1 *)
      (* (x < xp) ? lval : ((x > xp) ? rval : fp)  with lval = rval = fp *)
      snd p0
  | _ =>
      let plast := last_point p0 rest in
      if fnan x then x
      else if (fst plast <? x)%float then snd plast         (* key > arr[len-1]: right *)
      else if (x <? fst p0)%float then snd p0               (* key < arr[0]: left *)
      else interp_search p0 rest x
  end.

Definition scale_table (xs ys : list float) (v : value) : res value :=
  if negb (Nat.eqb (List.length xs) (List.length ys)) then Err EValue   (* fp and xp are not of the same List.length *)
  else match combine xs ys with
       | [] => Err EValue                                     (* array of sample points is empty *)
       | p0 :: rest => Ok (VD (map (interp1 p0 rest) (astype_f64 v)))
       end.

(* ---------------------------------------------------------------------------- *)
(* The graph *)

(* input source: RAW_DATA_INPUT_SOURCE (0xFFFFFFFF) or an index into the scalings list *)
Inductive src := Raw | Idx (z : Z).

Definition RAW_DATA_INPUT_SOURCE : Z := 0xFFFFFFFF.
Definition src_of_int (z : Z) : src := if (z =? RAW_DATA_INPUT_SOURCE)%Z then Raw else Idx z.

Inductive sensor := SRtd | SStrain | SThermistor | SThermocouple.

Inductive scaling :=
| Linear (slope intercept : float) (s : src)
| Polynomial (coeffs : list float) (s : src)
| Table (xs ys : list float) (s : src)        (* input_values, output_values *)
| Add (l r : src)
| Subtract (l r : src)
| NoOp (s : src)                               (* AdvancedAPI *)
| DaqmxScaler (id : nat)
| Sensor (k : sensor) (s : src).

Definition graph := list scaling.

(* Python list indexing scalings[z]: negative z counts from the end *)
Definition py_index {A} (l : list A) (z : Z) : option A :=
  let n := Z.of_nat (List.length l) in
  if (0 <=? z)%Z then nth_error l (Z.to_nat z)
  else if (0 <=? n + z)%Z then nth_error l (Z.to_nat (n + z))
  else None.

(* raw_channel_data: .data (None for DAQmx) and .scaler_data (dict scale id -> array) *)
Record rawdata := { rdata : option value; rscalers : list (nat * value) }.

Fixpoint assoc_nat {A} (k : nat) (l : list (nat * A)) : option A :=
  match l with
  | [] => None
  | (k', a) :: r => if Nat.eqb k k' then Some a else assoc_nat k r
  end.

(* MultiScaling._compute_scaled_data(scale_index, raw_channel_data) *)
Fixpoint eval_src (fuel : nat) (g : graph) (raw : rawdata) (s : src) : res value :=
  match s with
  | Raw =>
      match rdata raw with
      | None => Err EDaqmxSource
      | Some v => Ok v
      end
  | Idx z =>
      match fuel with
      | O => Err EFuel
      | S fuel' =>
          match py_index g z with
          | None => Err EIndex
          | Some sc =>
              match sc with
              | DaqmxScaler id =>
                  match assoc_nat id (rscalers raw) with
                  | None => Err EKey
                  | Some v => Ok v
                  end
              | Linear a b s' => v <- eval_src fuel' g raw s' ;; scale_linear a b v
              | Polynomial cs s' => v <- eval_src fuel' g raw s' ;; scale_polynomial cs v
              | Table xs ys s' => v <- eval_src fuel' g raw s' ;; scale_table xs ys v
              | NoOp s' => eval_src fuel' g raw s'
              | Sensor _ s' => v <- eval_src fuel' g raw s' ;; Err ESensor
              | Add l r =>
                  lv <- eval_src fuel' g raw l ;;
                  rv <- eval_src fuel' g raw r ;;
                  scale_add lv rv
              | Subtract l r =>
                  lv <- eval_src fuel' g raw l ;;
                  rv <- eval_src fuel' g raw r ;;
                  scale_subtract lv rv
              end
          end
      end
  end.

(* MultiScaling.scale: final_scale = len(self.scalings) - 1 *)
Definition final_src (g : graph) : src := Idx (Z.of_nat (List.length g) - 1).
Definition eval (g : graph) (raw : rawdata) : res value :=
  eval_src (S (List.length g)) g raw (final_src g).

(* well-formed (acyclic, in-range) definitions: every input source is the raw data or
   an earlier scale *)
Definition src_okb (i : nat) (s : src) : bool :=
  match s with Raw => true | Idx z => (0 <=? z)%Z && (z <? Z.of_nat i)%Z end.

Definition wf_scalingb (i : nat) (sc : scaling) : bool :=
  match sc with
  | Linear _ _ s | Polynomial _ s | Table _ _ s | NoOp s | Sensor _ s => src_okb i s
  | Add l r | Subtract l r => src_okb i l && src_okb i r
  | DaqmxScaler _ => true
  end.

Fixpoint wf_from (i : nat) (g : graph) : bool :=
  match g with
  | [] => true
  | sc :: r => wf_scalingb i sc && wf_from (S i) r
  end.

Definition wf_graphb (g : graph) : bool := wf_from 0 g.
Definition wf_graph (g : graph) : Prop :=
  forall i sc, nth_error g i = Some sc -> wf_scalingb i sc = true.

(* the raw data of a window of the channel: every array cut to [o, o+l) *)
Definition window_raw (o l : nat) (raw : rawdata) : rawdata :=
  {| rdata := option_map (window o l) (rdata raw);
     rscalers := map (fun kv => (fst kv, window o l (snd kv))) (rscalers raw) |}.

(* every array of the channel has n elements (one channel has one length) *)
Definition uniform (n : nat) (raw : rawdata) : Prop :=
  (forall v, rdata raw = Some v -> vlen v = n) /\
  (forall id v, assoc_nat id (rscalers raw) = Some v -> vlen v = n).

(* SPECIFICATION: the NI_Scale definitions read as a dataflow graph.  [flows g raw s v]:
   the wire named by input source s carries the array v. *)
Inductive flows (g : graph) (raw : rawdata) : src -> value -> Prop :=
| F_raw : forall v,
    rdata raw = Some v -> flows g raw Raw v
| F_daqmx : forall i id v,
    nth_error g i = Some (DaqmxScaler id) -> assoc_nat id (rscalers raw) = Some v ->
    flows g raw (Idx (Z.of_nat i)) v
| F_linear : forall i a b s vin v,
    nth_error g i = Some (Linear a b s) -> flows g raw s vin -> scale_linear a b vin = Ok v ->
    flows g raw (Idx (Z.of_nat i)) v
| F_polynomial : forall i cs s vin v,
    nth_error g i = Some (Polynomial cs s) -> flows g raw s vin -> scale_polynomial cs vin = Ok v ->
    flows g raw (Idx (Z.of_nat i)) v
| F_table : forall i xs ys s vin v,
    nth_error g i = Some (Table xs ys s) -> flows g raw s vin -> scale_table xs ys vin = Ok v ->
    flows g raw (Idx (Z.of_nat i)) v
| F_noop : forall i s v,
    nth_error g i = Some (NoOp s) -> flows g raw s v ->
    flows g raw (Idx (Z.of_nat i)) v
| F_add : forall i l r lv rv v,
    nth_error g i = Some (Add l r) -> flows g raw l lv -> flows g raw r rv ->
    scale_add lv rv = Ok v ->
    flows g raw (Idx (Z.of_nat i)) v
| F_subtract : forall i l r lv rv v,
    nth_error g i = Some (Subtract l r) -> flows g raw l lv -> flows g raw r rv ->
    scale_subtract lv rv = Ok v ->
    flows g raw (Idx (Z.of_nat i)) v.

(* ---------------------------------------------------------------------------- *)
(* Properties and the lookup of the scaling definitions *)

Inductive pval := PStr (s : string) | PFloat (f : float) | PInt (z : Z).
Definition props := list (string * pval).   (* a dict: keys are unique *)

Fixpoint pget (k : string) (p : props) : option pval :=
  match p with
  | [] => None
  | (k', v) :: r => if String.eqb k k' then Some v else pget k r
  end.

Definition dec (n : nat) : string := NilZero.string_of_uint (Nat.to_uint n).

(* "NI_Scale[%d]" % i ++ suffix *)
Definition skey (i : nat) (suffix : string) : string :=
  ("NI_Scale[" ++ dec i ++ "]" ++ suffix)%string.

(* _scale_regex = re.compile(r"NI_Scale\[(\d+)\]_Scale_Type"); _scale_regex.match(key)
   is a PREFIX match.  Returns int(group(1)). *)
Fixpoint strip_prefix (pre s : string) : option string :=
  match pre with
  | EmptyString => Some s
  | String c pre' =>
      match s with
      | String d s' => if Ascii.eqb c d then strip_prefix pre' s' else None
      | EmptyString => None
      end
  end.

Definition digit_val (c : ascii) : option Z :=
  let n := Z.of_nat (nat_of_ascii c) in
  if (48 <=? n)%Z && (n <=? 57)%Z then Some (n - 48)%Z else None.

(* maximal run of digits: (value, number of digits, rest) *)
Fixpoint take_digits (s : string) (acc : Z) (cnt : nat) : Z * nat * string :=
  match s with
  | String c s' =>
      match digit_val c with
      | Some d => take_digits s' (acc * 10 + d)%Z (S cnt)
      | None => (acc, cnt, s)
      end
  | EmptyString => (acc, cnt, s)
  end.

Definition scale_regex_match (key : string) : option Z :=
  match strip_prefix "NI_Scale[" key with
  | None => None
  | Some r =>
      let '(v, cnt, r') := take_digits r 0%Z 0 in
      match cnt with
      | O => None
      | _ => match strip_prefix "]_Scale_Type" r' with
             | Some _ => Some v           (* anything may follow: match, not fullmatch *)
             | None => None
             end
      end
  end.

Fixpoint filter_map {A B} (f : A -> option B) (l : list A) : list B :=
  match l with
  | [] => []
  | a :: r => match f a with Some b => b :: filter_map f r | None => filter_map f r end
  end.

(* _get_number_of_scalings *)
Definition number_of_scalings (p : props) : res (option Z) :=
  match pget "NI_Number_Of_Scales" p with
  | Some (PInt z) => Ok (Some z)                 (* int(properties[...]) *)
  | Some _ => Err EUnmodelled
  | None =>
      match filter_map (fun kv => scale_regex_match (fst kv)) p with
      | [] => Ok None                            (* max() of nothing: ValueError -> None *)
      | z :: zs => Ok (Some (fold_left Z.max zs z + 1)%Z)
      end
  end.

(* properties[key] of the expected Python type *)
Definition get_float (p : props) (k : string) : res float :=
  match pget k p with
  | None => Err EKey
  | Some (PFloat f) => Ok f
  | Some _ => Err EUnmodelled
  end.
Definition get_int (p : props) (k : string) : res Z :=
  match pget k p with
  | None => Err EKey
  | Some (PInt z) => Ok z
  | Some _ => Err EUnmodelled
  end.
(* try: properties[key] except KeyError: RAW_DATA_INPUT_SOURCE *)
Definition get_source_default (p : props) (k : string) : res src :=
  match pget k p with
  | None => Ok Raw
  | Some (PInt z) => Ok (src_of_int z)
  | Some _ => Err EUnmodelled
  end.
Definition get_source (p : props) (k : string) : res src :=
  z <- get_int p k ;; Ok (src_of_int z).

Fixpoint get_floats (p : props) (key : nat -> string) (idxs : list nat) : res (list float) :=
  match idxs with
  | [] => Ok []
  | i :: r => f <- get_float p (key i) ;; fs <- get_floats p key r ;; Ok (f :: fs)
  end.

Fixpoint require_all (p : props) (keys : list string) : res unit :=
  match keys with
  | [] => Ok tt
  | k :: r => match pget k p with None => Err EKey | Some _ => require_all p r end
  end.

(* np.all(np.diff(a) > 0) *)
Definition increasing (l : list float) : bool :=
  forallb (fun pr => (0 <? (snd pr - fst pr))%float) (combine l (tl l)).

(* TableScaling.__init__ *)
Definition mk_table (pre_scaled scaled : list float) (s : src) : res scaling :=
  if increasing scaled then Ok (Table scaled pre_scaled s)
  else if increasing (rev scaled) then Ok (Table (rev scaled) (rev pre_scaled) s)
  else Err EValue.

Definition range (n : Z) : list nat := seq 0 (Z.to_nat n).

Definition thermocouple_type_ok (z : Z) : bool :=
  existsb (Z.eqb z) [10047; 10055; 10072; 10073; 10077; 10082; 10085; 10086]%Z.

(* the body of the loop of _get_channel_scaling for one scale index:
   Ok None = "Unsupported scale type" (the whole function then returns None) *)
Definition scaling_at (p : props) (i : nat) : res (option scaling) :=
  match pget (skey i "_Scale_Type") p with
  | None => Ok (Some (DaqmxScaler i))
  | Some (PStr t) =>
      if String.eqb t "Polynomial" then
        n <- match pget (skey i "_Polynomial_Coefficients_Size") p with
             | None => Ok 4%Z | Some (PInt z) => Ok z | Some _ => Err EUnmodelled end ;;
        s <- get_source_default p (skey i "_Polynomial_Input_Source") ;;
        cs <- get_floats p (fun j => skey i ("_Polynomial_Coefficients[" ++ dec j ++ "]")) (range n) ;;
        Ok (Some (Polynomial cs s))
      else if String.eqb t "Linear" then
        s <- get_source_default p (skey i "_Linear_Input_Source") ;;
        b <- get_float p (skey i "_Linear_Y_Intercept") ;;
        a <- get_float p (skey i "_Linear_Slope") ;;
        Ok (Some (Linear a b s))
      else if String.eqb t "RTD" then
        _ <- require_all p (map (fun x => skey i ("_RTD_" ++ x))
               ["Current_Excitation"; "R0_Nominal_Resistance"; "A"; "B"; "C"; "Lead_Wire_Resistance";
                "Resistance_Configuration"]%string) ;;
        s <- get_source p (skey i "_RTD_Input_Source") ;;
        Ok (Some (Sensor SRtd s))
      else if String.eqb t "Strain" then
        _ <- require_all p (map (fun x => skey i ("_Strain_" ++ x))
               ["Configuration"; "Poisson_Ratio"; "Gage_Resistance"; "Lead_Wire_Resistance";
                "Initial_Bridge_Voltage"; "Gage_Factor"; "Bridge_Shunt_Calibration_Gain_Adjustment";
                "Voltage_Excitation"]%string) ;;
        s <- get_source p (skey i "_Strain_Input_Source") ;;
        Ok (Some (Sensor SStrain s))
      else if String.eqb t "Table" then
        s <- get_source_default p (skey i "_Table_Input_Source") ;;
        n1 <- get_int p (skey i "_Table_Pre_Scaled_Values_Size") ;;
        n2 <- get_int p (skey i "_Table_Scaled_Values_Size") ;;
        if negb (n1 =? n2)%Z then Err EValue else
        pre <- get_floats p (fun j => skey i ("_Table_Pre_Scaled_Values[" ++ dec j ++ "]")) (range n1) ;;
        sc <- get_floats p (fun j => skey i ("_Table_Scaled_Values[" ++ dec j ++ "]")) (range n2) ;;
        t <- mk_table pre sc s ;;
        Ok (Some t)
      else if String.eqb t "Thermistor" then
        _ <- require_all p (map (fun x => skey i ("_Thermistor_" ++ x))
               ["Excitation_Type"; "Excitation_Value"; "Resistance_Configuration";
                "R1_Reference_Resistance"; "Lead_Wire_Resistance"; "A"; "B"; "C";
                "Temperature_Offset"]%string) ;;
        s <- get_source p (skey i "_Thermistor_Input_Source") ;;
        Ok (Some (Sensor SThermistor s))
      else if String.eqb t "Thermocouple" then
        s <- get_source_default p (skey i "_Thermocouple_Input_Source") ;;
        tc <- match pget (skey i "_Thermocouple_Thermocouple_Type") p with
              | None => Ok 10072%Z | Some (PInt z) => Ok z | Some _ => Err EUnmodelled end ;;
        if thermocouple_type_ok tc then Ok (Some (Sensor SThermocouple s)) else Err EKey
      else if String.eqb t "Add" then
        l <- get_source p (skey i "_Add_Left_Operand_Input_Source") ;;
        r <- get_source p (skey i "_Add_Right_Operand_Input_Source") ;;
        Ok (Some (Add l r))
      else if String.eqb t "Subtract" then
        l <- get_source p (skey i "_Subtract_Left_Operand_Input_Source") ;;
        r <- get_source p (skey i "_Subtract_Right_Operand_Input_Source") ;;
        Ok (Some (Subtract l r))
      else if String.eqb t "AdvancedAPI" then
        s <- get_source_default p (skey i "_AdvancedAPI_Input_Source") ;;
        Ok (Some (NoOp s))
      else Ok None
  | Some _ => Ok None          (* a non-string never equals a type name *)
  end.

Fixpoint build_scalings (p : props) (idxs : list nat) : res (option graph) :=
  match idxs with
  | [] => Ok (Some [])
  | i :: rest =>
      match scaling_at p i with
      | Err e => Err e
      | Ok None => Ok None
      | Ok (Some s) =>
          match build_scalings p rest with
          | Err e => Err e
          | Ok None => Ok None
          | Ok (Some l) => Ok (Some (s :: l))
          end
      end
  end.

(* _get_channel_scaling(properties): Ok None = no scaling from this level *)
Definition get_channel_scaling (p : props) : res (option graph) :=
  match number_of_scalings p with
  | Err e => Err e
  | Ok None => Ok None
  | Ok (Some n) =>
      if (n =? 0)%Z then Ok None else
      (* properties.get("NI_Scaling_Status", "unscaled") == "scaled" *)
      match pget "NI_Scaling_Status" p with
      | Some (PStr "scaled") => Ok None
      | _ =>
          match build_scalings p (range n) with
          | Err e => Err e
          | Ok None => Ok None
          | Ok (Some []) => Ok None              (* if not scalings: return None *)
          | Ok (Some g) => Ok (Some g)
          end
      end
  end.

(* get_scaling: next(s for s in (_get_channel_scaling(p) for p in [channel, group, file])
                     if s is not None), lazily, left to right *)
Fixpoint first_scaling (levels : list props) : res (option graph) :=
  match levels with
  | [] => Ok None
  | p :: rest =>
      match get_channel_scaling p with
      | Err e => Err e
      | Ok (Some g) => Ok (Some g)
      | Ok None => first_scaling rest
      end
  end.

Definition get_scaling (chan grp file : props) : res (option graph) :=
  first_scaling [chan; grp; file].

(* TdmsChannel._scale_data *)
Definition scale_data (sc : option graph) (raw : rawdata) : res value :=
  match sc with
  | Some g => eval g raw
  | None =>
      match rscalers raw with
      | _ :: _ => Err EValue           (* Missing scaling information for DAQmx data *)
      | [] => match rdata raw with Some v => Ok v | None => Err EDaqmxSource end
      end
  end.

Definition channel_data (chan grp file : props) (raw : rawdata) : res value :=
  sc <- get_scaling chan grp file ;; scale_data sc raw.

(* ---------------------------------------------------------------------------- *)
(* Boolean comparison with what the implementation returned (harness/c13.py) *)

(* bit-exact except that all NaNs are identified (NumPy payloads are not modelled) *)
Definition feqb (a b : float) : bool :=
  match classify a, classify b with
  | FloatClass.NaN, FloatClass.NaN => true
  | FloatClass.PZero, FloatClass.PZero => true
  | FloatClass.NZero, FloatClass.NZero => true
  | FloatClass.PZero, _ | FloatClass.NZero, _ | _, FloatClass.PZero | _, FloatClass.NZero => false
  | _, _ => (a =? b)%float
  end.

Fixpoint list_eqb {A} (eq : A -> A -> bool) (a b : list A) : bool :=
  match a, b with
  | [], [] => true
  | x :: a', y :: b' => eq x y && list_eqb eq a' b'
  | _, _ => false
  end.

Definition value_eqb (a b : value) : bool :=
  match a, b with
  | VB x, VB y => list_eqb Bool.eqb x y
  | VI k x, VI k' y => ikind_eqb k k' && list_eqb Z.eqb x y
  | VS x, VS y => list_eqb feqb x y
  | VD x, VD y => list_eqb feqb x y
  | _, _ => false
  end.

(* observation: Some array, or None when the implementation raised *)
Definition agrees (m : res value) (o : option value) : bool :=
  match m, o with
  | Ok v, Some w => value_eqb v w
  | Err EFuel, _ | Err EUnmodelled, _ | Err ESensor, _ => false
  | Err _, None => true
  | _, _ => false
  end.

(* case: (channel props, group props, file props, raw, observed channel data,
          window offset, window length, observed window of the scaled data) *)
Definition check_channel
  (c : props * props * props * rawdata * option value * nat * nat * option value) : bool :=
  let '(ch, gr, fi, raw, obs, o, l, wobs) := c in
  agrees (channel_data ch gr fi raw) obs &&
  agrees (channel_data ch gr fi (window_raw o l raw)) wobs.

(* case: float64 value, its float32 rounding as NumPy computes it *)
Definition check_round32 (c : float * float) : bool := feqb (round32 (fst c)) (snd c).
(* case: integer, its float64 conversion as NumPy computes it *)
Definition check_Z2f (c : Z * float) : bool := feqb (Z2f (fst c)) (snd c).
