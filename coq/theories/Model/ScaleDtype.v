(* Dtype calculus of scaled channels (C14).

   declared : what TdmsChannel.dtype says
              (tdms.py: TdmsChannel.dtype, _raw_data_dtype;
               scaling.py: MultiScaling.get_dtype, _compute_scale_dtype)
   actual   : the dtype of the array the scalings really return, computed through the
              NumPy promotion tables reflected into Gen/NumpyPromote.v

   Both exist in two versions selected by [fixed : bool]:
     fixed = true   the code after fixes D8, D9, D11, D12 (what the theorems are about)
     fixed = false  the unchanged code (for the *_refuted lemmas that document them)

   Non-numeric raw data (strings, timestamps, untyped) only flow through pass-through
   (AdvancedAPI) scalings and through Add / Subtract of such sources - the latter is the
   recorded finding "dtype-nonnumeric-arith-scale" (datetime64 - datetime64 is a
   timedelta64, which np.result_type cannot say).  Every other scaling of non-numeric
   data is outside the model ([Err EUnmodelled]).  No proofs in this file. *)
From Coq Require Import ZArith List Bool String.
Import ListNotations.
From NpTdms Require Import Gen.NumpyPromote Model.ScaleGraph.

(* TDMS type of the channel, as far as dtypes care *)
Inductive rawkind :=
| RNum (d : dtype)      (* a numeric TDMS type with a NumPy dtype *)
| RString
| RTimestamp
| RUntyped              (* channel whose segments never gave it a data type *)
| RDaqmx.               (* DaqMxRawData: .data is None, only scaler data *)

(* NumPy dtypes a channel can report or return *)
Inductive xdt :=
| XNum (d : dtype)
| XObject               (* dtype('O') *)
| XDatetime64           (* dtype('<M8[us]') *)
| XTimestampStruct      (* [('second_fractions','<u8'),('seconds','<i8')]  (TimestampArray) *)
| XTimedelta64          (* dtype('<m8[us]') *)
| XVoid8                (* dtype('V8') *)
| XNone.                (* Python None used as a dtype (unchanged code only) *)

Definition xdt_eqb (a b : xdt) : bool :=
  match a, b with
  | XNum x, XNum y => dtype_eqb x y
  | XObject, XObject | XDatetime64, XDatetime64 | XTimestampStruct, XTimestampStruct
  | XTimedelta64, XTimedelta64 | XVoid8, XVoid8 | XNone, XNone => true
  | _, _ => false
  end.

(* TdmsChannel._raw_data_dtype
     if self.data_type is types.String: return np.dtype('O')
     elif self.data_type is types.TimeStamp:
         [D12: if self._raw_timestamps: return <the TimestampArray dtype>]
         return np.dtype('<M8[us]')
     if self.data_type is not None and self.data_type.nptype is not None: return nptype
     return np.dtype('V8') *)
Definition raw_data_dtype (fixed : bool) (k : rawkind) (raw_ts : bool) : xdt :=
  match k with
  | RString => XObject
  | RTimestamp => if fixed && raw_ts then XTimestampStruct else XDatetime64
  | RNum d => XNum d
  | RUntyped | RDaqmx => XVoid8
  end.

(* dtype of the array a data receiver hands back for the raw data (channel_data.py):
   NumpyDataReceiver: the nptype; ListDataReceiver: object; TimestampDataReceiver:
   TimestampArray or datetime64[us]; untyped channels have no receiver; DAQmx: no .data *)
Definition returned_raw_dtype (k : rawkind) (raw_ts : bool) : res xdt :=
  match k with
  | RNum d => Ok (XNum d)
  | RString => Ok XObject
  | RTimestamp => Ok (if raw_ts then XTimestampStruct else XDatetime64)
  | RUntyped => Err EUnmodelled      (* nothing is ever scaled: see has_receiver below *)
  | RDaqmx => Err EDaqmxSource
  end.

(* what _compute_scale_dtype returns for RAW_DATA_INPUT_SOURCE:
     unchanged: raw_data_type.nptype   (None for String / TimeStamp / DaqMxRawData;
                                        AttributeError when data_type is None)
     D11:       the channel's _raw_data_dtype() *)
Definition declared_raw (fixed : bool) (k : rawkind) (raw_ts : bool) : res xdt :=
  if fixed then Ok (raw_data_dtype true k raw_ts)
  else match k with
       | RNum d => Ok (XNum d)
       | RString | RTimestamp | RDaqmx => Ok XNone
       | RUntyped => Err EType
       end.

(* np.result_type(a, b) beyond the 13 numeric dtypes: identical dtypes only; None counts
   as the default float64 *)
Definition xresult_type (a b : xdt) : res xdt :=
  let num x := match x with XNone => XNum Float64 | _ => x end in
  match num a, num b with
  | XNum x, XNum y => Ok (XNum (result_type x y))
  | XObject, XObject => Ok XObject
  | XDatetime64, XDatetime64 => Ok XDatetime64
  | XTimestampStruct, XTimestampStruct => Ok XTimestampStruct
  | XVoid8, XVoid8 => Ok XVoid8
  | _, _ => Err EUnmodelled
  end.

(* scaling._double_precision_dtype (D8):
     complex128 if np.issubdtype(dtype, np.complexfloating) else float64 *)
Definition double_precision_dtype (x : xdt) : xdt :=
  match x with
  | XNum d => if is_complexfloating d then XNum Complex128 else XNum Float64
  | _ => XNum Float64
  end.

(* MultiScaling._compute_scale_dtype(scale_index, raw_data_type, scaler_data_types) *)
Fixpoint declared_src (fixed : bool) (fuel : nat) (g : graph) (k : rawkind) (raw_ts : bool)
         (scalers : list (nat * dtype)) (s : src) : res xdt :=
  match s with
  | Raw => declared_raw fixed k raw_ts
  | Idx z =>
      match fuel with
      | O => Err EFuel
      | S fuel' =>
          match py_index g z with
          | None => Err EIndex
          | Some sc =>
              match sc with
              | DaqmxScaler id =>
                  match assoc_nat id scalers with
                  | None => Err EKey
                  | Some d => Ok (XNum d)
                  end
              | Add l r | Subtract l r =>
                  a <- declared_src fixed fuel' g k raw_ts scalers l ;;
                  b <- declared_src fixed fuel' g k raw_ts scalers r ;;
                  xresult_type a b
              | NoOp s' =>
                  if fixed then declared_src fixed fuel' g k raw_ts scalers s'   (* D9 *)
                  else declared_raw fixed k raw_ts                               (* raw_data_type.nptype *)
              | Linear _ _ s' =>
                  if fixed
                  then d <- declared_src fixed fuel' g k raw_ts scalers s' ;;    (* D8 *)
                       Ok (double_precision_dtype d)
                  else Ok (XNum Float64)
              | Polynomial _ _ | Table _ _ _ | Sensor _ _ =>
                  Ok (XNum Float64)      (* "Any other scaling type should produce double data" *)
              end
          end
      end
  end.

(* MultiScaling.get_dtype *)
Definition declared (fixed : bool) (g : graph) (k : rawkind) (raw_ts : bool)
           (scalers : list (nat * dtype)) : res xdt :=
  declared_src fixed (S (List.length g)) g k raw_ts scalers (final_src g).

(* ---- the dtype the arithmetic really produces ------------------------------------ *)

Definition of_table (o : option dtype) : res xdt :=
  match o with Some d => Ok (XNum d) | None => Err EType end.

Definition actual_linear (fixed : bool) (x : xdt) : res xdt :=
  match x with
  | XNum d =>
      if fixed then
        (* data.astype(_double_precision_dtype(data.dtype), copy=False) * slope + intercept *)
        match (if is_complexfloating d then astype_complex128 d else astype_float64 d) with
        | Some w => of_table (mul_add_pyfloat w)
        | None => Err EType
        end
      else of_table (mul_add_pyfloat d)        (* data * slope + intercept *)
  | _ => Err EUnmodelled
  end.

Definition actual_polynomial (coeffs : list PrimFloat.float) (x : xdt) : res xdt :=
  match x with
  | XNum d => match coeffs with
              | [] => of_table (zeros_float64 d)
              | _ => of_table (polyval_after_astype d)
              end
  | _ => Err EUnmodelled
  end.

Definition actual_table (x : xdt) : res xdt :=
  match x with XNum d => of_table (interp d) | _ => Err EUnmodelled end.

(* RTD:           r_t = data / pyfloat; ... sqrt, /      -> dtype of data / pyfloat
   Thermocouple:  np.piecewise(data / 1000.0, ...)       -> same (scaling direction 0)
   Thermistor:    data.astype(float64, copy=False) ...   -> float64
   Strain:        data.astype(np.double) ...             -> float64
   after D8 RTD and Thermocouple cast to float64 first; float64 is closed under the
   operations that follow (checked by the generator: float64_closed_under_sensor_ops) *)
Definition actual_sensor (fixed : bool) (sk : sensor) (x : xdt) : res xdt :=
  match x with
  | XNum d =>
      match sk with
      | SThermistor | SStrain => of_table (astype_float64 d)
      | SRtd => if fixed then of_table (astype_float64 d) else of_table (div_pyfloat d)
      | SThermocouple =>
          if fixed then of_table (astype_float64 d)
          else match div_pyfloat d with Some w => of_table (piecewise_same w) | None => Err EType end
      end
  | _ => Err EUnmodelled
  end.

(* left + right / right - left *)
Definition actual_arith (sub : bool) (l r : xdt) : res xdt :=
  match l, r with
  | XNum a, XNum b => of_table (if sub then sub_arr a b else add_arr a b)
  | XObject, XObject => if sub then Err EType else Ok XObject       (* str + str; str - str raises *)
  | XDatetime64, XDatetime64 => if sub then Ok XTimedelta64 else Err EType
  | XTimestampStruct, XTimestampStruct => Err EType
  | _, _ => Err EUnmodelled
  end.

Fixpoint actual_src (fixed : bool) (fuel : nat) (g : graph) (k : rawkind) (raw_ts : bool)
         (scalers : list (nat * dtype)) (s : src) : res xdt :=
  match s with
  | Raw => returned_raw_dtype k raw_ts
  | Idx z =>
      match fuel with
      | O => Err EFuel
      | S fuel' =>
          match py_index g z with
          | None => Err EIndex
          | Some sc =>
              match sc with
              | DaqmxScaler id =>
                  match assoc_nat id scalers with
                  | None => Err EKey
                  | Some d => Ok (XNum d)
                  end
              | Add l r =>
                  a <- actual_src fixed fuel' g k raw_ts scalers l ;;
                  b <- actual_src fixed fuel' g k raw_ts scalers r ;;
                  actual_arith false a b
              | Subtract l r =>
                  a <- actual_src fixed fuel' g k raw_ts scalers l ;;
                  b <- actual_src fixed fuel' g k raw_ts scalers r ;;
                  actual_arith true a b
              | NoOp s' => actual_src fixed fuel' g k raw_ts scalers s'
              | Linear _ _ s' =>
                  d <- actual_src fixed fuel' g k raw_ts scalers s' ;; actual_linear fixed d
              | Polynomial cs s' =>
                  d <- actual_src fixed fuel' g k raw_ts scalers s' ;; actual_polynomial cs d
              | Table _ _ s' =>
                  d <- actual_src fixed fuel' g k raw_ts scalers s' ;; actual_table d
              | Sensor sk s' =>
                  d <- actual_src fixed fuel' g k raw_ts scalers s' ;; actual_sensor fixed sk d
              end
          end
      end
  end.

Definition actual (fixed : bool) (g : graph) (k : rawkind) (raw_ts : bool)
           (scalers : list (nat * dtype)) : res xdt :=
  actual_src fixed (S (List.length g)) g k raw_ts scalers (final_src g).

(* the rawkind / scaler dtypes of a concrete raw_channel_data (ties eval to actual) *)
Definition kind_of_raw (raw : rawdata) : rawkind :=
  match rdata raw with Some v => RNum (dtype_of v) | None => RDaqmx end.
Definition scaler_dtypes (raw : rawdata) : list (nat * dtype) :=
  map (fun kv => (fst kv, dtype_of (snd kv))) (rscalers raw).

(* ---- read operations at the dtype level ------------------------------------------- *)

Record chan := {
  ckind : rawkind;
  craw_ts : bool;                       (* TdmsFile.read/open(..., raw_timestamps=...) *)
  cscaling : option graph;              (* get_scaling(channel, group, file properties) *)
  cscalers : list (nat * dtype)         (* scaler_data_types *)
}.

(* TdmsChannel.dtype *)
Definition chan_dtype (fixed : bool) (c : chan) : res xdt :=
  match cscaling c with
  | Some g => declared fixed g (ckind c) (craw_ts c) (cscalers c)
  | None => Ok (raw_data_dtype fixed (ckind c) (craw_ts c))
  end.

(* dtype of _scale_data(raw_data) / ChannelDataChunk._data() when there is raw data *)
Definition scaled_dtype (fixed : bool) (c : chan) : res xdt :=
  match cscaling c with
  | Some g => actual fixed g (ckind c) (craw_ts c) (cscalers c)
  | None =>
      match ckind c with
      | RDaqmx => Err EValue            (* Missing scaling information for DAQmx data *)
      | k => returned_raw_dtype k (craw_ts c)
      end
  end.

(* get_data_receiver returns None exactly when obj.data_type is None *)
Definition has_receiver (c : chan) : bool :=
  match ckind c with RUntyped => false | _ => true end.

Inductive read_op :=
| OpData                  (* channel.data, channel[...] in eager mode *)
| OpReadData              (* read_data(offset, length), any window including empty ones *)
| OpSliceEmpty            (* _read_slice: one of its three empty-range returns *)
| OpSliceRead             (* _read_slice: the branches that call read_data *)
| OpChunk (has_data : bool).  (* ChannelDataChunk._data(); has_data = the chunk holds data for the channel *)

(* which dtype the array returned by the operation carries:
     np.empty((0,), dtype=self.dtype)   in every branch that has no raw data to scale,
     the dtype of the scaled data        otherwise *)
Definition read_dtype (fixed : bool) (c : chan) (op : read_op) : res xdt :=
  match op with
  | OpSliceEmpty => chan_dtype fixed c
  | OpData | OpReadData | OpSliceRead =>
      if has_receiver c then scaled_dtype fixed c else chan_dtype fixed c
  | OpChunk has => if has then scaled_dtype fixed c else chan_dtype fixed c
  end.

(* ---- comparison with observations (harness/c14.py) -------------------------------- *)

(* observation of a dtype: Some name or None when the implementation raised *)
Definition xdt_name (x : xdt) : string :=
  match x with
  | XNum d => dtype_name d
  | XObject => "object"
  | XDatetime64 => "datetime64[us]"
  | XTimestampStruct => "timestamp-struct"
  | XTimedelta64 => "timedelta64[us]"
  | XVoid8 => "void64"
  | XNone => "None"
  end.

(* 0 = agree; 1 = disagree; 2 = the model does not cover the case *)
Definition agree_dtype (m : res xdt) (o : option string) : nat :=
  match m, o with
  | Ok x, Some n => if String.eqb (xdt_name x) n then 0 else 1
  | Err EUnmodelled, _ | Err ESensor, _ => 2
  | Err EFuel, _ => 1
  | Err _, None => 0
  | _, _ => 1
  end.

(* case: (fixed, channel, observed channel.dtype, observed dtype of a non-empty read) *)
Definition check_dtypes (c : bool * chan * option string * option string) : bool :=
  let '(fixed, ch, odecl, oact) := c in
  Nat.eqb (agree_dtype (chan_dtype fixed ch) odecl) 0 &&
  negb (Nat.eqb (agree_dtype (scaled_dtype fixed ch) oact) 1).

Definition covered (c : bool * chan * option string * option string) : bool :=
  let '(fixed, ch, odecl, oact) := c in
  Nat.eqb (agree_dtype (scaled_dtype fixed ch) oact) 0.

(* case: (channel, group, file properties, TDMS type of the channel, raw_timestamps,
          DAQmx scaler dtypes, observed channel.dtype, observed dtype of a full read).
   0 = model and implementation agree; 1 = they disagree; 2 = outside the model *)
Definition props_dtypes_code
  (c : props * props * props * rawkind * bool * list (nat * dtype) * option string * option string) : nat :=
  let '(ch, gr, fi, k, ts, scalers, odecl, oact) := c in
  match get_scaling ch gr fi with
  | Err EUnmodelled => 2
  | Err _ => match odecl, oact with None, None => 0 | _, _ => 1 end   (* _scaling raises everywhere *)
  | Ok sc =>
      let c := {| ckind := k; craw_ts := ts; cscaling := sc; cscalers := scalers |} in
      match agree_dtype (chan_dtype true c) odecl, agree_dtype (read_dtype true c OpReadData) oact with
      | 0, 0 => 0
      | 0, 2 | 2, 0 | 2, 2 => 2
      | _, _ => 1
      end
  end.

Definition props_dtypes_ok c : bool := negb (Nat.eqb (props_dtypes_code c) 1).
Definition props_dtypes_covered c : bool := Nat.eqb (props_dtypes_code c) 0.
