(* Model/ThermoR.v -- the functions of nptdms/thermocouples.py over the real numbers:
   the exact real function determined by the code's binary64 coefficients
   (Gen/ThermoTables.v carries each coefficient into R as a hex real literal).
   Same structure as Model/ThermoF.v; piece selection is a relation, so a value
   is specified for whichever piece the code's comparisons select.
   No proofs in this file. *)
From Coq Require Import Reals ZArith List.
Import ListNotations.
From NpTdms Require Import Gen.ThermoTables.
Open Scope R_scope.

Definition pr_start (p : pieceR) : option R := fst (fst (fst p)).
Definition pr_end (p : pieceR) : option R := snd (fst (fst p)).
Definition pr_c0 (p : pieceR) : R := snd (fst p).
Definition pr_cs (p : pieceR) : list R := snd p.

(* numpy.polynomial.polynomial.polyval: c0 = c[-1] + x*0; c0 = c[-i] + c0*x  (see ThermoF.horner) *)
Fixpoint hornerR (c : R) (cs : list R) (x : R) : R :=
  match cs with
  | [] => c + x * 0
  | c' :: r => c + hornerR c' r x * x
  end.

(* Polynomial.apply *)
Definition polyR (p : pieceR) (x : R) : R := hornerR (pr_c0 p) (pr_cs p) x.

(* Range.within_range, with the generated comparisons; Range(None, None) cannot be
   constructed (Range.__init__ raises), so such a piece never selects anything *)
Definition selR (p : pieceR) (value : R) : Prop :=
  match pr_start p, pr_end p with
  | None, Some e => wrR_end_only value e
  | Some s, None => wrR_start_only s value
  | Some s, Some e => wrR_both s e value
  | None, None => False
  end.

(* lambda t: a_0 * np.exp(a_1 * np.square(t - a_2)) *)
Definition exp_fun (a : R * R * R) (t : R) : R :=
  let '(a0, a1, a2) := a in a0 * exp (a1 * ((t - a2) * (t - a2))).

(* the value celsius_to_mv computes at t when np.piecewise takes piece p *)
Inductive piece_value (e : option (R * R * R)) (p : pieceR) (t : R) : R -> Prop :=
| PV_none : e = None -> piece_value e p t (polyR p t)
| PV_on a : e = Some a -> exp_condR t -> piece_value e p t (polyR p t + exp_fun a t)
| PV_off a : e = Some a -> ~ exp_condR t -> piece_value e p t (polyR p t + 0).

(* Thermocouple.celsius_to_mv / mv_to_celsius as relations: any selected piece *)
Definition fwd_value (e : option (R * R * R)) (fwd : list pieceR) (t v : R) : Prop :=
  exists p, In p fwd /\ selR p t /\ piece_value e p t v.
Definition inv_value (inv : list pieceR) (v t' : R) : Prop :=
  exists q, In q inv /\ selR q v /\ t' = polyR q v.

(* ThermocoupleScaling.scale, TDMS microvolt convention *)
Definition scale_value (e : option (R * R * R)) (fwd inv : list pieceR) (direction : Z) (x y : R) : Prop :=
  if Z.eqb direction 1 then exists mv, fwd_value e fwd x mv /\ y = 1000 * mv
  else inv_value inv (x / 1000) y.

(* ---- closed forms per forward piece ------------------------------------------------ *)

(* the polynomial of piece p plus the exponential term when `e` is given *)
Definition formula (p : pieceR) (e : option (R * R * R)) (t : R) : R :=
  match e with None => polyR p t | Some a => polyR p t + exp_fun a t end.

(* a forward piece paired with the generated flag "the exponential term is on throughout
   this piece" (Gen/ThermoTables.v code_fwd_expon; its correctness is formula_valid below) *)
Definition piece_formula (e : option (R * R * R)) (pm : pieceR * bool) : R -> R :=
  formula (fst pm) (if snd pm then e else None).

Definition formula_valid (e : option (R * R * R)) (pm : pieceR * bool) : Prop :=
  forall t v, selR (fst pm) t -> piece_value e (fst pm) t v -> v = piece_formula e pm t.

(* derivative of the polynomial: Horner on the coefficients k*c_k *)
Fixpoint dcoefs (k : Z) (cs : list R) : list R :=
  match cs with [] => [] | c :: r => IZR k * c :: dcoefs (k + 1) r end.
Definition dhornerR (cs : list R) (x : R) : R :=
  match dcoefs 1 cs with [] => 0 | d :: ds => hornerR d ds x end.
Definition dexp_fun (a : R * R * R) (t : R) : R :=
  let '(a0, a1, a2) := a in a0 * exp (a1 * ((t - a2) * (t - a2))) * (a1 * (2 * (t - a2))).
Definition dformula (p : pieceR) (e : option (R * R * R)) (t : R) : R :=
  match e with None => dhornerR (pr_cs p) t | Some a => dhornerR (pr_cs p) t + dexp_fun a t end.

Definition piece_dformula (e : option (R * R * R)) (pm : pieceR * bool) : R -> R :=
  dformula (fst pm) (if snd pm then e else None).

(* ---- the statements proved per type ------------------------------------------------- *)

(* closure of a piece's range (independent of inclusive/exclusive ends) *)
Definition within_closed (p : pieceR) (t : R) : Prop :=
  match pr_start p with Some s => s <= t | None => True end /\
  match pr_end p with Some b => t <= b | None => True end.

(* (c1) at every boundary the formulas of the two adjacent pieces differ by at most tol *)
Fixpoint boundary_gaps (e : option (R * R * R)) (pms : list (pieceR * bool)) (tol : R) : Prop :=
  match pms with
  | [] => True
  | pm1 :: rest =>
    match rest with
    | [] => True
    | pm2 :: _ =>
      (forall b, pr_end (fst pm1) = Some b -> Rabs (piece_formula e pm1 b - piece_formula e pm2 b) <= tol)
      /\ boundary_gaps e rest tol
    end
  end.

(* (c2) each piece's formula is strictly increasing on (closure of the piece) /\ [lo, hi] *)
Definition increasing_on_pieces (e : option (R * R * R)) (pms : list (pieceR * bool)) (lohi : R * R) : Prop :=
  forall pm, In pm pms -> forall t1 t2,
    fst lohi <= t1 -> t1 < t2 -> t2 <= snd lohi ->
    within_closed (fst pm) t1 -> within_closed (fst pm) t2 ->
    piece_formula e pm t1 < piece_formula e pm t2.

(* (c3) on every validity range, whatever pieces the code selects, the inverse of the
   forward value is within [lo, hi] of the true temperature *)
Definition inverse_accurate (e : option (R * R * R)) (fwd inv : list pieceR) (spec : list (R * R * R * R)) : Prop :=
  forall tl th lo hi, In (tl, th, lo, hi) spec ->
  forall t v t', tl <= t <= th -> fwd_value e fwd t v -> inv_value inv v t' ->
  lo <= t' - t <= hi.
