(* Model/SensorsF.v -- binary64 models of the sensor scalings of nptdms/scaling.py whose
   arithmetic consists of +, -, *, /, sqrt only:
       _adjust_for_lead_resistance,
       RtdScaling.scale, the QUADRATIC branch (r_t >= r_0),
       StrainScaling.scale, all seven bridge configurations,
   one array element at a time, with the float operations in the order Python / NumPy
   perform them (Python's precedence: unary minus first, * and / left to right; every
   in-place NumPy statement  x op= k  is one rounded operation per element, the scalar k
   having been computed before in Python float arithmetic).

   The real-number model of the same code is Model/SensorsR.v (same names without _F).

   NOT modelled here (no binary64 model of the function used exists in Coq's PrimFloat):
     * the quartic branch of RtdScaling.scale (r_t < r_0): numpy's polyroots, an
       eigenvalue solver; rtd_scale_F answers None there;
     * ThermistorScaling.scale: np.log;
     * `a ** 2` in RtdScaling.scale: a is a Python float (or np.float64), and float.__pow__
       calls the C library's pow(a, 2.0), which is NOT the correctly rounded product a*a
       (measured on this platform, glibc: 1 599 of 2 000 000 random a in [3e-3, 5e-3] give
       a ** 2 <> a * a, always by one unit in the last place).  The model therefore takes
       the value of `a ** 2` as an argument [a2]; the harness passes what Python computes,
       the rounding theorems assume |a2 - a*a| <= 2^-52 a*a (one ulp).

   data.astype(float64) is the identity on binary64 input and is not modelled.
   No proofs here (Proofs/SensorsRound*.v, statements in Props/C17_float.v). *)
From Coq Require Import ZArith Bool.
From Coq Require Import PrimFloat FloatClass.
From NpTdms Require Import Model.SensorsR.
Local Open Scope float_scope.

(* def _adjust_for_lead_resistance(measured_resistance, excitation_type,
                                   resistance_configuration, lead_wire_resistance):
       if resistance_configuration == 3:
           return measured_resistance - lead_wire_resistance
       if excitation_type == CURRENT_EXCITATION and resistance_configuration == 2:
           return measured_resistance - 2.0 * lead_wire_resistance
       return measured_resistance *)
Definition adjust_for_lead_resistance_F
           (measured_resistance : float) (excitation_type resistance_configuration : Z)
           (lead_wire_resistance : float) : float :=
  if (resistance_configuration =? 3)%Z then measured_resistance - lead_wire_resistance
  else if ((excitation_type =? CURRENT_EXCITATION)%Z && (resistance_configuration =? 2)%Z)%bool
       then measured_resistance - 2 * lead_wire_resistance
       else measured_resistance.

(* ------------------------------------------------------------------------------------ *)
(* RtdScaling.scale *)

(*  r_t = data / self.current_excitation
    r_t = _adjust_for_lead_resistance(r_t, CURRENT_EXCITATION,
              self.resistance_configuration, self.lead_wire_resistance) *)
Definition rtd_r_t_F (current_excitation lead_wire_resistance : float)
           (resistance_configuration : Z) (v : float) : float :=
  adjust_for_lead_resistance_F (v / current_excitation) CURRENT_EXCITATION
                               resistance_configuration lead_wire_resistance.

(*  temperature = (-a + np.sqrt(a ** 2 - 4.0 * b * (1.0 - r_t / r_0))) / (2.0 * b)
    [a2] is the value of  a ** 2  (see the header). *)
Definition rtd_scale_pos_F (a a2 b r_0 r_t : float) : float :=
  (- a + sqrt (a2 - 4 * b * (1 - r_t / r_0))) / (2 * b).

(*  positive_temperature = r_t >= r_0
    temperature = <quadratic form>                      where positive_temperature
    temperature[i] = self._solve_quartic_form(r_t[i])   elsewhere: not modelled, None
    (r_t >= r_0 is false when r_t is NaN, like  r_0 <=? r_t) *)
Definition rtd_scale_F (current_excitation r_0 a a2 b lead_wire_resistance : float)
           (resistance_configuration : Z) (v : float) : option float :=
  let r_t := rtd_r_t_F current_excitation lead_wire_resistance resistance_configuration v in
  if r_0 <=? r_t then Some (rtd_scale_pos_F a a2 b r_0 r_t) else None.

(* ------------------------------------------------------------------------------------ *)
(* StrainScaling.scale *)

(*  voltage_out = data.astype(np.double)
    if self.initial_bridge_voltage != 0.0:
        voltage_out -= self.initial_bridge_voltage
    (-0.0 != 0.0 is False; nan != 0.0 is True, like the negation of =?) *)
Definition strain_voltage_out_F (initial_bridge_voltage v : float) : float :=
  if initial_bridge_voltage =? 0 then v else v - initial_bridge_voltage.

(*  lead_adjustment = 1.0 / (1.0 + self.lead_wire_resistance / self.gage_resistance) *)
Definition lead_adjustment_F (lead_wire_resistance gage_resistance : float) : float :=
  1 / (1 + lead_wire_resistance / gage_resistance).

Definition strain_scale_F (configuration : Z)
           (poisson_ratio gage_resistance lead_wire_resistance initial_bridge_voltage
            gage_factor gain_adjustment voltage_excitation v : float) : option float :=
  let voltage_out := strain_voltage_out_F initial_bridge_voltage v in
  if (configuration =? FULL_BRIDGE_1)%Z then
    (* strain *= (-self.gain_adjustment / (self.voltage_excitation * self.gage_factor)) *)
    Some (voltage_out * (- gain_adjustment / (voltage_excitation * gage_factor)))
  else if (configuration =? FULL_BRIDGE_2)%Z then
    (* strain *= (-self.gain_adjustment * 2.0 / (
           self.voltage_excitation * self.gage_factor * (1.0 + self.poisson_ratio))) *)
    Some (voltage_out * (- gain_adjustment * 2 /
                         (voltage_excitation * gage_factor * (1 + poisson_ratio))))
  else if (configuration =? FULL_BRIDGE_3)%Z then
    (* common_factor = -0.5 / self.gain_adjustment
       temp = voltage_out.copy()
       temp *= common_factor * (1.0 - self.poisson_ratio) * self.gage_factor
       temp += common_factor * self.voltage_excitation * self.gage_factor * (1.0 + self.poisson_ratio)
       strain = voltage_out
       strain /= temp *)
    let common_factor := (-0x1p-1) / gain_adjustment in
    let temp := voltage_out * (common_factor * (1 - poisson_ratio) * gage_factor) in
    let temp := temp + common_factor * voltage_excitation * gage_factor * (1 + poisson_ratio) in
    Some (voltage_out / temp)
  else if (configuration =? HALF_BRIDGE_1)%Z then
    (* lead_adjustment = 1.0 / (1.0 + self.lead_wire_resistance / self.gage_resistance)
       common_factor = -self.gage_factor * self.voltage_excitation * lead_adjustment / (
               4.0 * self.gain_adjustment)
       temp = voltage_out.copy()
       temp *= common_factor * 2.0 * (1.0 - self.poisson_ratio) / self.voltage_excitation
       temp += common_factor * (1.0 + self.poisson_ratio)
       strain = voltage_out
       strain /= temp *)
    let la := lead_adjustment_F lead_wire_resistance gage_resistance in
    let common_factor := - gage_factor * voltage_excitation * la / (4 * gain_adjustment) in
    let temp := voltage_out * (common_factor * 2 * (1 - poisson_ratio) / voltage_excitation) in
    let temp := temp + common_factor * (1 + poisson_ratio) in
    Some (voltage_out / temp)
  else if (configuration =? HALF_BRIDGE_2)%Z then
    (* lead_adjustment = ...
       strain *= -2.0 * self.gain_adjustment / (
               self.gage_factor * self.voltage_excitation * lead_adjustment) *)
    let la := lead_adjustment_F lead_wire_resistance gage_resistance in
    Some (voltage_out * ((-2) * gain_adjustment / (gage_factor * voltage_excitation * la)))
  else if ((configuration =? QUARTER_BRIDGE_1)%Z || (configuration =? QUARTER_BRIDGE_2)%Z)%bool then
    (* lead_adjustment = ...
       strain *= 2.0 / self.voltage_excitation
       strain += 1.0
       np.reciprocal(strain, out=strain)          (1.0 / x, one correctly rounded division)
       strain -= 1.0
       strain *= 2.0 * self.gain_adjustment / (self.gage_factor * lead_adjustment) *)
    let la := lead_adjustment_F lead_wire_resistance gage_resistance in
    let s := voltage_out * (2 / voltage_excitation) in
    let s := s + 1 in
    let s := 1 / s in
    let s := s - 1 in
    Some (s * (2 * gain_adjustment / (gage_factor * la)))
  else
    (* raise Exception("Strain gauge configuration %d is not supported") *)
    None.

(* ------------------------------------------------------------------------------------ *)
(* comparison with the implementation's output (harness/c17.py, float_tie) *)

(* bit-exact, all NaNs identified *)
Definition fbits_eqb (a b : float) : bool :=
  match classify a, classify b with
  | NaN, NaN => true
  | PZero, PZero => true
  | NZero, NZero => true
  | PZero, _ | NZero, _ | _, PZero | _, NZero => false
  | _, _ => (a =? b)
  end.

Definition ofbits_eqb (a b : option float) : bool :=
  match a, b with
  | Some x, Some y => fbits_eqb x y
  | None, None => true
  | _, _ => false
  end.

(* case: i, r0, a, a ** 2, b, lead, cfg, voltage;
         the r_t the implementation passed to _solve_quartic_form (None: it was not called),
         the temperature returned on the quadratic branch (None on the quartic branch) *)
Definition check_rtd_F
  (c : float * float * float * float * float * float * Z * float * option float * option float) : bool :=
  let '(i, r0, a, a2, b, lead, cfg, v, rt_quartic, y) := c in
  ofbits_eqb (rtd_scale_F i r0 a a2 b lead cfg v) y &&
  match rt_quartic with
  | Some rt => fbits_eqb (rtd_r_t_F i lead cfg v) rt &&
               match y with None => true | Some _ => false end
  | None => match y with Some _ => true | None => false end
  end.

(* case: configuration, nu, gage resistance, lead resistance, initial voltage, gage factor, gain,
         excitation, voltage, the implementation's strain *)
Definition check_strain_F
  (c : Z * float * float * float * float * float * float * float * float * float) : bool :=
  let '(cfg, nu, r0, rl, init, g, gain, vex, v, y) := c in
  ofbits_eqb (strain_scale_F cfg nu r0 rl init g gain vex v) (Some y).
