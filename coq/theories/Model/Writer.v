(* Executable model of nptdms/writer.py: TdmsWriter.write_segment,
   TdmsSegment.write / metadata / raw_data_index / leadin / _data_size /
   _write_data, write_data / write_values / write_string_values,
   object_data_size, and the value-typing front end (_to_tdms_value's int
   branch, _to_np_array / _infer_dtype for lists of Python ints).

   Values are already typed when they reach [wr_segment]: a property is
   Tokens.prop = (name, TDMS type enum, canonical little-endian value bytes;
   strings: their UTF-8 bytes); channel data is (TDMS type enum, list of value
   byte strings).  How NumPy turns an array into bytes (tofile / tobytes) and
   how TimeStamp computes second fractions are NOT modelled here: the harness
   supplies those bytes (tobytes of the little-endian array; the 16 timestamp
   bytes) and the correspondence compares everything else byte for byte.

   The model is of the tree with fixes D6 and D7 applied ([fixed = true]):
     D6  a string channel's raw data index length field is 28 (was 20);
     D7  a channel whose data is empty and whose type cannot be determined
         (ChannelObject.data_type falls through to Void) is written as an
         object without raw data (was: TypeError, None * int).
   [fixed = false] is the unchanged code, kept only to state the refutation
   [writer_structurally_valid_refuted] (Props/C08.v).

   Not modelled: struct.error for counts or sizes that do not fit their field
   (>= 2^32 objects / properties / bytes of string data): excluded by
   [wf_call]; a failing write_segment leaving earlier segments in the file (the
   model returns the error for the whole session). *)

From Coq Require Import List ZArith Bool.
From Coq Require Import Init.Byte.
Import ListNotations.
From NpTdms Require Import Base.Bytes Base.Res Model.Tokens Model.TokensWf Model.ByteStr Model.StrictParse
  Gen.PyFuncsWriter.
Local Open Scope Z_scope.

(* ---- objects ------------------------------------------------------------------ *)

Inductive wobj :=
| WRoot (props : list prop)
| WGroup (name : bytes) (props : list prop)
| WChan (group name : bytes) (dtype : Z) (values : list bytes) (props : list prop).

(* RootObject.path / GroupObject.path / ChannelObject.path, UTF-8 encoded *)
Definition obj_path (o : wobj) : bytes :=
  match o with
  | WRoot _ => ROOT_PATH
  | WGroup g _ => group_path g
  | WChan g c _ _ _ => chan_path g c
  end.

Definition obj_props (o : wobj) : list prop :=
  match o with
  | WRoot ps => ps
  | WGroup _ ps => ps
  | WChan _ _ _ _ ps => ps
  end.

Definition obj_values (o : wobj) : list bytes :=
  match o with
  | WChan _ _ _ vs _ => vs
  | _ => []
  end.

(* ObjectPath.from_string(o.path) is the identity on what ObjectPath printed
   (Props/C16.v), so is_root / is_group / is_channel are the object's kind *)
Definition is_root (o : wobj) : bool := match o with WRoot _ => true | _ => false end.
Definition is_group (o : wobj) : bool := match o with WGroup _ _ => true | _ => false end.
Definition is_chan (o : wobj) : bool := match o with WChan _ _ _ _ _ => true | _ => false end.

(* _path_ordering_key (translated) *)
Definition obj_key (o : wobj) : option Z := path_ordering_key (is_root o) (is_group o) (is_chan o).

(* ---- writer state --------------------------------------------------------------- *)

Record wstate := mkW { root_written : bool; groups_written : list bytes }.
Definition w_init : wstate := mkW false [].

Definition groups_included (objs : list wobj) : list bytes :=
  flat_map (fun o => match o with WGroup g _ => [g] | _ => [] end) objs.
Definition groups_required (objs : list wobj) : list bytes :=
  flat_map (fun o => match o with WChan g _ _ _ _ => [g] | _ => [] end) objs.

(* sorted(set): ascending, no repetitions *)
Fixpoint insert_uniq (g : bytes) (l : list bytes) : list bytes :=
  match l with
  | [] => [g]
  | h :: r =>
    if bytes_eqb g h then l
    else if bytes_ltb g h then g :: l
    else h :: insert_uniq g r
  end.
Definition sorted_set (l : list bytes) : list bytes := fold_right insert_uniq [] l.

(* sorted(groups_required - groups_included - self._groups_written) *)
Definition groups_to_add (st : wstate) (objs : list wobj) : list bytes :=
  sorted_set (filter (fun g => negb (bmem g (groups_included objs)) &&
                               negb (bmem g (groups_written st)))
                     (groups_required objs)).

(* list.sort(key=...): stable; insertion from the right keeps equal keys in order *)
Fixpoint insert_stable (x : Z * wobj) (l : list (Z * wobj)) : list (Z * wobj) :=
  match l with
  | [] => [x]
  | y :: r => if fst x <=? fst y then x :: l else y :: insert_stable x r
  end.
Definition sort_stable (l : list (Z * wobj)) : list (Z * wobj) := fold_right insert_stable [] l.

Definition with_key (o : wobj) : res (Z * wobj) :=
  match obj_key o with
  | Some k => Ok (k, o)
  | None => Err EType        (* None < int: cannot happen, the three kinds are exhaustive *)
  end.

(* write_segment up to `objects = [p[1] for p in path_object_pairs]`, the
   duplicate check of TdmsSegment.__init__, and the state update *)
Definition wr_objects (st : wstate) (objs : list wobj) : res (list wobj * wstate) :=
  let add_root := negb (root_written st) && negb (existsb is_root objs) in
  let inc := groups_included objs in
  let add := groups_to_add st objs in
  let pairs := objs ++ (if add_root then [WRoot []] else []) ++ map (fun g => WGroup g []) add in
  do keyed <- mapM with_key pairs;
  let sorted := map snd (sort_stable keyed) in
  if has_dup (map obj_path sorted) then Err EValue          (* "Duplicate object paths found" *)
  else Ok (sorted, mkW true (groups_written st ++ inc ++ add)).

(* ---- one segment ----------------------------------------------------------------- *)

Definition TOC_WRITER : Z := 14.   (* kTocMetaData | kTocRawData | kTocNewObjList *)

(* TdmsSegment.raw_data_index *)
Definition obj_idx (fixed : bool) (o : wobj) : res idx :=
  match o with
  | WChan _ _ dt vals _ =>
    if dt =? T_VOID then (if fixed then Ok INoData else Err EType)
    else Ok (IFull (if fixed && (dt =? T_STRING) then 28 else 20) dt 1 (Z.of_nat (length vals))
               (if dt =? T_STRING then Some (string_total vals) else None))
  | _ => Ok INoData
  end.

(* object_data_size *)
Definition obj_data_size (o : wobj) : res Z :=
  match o with
  | WChan _ _ dt vals _ =>
    if dt =? T_VOID then Ok 0
    else if dt =? T_STRING then Ok (string_total vals)
    else match tds_size dt with
         | Some (Some k) => Ok (k * Z.of_nat (length vals))
         | _ => Err EType                       (* size is None *)
         end
  | _ => Ok 0
  end.

Fixpoint data_size (objs : list wobj) : res Z :=
  match objs with
  | [] => Ok 0
  | o :: r => do a <- obj_data_size o; do b <- data_size r; Ok (a + b)
  end.

(* write_string_values: cumulative end offsets, then the bytes *)
Fixpoint wr_string_offsets (off : Z) (vals : list bytes) : bytes :=
  match vals with
  | [] => []
  | s :: r => u_enc LE 4 (off + blen s) ++ wr_string_offsets (off + blen s) r
  end.

(* write_data: strings specially; everything else is the concatenation of the
   value bytes (array.tofile / b''.join(val.bytes)) *)
Definition obj_raw (o : wobj) : bytes :=
  match o with
  | WChan _ _ dt vals _ =>
    if dt =? T_VOID then []
    else if dt =? T_STRING then wr_string_offsets 0 vals ++ concat vals
    else concat vals
  | _ => []
  end.

Definition wr_entry (fixed : bool) (o : wobj) : res entry :=
  do i <- obj_idx fixed o; Ok (mkEntry (obj_path o) i (obj_props o)).

(* TdmsSegment.write for the data file and for the index file *)
Definition wr_segment_bytes (fixed : bool) (version : Z) (objs : list wobj) : res (bytes * bytes) :=
  do es <- mapM (wr_entry fixed) objs;
  let meta := ser_metadata LE es in
  let msize := blen meta in
  do dsize <- data_size objs;
  let leadin tag := ser_leadin (mkLeadin tag TOC_WRITER version (msize + dsize) msize) in
  Ok (leadin TAG_DATA ++ meta ++ flat_map obj_raw objs, leadin TAG_INDEX ++ meta).

Definition wr_segment_gen (fixed : bool) (version : Z) (st : wstate) (objs : list wobj)
  : res (bytes * bytes * wstate) :=
  do '(sorted, st') <- wr_objects st objs;
  do '(d, i) <- wr_segment_bytes fixed version sorted;
  Ok (d, i, st').

Definition wr_segment := wr_segment_gen true.
Definition wr_segment_asis := wr_segment_gen false.

(* one `with TdmsWriter(...) as w:` block *)
Fixpoint wr_calls (fixed : bool) (version : Z) (st : wstate) (calls : list (list wobj))
  : res (bytes * bytes) :=
  match calls with
  | [] => Ok ([], [])
  | objs :: r =>
    do '(d, i, st') <- wr_segment_gen fixed version st objs;
    do '(d2, i2) <- wr_calls fixed version st' r;
    Ok (d ++ d2, i ++ i2)
  end.

Definition valid_version (v : Z) : bool := (v =? 4712) || (v =? 4713).

(* TdmsWriter.__init__ (version check, fresh state) + the calls *)
Definition wr_session_gen (fixed : bool) (version : Z) (calls : list (list wobj)) : res (bytes * bytes) :=
  if valid_version version then wr_calls fixed version w_init calls else Err EValue.

Definition wr_session := wr_session_gen true.
Definition wr_session_asis := wr_session_gen false.

(* mode 'w' then 'a', 'a', ...: every session starts from a fresh writer state
   and appends to both files *)
Fixpoint wr_file_gen (fixed : bool) (sessions : list (Z * list (list wobj))) : res (bytes * bytes) :=
  match sessions with
  | [] => Ok ([], [])
  | (v, calls) :: r =>
    do '(d, i) <- wr_session_gen fixed v calls;
    do '(d2, i2) <- wr_file_gen fixed r;
    Ok (d ++ d2, i ++ i2)
  end.

Definition wr_file := wr_file_gen true.
Definition wr_file_asis := wr_file_gen false.

(* ---- what the calls say, as segment syntax (the specification side) --------------- *)

Definition syntax_of_objs (version : Z) (objs : list wobj) : res segsyn :=
  do es <- mapM (wr_entry true) objs;
  do dsize <- data_size objs;
  let msize := blen (ser_metadata LE es) in
  Ok (mkSeg (mkLeadin TAG_DATA TOC_WRITER version (msize + dsize) msize) es (map obj_values objs)).

Fixpoint syntax_of_calls_from (version : Z) (st : wstate) (calls : list (list wobj)) : res (list segsyn) :=
  match calls with
  | [] => Ok []
  | objs :: r =>
    do '(sorted, st') <- wr_objects st objs;
    do s <- syntax_of_objs version sorted;
    do ss <- syntax_of_calls_from version st' r;
    Ok (s :: ss)
  end.

Definition syntax_of_calls (version : Z) (calls : list (list wobj)) : res (list segsyn) :=
  syntax_of_calls_from version w_init calls.

Fixpoint syntax_of_file (sessions : list (Z * list (list wobj))) : res (list segsyn) :=
  match sessions with
  | [] => Ok []
  | (v, calls) :: r =>
    do a <- syntax_of_calls v calls; do b <- syntax_of_file r; Ok (a ++ b)
  end.

(* ---- well-formed calls -------------------------------------------------------------- *)

(* data types ChannelObject.data_type can produce for numeric, bool, complex,
   string and datetime data, plus Void for empty untyped data *)
Definition chan_type_ok (dt : Z) (vals : list bytes) : bool :=
  if dt =? T_VOID then match vals with [] => true | _ => false end
  else if dt =? T_STRING then true
  else match sized_type dt with
       | Some k => forallb (fun v => blen v =? k) vals
       | None => false
       end.

(* ---- front end: Python ints ---------------------------------------------------------- *)

(* (TDMS type enum, width, signed) of the classes to_int_property_value returns *)
Definition ctor_layout (c : tdms_ctor) : Z * nat * bool :=
  match c with
  | C_Int32 => (3, 4%nat, true)
  | C_Int64 => (4, 8%nat, true)
  | C_Uint64 => (8, 8%nat, false)
  end.

(* struct.pack('<' + fmt, v): struct.error when out of range *)
Definition pack_int (width : nat) (signed : bool) (v : Z) : res bytes :=
  let m := 256 ^ Z.of_nat width in
  if signed then
    if (- (m / 2) <=? v) && (v <? m / 2) then Ok (s_enc LE width v) else Err EStruct
  else
    if (0 <=? v) && (v <? m) then Ok (u_enc LE width v) else Err EStruct.

(* _to_tdms_value(value) for a Python int (not bool) *)
Definition int_prop (name : bytes) (v : Z) : res prop :=
  let '(c, w) := to_int_property_value v in
  let '(ty, width, signed) := ctor_layout c in
  do b <- pack_int width signed w; Ok (mkProp name ty b).

(* (TDMS type enum, width, signed) of the dtypes _infer_dtype returns *)
Definition dtype_layout (d : np_dtype_name) : Z * nat * bool :=
  match d with
  | D_int8 => (1, 1%nat, true)
  | D_int16 => (2, 2%nat, true)
  | D_int32 => (3, 4%nat, true)
  | D_int64 => (4, 8%nat, true)
  | D_uint8 => (5, 1%nat, false)
  | D_uint16 => (6, 2%nat, false)
  | D_uint32 => (7, 4%nat, false)
  | D_uint64 => (8, 8%nat, false)
  end.

Definition list_max (z : Z) (r : list Z) : Z := fold_left Z.max r z.
Definition list_min (z : Z) (r : list Z) : Z := fold_left Z.min r z.

(* np.array(data, dtype=d): OverflowError when an element is out of range *)
Definition np_int_array (d : np_dtype_name) (zs : list Z) : res (Z * list bytes) :=
  let '(ty, width, signed) := dtype_layout d in
  do vals <- mapM (fun z => match pack_int width signed z with
                            | Ok b => Ok b
                            | Err _ => Err EOther       (* OverflowError *)
                            end) zs;
  Ok (ty, vals).

(* _to_np_array(list of Python ints): [] gives an empty float64 array *)
Definition int_list_data (zs : list Z) : res (Z * list bytes) :=
  match zs with
  | [] => Ok (10, [])
  | z :: r => np_int_array (infer_dtype_chain (list_max z r) (list_min z r)) zs
  end.

Inductive pyprop :=
| PPInt (name : bytes) (v : Z)          (* a Python int *)
| PPTyped (p : prop).                   (* anything else, already typed *)

Inductive pydata :=
| PDTyped (dt : Z) (vals : list bytes)
| PDInts (zs : list Z).                 (* list of Python ints (bools count as 0 / 1) *)

Inductive pyobj :=
| PyRoot (ps : list pyprop)
| PyGroup (g : bytes) (ps : list pyprop)
| PyChan (g c : bytes) (d : pydata) (ps : list pyprop).

Definition lower_prop (p : pyprop) : res prop :=
  match p with
  | PPInt n v => int_prop n v
  | PPTyped p => Ok p
  end.

Definition lower_obj (o : pyobj) : res wobj :=
  match o with
  | PyRoot ps => do ps' <- mapM lower_prop ps; Ok (WRoot ps')
  | PyGroup g ps => do ps' <- mapM lower_prop ps; Ok (WGroup g ps')
  | PyChan g c d ps =>
    (* ChannelObject.__init__ converts the data first; properties are
       converted when the segment is written *)
    do '(dt, vals) <- match d with
                      | PDTyped dt vals => Ok (dt, vals)
                      | PDInts zs => int_list_data zs
                      end;
    do ps' <- mapM lower_prop ps;
    Ok (WChan g c dt vals ps')
  end.

Definition lower_file (sessions : list (Z * list (list pyobj)))
  : res (list (Z * list (list wobj))) :=
  mapM (fun s => let '(v, calls) := s in
                 do calls' <- mapM (mapM lower_obj) calls; Ok (v, calls')) sessions.

(* ---- correspondence checks evaluated by harness/c07.py, c08.py ---------------------- *)

(* observed outcome of the real writer: Some (data bytes, index bytes when an
   index file was requested), or None when a call was refused (duplicate paths,
   an int list NumPy cannot hold in the inferred dtype, an int property outside
   the 64-bit range, and - unfixed code only - empty untyped data) *)
Definition check_file (fixed : bool)
  (c : list (Z * list (list pyobj)) * option (bytes * option bytes)) : bool :=
  let '(sessions, obs) := c in
  match (do low <- lower_file sessions; wr_file_gen fixed low), obs with
  | Ok (d, i), Some (d', oi) =>
    bytes_eqb d d' && match oi with Some i' => bytes_eqb i i' | None => true end
  | Err _, None => true
  | _, _ => false
  end.

Definition check_file_fixed := check_file true.
Definition check_file_asis := check_file false.

(* strict parse of the real writer's bytes; the index twin computed in Coq *)
Definition check_strict (c : bytes * option bytes) : bool :=
  let '(data, index) := c in
  match strict_parse data with
  | Some _ =>
    match index, strip_raw_and_retag data with
    | None, _ => true
    | Some i, Some i' => bytes_eqb i i'
    | Some _, None => false
    end
  | None => false
  end.

(* ---- well-formed calls (hypothesis of the theorems; checked by the generator) -------- *)

(* every length and count fits the field it is written to; property values and
   channel values have the size of their type; string data of one channel in
   one segment stays below 4 GiB (its offsets are u32) *)
Definition wf_chan_part (o : wobj) : bool :=
  match o with
  | WChan g _ dt vals _ =>
    chan_type_ok dt vals && is_u32 (blen (group_path g)) &&
    is_u64 (Z.of_nat (length vals)) &&
    (if dt =? T_STRING then is_u32 (string_total vals) else true)
  | _ => true
  end.

Definition wf_obj (o : wobj) : bool :=
  is_u32 (blen (obj_path o)) && len_u32 (obj_props o) && forallb wf_prop (obj_props o) &&
  wf_chan_part o.

(* the object count and the two lead-in offsets fit their fields *)
Definition seg_sizes_ok (s : segsyn) : bool :=
  len_u32 (sg_entries s) && is_u64 (l_next (sg_leadin s)) && is_u64 (l_raw (sg_leadin s)).

Definition wf_file (sessions : list (Z * list (list wobj))) : bool :=
  forallb (fun s => forallb (forallb wf_obj) (snd s)) sessions &&
  match syntax_of_file sessions with
  | Ok segs => forallb seg_sizes_ok segs
  | Err _ => true
  end.
