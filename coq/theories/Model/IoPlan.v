(* C05 — executable state-machine model of ONE open (lazily read) TDMS file.

   What is modelled (statement by statement, Python quoted at each function):
     nptdms/tdms.py        TdmsChannel._read_at_index (+ _cached_chunk, _cached_chunk_bounds),
                           TdmsChannel.read_data / _read_slice / __getitem__,
                           TdmsChannel.data_chunks, TdmsFile.data_chunks
     nptdms/reader.py      read_raw_data, read_raw_data_for_channel,
                           read_channel_chunk_for_index, _verify_segment_start,
                           _build_index (+ _deduplicate_array)
     nptdms/tdms_segment.py TdmsSegment.read_raw_data, read_raw_data_for_channel,
                           _read_data_chunks, _read_channel_data_chunks,
                           ContiguousDataReader, InterleavedDataReader
     nptdms/base_segment.py BaseDataReader.read_data_chunks / read_channel_data_chunks

   The file is ABSTRACT: a list of segments, each a list of chunks, each chunk
   the values of the segment's data objects, laid out at byte positions given by
   explicit arithmetic (segment data_position, chunk_size = sum of the objects'
   data_size).  A value is an integer label (the harness labels the j-th value
   of a channel with j); the model only moves labels around, it never decodes.

   The single piece of state every reader shares is the OS file position [pos].
   EVERY READ HAPPENS AT THE CURRENT POSITION: the primitive [read_at] receives
   the position the block it is meant to fetch really lives at ([exp]) and the
   current position; only if they coincide does it return that block, otherwise
   it returns whatever the disk holds at the current position ([misread]).
   So a reader that forgets to seek reads the wrong data — which is how defect
   D4 (TdmsFile.data_chunks() relies on an untouched position) is expressed.

   Two step functions: [step_asis] (the code as it is in /repo: the file-level
   generator resumes reading at the current position) and [step] (repaired: it
   re-seeks to the position it remembered, dev/patches/D4.patch).

   Python generators are modelled by their suspended frames: the loop indices,
   `initial_position`, the accumulated offsets.  [Next id] resumes a frame up to
   its next yield, exactly one atomic step (single-threaded histories).

   Memoised pure values (TdmsSegment.chunk_size_cached, data_objects_cached,
   has_daqmx_objects_cached) are functions of the immutable segment and are
   modelled as the functions [chunk_size], [s_objs]; the lazily built offset
   index (TdmsReader._segment_channel_offsets) IS state ([idx]) and the
   invariant says each entry equals the freshly computed one.
   _deduplicate_array replaces an index array by an equal, never mutated one:
   in Gallina equal lists are indistinguishable, so it is the identity here.

   The correspondence check (harness/c05.py) evaluates [check_case] on every
   generated history: outputs of [run] against the implementation's, and
   [pos_trace] against the tell() of the stream the harness supplied.

   No proofs in this file. *)

From Coq Require Import List ZArith Bool Arith.
Import ListNotations.
Local Open Scope Z_scope.

(* ---- the abstract file -------------------------------------------------- *)

(* a data object of a segment (has_data = True): channel id, number_values,
   data_size in bytes (strings: the total size declared in the raw data index) *)
Record obj := mkObj { o_chan : Z; o_nvals : Z; o_size : Z }.

(* a segment: position of its lead-in, data_position, kTocRawData,
   kTocInterleavedData, its data objects in order, and per chunk, per object (in
   the order of [s_objs]) the values *)
Record seg := mkSeg {
  s_pos : Z; s_data_pos : Z; s_raw : bool; s_il : bool;
  s_objs : list obj; s_chunks : list (list (list Z)) }.

(* all channels of the file in group/channel order, and the segments *)
Record file := mkFile { f_chans : list Z; f_segs : list seg }.

(* TdmsSegment._get_chunk_size: sum(o.data_size for o in ordered_objects if o.has_data) *)
Definition chunk_size (s : seg) : Z := fold_right (fun o a => o_size o + a) 0 (s_objs s).
Definition num_chunks (s : seg) : nat := length (s_chunks s).
(* where chunk k of the segment starts *)
Definition chunk_pos (s : seg) (k : nat) : Z := s_data_pos s + Z.of_nat k * chunk_size s.
(* next_segment_pos *)
Definition seg_end (s : seg) : Z := chunk_pos s (num_chunks s).
Definition f_end (f : file) : Z := fold_left (fun _ s => seg_end s) (f_segs f) 0.

Fixpoint assoc {A B} (eqb : A -> A -> bool) (k : A) (l : list (A * B)) : option B :=
  match l with
  | [] => None
  | (k', v) :: r => if eqb k k' then Some v else assoc eqb k r
  end.

Fixpoint assoc_del {A B} (eqb : A -> A -> bool) (k : A) (l : list (A * B)) : list (A * B) :=
  match l with
  | [] => []
  | (k', v) :: r => if eqb k k' then assoc_del eqb k r else (k', v) :: assoc_del eqb k r
  end.

Definition assoc_set {A B} (eqb : A -> A -> bool) (k : A) (v : B) (l : list (A * B)) :=
  (k, v) :: assoc_del eqb k l.

(* ---- the disk: which block lives where (used only when a read misses) --- *)

Record block := mkBlock { b_pos : Z; b_chan : Z; b_size : Z; b_vals : list Z }.

Fixpoint blocks_of_chunk (p : Z) (ovs : list (obj * list Z)) : list block :=
  match ovs with
  | [] => []
  | (o, vs) :: r => mkBlock p (o_chan o) (o_size o) vs :: blocks_of_chunk (p + o_size o) r
  end.

Fixpoint blocks_of_chunks (s : seg) (k : nat) (cs : list (list (list Z))) : list block :=
  match cs with
  | [] => []
  | c :: r => blocks_of_chunk (chunk_pos s k) (combine (s_objs s) c) ++ blocks_of_chunks s (S k) r
  end.

(* contiguous segments only; an interleaved region is read row-wise, see read_il *)
Definition disk (f : file) : list block :=
  flat_map (fun s => if s_il s then [] else blocks_of_chunks s 0 (s_chunks s)) (f_segs f).

(* what a read returns *)
Inductive data :=
| Vals (vs : list Z)
| Garbage.             (* bytes that are not a block of this object *)

Definition dlen (d : data) : Z :=
  match d with Vals vs => Z.of_nat (length vs) | Garbage => 0 end.

(* a read of object [o] issued at a position where its intended block does not
   live: another block of the same channel and size (e.g. the same object in a
   later chunk), nothing at all at end of file (short read), garbage otherwise *)
Definition misread (f : file) (o : obj) (pos : Z) : data * Z :=
  match find (fun b => (b_pos b =? pos) && (b_chan b =? o_chan o) && (b_size b =? o_size o)) (disk f) with
  | Some b => (Vals (b_vals b), pos + o_size o)
  | None => if f_end f <=? pos then (Vals [], pos)
            else (Garbage, Z.min (pos + o_size o) (f_end f))
  end.

(* obj.read_values(file, number_values, endianness): reads AT THE CURRENT
   POSITION [pos]; [exp]/[vs] are where the intended block lives and what it holds *)
Definition read_at (f : file) (exp : Z) (o : obj) (vs : list Z) (pos : Z) : data * Z :=
  if pos =? exp then (Vals vs, pos + o_size o) else misread f o pos.

(* ContiguousDataReader._read_data_chunk:
     for obj in data_objects:
         object_data[obj.path] = obj.read_values(file, number_values, self.endianness)
   sequential reads, no seek; [exp] walks the true layout of the intended chunk *)
Fixpoint read_objs (f : file) (exp : Z) (ovs : list (obj * list Z)) (pos : Z)
  : list (Z * data) * Z :=
  match ovs with
  | [] => ([], pos)
  | (o, vs) :: r =>
    let '(d, pos1) := read_at f exp o vs pos in
    let '(ds, pos2) := read_objs f (exp + o_size o) r pos1 in
    ((o_chan o, d) :: ds, pos2)
  end.

(* ContiguousDataReader._read_channel_data_chunk:
     current_position = file.tell()
     for obj in data_objects:
         if obj.path == channel_path:
             file.seek(current_position)
             channel_data = RawChannelDataChunk.channel_data(obj.read_values(...))
             current_position = file.tell(); break
         elif number_values == obj.number_values:
             current_position += obj.data_size
   (complete chunks only: the final_chunk_lengths_override branches are outside wf)
   None = RawChannelDataChunk.empty() (channel not among the data objects) *)
Fixpoint chan_walk (f : file) (exp : Z) (ovs : list (obj * list Z)) (ch : Z)
         (current_position : Z) (pos : Z) : option data * Z :=
  match ovs with
  | [] => (None, pos)
  | (o, vs) :: r =>
    if o_chan o =? ch then
      let pos := current_position in                      (* file.seek(current_position) *)
      let '(d, pos) := read_at f exp o vs pos in
      (Some d, pos)
    else chan_walk f (exp + o_size o) r ch (current_position + o_size o) pos
  end.

(* per-object concatenation of the rows of consecutive interleaved chunks *)
Fixpoint zip_app (a b : list (list Z)) : list (list Z) :=
  match a, b with
  | x :: a', y :: b' => (x ++ y) :: zip_app a' b'
  | _, _ => []
  end.

Definition il_cols (objs : list obj) (chunks : list (list (list Z))) : list (list Z) :=
  fold_left zip_app chunks (map (fun _ => []) objs).

(* InterleavedDataReader._read_interleaved_chunks(file, data_objects, m):
     combined_data = read_interleaved_segment_bytes(file, total_data_width, number_values * m)
   ONE read of m chunks' rows at the current position; intended: chunks k0 .. k0+m-1 *)
Definition read_il (f : file) (s : seg) (k0 m : nat) (pos : Z) : list (Z * data) * Z :=
  if pos =? chunk_pos s k0 then
    (combine (map o_chan (s_objs s))
             (map Vals (il_cols (s_objs s) (firstn m (skipn k0 (s_chunks s))))),
     pos + Z.of_nat m * chunk_size s)
  else if f_end f <=? pos then (map (fun o => (o_chan o, Vals [])) (s_objs s), pos)
  else (map (fun o => (o_chan o, Garbage)) (s_objs s),
        Z.min (pos + Z.of_nat m * chunk_size s) (f_end f)).

(* TdmsReader._verify_segment_start:
     self._file.seek(segment.position); tag = self._file.read(4)
   (the tag at a segment's position is b'TDSm' by construction of the file) *)
Definition verify_segment_start (s : seg) (pos : Z) : Z :=
  let pos := s_pos s in        (* seek *)
  pos + 4.                     (* read(4) *)

(* ---- the offset index (reader._build_index) ----------------------------- *)

(* segment.get_segment_object(path) restricted to objects with data *)
Definition seg_obj (s : seg) (ch : Z) : option obj :=
  find (fun o => o_chan o =? ch) (s_objs s).

(* _number_of_segment_values: number_values * num_chunks (complete chunks) *)
Definition seg_num_values (s : seg) (ch : Z) : Z :=
  match seg_obj s ch with
  | Some o => o_nvals o * Z.of_nat (num_chunks s)
  | None => 0
  end.

Definition seg_nums (f : file) (ch : Z) : list Z :=
  map (fun s => seg_num_values s ch) (f_segs f).

(* object_metadata.num_values = TdmsChannel._length *)
Definition chan_len (f : file) (ch : Z) : Z := fold_right Z.add 0 (seg_nums f ch).

(* first / last segment with num_values > 0 *)
Fixpoint first_pos (l : list Z) : option nat :=
  match l with
  | [] => None
  | x :: r => if 0 <? x then Some 0%nat else option_map S (first_pos r)
  end.

Fixpoint last_pos (l : list Z) : option nat :=
  match l with
  | [] => None
  | x :: r => match last_pos r with
              | Some i => Some (S i)
              | None => if 0 <? x then Some 0%nat else None
              end
  end.

(* np.cumsum *)
Fixpoint cumsum (acc : Z) (l : list Z) : list Z :=
  match l with
  | [] => []
  | x :: r => (acc + x) :: cumsum (acc + x) r
  end.

(* _build_index:
     for i, segment in enumerate(self._segments): ... first_segment / last_segment
     if first_segment == -1: first_segment = num_segments; last_segment = num_segments
     channel_offsets = np.cumsum(segment_num_values[first_segment:last_segment + 1]) *)
Definition build_index (f : file) (ch : Z) : nat * list Z :=
  let nums := seg_nums f ch in
  match first_pos nums, last_pos nums with
  | Some a, Some b => (a, cumsum 0 (firstn (S b - a) (skipn a nums)))
  | _, _ => (length nums, [])
  end.

(* np.searchsorted(xs, x, side='right') on a sorted array: first i with xs[i] > x *)
Fixpoint ss_right (l : list Z) (x : Z) : nat :=
  match l with
  | [] => 0%nat
  | y :: r => if y <=? x then S (ss_right r x) else 0%nat
  end.

(* side='left': first i with xs[i] >= x *)
Fixpoint ss_left (l : list Z) (x : Z) : nat :=
  match l with
  | [] => 0%nat
  | y :: r => if y <? x then S (ss_left r x) else 0%nat
  end.

Definition itab := list (Z * (nat * list Z)).

(* try: self._segment_channel_offsets[channel_path] except KeyError: self._build_index(channel_path) *)
Definition ensure_index (f : file) (tbl : itab) (ch : Z) : itab * (nat * list Z) :=
  match assoc Z.eqb ch tbl with
  | Some e => (tbl, e)
  | None => let e := build_index f ch in ((ch, e) :: tbl, e)
  end.

(* ---- state -------------------------------------------------------------- *)

(* TdmsChannel._cached_chunk, _cached_chunk_bounds *)
Record centry := mkCe { ce_vals : list Z; ce_lo : Z; ce_hi : Z }.

(* frame of channel.data_chunks() and the generators below it *)
Inductive cphase :=
| CNew                                   (* created, never resumed *)
| CSeg (si k : nat) (initial_position : Z)
      (* suspended at `yield chunk` in TdmsSegment._read_channel_data_chunks of
         segment si, enumerate index i = k *)
| CDone.

Record cgen := mkCg {
  cg_chan : Z; cg_phase : cphase;
  cg_offset : Z;      (* channel_offset of TdmsChannel.data_chunks *)
  cg_last : Z;        (* len(raw_data_chunk) of the chunk just yielded (added on resume) *)
  cg_end : nat }.     (* end_segment of reader.read_raw_data_for_channel *)

(* frame of TdmsFile.data_chunks() and the generators below it *)
Inductive fphase :=
| FNew
| FEmptyY (si : nat)      (* suspended at `yield RawDataChunk.empty()` (segment without kTocRawData) *)
| FSeg (si k : nat) (saved : Z)
      (* suspended at `yield chunk` in TdmsSegment.read_raw_data of segment si,
         chunk k of BaseDataReader.read_data_chunks; [saved] = f.tell() after the
         chunk was read (exists only in the repaired code; 0 in the as-is model) *)
| FDone.

Record fgen := mkFg {
  fg_phase : fphase;
  fg_offsets : list (Z * Z);     (* channel_offsets (defaultdict(int)) *)
  fg_last : list (Z * Z) }.      (* (path, len(data)) of the chunk just yielded *)

Inductive gen := GChan (g : cgen) | GFile (g : fgen).

Record state := mkSt {
  pos : Z;                             (* the OS file position *)
  cache : list (Z * centry);           (* per channel *)
  idx : itab;                          (* reader._segment_channel_offsets *)
  gens : list (nat * gen) }.           (* live generator objects by harness id *)

Definition init : state := mkSt 0 [] [] [].

(* ---- operations and outputs --------------------------------------------- *)

Inductive op :=
| Index (ch i : Z)                               (* channel[i] *)
| Read (ch offs : Z) (len : option Z)            (* channel.read_data(offs, len) *)
| Slice (ch : Z) (start stop stp : option Z)     (* channel[start:stop:stp] *)
| NewChanGen (ch : Z) (id : nat)                 (* id = channel.data_chunks() *)
| NewFileGen (id : nat)                          (* id = tdms_file.data_chunks() *)
| Next (id : nat).                               (* next(id) *)

Inductive out :=
| OVal (v : Z)
| OVals (vs : list Z)
| OErr                                  (* IndexError / ValueError *)
| OUnit
| OChunk (offset : Z) (d : data)        (* ChannelDataChunk: .offset, [:] *)
| OFChunk (l : list (Z * (Z * data)))   (* DataChunk: per channel of the file (.offset, [:]) *)
| OStop                                 (* StopIteration *)
| OGarbage
| ONoGen.                               (* next() on an id that was never created *)

(* ---- channel[i]: TdmsChannel._read_at_index ----------------------------- *)

(* reader.read_channel_chunk_for_index, the arithmetic part:
     segment_index = first_segment + np.searchsorted(segment_offsets, index, side='right')
     segment = self._segments[segment_index]
     segment_obj = segment.get_segment_object(channel_path)
     chunk_size = 0 if segment_obj is None else segment_obj.number_values
     segment_start_index = (0 if segment_index == first_segment
                            else segment_offsets[segment_index - first_segment - 1])
     index_in_segment = index - segment_start_index
     chunk_index = index_in_segment // chunk_size
     ...
     chunk_offset = segment_start_index + chunk_index * chunk_size
   None = the Python raises (IndexError / ZeroDivisionError); never for 0 <= index < len *)
Definition chunk_for_index (f : file) (e : nat * list Z) (ch index : Z)
  : option (seg * nat * Z) :=
  let '(first, offs) := e in
  let rel := ss_right offs index in
  match nth_error (f_segs f) (first + rel) with
  | None => None
  | Some s =>
    match seg_obj s ch with
    | None => None
    | Some o =>
      if o_nvals o <=? 0 then None else
      match (match rel with
             | O => Some 0
             | S r => nth_error offs r
             end) with
      | None => None
      | Some start =>
        let chunk_index := (index - start) / o_nvals o in
        if chunk_index <? 0 then None else
        Some (s, Z.to_nat chunk_index, start + chunk_index * o_nvals o)
      end
    end
  end.

Definition odata (d : option data) : data :=
  match d with Some x => x | None => Vals [] end.

(* the I/O of read_channel_chunk_for_index:
     self._verify_segment_start(segment)
     chunk_data = next(segment.read_raw_data_for_channel(self._file, channel_path, chunk_index, 1))
   TdmsSegment.read_raw_data_for_channel(f, path, chunk_offset = k, num_chunks = 1):
     if not kTocRawData: yield RawChannelDataChunk.empty()
     f.seek(self.data_position)
     if chunk_offset > 0: f.seek(chunk_size * chunk_offset, os.SEEK_CUR)
     stop_chunk = num_chunks + chunk_offset
     _read_channel_data_chunks: initial_position = file.tell(); first chunk of the reader
   The generator is dropped after the first chunk; its `file.seek(...)` after the
   yield never runs. *)
Definition read_chunk_for_index (f : file) (s : seg) (k : nat) (ch : Z) (pos : Z) : data * Z :=
  let pos := verify_segment_start s pos in
  if negb (s_raw s) then (Vals [], pos) else
  let pos := s_data_pos s in                                      (* f.seek(self.data_position) *)
  let pos := if (0 <? k)%nat then pos + chunk_size s * Z.of_nat k else pos in  (* SEEK_CUR *)
  if s_il s then
    (* InterleavedDataReader.read_channel_data_chunks: read_data_chunks(file, objs, stop - offset = 1) *)
    let '(l, pos) := read_il f s k 1 pos in
    (odata (assoc Z.eqb ch l), pos)
  else
    (* BaseDataReader.read_channel_data_chunks: range(k, k + 1) -> _read_channel_data_chunk(k) *)
    match nth_error (s_chunks s) k with
    | None => (Garbage, pos)          (* a chunk the segment does not have: outside wf *)
    | Some c =>
      let '(d, pos) := chan_walk f (chunk_pos s k) (combine (s_objs s) c) ch pos pos in
      (odata d, pos)
    end.

Definition val_at (vs : list Z) (i : Z) : out :=
  if i <? 0 then OErr else
  match nth_error vs (Z.to_nat i) with Some v => OVal v | None => OErr end.

(* TdmsChannel._read_at_index:
     if index < 0: index = self._length + index
     if index < 0 or index >= self._length: raise IndexError
     if self._cached_chunk is not None:
         bounds = self._cached_chunk_bounds
         if bounds[0] <= index < bounds[1]:
             return self._cached_chunk[index - bounds[0]]
     chunk, chunk_offset = self._read_channel_data_chunk_for_index(index)
     scaled_chunk = self._scale_data(chunk)                 (no scaling: identity)
     self._cached_chunk = scaled_chunk
     self._cached_chunk_bounds = (chunk_offset, chunk_offset + len(scaled_chunk))
     return scaled_chunk[index - chunk_offset] *)
Definition do_index (f : file) (st : state) (ch i : Z) : state * out :=
  let n := chan_len f ch in
  let index := if i <? 0 then n + i else i in
  if (index <? 0) || (n <=? index) then (st, OErr) else
  let hit := match assoc Z.eqb ch (cache st) with
             | Some ce => if (ce_lo ce <=? index) && (index <? ce_hi ce)
                          then Some (val_at (ce_vals ce) (index - ce_lo ce)) else None
             | None => None
             end in
  match hit with
  | Some o => (st, o)
  | None =>
    let '(tbl, e) := ensure_index f (idx st) ch in
    match chunk_for_index f e ch index with
    | None => (mkSt (pos st) (cache st) tbl (gens st), OErr)
    | Some (s, k, lo) =>
      let '(d, p) := read_chunk_for_index f s k ch (pos st) in
      match d with
      | Vals vs =>
        (mkSt p (assoc_set Z.eqb ch (mkCe vs lo (lo + Z.of_nat (length vs))) (cache st)) tbl (gens st),
         val_at vs (index - lo))
      | Garbage => (mkSt p (cache st) tbl (gens st), OGarbage)
      end
    end
  end.

(* ---- channel.read_data(offs, len), channel[a:b:c] ----------------------- *)

(* the values of a channel in file order: the specification of a window read.
   (The chunk arithmetic of window reads is property C04's subject; here only
   the effect on the shared state matters.) *)
Definition chunk_chan_vals (objs : list obj) (c : list (list Z)) (ch : Z) : list Z :=
  match find (fun ov => o_chan (fst ov) =? ch) (combine objs c) with
  | Some (_, vs) => vs
  | None => []
  end.

Definition seg_chan_values (s : seg) (ch : Z) : list Z :=
  flat_map (fun c => chunk_chan_vals (s_objs s) c ch) (s_chunks s).

Definition chan_values (f : file) (ch : Z) : list Z :=
  flat_map (fun s => seg_chan_values s ch) (f_segs f).

Definition window (f : file) (ch offs : Z) (len : option Z) : list Z :=
  let rest := skipn (Z.to_nat offs) (chan_values f ch) in
  match len with
  | None => rest
  | Some l => firstn (Z.to_nat l) rest
  end.

(* where reader.read_raw_data_for_channel(path, offset, length) leaves the file
   position, per segment of self._segments[start_segment:end_segment + 1]
   (segment_index advanced for every segment, i.e. with dev/patches/D3.patch):
     self._verify_segment_start(segment)
     chunk_size = 0 if (segment_obj is None or not segment_obj.has_data) else number_values
     if chunk_size == 0: continue
     segment_start_index = 0 if segment_index == first_segment else segment_offsets[segment_index - first_segment - 1]
     if segment_index == start_segment: chunk_offset = (offset - segment_start_index) // chunk_size; num_chunks -= chunk_offset
     if segment_index == end_segment:
         num_values_to_trim = segment_end_index - end_index
         final_chunk_size = chunk_size                       (complete chunks)
         if num_values_to_trim >= final_chunk_size: num_chunks -= 1; num_values_to_trim -= final_chunk_size
         num_chunks -= num_values_to_trim // chunk_size
     segment.read_raw_data_for_channel(file, path, chunk_offset, num_chunks) consumed to the end:
         f.seek(data_position); f.seek(chunk_size_bytes * chunk_offset, SEEK_CUR) if chunk_offset > 0
         after each yielded chunk: file.seek(initial_position + (i + 1) * chunk_size_bytes)
   All reads inside follow an absolute seek issued in the same call, so only the
   final position is kept. *)
Fixpoint window_pos (first : nat) (offs : list Z) (ch offset end_index : Z)
         (start_segment end_segment : nat) (segs : list seg) (segment_index : nat) (pos : Z) : Z :=
  match segs with
  | [] => pos
  | s :: r =>
    if (end_segment <? segment_index)%nat then pos else
    let pos := verify_segment_start s pos in
    let pos :=
      match seg_obj s ch with
      | None => pos
      | Some o =>
        if o_nvals o <=? 0 then pos else
        let rel := (segment_index - first)%nat in
        let seg_start := match rel with O => 0 | S r' => match nth_error offs r' with Some x => x | None => 0 end end in
        let seg_stop := match nth_error offs rel with Some x => x | None => seg_start end in
        let chunk_offset := if (segment_index =? start_segment)%nat then (offset - seg_start) / o_nvals o else 0 in
        let n1 := Z.of_nat (num_chunks s) - chunk_offset in
        let n2 := if (segment_index =? end_segment)%nat then
                    let trim := seg_stop - end_index in
                    let '(n, trim) := if o_nvals o <=? trim then (n1 - 1, trim - o_nvals o) else (n1, trim) in
                    n - trim / o_nvals o
                  else n1 in
        let initial_position := s_data_pos s + chunk_size s * chunk_offset in
        if s_il s then initial_position + chunk_size s       (* a list of exactly one chunk *)
        else initial_position + Z.max 0 n2 * chunk_size s
      end in
    window_pos first offs ch offset end_index start_segment end_segment r (S segment_index) pos
  end.

(* TdmsChannel.read_data -> _read_channel_data -> reader.read_raw_data_for_channel:
     if offset < 0: raise ValueError; if length is not None and length < 0: raise ValueError
     length = min(length, num_values - offset)  (or num_values - offset)
     end_index = offset + length
     start_segment = first_segment + np.searchsorted(segment_offsets, offset, side='right')
     end_segment = first_segment + np.searchsorted(segment_offsets, end_index, side='left') *)
Definition do_read (f : file) (st : state) (ch offs : Z) (len : option Z) : state * out :=
  if (offs <? 0) || (match len with Some l => l <? 0 | None => false end) then (st, OErr) else
  let '(tbl, (first, offsets)) := ensure_index f (idx st) ch in
  let maxlen := chan_len f ch - offs in
  let length := match len with Some l => Z.min l maxlen | None => maxlen end in
  let end_index := offs + length in
  let start_segment := (first + ss_right offsets offs)%nat in
  let end_segment := (first + ss_left offsets end_index)%nat in
  let p := window_pos first offsets ch offs end_index start_segment end_segment
                      (skipn start_segment (f_segs f)) start_segment (pos st) in
  (mkSt p (cache st) tbl (gens st), OVals (window f ch offs len)).

(* read_data[::step] *)
Fixpoint every_nth (n : nat) (k : nat) (l : list Z) : list Z :=
  match l with
  | [] => []
  | x :: r => match k with
              | O => x :: every_nth n n r
              | S k' => every_nth n k' r
              end
  end.

Definition strided (vs : list Z) (stp : Z) : list Z :=
  if 0 <? stp then every_nth (Z.to_nat stp - 1) 0 vs
  else every_nth (Z.to_nat (- stp) - 1) 0 (rev vs).

(* TdmsChannel._read_slice (statement by statement), the integer part:
   None = ValueError("Step size cannot be zero"); Some None = an empty range, answered
   with np.empty without touching the file; Some (Some (offset, length, step)) =
   self.read_data(offset, length)[::step] *)
Definition slice_plan (n : Z) (start stop stp : option Z) : option (option (Z * Z * Z)) :=
  if match stp with Some 0 => true | _ => false end then None else
  (* if self._length == 0: return np.empty(...)   (repair D14, /repo 3e0d41d) *)
  if n =? 0 then Some None else
  let stp := match stp with Some x => x | None => 1 end in
  let start := match start with Some x => x | None => if 0 <? stp then 0 else -1 end in
  let stop := match stop with Some x => x | None => if 0 <? stp then n else -1 - n end in
  let start := if start <? 0 then n + start else start in
  let stop := if stop <? 0 then n + stop else stop in
  if stop =? start then Some None else
  if (0 <? stp) && ((stop <? start) || (n <=? start) || (stop <? 0)) then Some None else
  if (stp <? 0) && ((start <? stop) || (n <=? stop) || (start <? 0)) then Some None else
  let start := if start <? 0 then 0 else start in
  let start := if n <=? start then n - 1 else start in
  let stop := if n <? stop then n else stop in
  let stop := if stop <? -1 then -1 else stop in
  if 0 <? stp then Some (Some (start, stop - start, stp))
  else Some (Some (stop + 1, start - stop, stp)).

Definition do_slice (f : file) (st : state) (ch : Z) (start stop stp : option Z) : state * out :=
  match slice_plan (chan_len f ch) start stop stp with
  | None => (st, OErr)
  | Some None => (st, OVals [])
  | Some (Some (offs, len, stp)) =>
    let '(st', o) := do_read f st ch offs (Some len) in
    (st', match o with OVals vs => OVals (strided vs stp) | _ => o end)
  end.

(* ---- channel.data_chunks() ---------------------------------------------- *)

Definition new_cgen (ch : Z) : cgen := mkCg ch CNew 0 0 0.

(* the segment loop of reader.read_raw_data_for_channel(path) (offset 0, length
   None, so skip = 0, trim = 0, chunk_offset = 0, num_chunks = segment.num_chunks)
   up to the first chunk it yields:
     for segment in self._segments[start_segment:end_segment + 1]:
         self._verify_segment_start(segment)
         ... if chunk_size == 0: continue
         for i, chunk in enumerate(segment.read_raw_data_for_channel(self._file, path, 0, num_chunks)):
   TdmsSegment.read_raw_data_for_channel: f.seek(self.data_position); (chunk_offset = 0)
   _read_channel_data_chunks: initial_position = file.tell(); then the reader's first chunk
     ContiguousDataReader: chunk_index in range(0, num_chunks)
     InterleavedDataReader: [ all num_chunks chunks read at once ]
   Result: Some (segment index, initial_position, chunk) and the new position. *)
Fixpoint cg_advance (f : file) (ch : Z) (segs : list seg) (si end_segment : nat) (pos : Z)
  : option (nat * Z * option data) * Z :=
  match segs with
  | [] => (None, pos)
  | s :: r =>
    if (end_segment <? si)%nat then (None, pos) else
    let pos := verify_segment_start s pos in
    match seg_obj s ch with
    | None => cg_advance f ch r (S si) end_segment pos
    | Some o =>
      if o_nvals o =? 0 then cg_advance f ch r (S si) end_segment pos else
      let pos := s_data_pos s in                     (* f.seek(self.data_position) *)
      let initial_position := pos in                 (* file.tell() *)
      if s_il s then
        let '(l, pos) := read_il f s 0 (num_chunks s) pos in
        (Some (si, initial_position, assoc Z.eqb ch l), pos)
      else
        match s_chunks s with
        | [] => cg_advance f ch r (S si) end_segment pos
        | c :: _ =>
          let '(d, pos) := chan_walk f (chunk_pos s 0) (combine (s_objs s) c) ch pos pos in
          (Some (si, initial_position, d), pos)
        end
    end
  end.

Definition cg_finish (g : cgen) (offset : Z) (end_segment : nat) (k : nat)
           (r : option (nat * Z * option data) * Z) : cgen * out * Z :=
  match r with
  | (None, p) => (mkCg (cg_chan g) CDone offset 0 end_segment, OStop, p)
  | (Some (si, ip, d), p) =>
    (mkCg (cg_chan g) (CSeg si k ip) offset (dlen (odata d)) end_segment,
     OChunk offset (odata d), p)
  end.

(* next() on a channel.data_chunks() generator:
     TdmsChannel.data_chunks:
         channel_offset = 0
         for raw_data_chunk in self._read_channel_data_chunks():
             yield ChannelDataChunk(self, raw_data_chunk, channel_offset)
             channel_offset += len(raw_data_chunk)
     TdmsSegment._read_channel_data_chunks:
         initial_position = file.tell()
         for i, chunk in enumerate(reader.read_channel_data_chunks(...)):
             yield chunk
             file.seek(initial_position + (i + 1) * chunk_size) *)
Definition next_chan (f : file) (tbl : itab) (g : cgen) (pos : Z) : itab * cgen * out * Z :=
  let ch := cg_chan g in
  match cg_phase g with
  | CDone => (tbl, g, OStop, pos)
  | CNew =>
    let '(tbl, (first, offs)) := ensure_index f tbl ch in
    let start_segment := (first + ss_right offs 0)%nat in
    let end_segment := (first + ss_left offs (chan_len f ch))%nat in
    let '(g', o, p) := cg_finish g 0 end_segment 0
          (cg_advance f ch (skipn start_segment (f_segs f)) start_segment end_segment pos) in
    (tbl, g', o, p)
  | CSeg si k ip =>
    let offset := cg_offset g + cg_last g in              (* channel_offset += len(raw_data_chunk) *)
    match nth_error (f_segs f) si with
    | None => (tbl, mkCg ch CDone offset 0 (cg_end g), OStop, pos)
    | Some s =>
      let pos := ip + (Z.of_nat k + 1) * chunk_size s in  (* file.seek(initial_position + (i + 1) * chunk_size) *)
      let more := if s_il s then None else nth_error (s_chunks s) (S k) in
      match more with
      | Some c =>
        let '(d, pos) := chan_walk f (chunk_pos s (S k)) (combine (s_objs s) c) ch pos pos in
        (tbl, mkCg ch (CSeg si (S k) ip) offset (dlen (odata d)) (cg_end g), OChunk offset (odata d), pos)
      | None =>
        let '(g', o, p) := cg_finish g offset (cg_end g) 0
              (cg_advance f ch (skipn (S si) (f_segs f)) (S si) (cg_end g) pos) in
        (tbl, g', o, p)
      end
    end
  end.

(* ---- tdms_file.data_chunks() -------------------------------------------- *)

Definition new_fgen : fgen := mkFg FNew [] [].

(* TdmsSegment.read_raw_data after the kTocRawData test, up to its first yield:
     f.seek(self.data_position)
     data_objects = [o for o in self.ordered_objects if o.has_data]
     for chunk in self._read_data_chunks(f, data_objects, self.num_chunks):
   ContiguousDataReader (BaseDataReader.read_data_chunks): for chunk in range(num_chunks): yield _read_data_chunk
   InterleavedDataReader.read_data_chunks: [] if no data objects else [ all chunks at once ]
   [fixd]: remember f.tell() after the chunk (dev/patches/D4.patch) *)
Definition fg_seg_data (fixd : bool) (f : file) (s : seg) (si : nat) (pos : Z)
  : option (fphase * list (Z * data)) * Z :=
  let pos := s_data_pos s in                         (* f.seek(self.data_position) *)
  if s_il s then
    match s_objs s with
    | [] => (None, pos)
    | _ :: _ =>
      let '(l, pos) := read_il f s 0 (num_chunks s) pos in
      (Some (FSeg si 0 (if fixd then pos else 0), l), pos)
    end
  else
    match s_chunks s with
    | [] => (None, pos)
    | c :: _ =>
      let '(l, pos) := read_objs f (chunk_pos s 0) (combine (s_objs s) c) pos in
      (Some (FSeg si 0 (if fixd then pos else 0), l), pos)
    end.

(* reader.read_raw_data: for segment in self._segments: self._verify_segment_start(segment);
   for chunk in segment.read_raw_data(self._file): yield chunk
   TdmsSegment.read_raw_data: if not kTocRawData: yield RawDataChunk.empty() *)
Fixpoint fg_advance (fixd : bool) (f : file) (segs : list seg) (si : nat) (pos : Z)
  : option (fphase * list (Z * data)) * Z :=
  match segs with
  | [] => (None, pos)
  | s :: r =>
    let pos := verify_segment_start s pos in
    if negb (s_raw s) then (Some (FEmptyY si, []), pos)
    else match fg_seg_data fixd f s si pos with
         | (Some y, pos) => (Some y, pos)
         | (None, pos) => fg_advance fixd f r (S si) pos
         end
  end.

Fixpoint add_lens (offsets : list (Z * Z)) (l : list (Z * Z)) : list (Z * Z) :=
  match l with
  | [] => offsets
  | (ch, n) :: r =>
    let cur := match assoc Z.eqb ch offsets with Some x => x | None => 0 end in  (* defaultdict(int) *)
    add_lens (assoc_set Z.eqb ch (cur + n) offsets) r
  end.

(* DataChunk(self, chunk, channel_offsets): for every channel of the file,
   ChannelDataChunk(channel, chunk.channel_data.get(path, empty), channel_offsets[path]) *)
Definition file_chunk_out (f : file) (offsets : list (Z * Z)) (l : list (Z * data)) : out :=
  OFChunk (map (fun ch => (ch, (match assoc Z.eqb ch offsets with Some x => x | None => 0 end,
                                odata (assoc Z.eqb ch l)))) (f_chans f)).

Definition fg_finish (f : file) (offsets : list (Z * Z))
           (r : option (fphase * list (Z * data)) * Z) : fgen * out * Z :=
  match r with
  | (None, p) => (mkFg FDone offsets [], OStop, p)
  | (Some (ph, l), p) =>
    (mkFg ph offsets (map (fun cd => (fst cd, dlen (snd cd))) l), file_chunk_out f offsets l, p)
  end.

(* next() on a tdms_file.data_chunks() generator:
     TdmsFile.data_chunks:
         channel_offsets = defaultdict(int)
         for chunk in self._reader.read_raw_data():
             yield DataChunk(self, chunk, channel_offsets)
             for path, data in chunk.channel_data.items(): channel_offsets[path] += len(data)
     TdmsSegment.read_raw_data (as is):          (repaired, D4.patch):
         for chunk in self._read_data_chunks(..):    for chunk in self._read_data_chunks(..):
             yield chunk                                 next_chunk_position = f.tell()
                                                         yield chunk
                                                         f.seek(next_chunk_position)
   As is, the next chunk is read wherever the position happens to be. *)
Definition next_file (fixd : bool) (f : file) (g : fgen) (pos : Z) : fgen * out * Z :=
  let offsets := add_lens (fg_offsets g) (fg_last g) in
  match fg_phase g with
  | FDone => (g, OStop, pos)
  | FNew => fg_finish f offsets (fg_advance fixd f (f_segs f) 0 pos)
  | FEmptyY si =>
    match nth_error (f_segs f) si with
    | None => (mkFg FDone offsets [], OStop, pos)
    | Some s =>
      match fg_seg_data fixd f s si pos with
      | (Some y, p) => fg_finish f offsets (Some y, p)
      | (None, p) => fg_finish f offsets (fg_advance fixd f (skipn (S si) (f_segs f)) (S si) p)
      end
    end
  | FSeg si k saved =>
    match nth_error (f_segs f) si with
    | None => (mkFg FDone offsets [], OStop, pos)
    | Some s =>
      let pos := if fixd then saved else pos in          (* f.seek(next_chunk_position) *)
      let more := if s_il s then None else nth_error (s_chunks s) (S k) in
      match more with
      | Some c =>
        let '(l, pos) := read_objs f (chunk_pos s (S k)) (combine (s_objs s) c) pos in
        fg_finish f offsets (Some (FSeg si (S k) (if fixd then pos else 0), l), pos)
      | None => fg_finish f offsets (fg_advance fixd f (skipn (S si) (f_segs f)) (S si) pos)
      end
    end
  end.

(* ---- step --------------------------------------------------------------- *)

(* next(g) on either kind of generator: new index table, new frame, output, new position *)
Definition next_gen (fixd : bool) (f : file) (tbl : itab) (g : gen) (pos : Z) : itab * gen * out * Z :=
  match g with
  | GChan c => let '(tbl', c', o, p) := next_chan f tbl c pos in (tbl', GChan c', o, p)
  | GFile c => let '(c', o, p) := next_file fixd f c pos in (tbl, GFile c', o, p)
  end.

Definition step_gen (fixd : bool) (f : file) (st : state) (o : op) : state * out :=
  match o with
  | Index ch i => do_index f st ch i
  | Read ch offs len => do_read f st ch offs len
  | Slice ch a b c => do_slice f st ch a b c
  | NewChanGen ch id =>
    (mkSt (pos st) (cache st) (idx st) (assoc_set Nat.eqb id (GChan (new_cgen ch)) (gens st)), OUnit)
  | NewFileGen id =>
    (mkSt (pos st) (cache st) (idx st) (assoc_set Nat.eqb id (GFile new_fgen) (gens st)), OUnit)
  | Next id =>
    match assoc Nat.eqb id (gens st) with
    | None => (st, ONoGen)
    | Some g =>
      let '(tbl, g', o, p) := next_gen fixd f (idx st) g (pos st) in
      (mkSt p (cache st) tbl (assoc_set Nat.eqb id g' (gens st)), o)
    end
  end.

Definition step := step_gen true.          (* repaired (D4.patch) *)
Definition step_asis := step_gen false.    (* the code in /repo today *)

Fixpoint run_gen (fixd : bool) (f : file) (st : state) (ops : list op) : state * list out :=
  match ops with
  | [] => (st, [])
  | o :: r =>
    let '(st1, x) := step_gen fixd f st o in
    let '(st2, xs) := run_gen fixd f st1 r in
    (st2, x :: xs)
  end.

Definition run := run_gen true.
Definition run_asis := run_gen false.

(* ---- what an operation yields on a freshly opened file ------------------ *)

Inductive gkind := KChan (ch : Z) | KFile.

Definition new_op (k : gkind) (id : nat) : op :=
  match k with KChan ch => NewChanGen ch id | KFile => NewFileGen id end.

(* an operation together with the part of the history its specification may
   mention: for next(), the kind of generator and how many next() calls it has
   already received since it was created *)
Inductive aop :=
| AOp (o : op)
| ANext (k : gkind) (n : nat)
| ANextNone.

Definition genv := list (nat * (gkind * nat)).

Fixpoint annotate_from (env : genv) (ops : list op) : list aop :=
  match ops with
  | [] => []
  | o :: r =>
    match o with
    | NewChanGen ch id => AOp o :: annotate_from (assoc_set Nat.eqb id (KChan ch, 0%nat) env) r
    | NewFileGen id => AOp o :: annotate_from (assoc_set Nat.eqb id (KFile, 0%nat) env) r
    | Next id =>
      match assoc Nat.eqb id env with
      | None => ANextNone :: annotate_from env r
      | Some (k, n) => ANext k n :: annotate_from (assoc_set Nat.eqb id (k, S n) env) r
      end
    | _ => AOp o :: annotate_from env r
    end
  end.

Definition annotate := annotate_from [].

(* on a fresh file: the operation alone; for next(): create the generator, call
   next() n times, the answer is what the (n+1)-th call returns *)
Definition fresh_out (f : file) (a : aop) : out :=
  match a with
  | AOp o => snd (step f init o)
  | ANext k n => snd (step f (fst (run f init (new_op k 0%nat :: repeat (Next 0%nat) n))) (Next 0%nat))
  | ANextNone => ONoGen
  end.

(* ---- what one generator delivered during a history ----------------------- *)

(* the bookkeeping [annotate_from] threads through a history, one operation at a time *)
Definition env_step (env : genv) (o : op) : genv :=
  match o with
  | NewChanGen ch id => assoc_set Nat.eqb id (KChan ch, 0%nat) env
  | NewFileGen id => assoc_set Nat.eqb id (KFile, 0%nat) env
  | Next id => match assoc Nat.eqb id env with
               | None => env
               | Some (k, n) => assoc_set Nat.eqb id (k, S n) env
               end
  | _ => env
  end.

(* after the whole history: for each generator id, its kind and the number of
   next() calls it received since it was (last) created *)
Definition final_env (ops : list op) : genv := fold_left env_step ops [].

(* the outputs of next(id), in order, since generator id was (last) created;
   None = id was never created *)
Fixpoint gen_outs (id : nat) (ops : list op) (outs : list out) (acc : option (list out))
  : option (list out) :=
  match ops, outs with
  | o :: r, x :: xs =>
    match o with
    | NewChanGen _ id' => gen_outs id r xs (if Nat.eqb id id' then Some [] else acc)
    | NewFileGen id' => gen_outs id r xs (if Nat.eqb id id' then Some [] else acc)
    | Next id' => gen_outs id r xs (if Nat.eqb id id' then option_map (fun l => l ++ [x]) acc else acc)
    | _ => gen_outs id r xs acc
    end
  | _, _ => acc
  end.

(* ---- direct specification of the chunk sequences ------------------------ *)

(* channel.data_chunks(): per segment in which the channel has data, the
   channel's part of every chunk (contiguous) or of the whole segment
   (interleaved), with .offset = number of values delivered before *)
Definition ovals (x : option (list Z)) : list Z :=
  match x with Some vs => vs | None => [] end.

Definition seg_chan_chunks (s : seg) (ch : Z) : list (list Z) :=
  match seg_obj s ch with
  | None => []
  | Some o =>
    if o_nvals o =? 0 then [] else
    if s_il s then
      [ovals (assoc Z.eqb ch (combine (map o_chan (s_objs s)) (il_cols (s_objs s) (s_chunks s))))]
    else map (fun c => chunk_chan_vals (s_objs s) c ch) (s_chunks s)
  end.

Fixpoint with_offsets (offset : Z) (l : list (list Z)) : list out :=
  match l with
  | [] => []
  | vs :: r => OChunk offset (Vals vs) :: with_offsets (offset + Z.of_nat (length vs)) r
  end.

Definition chan_gen_chunks (f : file) (ch : Z) : list out :=
  with_offsets 0 (flat_map (fun s => seg_chan_chunks s ch) (f_segs f)).

(* tdms_file.data_chunks(): per segment, an empty chunk if it has no raw data,
   else every chunk (contiguous) or the whole segment at once (interleaved);
   each channel's .offset = number of its values delivered before *)
Definition seg_file_chunks (s : seg) : list (list (Z * list Z)) :=
  if negb (s_raw s) then [[]]
  else if s_il s then
    match s_objs s with
    | [] => []
    | _ :: _ => [combine (map o_chan (s_objs s)) (il_cols (s_objs s) (s_chunks s))]
    end
  else map (fun c => combine (map o_chan (s_objs s)) c) (s_chunks s).

Fixpoint file_with_offsets (f : file) (offsets : list (Z * Z)) (l : list (list (Z * list Z)))
  : list out :=
  match l with
  | [] => []
  | c :: r =>
    file_chunk_out f offsets (map (fun cv => (fst cv, Vals (snd cv))) c)
    :: file_with_offsets f (add_lens offsets (map (fun cv => (fst cv, Z.of_nat (length (snd cv)))) c)) r
  end.

Definition file_gen_chunks (f : file) : list out :=
  file_with_offsets f [] (flat_map seg_file_chunks (f_segs f)).

Definition gen_chunks (f : file) (k : gkind) : list out :=
  match k with KChan ch => chan_gen_chunks f ch | KFile => file_gen_chunks f end.

(* ---- well-formed files (Boolean; checked by the harness on every case) -- *)

Definition obj_ok (o : obj) : bool := (0 <? o_nvals o) && (0 <? o_size o) && (0 <=? o_chan o).

Definition chunk_ok (objs : list obj) (c : list (list Z)) : bool :=
  (length c =? length objs)%nat &&
  forallb (fun ov => Z.of_nat (length (snd ov)) =? o_nvals (fst ov)) (combine objs c).

Fixpoint nodupb (l : list Z) : bool :=
  match l with
  | [] => true
  | x :: r => negb (existsb (Z.eqb x) r) && nodupb r
  end.

Definition seg_ok (f : file) (s : seg) : bool :=
  forallb obj_ok (s_objs s) &&
  nodupb (map o_chan (s_objs s)) &&
  forallb (fun o => existsb (Z.eqb (o_chan o)) (f_chans f)) (s_objs s) &&
  forallb (chunk_ok (s_objs s)) (s_chunks s) &&
  (if s_raw s then negb (length (s_objs s) =? 0)%nat && negb (length (s_chunks s) =? 0)%nat
   else (length (s_objs s) =? 0)%nat && (length (s_chunks s) =? 0)%nat) &&
  (s_pos s + 28 <=? s_data_pos s).

(* segments follow each other without gaps, the first at position 0 *)
Fixpoint layout_ok (p : Z) (segs : list seg) : bool :=
  match segs with
  | [] => true
  | s :: r => (s_pos s =? p) && layout_ok (seg_end s) r
  end.

Definition wf_file (f : file) : bool :=
  forallb (seg_ok f) (f_segs f) && layout_ok 0 (f_segs f) && nodupb (f_chans f).

(* ---- Boolean comparison of outputs (for the correspondence check) ------- *)

Fixpoint zl_eqb (a b : list Z) : bool :=
  match a, b with
  | [], [] => true
  | x :: a', y :: b' => (x =? y) && zl_eqb a' b'
  | _, _ => false
  end.

Definition data_eqb (a b : data) : bool :=
  match a, b with
  | Vals x, Vals y => zl_eqb x y
  | Garbage, Garbage => true
  | _, _ => false
  end.

Fixpoint fl_eqb (a b : list (Z * (Z * data))) : bool :=
  match a, b with
  | [], [] => true
  | (c, (o, d)) :: a', (c', (o', d')) :: b' => (c =? c') && (o =? o') && data_eqb d d' && fl_eqb a' b'
  | _, _ => false
  end.

Definition out_eqb (a b : out) : bool :=
  match a, b with
  | OVal x, OVal y => x =? y
  | OVals x, OVals y => zl_eqb x y
  | OErr, OErr => true
  | OUnit, OUnit => true
  | OChunk o d, OChunk o' d' => (o =? o') && data_eqb d d'
  | OFChunk l, OFChunk l' => fl_eqb l l'
  | OStop, OStop => true
  | OGarbage, OGarbage => true
  | ONoGen, ONoGen => true
  | _, _ => false
  end.

(* expected output None = not compared (the harness says why and counts them) *)
Fixpoint outs_agree (model : list out) (obs : list (option out)) : bool :=
  match model, obs with
  | [], [] => true
  | m :: model', None :: obs' => outs_agree model' obs'
  | m :: model', Some o :: obs' => out_eqb m o && outs_agree model' obs'
  | _, _ => false
  end.

(* the OS file position after every operation (the harness reads it off the
   stream it supplied: io.BytesIO.tell()) *)
Fixpoint pos_trace (fixd : bool) (f : file) (st : state) (ops : list op) : list Z :=
  match ops with
  | [] => []
  | o :: r => let st1 := fst (step_gen fixd f st o) in pos st1 :: pos_trace fixd f st1 r
  end.

(* a position inside (or at the end of) the raw data of some segment, i.e. one
   that results from reading or seeking to channel data; the position left by the
   lead-in tag check of _verify_segment_start (segment position + 4) is not *)
Definition in_raw (f : file) (p : Z) : bool :=
  existsb (fun s => s_raw s && (s_data_pos s <=? p) && (p <=? seg_end s)) (f_segs f).

(* observed position None = not compared; a model position outside the raw data
   (a harmless seek to a lead-in) is not compared either *)
Fixpoint pos_agree (f : file) (model : list Z) (obs : list (option Z)) : bool :=
  match model, obs with
  | [], [] => true
  | m :: model', None :: obs' => pos_agree f model' obs'
  | m :: model', Some p :: obs' => (negb (in_raw f m) || (m =? p)) && pos_agree f model' obs'
  | _, _ => false
  end.

(* one correspondence case: the abstract file, the history, the observed
   outputs, the observed stream position after each operation *)
Definition check_case (c : file * list op * list (option out) * list (option Z)) : bool :=
  let '(f, ops, obs, ps) := c in
  wf_file f && outs_agree (snd (run f init ops)) obs && pos_agree f (pos_trace true f init ops) ps.

(* the same against the as-is model (used to confirm that a violating history
   found on the unrepaired tree is the modelled defect) *)
Definition check_case_asis (c : file * list op * list (option out) * list (option Z)) : bool :=
  let '(f, ops, obs, ps) := c in
  wf_file f && outs_agree (snd (run_asis f init ops)) obs && pos_agree f (pos_trace false f init ops) ps.
