(* Abstract per-channel model of the lazy read path of npTDMS.

   Mirrors, function by function (Python quoted in the comments):
     nptdms/reader.py      _number_of_segment_values, TdmsReader._build_index,
                           TdmsReader.read_raw_data_for_channel, _trim_channel_chunk,
                           TdmsReader.read_channel_chunk_for_index
     nptdms/tdms_segment.py TdmsSegment.read_raw_data_for_channel,
                           BaseDataReader.read_channel_data_chunks (contiguous: one chunk
                           object per chunk), InterleavedDataReader.read_channel_data_chunks
                           (ONE chunk object carrying all requested chunks)
     nptdms/tdms.py        TdmsChannel._read_channel_data (clamping, receiver),
                           TdmsChannel._read_at_index (one-chunk cache; the bounds check is
                           the translated Gen.PySlice_gen.read_at_index_check)
     nptdms/channel_data.py NumpyDataReceiver / ListDataReceiver, slice_raw_data

   The file is seen through the channel of interest only: per segment
     sv_chunk        the channel's number_values in that segment; 0 when the channel is
                     absent from the segment or has_data is False
     sv_nchunks      segment.num_chunks
     sv_final        Some (final_chunk_lengths_override.get(path, 0)) when the segment has
                     an override dict (truncated final chunk), else None
     sv_interleaved  the segment's reader returns one chunk object for the whole requested
                     chunk range (interleaved / DAQmx); contiguous returns one per chunk
     sv_vals         the values each chunk holds for this channel

   Two variants of the generator are defined from one text with two switches:
     fix_index = false : `continue` skips `segment_index += 1`      (defect D3, as in /repo)
     fix_final = false : final_chunk_size by modulo                 (defect D13, as in /repo)
   lz_read_asis = both false (today's code), lz_read = both true (repaired code:
   dev/patches/D3.patch + D13.patch).

   Not modelled: the empty chunk object yielded first for a segment without
   kTocRawData (it has no values and never is a start segment); an exception
   raised by the generator after the receiver already failed (both are errors). *)
From Coq Require Import ZArith List Bool.
From NpTdms Require Import Base.Res Base.PySlice Gen.PySlice_gen.
Import ListNotations.
Open Scope Z_scope.

Section LazyRead.
  Variable V : Type.
  Variable zero : V.       (* what np.zeros puts into a preallocated receiver *)

  Record segv := mk_segv {
    sv_chunk : Z;
    sv_nchunks : Z;
    sv_final : option Z;
    sv_interleaved : bool;
    sv_vals : list (list V)
  }.

  (* def _number_of_segment_values(segment_object, segment):
         if not segment_object.has_data: return 0
         if segment.final_chunk_lengths_override is None:
             return segment_object.number_values * segment.num_chunks
         else:
             return (segment_object.number_values * (segment.num_chunks - 1) +
                     segment.final_chunk_lengths_override.get(segment_object.path, 0))
     (an absent object contributes nothing: sv_chunk = 0) *)
  Definition number_of_segment_values (sv : segv) : Z :=
    if sv_chunk sv =? 0 then 0
    else match sv_final sv with
         | None => sv_chunk sv * sv_nchunks sv
         | Some f => sv_chunk sv * (sv_nchunks sv - 1) + f
         end.

  (* object_metadata.num_values (summed over all segments) = len(channel) *)
  Fixpoint total_values (segs : list segv) : Z :=
    match segs with
    | [] => 0
    | sv :: r => number_of_segment_values sv + total_values r
    end.

  (* _build_index:
       segment_num_values = np.zeros(num_segments); first_segment = -1; last_segment = -1
       for i, segment in enumerate(self._segments):
           ... num_values = _number_of_segment_values(segment_obj, segment)
           if num_values > 0:
               segment_num_values[i] = num_values
               last_segment = i
               if first_segment == -1: first_segment = i
       if first_segment == -1:
           first_segment = num_segments; last_segment = num_segments
       channel_offsets = np.cumsum(segment_num_values[first_segment:last_segment + 1]) *)
  Definition seg_nums (segs : list segv) : list Z :=
    map (fun sv => let nv := number_of_segment_values sv in if nv >? 0 then nv else 0) segs.

  Fixpoint scan_first_last (i : Z) (nums : list Z) (first last : Z) : Z * Z :=
    match nums with
    | [] => (first, last)
    | nv :: r =>
      if nv >? 0 then scan_first_last (i + 1) r (if first =? -1 then i else first) i
      else scan_first_last (i + 1) r first last
    end.

  Fixpoint cumsum (acc : Z) (l : list Z) : list Z :=
    match l with
    | [] => []
    | x :: r => (acc + x) :: cumsum (acc + x) r
    end.

  Definition build_index (segs : list segv) : Z * list Z :=
    let num_segments := zlen segs in
    let nums := seg_nums segs in
    let '(first_segment, last_segment) := scan_first_last 0 nums (-1) (-1) in
    let '(first_segment, last_segment) :=
      if first_segment =? -1 then (num_segments, num_segments) else (first_segment, last_segment) in
    (first_segment, cumsum 0 (py_slice nums first_segment (last_segment + 1))).

  (* np.searchsorted on a sorted array, as counting functions:
     side='right' -> number of entries <= v;  side='left' -> number of entries < v *)
  Definition searchsorted_right (a : list Z) (v : Z) : Z := zlen (filter (fun x => x <=? v) a).
  Definition searchsorted_left (a : list Z) (v : Z) : Z := zlen (filter (fun x => x <? v) a).

  (* one chunk of the segment for this channel; reading outside the segment's
     chunks is not covered by the model (the code would read foreign bytes) *)
  Definition chunk_at (sv : segv) (c : Z) : res (list V) :=
    if (0 <=? c) && (c <? sv_nchunks sv) then
      match nth_error (sv_vals sv) (Z.to_nat c) with
      | Some ch => Ok ch
      | None => Err EOther
      end
    else Err EOther.

  (* range(a, b) *)
  Definition zrange (a b : Z) : list Z :=
    map (fun k => a + Z.of_nat k) (seq 0 (Z.to_nat (b - a))).

  (* TdmsSegment.read_raw_data_for_channel(f, channel_path, chunk_offset, num_chunks):
       stop_chunk = num_chunks + chunk_offset
       contiguous : for chunk_index in range(chunk_offset, stop_chunk): yield one chunk
       interleaved: num_chunks = stop_chunk - chunk_offset; ONE chunk object with
                    number_values * num_chunks rows (np.zeros of a negative size: ValueError) *)
  Definition seg_fetch (sv : segv) (chunk_offset num_chunks : Z) : res (list (list V)) :=
    let stop_chunk := num_chunks + chunk_offset in
    if sv_interleaved sv then
      let num_chunks := stop_chunk - chunk_offset in
      if sv_chunk sv * num_chunks <? 0 then Err EValue
      else do cs <- mapM (chunk_at sv) (zrange chunk_offset stop_chunk); Ok [concat cs]
    else mapM (chunk_at sv) (zrange chunk_offset stop_chunk).

  (* def _trim_channel_chunk(chunk, skip=0, trim=0):
         if skip == 0 and trim == 0: return chunk
         data = chunk.data[skip:len(chunk.data) - trim]      <- Python slice: a negative
                                                                 stop counts from the end *)
  Definition trim_channel_chunk (chunk : list V) (skip trim : Z) : list V :=
    if (skip =? 0) && (trim =? 0) then chunk
    else py_slice chunk skip (zlen chunk - trim).

  (* for i, chunk in enumerate(segment.read_raw_data_for_channel(...)):
         skip = remaining_values_to_skip if i == 0 else 0
         values_read += len(chunk) - skip
         trim = 0 if values_read < length else values_read - length
         yield _trim_channel_chunk(chunk, skip, trim) *)
  Fixpoint emit_chunks (chunks : list (list V)) (first : bool)
           (remaining_values_to_skip values_read length : Z) : list (list V) * Z :=
    match chunks with
    | [] => ([], values_read)
    | chunk :: r =>
      let skip := if first then remaining_values_to_skip else 0 in
      let values_read := values_read + (zlen chunk - skip) in
      let trim := if values_read <? length then 0 else values_read - length in
      let '(outs, vr) := emit_chunks r false remaining_values_to_skip values_read length in
      (trim_channel_chunk chunk skip trim :: outs, vr)
    end.

  (* The chunk arithmetic of one loop iteration of read_raw_data_for_channel
     (everything between `if chunk_size == 0: continue` and the inner for):

       chunk_offset = 0; num_chunks = segment.num_chunks
       segment_start_index = (0 if segment_index == first_segment
                              else segment_offsets[segment_index - first_segment - 1])
       remaining_values_to_skip = 0
       if segment_index == start_segment:
           num_values_to_skip = offset - segment_start_index
           chunk_offset = num_values_to_skip // chunk_size
           remaining_values_to_skip = num_values_to_skip % chunk_size
           num_chunks -= chunk_offset
       if segment_index == end_segment:
           segment_end_index = segment_offsets[segment_index - first_segment]
           num_values_to_trim = segment_end_index - end_index
           final_chunk_size = (segment_end_index - segment_start_index) % chunk_size     [as is]
           final_chunk_size = chunk_size if final_chunk_size == 0 else final_chunk_size  [as is]
           final_chunk_size = chunk_size if override is None else override.get(path, 0)  [repaired]
           if num_values_to_trim >= final_chunk_size:
               num_chunks -= 1
               num_values_to_trim -= final_chunk_size
           num_chunks -= num_values_to_trim // chunk_size

     Result: (chunk_offset, num_chunks, remaining_values_to_skip). *)
  Definition seg_chunk_range (fix_final : bool) (first_segment : Z) (segment_offsets : list Z)
             (start_segment end_segment offset end_index segment_index : Z) (sv : segv)
    : res (Z * Z * Z) :=
    let chunk_offset := 0 in
    let num_chunks := sv_nchunks sv in
    let chunk_size := sv_chunk sv in
    do segment_start_index <-
       (if segment_index =? first_segment then Ok 0
        else py_index segment_offsets (segment_index - first_segment - 1));
    let remaining_values_to_skip := 0 in
    let '(chunk_offset, remaining_values_to_skip, num_chunks) :=
      if segment_index =? start_segment then
        let num_values_to_skip := offset - segment_start_index in
        let chunk_offset := num_values_to_skip / chunk_size in
        let remaining_values_to_skip := num_values_to_skip mod chunk_size in
        (chunk_offset, remaining_values_to_skip, num_chunks - chunk_offset)
      else (chunk_offset, remaining_values_to_skip, num_chunks) in
    do num_chunks <-
       (if segment_index =? end_segment then
          do segment_end_index <- py_index segment_offsets (segment_index - first_segment);
          let num_values_to_trim := segment_end_index - end_index in
          let final_chunk_size :=
            if fix_final then
              match sv_final sv with None => chunk_size | Some f => f end
            else
              let m := (segment_end_index - segment_start_index) mod chunk_size in
              if m =? 0 then chunk_size else m in
          let '(num_chunks, num_values_to_trim) :=
            if num_values_to_trim >=? final_chunk_size
            then (num_chunks - 1, num_values_to_trim - final_chunk_size)
            else (num_chunks, num_values_to_trim) in
          Ok (num_chunks - num_values_to_trim / chunk_size)
        else Ok num_chunks);
    Ok (chunk_offset, num_chunks, remaining_values_to_skip).

  (* The loop
       segment_index = start_segment; values_read = 0
       for segment in self._segments[start_segment:end_segment + 1]:
           chunk_size = 0 if (segment_obj is None or not segment_obj.has_data) else number_values
           if chunk_size == 0:
               continue                 <- as is: segment_index is NOT incremented (D3)
           ... (seg_chunk_range) ...
           for i, chunk in enumerate(segment.read_raw_data_for_channel(file, path, chunk_offset, num_chunks)): ...
           segment_index += 1
     [pos] is the true position of the segment in the file (what the for loop
     iterates over); [segment_index] is the variable of the code.  Besides the
     yielded chunks the loop returns the log of (segment position, chunk index)
     pairs it fetched. *)
  Fixpoint lz_loop (fix_index fix_final : bool) (first_segment : Z) (segment_offsets : list Z)
           (start_segment end_segment offset length end_index : Z)
           (segments : list segv) (pos segment_index values_read : Z)
    : res (list (list V) * list (Z * Z)) :=
    match segments with
    | [] => Ok ([], [])
    | sv :: rest =>
      let chunk_size := sv_chunk sv in
      if chunk_size =? 0 then
        lz_loop fix_index fix_final first_segment segment_offsets start_segment end_segment
                offset length end_index rest (pos + 1)
                (if fix_index then segment_index + 1 else segment_index) values_read
      else
        do '(chunk_offset, num_chunks, skip) <-
           seg_chunk_range fix_final first_segment segment_offsets start_segment end_segment
                           offset end_index segment_index sv;
        do chunks <- seg_fetch sv chunk_offset num_chunks;
        let '(outs, values_read) := emit_chunks chunks true skip values_read length in
        do '(outs', log') <-
           lz_loop fix_index fix_final first_segment segment_offsets start_segment end_segment
                   offset length end_index rest (pos + 1) (segment_index + 1) values_read;
        Ok (outs ++ outs',
            map (fun c => (pos, c)) (zrange chunk_offset (num_chunks + chunk_offset)) ++ log')
    end.

  (* TdmsReader.read_raw_data_for_channel(channel_path, offset, length), the generator:
       max_length_from_offset = object_metadata.num_values - offset
       length = max_length_from_offset if length is None else min(length, max_length_from_offset)
       end_index = offset + length
       start_segment = first_segment + np.searchsorted(segment_offsets, offset, side='right')
       end_segment = first_segment + np.searchsorted(segment_offsets, end_index, side='left') *)
  Definition lz_gen (fix_index fix_final : bool) (segs : list segv) (offset : Z) (length : option Z)
    : res (list (list V) * list (Z * Z)) :=
    let '(first_segment, segment_offsets) := build_index segs in
    let max_length_from_offset := total_values segs - offset in
    let length := match length with
                  | None => max_length_from_offset
                  | Some l => Z.min l max_length_from_offset
                  end in
    let end_index := offset + length in
    let start_segment := first_segment + searchsorted_right segment_offsets offset in
    let end_segment := first_segment + searchsorted_left segment_offsets end_index in
    lz_loop fix_index fix_final first_segment segment_offsets start_segment end_segment
            offset length end_index
            (py_slice segs start_segment (end_segment + 1)) start_segment start_segment 0.

  (* Receivers (channel_data.py).
     NumpyDataReceiver / TimestampDataReceiver: preallocated np.zeros(num_values);
        self.data[start_pos:end_pos] = new_data
     the target slice is clipped to the array; a size mismatch is a ValueError
     except that a single value broadcasts into an empty target.
     ListDataReceiver (strings): self._data.extend(data). *)
  Inductive recv_kind := RNumpy | RList.

  Fixpoint recv_numpy (data : list V) (pos : Z) (chunks : list (list V)) : res (list V) :=
    match chunks with
    | [] => Ok data
    | c :: r =>
      let cap := zlen data in
      let start_pos := pos in
      let end_pos := pos + zlen c in
      let target := Z.min end_pos cap - Z.min start_pos cap in
      if target =? zlen c then
        recv_numpy (zfirstn start_pos data ++ c ++ zskipn end_pos data) end_pos r
      else if zlen c =? 1 then recv_numpy data end_pos r
      else Err EValue
    end.

  (* TdmsChannel._read_channel_data(offset, length):
       if offset < 0: raise ValueError;  if length is not None and length < 0: raise ValueError
       num_values = len(self) - offset  |  min(length, len(self) - offset);  max(0, num_values)
       channel_data = get_data_receiver(self, num_values, ...)
       for chunk in self._reader.read_raw_data_for_channel(self.path, offset, length):
           channel_data.append_data(chunk.data) *)
  Definition read_channel_data (fix_index fix_final : bool) (rk : recv_kind)
             (segs : list segv) (offset : Z) (length : option Z) : res (list V) :=
    if offset <? 0 then Err EValue
    else if (match length with Some l => l <? 0 | None => false end) then Err EValue
    else
      let len_self := total_values segs in
      let num_values := match length with
                        | None => len_self - offset
                        | Some l => Z.min l (len_self - offset)
                        end in
      let num_values := Z.max 0 num_values in
      do '(chunks, _) <- lz_gen fix_index fix_final segs offset length;
      match rk with
      | RNumpy => recv_numpy (repeat zero (Z.to_nat num_values)) 0 chunks
      | RList => Ok (concat chunks)
      end.

  Definition lz_read := read_channel_data true true.          (* repaired *)
  Definition lz_read_asis := read_channel_data false false.   (* today's /repo *)

  (* the (segment, chunk) pairs fetched to serve read_data(offset, length) *)
  Definition lz_plan (segs : list segv) (offset : Z) (length : option Z) : res (list (Z * Z)) :=
    if offset <? 0 then Err EValue
    else if (match length with Some l => l <? 0 | None => false end) then Err EValue
    else do '(_, log) <- lz_gen true true segs offset length; Ok log.

  Definition lz_plan_asis (segs : list segv) (offset : Z) (length : option Z) : res (list (Z * Z)) :=
    if offset <? 0 then Err EValue
    else if (match length with Some l => l <? 0 | None => false end) then Err EValue
    else do '(_, log) <- lz_gen false false segs offset length; Ok log.

  (* TdmsReader.read_channel_chunk_for_index(channel_path, index):
       segment_index = first_segment + np.searchsorted(segment_offsets, index, side='right')
       segment = self._segments[segment_index]
       chunk_size = 0 if segment_obj is None else segment_obj.number_values
       segment_start_index = (0 if segment_index == first_segment
                              else segment_offsets[segment_index - first_segment - 1])
       index_in_segment = index - segment_start_index
       chunk_index = index_in_segment // chunk_size                (ZeroDivisionError)
       chunk_data = next(segment.read_raw_data_for_channel(self._file, channel_path, chunk_index, 1))
       chunk_offset = segment_start_index + chunk_index * chunk_size
       return chunk_data, chunk_offset
     Result: (chunk, chunk_offset, (segment position, chunk index) fetched). *)
  Definition read_chunk_for_index (segs : list segv) (index : Z) : res (list V * Z * (Z * Z)) :=
    let '(first_segment, segment_offsets) := build_index segs in
    let segment_index := first_segment + searchsorted_right segment_offsets index in
    do segment <- py_index segs segment_index;
    let chunk_size := sv_chunk segment in
    do segment_start_index <-
       (if segment_index =? first_segment then Ok 0
        else py_index segment_offsets (segment_index - first_segment - 1));
    let index_in_segment := index - segment_start_index in
    if chunk_size =? 0 then Err EOther
    else
      let chunk_index := index_in_segment / chunk_size in
      do chunks <- seg_fetch segment chunk_index 1;
      match chunks with
      | [] => Err EOther                          (* StopIteration from next() *)
      | chunk_data :: _ =>
        let chunk_offset := segment_start_index + chunk_index * chunk_size in
        Ok (chunk_data, chunk_offset,
            (if segment_index <? 0 then segment_index + zlen segs else segment_index, chunk_index))
      end.

  (* TdmsChannel._read_at_index(index) with the one-chunk cache.
       (bounds check: translated, Gen.PySlice_gen.read_at_index_check)
       if self._cached_chunk is not None:
           bounds = self._cached_chunk_bounds
           if bounds[0] <= index < bounds[1]:
               return self._cached_chunk[index - bounds[0]]
       chunk, chunk_offset = self._read_channel_data_chunk_for_index(index)
       self._cached_chunk = scaled_chunk
       self._cached_chunk_bounds = (chunk_offset, chunk_offset + len(scaled_chunk))
       return scaled_chunk[index - chunk_offset]
     State: the cache.  Result: (value, new cache, chunks fetched). *)
  Definition cache := option (list V * (Z * Z)).

  Definition read_at_index (segs : list segv) (st : cache) (index : Z)
    : res (V * cache * list (Z * Z)) :=
    do index <- read_at_index_check (total_values segs) index;
    let hit :=
      match st with
      | Some (cached_chunk, (b0, b1)) =>
        if (b0 <=? index) && (index <? b1) then Some (cached_chunk, b0) else None
      | None => None
      end in
    match hit with
    | Some (cached_chunk, b0) =>
      do v <- py_index cached_chunk (index - b0); Ok (v, st, [])
    | None =>
      do '(chunk, chunk_offset, fetched) <- read_chunk_for_index segs index;
      do v <- py_index chunk (index - chunk_offset);
      Ok (v, Some (chunk, (chunk_offset, chunk_offset + zlen chunk)), [fetched])
    end.

  (* channel_data.slice_raw_data(raw_data, offset, length) -- eagerly read files:
       if offset == 0 and length is None: return raw_data
       end = None if length is None else offset + length
       data = raw_data.data[offset:end] *)
  Definition eager_read (full : list V) (offset : Z) (length : option Z) : list V :=
    match length with
    | None => if offset =? 0 then full else py_slice_from full offset
    | Some l => py_slice full offset (offset + l)
    end.

  (* ---- the data a file holds for the channel, and well-formedness ------- *)

  Definition seg_vals (sv : segv) : list V := concat (sv_vals sv).
  Definition full (segs : list segv) : list V := concat (map seg_vals segs).

  (* every chunk but the last holds [cs] values, the last one [fl] *)
  Fixpoint chunks_ok (cs fl : Z) (vals : list (list V)) : bool :=
    match vals with
    | [] => true
    | [c] => zlen c =? fl
    | c :: r => (zlen c =? cs) && chunks_ok cs fl r
    end.

  (* the chunk list has the lengths the metadata says *)
  Definition wf_seg (sv : segv) : bool :=
    (0 <=? sv_chunk sv) && (0 <=? sv_nchunks sv) && (zlen (sv_vals sv) =? sv_nchunks sv) &&
    match sv_final sv with
    | None => chunks_ok (sv_chunk sv) (sv_chunk sv) (sv_vals sv)
    | Some f => (1 <=? sv_nchunks sv) && (0 <=? f) && (f <=? sv_chunk sv) &&
                chunks_ok (sv_chunk sv) f (sv_vals sv)
    end.

  Definition wf (segs : list segv) : bool := forallb wf_seg segs.

  (* value range [chunk_start, chunk_end) of chunk c of a segment whose first
     value has index seg_start *)
  Definition chunk_start (seg_start : Z) (sv : segv) (c : Z) : Z := seg_start + c * sv_chunk sv.
  Definition chunk_end (seg_start : Z) (sv : segv) (c : Z) : Z :=
    seg_start + Z.min ((c + 1) * sv_chunk sv) (number_of_segment_values sv).

End LazyRead.

Arguments mk_segv {V}.
Arguments sv_chunk {V}. Arguments sv_nchunks {V}. Arguments sv_final {V}.
Arguments sv_interleaved {V}. Arguments sv_vals {V}.
