(* The reader's segment state machine: nptdms/tdms_segment.py
   (TdmsSegment.read_segment_objects, _update_existing_object,
   _reuse_previous_object, _reuse_previous_segment_metadata, _new_segment_object,
   TdmsSegmentObject.read_raw_data_index (semantic part), SegmentIndexCache,
   _calculate_chunks, _compute_final_chunk_lengths, _get_chunk_size,
   _have_daqmx_objects), nptdms/daqmx.py (DaqmxSegmentObject.read_raw_data_index
   semantic part, get_buffer_dimensions, get_daqmx_chunk_size,
   get_daqmx_final_chunk_lengths) and nptdms/reader.py (_read_lead_in position
   arithmetic, _update_object_metadata, _update_object_properties,
   _number_of_segment_values, _update_object_data_type,
   _update_object_scaler_data_types).

   Mechanisms are kept as in the code: the index map [existing_objects] is built
   once per segment from the copied list and never updated inside the loop;
   the global map [_prev_segment_objects] is updated only after a segment;
   dictionaries are association lists with replace-in-place update. *)

From Coq Require Import List ZArith Bool.
From Coq Require Import Init.Byte.
Import ListNotations.
From NpTdms Require Import Base.Bytes Base.Res Model.Tokens.
Local Open Scope Z_scope.

(* ---- byte-string keys and ordered dictionaries --------------------------- *)

Fixpoint bytes_eqb (a b : bytes) : bool :=
  match a, b with
  | [], [] => true
  | x :: a', y :: b' => Byte.eqb x y && bytes_eqb a' b'
  | _, _ => false
  end.

Section Assoc.
  Context {V : Type}.
  Definition alist := list (bytes * V).

  Fixpoint alookup (k : bytes) (l : alist) : option V :=
    match l with
    | [] => None
    | (k', v) :: r => if bytes_eqb k k' then Some v else alookup k r
    end.

  (* d[k] = v on an insertion-ordered dict: replace in place, else append *)
  Fixpoint aset (k : bytes) (v : V) (l : alist) : alist :=
    match l with
    | [] => [(k, v)]
    | (k', v') :: r => if bytes_eqb k k' then (k', v) :: r else (k', v') :: aset k v r
    end.
End Assoc.
Arguments alist V : clear implicits.

(* ---- segment objects ------------------------------------------------------ *)

Record dq := mkDq { dq_kind : Z; dq_scalers : list scaler; dq_widths : list Z }.

Record sobj := mkSobj {
  so_path : bytes;
  so_has_data : bool;
  so_nvals : Z;              (* number_values *)
  so_dsize : Z;              (* data_size *)
  so_dtype : option Z;       (* data_type (enum value); None = never set *)
  so_daqmx : option dq }.    (* Some: a DaqmxSegmentObject with its metadata *)

Definition set_has_data (o : sobj) (b : bool) : sobj :=
  mkSobj (so_path o) b (so_nvals o) (so_dsize o) (so_dtype o) (so_daqmx o).

(* daqmx.DAQMX_TYPES : scaler type code -> TDMS type enum *)
Definition daqmx_type (code : Z) : option Z :=
  if code =? 0 then Some 5 else if code =? 1 then Some 1
  else if code =? 2 then Some 6 else if code =? 3 then Some 2
  else if code =? 4 then Some 7 else if code =? 5 then Some 3
  else if code =? 6 then Some 8 else if code =? 7 then Some 4
  else if code =? 8 then Some 9 else if code =? 9 then Some 10
  else if code =? 0xFFFFFFFF then Some T_TIME else None.

(* TdmsSegmentObject.read_raw_data_index / DaqmxSegmentObject.read_raw_data_index:
   the object a full index header defines (has_data = True). *)
Definition new_object (path : bytes) (i : idx) : res sobj :=
  match i with
  | INoData | IMatchPrev => Ok (mkSobj path false 0 0 None None)
  | IFull _ dt dim n total =>
    match tds_size dt with
    | None => Err EKey
    | Some sz =>
      if (match sz with None => true | Some _ => false end) && negb (dt =? T_STRING)
      then Err EValue                              (* unsupported data type *)
      else if negb (dim =? 1) then Err EValue      (* dimension is not 1 *)
      else
        let dsize := match sz, total with
                     | Some s, _ => n * s
                     | None, Some t => t
                     | None, None => 0
                     end in
        Ok (mkSobj path true n dsize (Some dt) None)
    end
  | IDaqmx kind dt dim n scalers widths =>
    match tds_size dt with
    | None => Err EKey
    | Some _ =>
      if negb (dim =? 1) then Err EValue
      else if negb (forallb (fun s => match daqmx_type (sc_type s) with Some _ => true | None => false end)
                            scalers)
      then Err EKey
      else if negb (dt =? T_DAQMX) &&
              negb (match scalers with
                    | [s] => match daqmx_type (sc_type s) with Some t => t =? dt | None => false end
                    | _ => false
                    end)
      then Err EValue
      else Ok (mkSobj path true n 0 (Some dt) (Some (mkDq kind scalers widths)))
    end
  end.

(* ---- read_segment_objects ------------------------------------------------ *)

Fixpoint index_map_from (i : nat) (l : list sobj) : alist (nat * sobj) :=
  match l with
  | [] => []
  | o :: r => aset (so_path o) (i, o) (index_map_from (S i) r)
  end.
(* {o.path: (i, o) for (i, o) in enumerate(l)} — a later duplicate wins; we
   build from the right with replace-in-place so the LAST occurrence is found:
   aset on a tail-first construction would keep the first; do it explicitly. *)
Fixpoint existing_lookup (k : bytes) (i : nat) (l : list sobj) (acc : option (nat * sobj))
  : option (nat * sobj) :=
  match l with
  | [] => acc
  | o :: r => existing_lookup k (S i) r (if bytes_eqb k (so_path o) then Some (i, o) else acc)
  end.

Fixpoint replace_nth {A} (n : nat) (x : A) (l : list A) : list A :=
  match l, n with
  | [], _ => []
  | _ :: r, O => x :: r
  | y :: r, S k => y :: replace_nth k x r
  end.

(* _update_existing_object: the replacement for position [i] *)
Definition update_existing (o : sobj) (i : idx) : res sobj :=
  match i with
  | INoData => Ok (if so_has_data o then set_has_data o false else o)
  | IMatchPrev => Ok (if so_has_data o then o else set_has_data o true)
  | _ => new_object (so_path o) i
  end.

(* _reuse_previous_object: the object appended *)
Definition reuse_previous (po : sobj) (i : idx) : res sobj :=
  match i with
  | INoData => Ok (if so_has_data po then set_has_data po false else po)
  | IMatchPrev => Ok (if so_has_data po then po else set_has_data po true)
  | _ => new_object (so_path po) i
  end.

(* one iteration of the loop over the objects listed in the metadata.
   [base] is the list copied from the previous segment (None when a new list is
   started); the index map over it is fixed for the whole loop. *)
Definition step_entry (base : option (list sobj)) (prev_objs : alist sobj)
           (ordered : list sobj) (x : entry) : res (list sobj) :=
  let path := e_path x in
  match (match base with Some b => existing_lookup path 0 b None | None => None end) with
  | Some (i, o) =>
    do o' <- update_existing o (e_idx x); Ok (replace_nth i o' ordered)
  | None =>
    match alookup path prev_objs with
    | Some po => do o' <- reuse_previous po (e_idx x); Ok (ordered ++ [o'])
    | None =>
      match e_idx x with
      | IMatchPrev => Err EValue       (* reuse previous structure of an unseen object *)
      | i => do o' <- new_object path i; Ok (ordered ++ [o'])
      end
    end
  end.

Fixpoint fold_entries (base : option (list sobj)) (prev_objs : alist sobj)
         (ordered : list sobj) (es : list entry) : res (list sobj) :=
  match es with
  | [] => Ok ordered
  | x :: r => do o' <- step_entry base prev_objs ordered x; fold_entries base prev_objs o' r
  end.

(* properties = {}; properties[object_path] = object_properties (only when the
   object lists at least one property) *)
Fixpoint collect_props (es : list entry) (acc : alist (list prop)) : alist (list prop) :=
  match es with
  | [] => acc
  | x :: r => collect_props r (match e_props x with [] => acc | ps => aset (e_path x) ps acc end)
  end.

(* metadata = None: the kTocMetaData flag is not set *)
Definition read_segment_objects (toc : Z) (metadata : option (list entry))
           (prev_objs : alist sobj) (prev_seg : option (list sobj))
  : res (list sobj * alist (list prop)) :=
  match metadata with
  | None =>
    match prev_seg with
    | None => Err EValue      (* kTocMetaData not set but there is no previous segment *)
    | Some l => Ok (l, [])
    end
  | Some es =>
    let base := if toc_has toc TOC_NEWLIST then None else prev_seg in
    let ordered0 := match base with Some l => l | None => [] end in
    do ordered <- fold_entries base prev_objs ordered0 es;
    Ok (ordered, collect_props es [])
  end.

(* ---- SegmentIndexCache ----------------------------------------------------- *)

Fixpoint paths_eqb (a b : list bytes) : bool :=
  match a, b with
  | [], [] => true
  | x :: a', y :: b' => bytes_eqb x y && paths_eqb a' b'
  | _, _ => false
  end.

(* dict((o.path, i) for (i, o) in enumerate(object_list)) *)
Fixpoint fresh_index_from (i : nat) (paths : list bytes) (acc : alist nat) : alist nat :=
  match paths with
  | [] => acc
  | p :: r => fresh_index_from (S i) r (aset p i acc)
  end.
Definition fresh_index (paths : list bytes) : alist nat := fresh_index_from 0 paths [].

Definition index_cache := list (list bytes * alist nat).

(* get_index: ObjectListKey equality is order-sensitive equality of the path lists *)
Fixpoint cache_find (k : list bytes) (c : index_cache) : option (alist nat) :=
  match c with
  | [] => None
  | (k', v) :: r => if paths_eqb k k' then Some v else cache_find k r
  end.

Definition get_index (c : index_cache) (objs : list sobj) : alist nat * index_cache :=
  let k := map so_path objs in
  match cache_find k c with
  | Some v => (v, c)
  | None => let v := fresh_index k in (v, c ++ [(k, v)])
  end.

(* ---- chunk arithmetic ------------------------------------------------------ *)

Definition data_objs (objs : list sobj) : list sobj := filter so_has_data objs.

(* _have_daqmx_objects *)
Definition have_daqmx (objs : list sobj) : res bool :=
  let d := data_objs objs in
  let nd := length (filter (fun o => match so_daqmx o with Some _ => true | None => false end) d) in
  if Nat.eqb nd 0 then Ok false
  else if Nat.eqb nd (length d) then Ok true
  else Err EOther.            (* Cannot read mixed DAQmx and non-DAQmx data *)

Fixpoint zlist_eqb (a b : list Z) : bool :=
  match a, b with
  | [], [] => true
  | x :: a', y :: b' => (x =? y) && zlist_eqb a' b'
  | _, _ => false
  end.

(* get_buffer_dimensions: list of (number of values, width) per raw buffer *)
Fixpoint bump_dims (dims : list (Z * Z)) (nvals : Z) (scalers : list scaler) : res (list (Z * Z)) :=
  match scalers with
  | [] => Ok dims
  | s :: r =>
    let bi := sc_buf s in
    if (bi <? 0) || (Z.of_nat (length dims) <=? bi) then Err EIndex
    else
      let '(cur, w) := nth (Z.to_nat bi) dims (0, 0) in
      bump_dims (replace_nth (Z.to_nat bi) (Z.max cur nvals, w) dims) nvals r
  end.

Fixpoint buffer_dims_from (objs : list sobj) (dims : option (list (Z * Z))) (widths : list Z)
  : res (list (Z * Z)) :=
  match objs with
  | [] => Ok (match dims with Some d => d | None => [] end)
  | o :: r =>
    if negb (so_has_data o) then buffer_dims_from r dims widths
    else match so_daqmx o with
         | None => Err EOther          (* AttributeError: not a DAQmx object *)
         | Some q =>
           match dims with
           | None =>
             do d <- bump_dims (map (fun w => (0, w)) (dq_widths q)) (so_nvals o) (dq_scalers q);
             buffer_dims_from r (Some d) (dq_widths q)
           | Some d0 =>
             if negb (zlist_eqb (dq_widths q) widths) then Err EValue
             else do d <- bump_dims d0 (so_nvals o) (dq_scalers q);
                  buffer_dims_from r (Some d) widths
           end
         end
  end.

Definition buffer_dims (objs : list sobj) : res (list (Z * Z)) := buffer_dims_from objs None [].

Definition zsum (l : list Z) : Z := fold_right Z.add 0 l.

(* _get_chunk_size *)
Definition chunk_size (objs : list sobj) : res Z :=
  do dq <- have_daqmx objs;
  if dq then do dims <- buffer_dims objs; Ok (zsum (map (fun d => fst d * snd d) dims))
  else Ok (zsum (map so_dsize (data_objs objs))).

Definition sized (o : sobj) : option Z :=
  match so_dtype o with
  | Some dt => match tds_size dt with Some (Some s) => Some s | _ => None end
  | None => None
  end.

(* contiguous truncated data: whole leading channels, then a partial one *)
Fixpoint contig_final (objs : list sobj) (rem : Z) (acc : alist Z) : alist Z :=
  match objs with
  | [] => acc
  | o :: r =>
    if negb (so_has_data o) then contig_final r rem acc
    else
      let sz := match sized o with Some s => s | None => 1 end in
      let dsz := so_nvals o * sz in
      if dsz <? rem then contig_final r (rem - dsz) (aset (so_path o) (so_nvals o) acc)
      else aset (so_path o) (rem / sz) acc
  end.

(* get_daqmx_final_chunk_lengths *)
Fixpoint daqmx_buffer_lengths (dims : list (Z * Z)) (rem : Z) : list Z :=
  match dims with
  | [] => []
  | (n, w) :: r =>
    if n * w <? rem then n :: daqmx_buffer_lengths r (rem - n * w)
    else (rem / w) :: map (fun _ => 0) r
  end.

Fixpoint dedup_z (l : list Z) : list Z :=
  match l with
  | [] => []
  | x :: r => if existsb (Z.eqb x) r then dedup_z r else x :: dedup_z r
  end.

Definition daqmx_final (objs : list sobj) (rem : Z) : res (alist Z) :=
  do dims <- buffer_dims objs;
  let lens := daqmx_buffer_lengths dims rem in
  Ok (fold_left
        (fun acc o =>
           if negb (so_has_data o) then acc
           else match so_daqmx o with
                | None => acc
                | Some q =>
                  match dedup_z (map sc_buf (dq_scalers q)) with
                  | [b] => aset (so_path o) (nth (Z.to_nat b) lens 0) acc
                  | _ => acc
                  end
                end) objs []).

(* _compute_final_chunk_lengths *)
Definition final_chunk_lengths (toc : Z) (incomplete : bool) (objs : list sobj)
           (csize rem : Z) : res (alist Z) :=
  do dq <- have_daqmx objs;
  if dq then daqmx_final objs rem
  else if existsb (fun o => so_has_data o && match sized o with None => true | Some _ => false end) objs
  then Ok []
  else if toc_has toc TOC_INTERLEAVED || negb incomplete then
    Ok (fold_left (fun acc o => if so_has_data o then aset (so_path o) (so_nvals o * rem / csize) acc else acc)
                  objs [])
  else Ok (contig_final objs rem []).

(* _calculate_chunks: (num_chunks, final_chunk_lengths_override) *)
Definition calculate_chunks (toc : Z) (incomplete : bool) (objs : list sobj) (total : Z)
  : res (Z * option (alist Z)) :=
  do csize <- chunk_size objs;
  if (csize <? 0) || (total <? 0) then Err EValue
  else if csize =? 0 then
    if negb (total =? 0) then Err EValue else Ok (0, None)
  else
    let rem := total mod csize in
    if rem =? 0 then Ok (total / csize, None)
    else do f <- final_chunk_lengths toc incomplete objs csize rem;
         Ok (1 + total / csize, Some f).

(* ---- segments and per-object metadata -------------------------------------- *)

Record segment := mkSeg {
  sg_pos : Z;                      (* position *)
  sg_toc : Z;
  sg_next : Z;                     (* next_segment_pos (clamped) *)
  sg_data : Z;                     (* data_position *)
  sg_incomplete : bool;
  sg_objs : list sobj;             (* ordered_objects *)
  sg_index : alist nat;            (* object_index (open mode) *)
  sg_nchunks : Z;
  sg_final : option (alist Z) }.   (* final_chunk_lengths_override *)

(* reader._number_of_segment_values *)
Definition seg_values (o : sobj) (nchunks : Z) (final : option (alist Z)) : Z :=
  if negb (so_has_data o) then 0
  else match final with
       | None => so_nvals o * nchunks
       | Some f => so_nvals o * (nchunks - 1) +
                   match alookup (so_path o) f with Some v => v | None => 0 end
       end.

Record ometa := mkOmeta {
  om_props : alist prop;                 (* name -> property, insertion ordered *)
  om_dtype : option Z;
  om_scalers : option (list (Z * Z));    (* scale_id -> TDMS type, normalised *)
  om_len : Z }.

Definition ometa0 := mkOmeta [] None None 0.

Definition oz_eqb (a b : option Z) : bool :=
  match a, b with
  | None, None => true
  | Some x, Some y => x =? y
  | _, _ => false
  end.

(* dict(scale_id -> data_type): last binding wins; compared as a set of pairs *)
Fixpoint zassoc_set (k v : Z) (l : list (Z * Z)) : list (Z * Z) :=
  match l with
  | [] => [(k, v)]
  | (k', v') :: r => if k =? k' then (k', v) :: r else (k', v') :: zassoc_set k v r
  end.
Definition scaler_types (q : dq) : list (Z * Z) :=
  fold_left (fun acc s => zassoc_set (sc_id s)
                                     (match daqmx_type (sc_type s) with Some t => t | None => -1 end) acc)
            (dq_scalers q) [].
Definition zassoc_sub (a b : list (Z * Z)) : bool :=
  forallb (fun kv => existsb (fun kv' => (fst kv =? fst kv') && (snd kv =? snd kv')) b) a.
Definition scaler_types_eqb (a b : list (Z * Z)) : bool := zassoc_sub a b && zassoc_sub b a.

(* _update_object_metadata for one segment object *)
Definition update_ometa (m : ometa) (o : sobj) (nchunks : Z) (final : option (alist Z)) : res ometa :=
  let len := om_len m + seg_values o nchunks final in
  if (match om_dtype m with Some _ => true | None => false end) && negb (oz_eqb (om_dtype m) (so_dtype o))
  then Err EValue          (* data type differs from previous segments *)
  else
    match so_daqmx o with
    | None => Ok (mkOmeta (om_props m) (so_dtype o) (om_scalers m) len)
    | Some q =>
      let st := scaler_types q in
      match om_scalers m with
      | Some st0 => if scaler_types_eqb st0 st
                    then Ok (mkOmeta (om_props m) (so_dtype o) (Some st) len)
                    else Err EValue
      | None => Ok (mkOmeta (om_props m) (so_dtype o) (Some st) len)
      end
    end.

Definition get_ometa (k : bytes) (om : alist ometa) : ometa :=
  match alookup k om with Some m => m | None => ometa0 end.

Fixpoint update_object_metadata (objs : list sobj) (nchunks : Z) (final : option (alist Z))
         (prev_objs : alist sobj) (om : alist ometa) : res (alist sobj * alist ometa) :=
  match objs with
  | [] => Ok (prev_objs, om)
  | o :: r =>
    do m <- update_ometa (get_ometa (so_path o) om) o nchunks final;
    update_object_metadata r nchunks final (aset (so_path o) o prev_objs) (aset (so_path o) m om)
  end.

Definition set_props (m : ometa) (ps : list prop) : ometa :=
  mkOmeta (fold_left (fun acc p => aset (p_name p) p acc) ps (om_props m))
          (om_dtype m) (om_scalers m) (om_len m).

Definition update_object_properties (props : alist (list prop)) (om : alist ometa) : alist ometa :=
  fold_left (fun acc kv => aset (fst kv) (set_props (get_ometa (fst kv) acc) (snd kv)) acc) props om.

(* ---- reader state over the whole file -------------------------------------- *)

Record rstate := mkRstate {
  rs_segments : list segment;
  rs_prev_objs : alist sobj;
  rs_om : alist ometa;
  rs_cache : index_cache;
  rs_version : option Z }.

Definition rstate0 := mkRstate [] [] [] [] None.

Inductive lead_result :=
| LeadEof                                    (* EOFError: stop, keep what was read *)
| LeadOk (data_pos next_pos : Z) (incomplete : bool).

(* reader._read_lead_in, position arithmetic.  [file_size] is None when only an
   index file is available. *)
Definition lead_positions (seg_pos : Z) (l : leadin) (file_size : option Z) : res lead_result :=
  let data_pos := seg_pos + 28 + l_raw l in
  if l_next l =? 0xFFFFFFFFFFFFFFFF then
    match file_size with
    | None => Err EType                      (* None < int *)
    | Some sz => if sz <? data_pos then Ok LeadEof else Ok (LeadOk data_pos sz true)
    end
  else
    let np := seg_pos + l_next l + 28 in
    match file_size with
    | Some sz =>
      if sz <? np then (if sz <? data_pos then Ok LeadEof else Ok (LeadOk data_pos sz true))
      else Ok (LeadOk data_pos np false)
    | None => Ok (LeadOk data_pos np false)
    end.
