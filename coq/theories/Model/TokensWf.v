(* Boolean well-formedness of the segment syntax of Model/Tokens.v: exactly the
   side conditions under which the consuming parser inverts the canonical
   serialiser (Proofs/TokensRoundtrip.v).  Executable, so generators and
   theorems can both use it.

   - every field value fits the width it is stored in;
   - a property's value bytes have the size of its type (strings: any length
     that fits a u32) and the type is one the reader can read as a property
     (String, TimeStamp, or a struct type);
   - a full raw data index carries a total size iff its data type is String,
     and its length field is none of the four header values the reader
     dispatches on (0, 0xFFFFFFFF, 0x1269, 0x126A);
   - DAQmx indices: header is one of the two scaler kinds, scaler fields are
     u32 (the digital-line format is one byte), list lengths fit a u32. *)

From Coq Require Import List ZArith Bool.
From Coq Require Import Init.Byte.
Import ListNotations.
From NpTdms Require Import Base.Bytes Base.Res Model.Tokens.
Local Open Scope Z_scope.

Definition is_u8 (z : Z) : bool := (0 <=? z) && (z <? 256).
Definition is_u32 (z : Z) : bool := (0 <=? z) && (z <? 4294967296).
Definition is_u64 (z : Z) : bool := (0 <=? z) && (z <? 18446744073709551616).
Definition is_i32 (z : Z) : bool := (-2147483648 <=? z) && (z <? 2147483648).

(* property types with a working [read]: String.read, TimeStamp.read, StructType.read *)
Definition readable_prop_type (ty : Z) : bool :=
  (ty =? T_STRING) || (ty =? T_TIME) || is_struct_type ty.

(* canonical value bytes of a property have the size of the type *)
Definition prop_val_ok (ty : Z) (v : bytes) : bool :=
  if ty =? T_STRING then is_u32 (blen v)
  else match tds_size ty with
       | Some (Some n) => blen v =? n
       | _ => false
       end.

Definition wf_prop (p : prop) : bool :=
  is_u32 (blen (p_name p)) && readable_prop_type (p_type p) && prop_val_ok (p_type p) (p_val p).

Definition wf_scaler (kind : Z) (s : scaler) : bool :=
  is_u32 (sc_type s) && is_u32 (sc_buf s) && is_u32 (sc_off s) &&
  (if kind =? DIGITAL_LINE_SCALER then is_u8 (sc_fmt s) else is_u32 (sc_fmt s)) &&
  is_u32 (sc_id s).

Definition len_u32 {A} (l : list A) : bool := is_u32 (Z.of_nat (length l)).

Definition wf_idx (i : idx) : bool :=
  match i with
  | INoData => true
  | IMatchPrev => true
  | IFull lf dt dim n total =>
    is_u32 lf &&
    negb (lf =? RAW_DATA_INDEX_NO_DATA) && negb (lf =? RAW_DATA_INDEX_MATCHES_PREVIOUS) &&
    negb (lf =? FORMAT_CHANGING_SCALER) && negb (lf =? DIGITAL_LINE_SCALER) &&
    is_u32 dt && is_u32 dim && is_u64 n &&
    match total with
    | Some t => (dt =? T_STRING) && is_u64 t
    | None => negb (dt =? T_STRING)
    end
  | IDaqmx kind dt dim n scalers widths =>
    ((kind =? FORMAT_CHANGING_SCALER) || (kind =? DIGITAL_LINE_SCALER)) &&
    is_u32 dt && is_u32 dim && is_u64 n &&
    len_u32 scalers && forallb (wf_scaler kind) scalers &&
    len_u32 widths && forallb is_u32 widths
  end.

Definition wf_entry (x : entry) : bool :=
  is_u32 (blen (e_path x)) && wf_idx (e_idx x) &&
  len_u32 (e_props x) && forallb wf_prop (e_props x).

Definition wf_metadata (es : list entry) : bool :=
  len_u32 es && forallb wf_entry es.

Definition wf_leadin (l : leadin) : bool :=
  (blen (l_tag l) =? 4) && is_u32 (l_toc l) && is_i32 (l_version l) &&
  is_u64 (l_next l) && is_u64 (l_raw l).
