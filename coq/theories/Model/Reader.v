(* The reader: nptdms/reader.py (TdmsReader.read_metadata, _read_segment_metadata,
   _read_lead_in, read_raw_data, _verify_segment_start) and nptdms/tdms.py
   (TdmsFile._read_file hierarchy construction, _read_data, file_status),
   nptdms/channel_data.py (get_data_receiver and the receivers' accumulation).

   [rd_metadata] works on the metadata source (the data file, or an index file
   with the data file's size known or not); [rd_eager] streams all chunks of all
   segments into per-channel receivers; [observe] flattens what the public API
   shows into a token list that the harness produces identically from the
   implementation. *)

From Coq Require Import List ZArith Bool.
From Coq Require Import Init.Byte.
Import ListNotations.
From NpTdms Require Import Base.Bytes Base.Res Model.Tokens Model.SegState Model.Layout Model.Path.
Local Open Scope Z_scope.

Definition TAG_DATA : bytes := [x54; x44; x53; x6d].    (* b'TDSm' *)
Definition TAG_INDEX : bytes := [x54; x44; x53; x68].   (* b'TDSh' *)

(* ---- metadata pass ---------------------------------------------------------- *)

Fixpoint md_loop (fuel : nat) (src : bytes) (is_index : bool) (file_size : option Z)
         (want_index : bool) (src_pos seg_pos : Z)
         (prev_seg : option (list sobj)) (prev_index : alist nat) (st : rstate) : res rstate :=
  match fuel with
  | O => Err EFuel
  | S f =>
    let lead_bytes := read_at src_pos 28 src in
    if blen lead_bytes <? 28 then Ok st                              (* EOFError: finished *)
    else
      do l <- parse_leadin lead_bytes;
      if negb (bytes_eqb (l_tag l) (if is_index then TAG_INDEX else TAG_DATA)) then Err EValue
      else
        (* tdms_version is recorded before the positions are examined *)
        let ver := match rs_version st with Some v => Some v | None => Some (l_version l) end in
        let st := mkRstate (rs_segments st) (rs_prev_objs st) (rs_om st) (rs_cache st) ver in
        do lr <- lead_positions seg_pos l file_size;
        match lr with
        | LeadEof => Ok st
        | LeadOk dp np inc =>
          let toc := l_toc l in
          do md <- (if toc_has toc TOC_META
                    then do '(es, _) <- parse_metadata (toc_endian toc) (drop (src_pos + 28) src); Ok (Some es)
                    else Ok None);
          do '(objs, props) <- read_segment_objects toc md (rs_prev_objs st) prev_seg;
          let '(idx, cache) :=
              match md with
              | None => (prev_index, rs_cache st)
              | Some _ => if want_index then get_index (rs_cache st) objs else ([], rs_cache st)
              end in
          do '(nch, fin) <- calculate_chunks toc inc objs (np - dp);
          do '(po, om) <- update_object_metadata objs nch fin (rs_prev_objs st) (rs_om st);
          let om' := update_object_properties props om in
          let seg := mkSeg seg_pos toc np dp inc objs idx nch fin in
          let st' := mkRstate (rs_segments st ++ [seg]) po om' cache ver in
          let src_pos' := if is_index then src_pos + (dp - seg_pos) else np in
          md_loop f src is_index file_size want_index src_pos' np (Some objs) idx st'
        end
  end.

Definition rd_metadata (src : bytes) (is_index : bool) (file_size : option Z) (want_index : bool)
  : res rstate :=
  md_loop (S (S (length src))) src is_index file_size want_index 0 0 None [] rstate0.

(* ---- hierarchy (TdmsFile._read_file) ---------------------------------------- *)

Definition QB : byte := x27.   (* "'" *)
Definition SB : byte := x2f.   (* "/" *)
Definition path_from_string := from_string byte Byte.eqb QB SB.
Definition path_to_string := components_to_path byte Byte.eqb QB SB.

Record channel := mkChan {
  ch_group : bytes;
  ch_name : bytes;
  ch_path : bytes;                 (* canonical path string (ObjectPath.__str__) *)
  ch_dtype : option Z;
  ch_scalers : option (list (Z * Z));
  ch_len : Z;
  ch_props : alist prop }.

Record group := mkGroup {
  g_name : bytes;
  g_props : alist prop;
  g_chans : alist channel }.       (* dict by channel name *)

Record hierarchy := mkHier {
  h_root : alist prop;
  h_groups : alist group }.        (* OrderedDict by group name *)

Fixpoint hier_scan (om : alist ometa) (root : alist prop)
         (gprops : alist (alist prop)) (gchans : alist (list channel))
  : res (alist prop * alist (alist prop) * alist (list channel)) :=
  match om with
  | [] => Ok (root, gprops, gchans)
  | (pstr, m) :: r =>
    match path_from_string pstr with
    | inl _ => Err EValue
    | inr (None, _) => hier_scan r root gprops gchans
    | inr (Some g, None) => hier_scan r root (aset g (om_props m) gprops) gchans
    | inr (Some g, Some c) =>
      let ch := mkChan g c (path_to_string (Some g) (Some c)) (om_dtype m) (om_scalers m)
                       (om_len m) (om_props m) in
      let l := match alookup g gchans with Some l => l | None => [] end in
      hier_scan r root gprops (aset g (l ++ [ch]) gchans)
    end
  end.

Definition chans_dict (l : list channel) : alist channel :=
  fold_left (fun acc c => aset (ch_name c) c acc) l [].

Definition build_hierarchy (om : alist ometa) : res hierarchy :=
  let root := match alookup [SB] om with Some m => om_props m | None => [] end in
  do '(root', gprops, gchans) <- hier_scan om root [] [];
  let declared :=
      map (fun kv => (fst kv, mkGroup (fst kv) (snd kv)
                                      (chans_dict (match alookup (fst kv) gchans with Some l => l | None => [] end))))
          gprops in
  let groups :=
      fold_left (fun acc kv =>
                   match alookup (fst kv) acc with
                   | Some _ => acc
                   | None => acc ++ [(fst kv, mkGroup (fst kv) [] (chans_dict (snd kv)))]
                   end) gchans declared in
  Ok (mkHier root' groups).

Definition all_channels (h : hierarchy) : list channel :=
  flat_map (fun g => map snd (g_chans (snd g))) (h_groups h).

(* ---- eager data pass (TdmsFile._read_data) ---------------------------------- *)

(* get_data_receiver: the receiver's initial content; None = no receiver *)
Definition receiver0 (c : channel) : res (option cdata) :=
  match ch_dtype c with
  | None => Ok None
  | Some dt =>
    if dt =? T_DAQMX then
      match ch_scalers c with
      | None => Err EOther
      | Some st => Ok (Some (CScalers (map (fun kv => (fst kv, [])) st)))
      end
    else Ok (Some (CData []))
  end.

Fixpoint scaler_append (id : Z) (vs : list bytes) (l : list (Z * list bytes))
  : res (list (Z * list bytes)) :=
  match l with
  | [] => Err EKey
  | (k, v) :: r => if k =? id then Ok ((k, v ++ vs) :: r)
                   else do r' <- scaler_append id vs r; Ok ((k, v) :: r')
  end.

Definition receive (rc : option cdata) (d : cdata) : res (option cdata) :=
  match d, rc with
  | CData vs, Some (CData acc) => Ok (Some (CData (acc ++ vs)))
  | CScalers sc, Some (CScalers acc) =>
    do acc' <- fold_left (fun a kv => do a0 <- a; scaler_append (fst kv) (snd kv) a0) sc (Ok acc);
    Ok (Some (CScalers acc'))
  | _, _ => Err EOther
  end.

Definition receive_chunk (recv : alist (option cdata)) (c : chunk) : res (alist (option cdata)) :=
  fold_left (fun a kv =>
               do a0 <- a;
               match alookup (fst kv) a0 with
               | None => Err EKey                     (* self._channel_data[path] *)
               | Some rc => do rc' <- receive rc (snd kv); Ok (aset (fst kv) rc' a0)
               end) c (Ok recv).

(* reader._verify_segment_start + segment.read_raw_data *)
Definition read_segment (data : bytes) (s : segment) : res (list chunk) :=
  if negb (bytes_eqb (read_at (sg_pos s) 4 data) TAG_DATA) then Err EValue
  else do '(cs, _) <- read_segment_chunks s (drop (sg_data s) data); Ok cs.

Definition rd_eager (st : rstate) (h : hierarchy) (data : bytes) : res (alist (option cdata)) :=
  do recv0 <- fold_left (fun a c => do a0 <- a; do r <- receiver0 c; Ok (aset (ch_path c) r a0))
                        (all_channels h) (Ok []);
  fold_left (fun a s =>
               do a0 <- a;
               do cs <- read_segment data s;
               fold_left (fun b c => do b0 <- b; receive_chunk b0 c) cs (Ok a0))
            (rs_segments st) (Ok recv0).

(* ---- observation ------------------------------------------------------------ *)

Inductive tok := TZ (z : Z) | TB (b : bytes).

Definition tok_eqb (a b : tok) : bool :=
  match a, b with
  | TZ x, TZ y => x =? y
  | TB x, TB y => bytes_eqb x y
  | _, _ => false
  end.

Fixpoint toks_eqb (a b : list tok) : bool :=
  match a, b with
  | [], [] => true
  | x :: a', y :: b' => tok_eqb x y && toks_eqb a' b'
  | _, _ => false
  end.

(* IEEE binary32 bits -> binary64 bits (struct.unpack('f') gives a Python float).
   Widening a signalling NaN quiets it (the conversion instruction sets the quiet
   bit, bit 22 of the binary32 mantissa = bit 51 of the binary64 one, and keeps the
   payload): 7f800001 -> 7ff8000020000000, as CPython and NumPy show it. *)
Definition f32_to_f64_bits (u : Z) : Z :=
  let sign := Z.shiftr u 31 in
  let ex := Z.land (Z.shiftr u 23) 255 in
  let man := Z.land u 0x7FFFFF in
  let s64 := Z.shiftl sign 63 in
  if ex =? 0 then
    if man =? 0 then s64
    else let k := Z.log2 man in
         s64 + Z.shiftl (k - 149 + 1023) 52 + Z.shiftl (man - Z.shiftl 1 k) (52 - k)
  else if ex =? 255 then
    if man =? 0 then s64 + Z.shiftl 2047 52
    else s64 + Z.shiftl 2047 52 + Z.lor (Z.shiftl man 29) (Z.shiftl 1 51)
  else s64 + Z.shiftl (ex - 127 + 1023) 52 + Z.shiftl man 29.

(* a property value as the public API shows it (raw_timestamps=True):
   int -> [0; v], float -> [1; 8 bytes of the double], bool -> [2; 0/1],
   str -> [3; utf-8], TdmsTimestamp -> [4; seconds; second_fractions] *)
Definition obs_prop_value (ty : Z) (v : bytes) : list tok :=
  if (1 <=? ty) && (ty <=? 4) then [TZ 0; TZ (s_dec LE v)]
  else if (5 <=? ty) && (ty <=? 8) then [TZ 0; TZ (u_dec LE v)]
  else if (ty =? 9) || (ty =? 0x19) then [TZ 1; TB (le_enc 8 (f32_to_f64_bits (u_dec LE v)))]
  else if (ty =? 10) || (ty =? 0x1A) then [TZ 1; TB v]
  else if ty =? T_BOOL then [TZ 2; TZ (if u_dec LE v =? 0 then 0 else 1)]
  else if ty =? T_STRING then [TZ 3; TB v]
  else if ty =? T_TIME then [TZ 4; TZ (s_dec LE (drop 8 v)); TZ (u_dec LE (take 8 v))]
  else [TZ 9].

Definition obs_props (ps : alist prop) : list tok :=
  TZ (Z.of_nat (length ps)) ::
  flat_map (fun kv => TB (fst kv) :: obs_prop_value (p_type (snd kv)) (p_val (snd kv))) ps.

Definition obs_values (vs : list bytes) : list tok :=
  TZ (Z.of_nat (length vs)) :: map TB vs.

Fixpoint insert_sc (x : Z * list bytes) (l : list (Z * list bytes)) : list (Z * list bytes) :=
  match l with
  | [] => [x]
  | y :: r => if fst x <=? fst y then x :: l else y :: insert_sc x r
  end.
Definition sort_sc (l : list (Z * list bytes)) : list (Z * list bytes) := fold_right insert_sc [] l.

Definition obs_cdata (d : option cdata) : list tok :=
  match d with
  | None => [TZ 2]
  | Some (CData vs) => TZ 0 :: obs_values vs
  | Some (CScalers sc) =>
    TZ 1 :: TZ (Z.of_nat (length sc)) ::
    flat_map (fun kv => TZ (fst kv) :: obs_values (snd kv)) (sort_sc sc)
  end.

Definition obs_channel_meta (c : channel) : list tok :=
  TB (ch_name c) :: TB (ch_group c) :: TB (ch_path c) ::
  TZ (match ch_dtype c with Some t => t | None => -1 end) :: TZ (ch_len c) :: obs_props (ch_props c).

Definition obs_hierarchy (h : hierarchy) (data : channel -> list tok) : list tok :=
  obs_props (h_root h) ++
  TZ (Z.of_nat (length (h_groups h))) ::
  flat_map (fun g =>
              TB (g_name (snd g)) :: obs_props (g_props (snd g)) ++
              TZ (Z.of_nat (length (g_chans (snd g)))) ::
              flat_map (fun c => obs_channel_meta (snd c) ++ data (snd c)) (g_chans (snd g)))
           (h_groups h).

(* TdmsFile.file_status *)
Definition obs_status (st : rstate) : list tok :=
  match rev (rs_segments st) with
  | [] => [TZ 0; TZ 0]
  | s :: _ =>
    let dobjs := data_objs (sg_objs s) in
    let entries (f : sobj -> Z) : list tok :=
        let d := fold_left (fun acc o => aset (so_path o) (so_nvals o, f o) acc) dobjs [] in
        TZ 1 :: TZ (Z.of_nat (length d)) ::
        flat_map (fun kv => [TB (fst kv); TZ (fst (snd kv)); TZ (snd (snd kv))]) d in
    TZ (if sg_incomplete s then 1 else 0) ::
    match sg_final s with
    | Some f => entries (fun o => match alookup (so_path o) f with Some v => v | None => 0 end)
    | None => if sg_incomplete s then entries so_nvals else [TZ 0]
    end
  end.

(* total number of values a channel's receiver holds *)
Definition cdata_consistent (len : Z) (d : option cdata) : bool :=
  match d with
  | None => true
  | Some (CData vs) => Z.of_nat (length vs) =? len
  | Some (CScalers sc) => forallb (fun kv => Z.of_nat (length (snd kv)) =? len) sc
  end.

Inductive mode := MRead | MOpen | MMeta.

(* What TdmsFile.read(stream, raw_timestamps=True) shows.  The flag in the
   result says whether every receiver got exactly len(channel) values: when it
   is false the preallocated NumPy arrays of the implementation behave in ways
   the model does not follow (broadcast errors, zero padding) and the harness
   does not compare values. *)
Definition rd_all_from (src : bytes) (is_index : bool) (data : bytes) : res (list tok * bool) :=
  do st <- rd_metadata src is_index (Some (blen data)) false;
  do h <- build_hierarchy (rs_om st);
  do recv <- rd_eager st h data;
  let chan_data c := match alookup (ch_path c) recv with Some d => d | None => None end in
  Ok (TZ (match rs_version st with Some v => v | None => 0 end) ::
      obs_hierarchy h (fun c => obs_cdata (chan_data c)) ++ obs_status st,
      forallb (fun c => cdata_consistent (ch_len c) (chan_data c)) (all_channels h)).

Definition rd_all (data : bytes) : res (list tok * bool) := rd_all_from data false data.

(* TdmsFile.read(path) with a .tdms_index file beside it: metadata from the index *)
Definition rd_all_idx (data index : bytes) : res (list tok * bool) := rd_all_from index true data.

(* metadata-only observation: TdmsFile.read_metadata / open / index file *)
Definition rd_meta_obs (src : bytes) (is_index : bool) (file_size : option Z) (want_index : bool)
  : res (list tok) :=
  do st <- rd_metadata src is_index file_size want_index;
  do h <- build_hierarchy (rs_om st);
  Ok (TZ (match rs_version st with Some v => v | None => 0 end) ::
      obs_hierarchy h (fun _ => []) ++ obs_status st).

(* comparison with an observation of the implementation: None = it raised *)
Definition agree_all (data : bytes) (o : option (list tok)) : bool :=
  match rd_all data, o with
  | Err _, None => true
  | Ok (t, true), Some t' => toks_eqb t t'
  | Ok (_, false), _ => true      (* outside the model's domain, see above *)
  | _, _ => false
  end.

Definition agree_meta (src : bytes) (is_index : bool) (file_size : option Z) (want_index : bool)
           (o : option (list tok)) : bool :=
  match rd_meta_obs src is_index file_size want_index, o with
  | Err _, None => true
  | Ok t, Some t' => toks_eqb t t'
  | _, _ => false
  end.

Definition agree_all_idx (data index : bytes) (o : option (list tok)) : bool :=
  match rd_all_idx data index, o with
  | Err _, None => true
  | Ok (t, true), Some t' => toks_eqb t t'
  | Ok (_, false), _ => true
  | _, _ => false
  end.
