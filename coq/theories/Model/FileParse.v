(* A total, executable STRICT parser of whole TDMS byte streams into the file
   syntax of Model/FileSyn.v:

       parse_file : bytes -> option (list fseg)

   It accepts EXACTLY the byte streams whose length fields are explicit and
   consistent, i.e. (Proofs/FileParseProofs.v, Props/C01_bytes.v)

       parse_file b = Some segs  <->  b = ser_file segs /\ wf_file segs.

   So "bytes of the form [ser_file segs] with [wf_file segs]" - the domain of
   the whole-file theorems - is the same thing as "byte streams this parser
   accepts", and the theorems can be read with an arbitrary byte stream [b]
   and the hypothesis [parse_file b = Some segs].

   WHAT IS A WELL-FORMED STREAM (what the parser does, per segment, until the
   input is exhausted; an empty input is the empty file):
     - 28 bytes of lead-in must be present: a 4-byte tag that must be "TDSm";
       the ToC mask, 4 bytes little-endian (ANY 32-bit value: unknown bits are
       kept in [fs_toc]); the big-endian bit of the mask selects the byte order
       of everything else in the segment; version (any signed 32-bit value);
       next-segment offset N and raw-data offset R (unsigned 64 bit);
     - N must not be 0xFFFFFFFFFFFFFFFF (the "segment not finished" marker)
       and R <= N;
     - the next R bytes (the metadata block) and then the next N - R bytes (the
       raw data block) must be PRESENT;
     - metadata flag (bit 1 of the mask) clear: R must be 0;
       metadata flag set: the block is lexed with the functions of
       Model/Tokens.v - number of objects; per object: path (length-prefixed
       string), raw data index (0xFFFFFFFF "no data" / 0 "same as before" /
       0x1269, 0x126A DAQmx with scalers and widths / anything else: the field
       is kept as the index length, then data type, dimension, count and, for
       strings only, the total size), number of properties; per property:
       name, type, value - and the lexer must stop EXACTLY at the end of the
       block (R bytes consumed, nothing left);
     - strings (paths, property names, string property values) must be wholly
       present: Tokens.get_string returns a SHORT string when the bytes run
       out (as types.String.read does); here that is an error ([get_string_x]).
       This is the only place where the lexer of Tokens.v is not used as is;
       [parse_entry_x] etc. are the Tokens functions with that one change
       (FileParseProofs.parse_metadata_x_lenient: where the strict lexer
       succeeds, Tokens.parse_metadata returns the same).
   Nothing is normalised: property and channel values are kept in [fseg] as
   canonical little-endian bytes, and a big-endian segment stores the byte
   reversal, which is a bijection on byte strings of the type's size; the index
   length field, unknown ToC bits, the version, Boolean bytes other than 0/1 and
   invalid UTF-8 are all kept as they are.

   STREAMS THAT ARE REJECTED although TdmsFile.read might accept them (they are
   not in the image of [ser_file], hence outside the whole-file theorems):
     (r1) a last segment shorter than its lead-in declares, and fewer than 28
          trailing bytes after the last segment (the reader treats both as end of
          file): TRUNCATED streams - the subject of C06, see
          C01_bytes.parse_file_cut and truncation_values_prefix_bytes;
     (r2) next-segment offset 0xFFFFFFFFFFFFFFFF (length unknown: C06 arithmetic);
     (r3) slack between the end of the metadata and the raw data offset, or a
          raw data offset <> 0 in a segment without metadata flag (the reader
          seeks over such bytes), or a raw data offset beyond the next-segment
          offset;
     (r4) a string whose declared length runs past the end of the metadata block;
     (r5) a tag other than "TDSm" (index files carry "TDSh": Model/FileSyn.v
          ser_index; they are not data streams).
   Rejected by the reader as well: property types without a [read] method
   (complex, extended float, void, DAQmx raw data as a property type: NotImplemented /
   KeyError), short fixed-width fields.

   THE EMPTY STREAM is accepted, with no segments (it is [ser_file []]).
   TdmsFile.read(path) of an empty file returns an empty file, and so does the
   reader model; TdmsFile.read(stream) raises ValueError, because
   TdmsReader.__init__ sniffs the first four bytes of a stream to tell a data
   stream from an index stream - a step before the reader proper that
   Model/Reader.v does not model (every non-empty accepted stream starts with
   "TDSm", where the sniffing changes nothing).

   Fuel: one unit per segment; every segment consumes at least 28 bytes, so the
   byte length of the input is always enough (Props/C01_bytes.v
   parse_segs_fuel_irrelevant; completeness shows it never runs out). *)
From Coq Require Import List ZArith Bool.
From Coq Require Import Init.Byte.
Import ListNotations.
From NpTdms Require Import Base.Bytes Base.Res Model.ByteStr Model.Tokens Model.Reader Model.FileSyn.
Local Open Scope Z_scope.

(* a length-prefixed string, wholly present *)
Definition get_string_x (e : endian) (bs : bytes) : res (bytes * bytes) :=
  do '(n, r) <- get_u32 e bs; get_exact n r.

(* Tokens.parse_prop_value with strict strings *)
Definition parse_prop_value_x (e : endian) (ty : Z) (bs : bytes) : res (bytes * bytes) :=
  if ty =? T_STRING then get_string_x e bs else parse_prop_value e ty bs.

(* Tokens.parse_prop *)
Definition parse_prop_x (e : endian) (bs : bytes) : res (prop * bytes) :=
  do '(name, r1) <- get_string_x e bs;
  do '(ty, r2) <- get_u32 e r1;
  do '(v, r3) <- parse_prop_value_x e ty r2;
  Ok (mkProp name ty v, r3).

(* Tokens.parse_props *)
Definition parse_props_x (e : endian) (bs : bytes) : res (list prop * bytes) :=
  do '(n, r) <- get_u32 e bs; parse_n (parse_prop_x e) n r.

(* Tokens.parse_entry; the raw data index is lexed by Tokens.parse_idx *)
Definition parse_entry_x (e : endian) (bs : bytes) : res (entry * bytes) :=
  do '(path, r1) <- get_string_x e bs;
  do '(i, r2) <- parse_idx e r1;
  do '(ps, r3) <- parse_props_x e r2;
  Ok (mkEntry path i ps, r3).

(* Tokens.parse_metadata *)
Definition parse_metadata_x (e : endian) (bs : bytes) : res (list entry * bytes) :=
  do '(n, r) <- get_u32 e bs; parse_n (parse_entry_x e) n r.

Definition NEXT_UNKNOWN := 0xFFFFFFFFFFFFFFFF.

(* the metadata block [mb] (exactly the bytes up to the raw data offset) *)
Definition parse_meta_block (toc raw : Z) (mb : bytes) : res (option (list entry)) :=
  if toc_has toc TOC_META then
    do '(es, rest) <- parse_metadata_x (toc_endian toc) mb;
    match rest with
    | [] => Ok (Some es)
    | _ :: _ => Err EValue                       (* slack before the raw data *)
    end
  else if raw =? 0 then Ok None else Err EValue.

(* one segment off the front of the stream *)
Definition parse_seg (bs : bytes) : res (fseg * bytes) :=
  do '(lb, r0) <- get_exact 28 bs;
  do l <- parse_leadin lb;
  if negb (bytes_eqb (l_tag l) TAG_DATA) then Err EValue
  else if l_next l =? NEXT_UNKNOWN then Err EValue
  else if l_next l <? l_raw l then Err EValue
  else
    do '(mb, r1) <- get_exact (l_raw l) r0;
    do '(db, r2) <- get_exact (l_next l - l_raw l) r1;
    do meta <- parse_meta_block (l_toc l) (l_raw l) mb;
    Ok (mkFseg (l_toc l) (l_version l) meta db, r2).

Fixpoint parse_segs (fuel : nat) (bs : bytes) : res (list fseg) :=
  match bs with
  | [] => Ok []
  | _ :: _ =>
    match fuel with
    | O => Err EFuel
    | S f =>
      do '(s, r) <- parse_seg bs;
      do ss <- parse_segs f r;
      Ok (s :: ss)
    end
  end.

Definition parse_file (bs : bytes) : option (list fseg) :=
  match parse_segs (length bs) bs with
  | Ok segs => Some segs
  | Err _ => None
  end.

(* Where a cut offset falls in a file: [Some j] when [k] is the total length of
   the first [j] segments (a segment boundary, 0 and the end included). *)
Fixpoint cut_boundary (segs : list fseg) (k : Z) : option nat :=
  if k =? 0 then Some O
  else match segs with
       | [] => None
       | s :: r =>
         let n := 28 + blen (fs_meta_bytes s) + blen (fs_data s) in
         if k <? n then None
         else match cut_boundary r (k - n) with
              | Some j => Some (S j)
              | None => None
              end
       end.
