(* Model of TdmsWriter.defragment (nptdms/writer.py):

     file = TdmsFile(source, raw_timestamps=True)
     with cls(destination, version=version, index_file=index_file) as new_file:
         new_file.write_segment([RootObject(file.properties)])
         for group in file.groups():
             new_file.write_segment([GroupObject(group.name, group.properties)])
             for channel in group.channels():
                 new_file.write_segment([ChannelObject(
                     group.name, channel.name,
                     channel.read_data(scaled=False), channel.properties)])

   The source content is what TdmsFile read: root properties, groups in order
   with their properties, channels in order with their TDMS data type (None for
   a channel that never had a raw data index), raw values and properties
   (raw timestamps: the 16 value bytes).

   What the writer sees of a channel's data (ChannelObject.data_type on the
   array read_data(scaled=False) returns): with at least one value the type is
   the channel's type; an empty array of a NumPy dtype keeps that type; an
   empty array of strings (dtype O), of raw timestamps (a record dtype) or of
   an untyped channel (V8) has no determinable type - Void - and, with fix D7,
   is written as an object without raw data. *)

From Coq Require Import List ZArith Bool.
From Coq Require Import Init.Byte.
Import ListNotations.
From NpTdms Require Import Base.Bytes Base.Res Model.Tokens Model.ByteStr Model.StrictParse
  Model.Writer.
Local Open Scope Z_scope.

Record dchan := mkDChan {
  dc_name : bytes;
  dc_type : option Z;
  dc_vals : list bytes;
  dc_props : list prop }.

Record dgroup := mkDGroup {
  dg_name : bytes;
  dg_props : list prop;
  dg_chans : list dchan }.

Record dcontent := mkDContent {
  d_root_props : list prop;
  d_groups : list dgroup }.

Definition defrag_type (t : option Z) (vals : list bytes) : Z :=
  match t, vals with
  | Some ty, _ :: _ => ty
  | Some ty, [] => if has_nptype ty then ty else T_VOID
  | None, _ => T_VOID
  end.

Definition defrag_chan (g : bytes) (ch : dchan) : wobj :=
  WChan g (dc_name ch) (defrag_type (dc_type ch) (dc_vals ch)) (dc_vals ch) (dc_props ch).

Definition defrag_group_calls (g : dgroup) : list (list wobj) :=
  [WGroup (dg_name g) (dg_props g)] :: map (fun ch => [defrag_chan (dg_name g) ch]) (dg_chans g).

(* the write_segment calls defragment issues for content [c] *)
Definition defrag_calls (c : dcontent) : list (list wobj) :=
  [WRoot (d_root_props c)] :: flat_map defrag_group_calls (d_groups c).

Definition defrag (version : Z) (c : dcontent) : res (bytes * bytes) :=
  wr_session version (defrag_calls c).

(* ---- what a reader of the segment syntax sees, object by object -------------------- *)

Definition idx_type (i : idx) : option Z :=
  match i with
  | IFull _ dt _ _ _ => Some dt
  | _ => None
  end.

(* (path, data type if the object has raw data, properties, values) *)
Definition obj_view := (bytes * option Z * list prop * list bytes)%type.

Definition seg_view (s : segsyn) : list obj_view :=
  map (fun xv => (e_path (fst xv), idx_type (e_idx (fst xv)), e_props (fst xv), snd xv))
      (combine (sg_entries s) (sg_values s)).

Definition chan_view (g : bytes) (ch : dchan) : obj_view :=
  let ty := defrag_type (dc_type ch) (dc_vals ch) in
  (chan_path g (dc_name ch), (if ty =? T_VOID then None else Some ty), dc_props ch, dc_vals ch).

(* one segment per object, in the content's order, nothing added *)
Definition defrag_expected (c : dcontent) : list (list obj_view) :=
  [(ROOT_PATH, None, d_root_props c, [])] ::
  flat_map (fun g => [(group_path (dg_name g), None, dg_props g, [])] ::
                     map (fun ch => [chan_view (dg_name g) ch]) (dg_chans g)) (d_groups c).

(* correspondence check evaluated by harness/c10.py: the real defragment output
   equals the model's bytes for the content read from the source *)
Definition check_defrag (c : Z * dcontent * (bytes * option bytes)) : bool :=
  let '(v, content, (d', oi)) := c in
  match defrag v content with
  | Ok (d, i) => bytes_eqb d d' && match oi with Some i' => bytes_eqb i i' | None => true end
  | Err _ => false
  end.
