(* C05 on BYTES: the abstract file of Model/IoPlan.v COMPUTED from the reader
   state of the metadata pass and the file bytes.

   Model/IoPlan.v (the state machine of one lazily opened file) runs on an
   abstract [IoPlan.file]: channels are numbers, a segment is its lead-in
   position, data position, kTocRawData / interleaved flags, its data objects
   (channel number, number_values, data_size) and per chunk, per data object the
   values, which are integer LABELS.  harness/c05.py hands the model such a
   description made by its own file generator.  Here the same description is
   computed from the file:

     channels   the channels of the hierarchy TdmsFile builds (Model/Reader.v
                build_hierarchy / all_channels), in group / channel order; a
                channel's number is its position in that list;
     segments   [rs_segments] of the metadata pass with segment indexes (what
                TdmsFile.open runs): position, data_position, the kTocRawData
                bit, interleaved iff the segment's reader is the
                InterleavedDataReader (Model/Layout.v seg_layout), the data
                objects [o for o in ordered_objects if o.has_data] with their
                number_values and data_size;
     chunks     the raw data decoded by the chunk decoders of Model/Layout.v
                through [read_segment] (tag check at the segment position, then
                the segment's reader from data_position).  A contiguous segment
                decodes to one chunk object per chunk; an interleaved segment
                decodes to ONE chunk object whose columns are cut into the
                num_chunks pieces of number_values rows that the lazy reader
                addresses (chunk k = rows [k*n, (k+1)*n));
     labels     [lab v], an INJECTIVE numbering of value byte strings
                (Proofs/IoBytesSeg.v lab_inj), so two labels are equal iff the
                values (canonical little-endian bytes / string bytes) are equal.

   DAQmx segments and segments whose object list names a path twice have no IoPlan
   description (Err).  Nothing is assumed about the
   file here; whether the description is one IoPlan.wf_file accepts is a theorem
   (Props/C05_bytes.v iofile_wf) under the hypotheses stated there, among them the
   boolean [io_regular] below, which says what IoPlan.wf_file demands of the
   metadata beyond read_correct's hypotheses.

   No proofs in this file. *)
From Coq Require Import List ZArith Bool.
From Coq Require Import Init.Byte.
Import ListNotations.
From NpTdms Require Import Base.Bytes Base.Res Model.Tokens Model.SegState Model.Layout Model.Reader
     Model.LazyBytes.
From NpTdms Require Model.IoPlan.
Local Open Scope Z_scope.

(* injective numbering of byte strings: little-endian digits with a final 1 *)
Fixpoint lab (v : bytes) : Z :=
  match v with
  | [] => 1
  | b :: r => b2z b + 256 * lab r
  end.

(* a channel's number: position of its path in the channel list *)
Fixpoint path_index (p : bytes) (paths : list bytes) : option Z :=
  match paths with
  | [] => None
  | q :: r => if bytes_eqb p q then Some 0 else option_map Z.succ (path_index p r)
  end.

(* a data object of a segment: (channel number, number_values, data_size) *)
Definition ioobj_of (paths : list bytes) (o : sobj) : res IoPlan.obj :=
  match path_index (so_path o) paths with
  | Some i => Ok (IoPlan.mkObj i (so_nvals o) (so_dsize o))
  | None => Err EKey            (* a data object that is not a channel of the hierarchy *)
  end.

(* rows [k*n, (k+1)*n) of a column *)
Definition cut (k : nat) (n : Z) (vs : list bytes) : list bytes :=
  firstn (Z.to_nat n) (skipn (k * Z.to_nat n) vs).

(* per chunk, per data object (in object order) the labels of the values *)
Definition iochunks (il : bool) (nchunks : Z) (dobjs : list sobj) (cs : list chunk)
  : list (list (list Z)) :=
  if il then
    map (fun k => map (fun o => map lab (cut k (so_nvals o) (flat_map (chunk_vals (so_path o)) cs))) dobjs)
        (seq 0 (Z.to_nat nchunks))
  else
    map (fun c => map (fun o => map lab (chunk_vals (so_path o) c)) dobjs) cs.

(* no path twice in a list of paths *)
Fixpoint distinct_paths (l : list bytes) : bool :=
  match l with
  | [] => true
  | p :: r => negb (existsb (bytes_eqb p) r) && distinct_paths r
  end.

(* IoPlan has ONE object per channel and segment: segment.get_segment_object(path) is
   a dictionary lookup (object_index) while the chunk readers walk ordered_objects.
   A segment whose object list names a path twice (where the two disagree, finding
   dup-path-in-segment of Props/C03_read.v) has no IoPlan description. *)
Definition ioseg_of (paths : list bytes) (data : bytes) (g : segment) : res IoPlan.seg :=
  if negb (distinct_paths (map so_path (sg_objs g))) then Err EOther else
  do lay <- seg_layout g;
  match lay with
  | LDaqmx => Err EOther
  | _ =>
    let il := match lay with LInterleaved => true | _ => false end in
    let dobjs := data_objs (sg_objs g) in
    do objs <- mapM (ioobj_of paths) dobjs;
    do cs <- read_segment data g;
    Ok (IoPlan.mkSeg (sg_pos g) (sg_data g) (toc_has (sg_toc g) TOC_RAW) il objs
                     (iochunks il (sg_nchunks g) dobjs cs))
  end.

(* channel numbering given by an explicit list of paths *)
Definition iofile_with (paths : list bytes) (st : rstate) (data : bytes) : res IoPlan.file :=
  do segs <- mapM (ioseg_of paths data) (rs_segments st);
  Ok (IoPlan.mkFile (map Z.of_nat (seq 0 (length paths))) segs).

(* the abstract file of an open TdmsFile: [st] is the state of the metadata pass *)
Definition iofile_of (st : rstate) (data : bytes) : res IoPlan.file :=
  do h <- build_hierarchy (rs_om st);
  iofile_with (map ch_path (all_channels h)) st data.

(* TdmsFile.open(stream): metadata pass with segment indexes, then the above *)
Definition iofile_of_bytes (data : bytes) : res IoPlan.file :=
  do st <- rd_metadata data false (Some (blen data)) true;
  iofile_of st data.

(* ---- what IoPlan.wf_file needs of the metadata ------------------------------ *)

Definition is_nil {A} (l : list A) : bool := match l with [] => true | _ => false end.

(* every data object declares at least one value and one byte per chunk; a segment
   has the kTocRawData bit iff it has data objects, and then at least one chunk *)
Definition io_regular_seg (g : segment) : bool :=
  let dobjs := data_objs (sg_objs g) in
  forallb (fun o => (0 <? so_nvals o) && (0 <? so_dsize o)) dobjs &&
  (if toc_has (sg_toc g) TOC_RAW then negb (is_nil dobjs) && (0 <? sg_nchunks g) else is_nil dobjs).

Definition io_regular (st : rstate) : bool := forallb io_regular_seg (rs_segments st).

(* ---- comparison with a description supplied by a generator ------------------ *)

(* [g] is [f] up to a renaming of labels: same shape everywhere, and the pairing of
   corresponding labels is a one-to-one correspondence.  (harness/c05.py labels the
   j-th value of a channel with j and makes all values of a channel distinct.) *)
Fixpoint shape_eqb (a b : list (list (list Z))) : bool :=
  match a, b with
  | [], [] => true
  | x :: a', y :: b' =>
    (length x =? length y)%nat &&
    forallb (fun xy => (length (fst xy) =? length (snd xy))%nat) (combine x y) &&
    shape_eqb a' b'
  | _, _ => false
  end.

Definition obj_eqb (a b : IoPlan.obj) : bool :=
  (IoPlan.o_chan a =? IoPlan.o_chan b) && (IoPlan.o_nvals a =? IoPlan.o_nvals b) &&
  (IoPlan.o_size a =? IoPlan.o_size b).

Fixpoint objs_eqb (a b : list IoPlan.obj) : bool :=
  match a, b with
  | [], [] => true
  | x :: a', y :: b' => obj_eqb x y && objs_eqb a' b'
  | _, _ => false
  end.

Definition seg_shape_eqb (a b : IoPlan.seg) : bool :=
  (IoPlan.s_pos a =? IoPlan.s_pos b) && (IoPlan.s_data_pos a =? IoPlan.s_data_pos b) &&
  Bool.eqb (IoPlan.s_raw a) (IoPlan.s_raw b) && Bool.eqb (IoPlan.s_il a) (IoPlan.s_il b) &&
  objs_eqb (IoPlan.s_objs a) (IoPlan.s_objs b) && shape_eqb (IoPlan.s_chunks a) (IoPlan.s_chunks b).

Fixpoint segs_shape_eqb (a b : list IoPlan.seg) : bool :=
  match a, b with
  | [], [] => true
  | x :: a', y :: b' => seg_shape_eqb x y && segs_shape_eqb a' b'
  | _, _ => false
  end.

(* (channel, label of f, label of g) for every value position *)
Definition seg_pairs (a b : IoPlan.seg) : list (Z * (Z * Z)) :=
  flat_map (fun cc =>
              flat_map (fun ovv => map (fun xy => (IoPlan.o_chan (fst ovv), xy))
                                       (combine (fst (snd ovv)) (snd (snd ovv))))
                       (combine (IoPlan.s_objs a) (combine (fst cc) (snd cc))))
           (combine (IoPlan.s_chunks a) (IoPlan.s_chunks b)).

Definition file_pairs (f g : IoPlan.file) : list (Z * (Z * Z)) :=
  flat_map (fun ab => seg_pairs (fst ab) (snd ab)) (combine (IoPlan.f_segs f) (IoPlan.f_segs g)).

(* the pairing is functional in both directions, channel by channel *)
Definition pairs_bijective (l : list (Z * (Z * Z))) : bool :=
  forallb (fun p =>
             forallb (fun q =>
                        negb (fst p =? fst q) ||
                        Bool.eqb (fst (snd p) =? fst (snd q)) (snd (snd p) =? snd (snd q))) l) l.

Definition file_iso (f g : IoPlan.file) : bool :=
  segs_shape_eqb (IoPlan.f_segs f) (IoPlan.f_segs g) && pairs_bijective (file_pairs f g).

(* one correspondence case: file bytes, the channel paths in the generator's
   numbering (position = channel number), the generator's abstract file *)
Definition check_iofile (c : bytes * list bytes * IoPlan.file) : bool :=
  let '(data, paths, f) := c in
  match rd_metadata data false (Some (blen data)) true with
  | Err _ => false
  | Ok st =>
    match iofile_with paths st data with
    | Err _ => false
    | Ok f' => IoPlan.wf_file f' && io_regular st && file_iso f' f
    end
  end.
