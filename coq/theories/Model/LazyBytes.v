(* The lazy read path on BYTES: the per-channel view (Model/LazyRead.v segv) is
   computed from the reader state the metadata pass produced (Model/Reader.v
   rd_metadata with segment indexes, as TdmsFile.open does) and from the file
   bytes through the chunk decoders (Model/Layout.v), and the window is then
   read by LazyRead.lz_read, which mirrors reader.read_raw_data_for_channel.

   This ties the abstract lazy model — about which window_correct, plan_exact_chunks
   etc. are proved (Props/C04.v, C19.v) — to the byte-level reader model that is
   validated against the implementation, so that "lazy = window of eager" can be
   stated and checked on files rather than on generator descriptions.

   The values a chunk holds for the channel are obtained by decoding the
   segment's chunks sequentially; the implementation instead seeks inside each
   chunk using the declared data sizes.  The two coincide on files whose declared
   sizes are the real sizes (every well-formed file); LazyBytes is therefore only
   compared with the implementation on well-formed (possibly truncated) files. *)
From Coq Require Import List ZArith Bool.
From Coq Require Import Init.Byte.
Import ListNotations.
From NpTdms Require Import Base.Bytes Base.Res Base.PySlice Model.Tokens Model.SegState Model.Layout
     Model.Reader Model.LazyRead.
Local Open Scope Z_scope.

(* values one decoded chunk holds for a path (plain data only; DAQmx scalers are
   not windows of a single value list) *)
Definition chunk_vals (path : bytes) (c : chunk) : list bytes :=
  match alookup path c with
  | Some (CData vs) => vs
  | _ => []
  end.

(* an interleaved segment is decoded as ONE chunk object; cut its column into the
   per-chunk pieces the metadata describes *)
Fixpoint split_chunks (fuel : nat) (n : Z) (vs : list bytes) : list (list bytes) :=
  match fuel with
  | O => []
  | S f => match vs with
           | [] => []
           | _ => firstn (Z.to_nat n) vs :: split_chunks f n (skipn (Z.to_nat n) vs)
           end
  end.

(* pad / cut the chunk list to exactly nchunks entries (a chunk may hold no value
   for the channel, e.g. the truncated final chunk) *)
Fixpoint fit_chunks (n : nat) (l : list (list bytes)) : list (list bytes) :=
  match n with
  | O => []
  | S k => match l with
           | [] => [] :: fit_chunks k []
           | x :: r => x :: fit_chunks k r
           end
  end.

(* segment.get_segment_object(path) through the segment's object_index *)
Definition segment_object (s : segment) (path : bytes) : option sobj :=
  match alookup path (sg_index s) with
  | Some i => nth_error (sg_objs s) i
  | None => None
  end.

Definition segv_of (data : bytes) (path : bytes) (s : segment) : res (segv bytes) :=
  let chunk := match segment_object s path with
               | Some o => if so_has_data o then so_nvals o else 0
               | None => 0
               end in
  let final := match sg_final s with
               | Some f => Some (match alookup path f with Some v => v | None => 0 end)
               | None => None
               end in
  if chunk =? 0 then Ok (mk_segv (V:=bytes) 0 (sg_nchunks s) final false (fit_chunks (Z.to_nat (sg_nchunks s)) []))
  else
    do lay <- seg_layout s;
    do cs <- read_segment data s;
    let il := match lay with LContig => false | _ => true end in
    let per_chunk :=
        if il then split_chunks (S (length (flat_map (chunk_vals path) cs))) chunk
                                (flat_map (chunk_vals path) cs)
        else map (chunk_vals path) cs in
    Ok (mk_segv (V:=bytes) chunk (sg_nchunks s) final il (fit_chunks (Z.to_nat (sg_nchunks s)) per_chunk)).

Definition zero_value : bytes := [].

(* which receiver TdmsChannel._read_channel_data allocates *)
Definition recv_of (dt : option Z) : recv_kind :=
  match dt with
  | Some t => if t =? T_STRING then RList else RNumpy
  | None => RNumpy
  end.

Definition channel_view (data : bytes) (path : bytes) : res (list (segv bytes) * option Z) :=
  do st <- rd_metadata data false (Some (blen data)) true;
  do svs <- mapM (segv_of data path) (rs_segments st);
  Ok (svs, match alookup path (rs_om st) with Some m => om_dtype m | None => None end).

(* channel.read_data(offset, length, scaled=False) on TdmsFile.open(stream) *)
Definition lz_read_bytes (data path : bytes) (offs : Z) (len : option Z) : res (list bytes) :=
  do '(svs, dt) <- channel_view data path;
  match dt with
  | None => Ok []                         (* a channel without data type has nothing to read *)
  | Some _ => lz_read bytes zero_value (recv_of dt) svs offs len
  end.

(* the chunk indices (segment, chunk) the lazy read fetches *)
Definition lz_plan_bytes (data path : bytes) (offs : Z) (len : option Z) : res (list (Z * Z)) :=
  do '(svs, _) <- channel_view data path;
  lz_plan bytes svs offs len.

(* ---- agreement with observations of the implementation ---------------------- *)

Fixpoint vals_eqb (a b : list bytes) : bool :=
  match a, b with
  | [], [] => true
  | x :: a', y :: b' => bytes_eqb x y && vals_eqb a' b'
  | _, _ => false
  end.

(* case: file bytes, canonical channel path, offset, length, observed values (None = raised) *)
Definition agree_window (c : bytes * bytes * Z * option Z * option (list bytes)) : bool :=
  let '(data, path, offs, len, obs) := c in
  match lz_read_bytes data path offs len, obs with
  | Ok vs, Some vs' => vals_eqb vs vs'
  | Err _, None => true
  | _, _ => false
  end.
