(* Syntax of one TDMS segment's lead-in and metadata block, its canonical
   serialiser [ser_*] and the consuming parser [parse_*] that mirrors
   nptdms/tdms_segment.py (read_segment_objects, read_raw_data_index,
   read_property, _read_object_properties), nptdms/daqmx.py (DaqMxMetadata,
   DaqMxScaler, DigitalLineScaler), nptdms/types.py (String.read,
   StructType.read, TimeStamp.read, Boolean.read) and
   nptdms/reader.py (_read_lead_in, byte parsing part).

   A property / channel value is carried as its canonical little-endian byte
   string ("value bytes"); big-endian storage is the byte reversal. *)

From Coq Require Import List ZArith Bool.
From Coq Require Import Init.Byte.
Import ListNotations.
From NpTdms Require Import Base.Bytes Base.Res.
Local Open Scope Z_scope.

(* ---- TDMS data types (nptdms/types.py: tds_data_types) ------------------ *)

Definition T_VOID := 0.
Definition T_STRING := 0x20.
Definition T_BOOL := 0x21.
Definition T_TIME := 0x44.
Definition T_C64 := 0x08000c.
Definition T_C128 := 0x10000d.
Definition T_DAQMX := 0xFFFFFFFF.

(* Some (Some n): known type with [size = n]; Some None: known, [size is None];
   None: not in tds_data_types (KeyError).  Gen/Consts.v re-derives this table
   from the source on every run and Proofs/ConstsAgree.v proves it equal. *)
Definition tds_size (ty : Z) : option (option Z) :=
  if ty =? 0 then Some None
  else if ty =? 1 then Some (Some 1)
  else if ty =? 2 then Some (Some 2)
  else if ty =? 3 then Some (Some 4)
  else if ty =? 4 then Some (Some 8)
  else if ty =? 5 then Some (Some 1)
  else if ty =? 6 then Some (Some 2)
  else if ty =? 7 then Some (Some 4)
  else if ty =? 8 then Some (Some 8)
  else if ty =? 9 then Some (Some 4)
  else if ty =? 10 then Some (Some 8)
  else if ty =? 11 then Some None
  else if ty =? 0x19 then Some (Some 4)
  else if ty =? 0x1A then Some (Some 8)
  else if ty =? 0x1B then Some None
  else if ty =? 0x20 then Some None
  else if ty =? 0x21 then Some (Some 1)
  else if ty =? 0x44 then Some (Some 16)
  else if ty =? 0x08000c then Some (Some 8)
  else if ty =? 0x10000d then Some (Some 16)
  else if ty =? 0xFFFFFFFF then Some None
  else None.

(* types whose class is a StructType (has struct_declaration, [read] works) *)
Definition is_struct_type (ty : Z) : bool :=
  ((1 <=? ty) && (ty <=? 10)) || (ty =? 0x19) || (ty =? 0x1A) || (ty =? 0x21).

(* types with a NumPy dtype (nptype is not None) *)
Definition has_nptype (ty : Z) : bool :=
  is_struct_type ty || (ty =? T_C64) || (ty =? T_C128).

(* Value bytes stored in byte order [e] -> canonical little-endian value bytes.
   Scalars and timestamps: full reversal; complex: per component (NumPy
   newbyteorder on complex64/128 swaps each float separately). *)
Definition canon_value (e : endian) (ty : Z) (stored : bytes) : bytes :=
  match e with
  | LE => stored
  | BE =>
    if (ty =? T_C64) || (ty =? T_C128) then
      let h := Z.to_nat (blen stored / 2) in
      rev (firstn h stored) ++ rev (skipn h stored)
    else rev stored
  end.

(* canonical value bytes -> stored bytes in order [e] (an involution) *)
Definition store_value (e : endian) (ty : Z) (canon : bytes) : bytes :=
  canon_value e ty canon.

(* ---- syntax ------------------------------------------------------------- *)

Record prop := mkProp { p_name : bytes; p_type : Z; p_val : bytes }.

Record scaler := mkScaler {
  sc_type : Z;      (* DAQmx type code (daqmx.DAQMX_TYPES key) *)
  sc_buf : Z;       (* raw_buffer_index *)
  sc_off : Z;       (* raw_byte_offset (format changing) / raw_bit_offset (digital line) *)
  sc_fmt : Z;       (* sample_format_bitmap *)
  sc_id : Z }.      (* scale_id *)

Definition FORMAT_CHANGING_SCALER := 0x1269.
Definition DIGITAL_LINE_SCALER := 0x126A.
Definition RAW_DATA_INDEX_NO_DATA := 0xFFFFFFFF.
Definition RAW_DATA_INDEX_MATCHES_PREVIOUS := 0.

Inductive idx :=
| INoData
| IMatchPrev
| IFull (len_field dt dim nvals : Z) (total : option Z)
| IDaqmx (kind dt dim nvals : Z) (scalers : list scaler) (widths : list Z).

Record entry := mkEntry { e_path : bytes; e_idx : idx; e_props : list prop }.

Record leadin := mkLeadin {
  l_tag : bytes;        (* 4 bytes: TDSm / TDSh *)
  l_toc : Z;            (* ToC mask as unsigned 32 bit *)
  l_version : Z;        (* signed 32 bit *)
  l_next : Z;           (* next segment offset, u64 *)
  l_raw : Z }.          (* raw data offset, u64 *)

Definition TOC_META := 2.
Definition TOC_NEWLIST := 4.
Definition TOC_RAW := 8.
Definition TOC_INTERLEAVED := 32.
Definition TOC_BIGENDIAN := 64.
Definition TOC_DAQMX := 128.

Definition toc_has (toc flag : Z) : bool := negb (Z.land toc flag =? 0).
Definition toc_endian (toc : Z) : endian := if toc_has toc TOC_BIGENDIAN then BE else LE.

(* ---- serialiser --------------------------------------------------------- *)

Definition put_u32 (e : endian) (z : Z) : bytes := u_enc e 4 z.
Definition put_u64 (e : endian) (z : Z) : bytes := u_enc e 8 z.
Definition put_u8 (z : Z) : bytes := [z2b z].
Definition put_string (e : endian) (s : bytes) : bytes := put_u32 e (blen s) ++ s.

Definition ser_prop_value (e : endian) (ty : Z) (v : bytes) : bytes :=
  if ty =? T_STRING then put_string e v else store_value e ty v.

Definition ser_prop (e : endian) (p : prop) : bytes :=
  put_string e (p_name p) ++ put_u32 e (p_type p) ++ ser_prop_value e (p_type p) (p_val p).

Definition ser_scaler (e : endian) (kind : Z) (s : scaler) : bytes :=
  put_u32 e (sc_type s) ++ put_u32 e (sc_buf s) ++ put_u32 e (sc_off s) ++
  (if kind =? DIGITAL_LINE_SCALER then put_u8 (sc_fmt s) else put_u32 e (sc_fmt s)) ++
  put_u32 e (sc_id s).

Definition ser_idx (e : endian) (i : idx) : bytes :=
  match i with
  | INoData => put_u32 e RAW_DATA_INDEX_NO_DATA
  | IMatchPrev => put_u32 e RAW_DATA_INDEX_MATCHES_PREVIOUS
  | IFull lf dt dim n total =>
    put_u32 e lf ++ put_u32 e dt ++ put_u32 e dim ++ put_u64 e n ++
    match total with Some t => put_u64 e t | None => [] end
  | IDaqmx kind dt dim n scalers widths =>
    put_u32 e kind ++ put_u32 e dt ++ put_u32 e dim ++ put_u64 e n ++
    put_u32 e (Z.of_nat (length scalers)) ++ flat_map (ser_scaler e kind) scalers ++
    put_u32 e (Z.of_nat (length widths)) ++ flat_map (put_u32 e) widths
  end.

Definition ser_entry (e : endian) (x : entry) : bytes :=
  put_string e (e_path x) ++ ser_idx e (e_idx x) ++
  put_u32 e (Z.of_nat (length (e_props x))) ++ flat_map (ser_prop e) (e_props x).

Definition ser_metadata (e : endian) (es : list entry) : bytes :=
  put_u32 e (Z.of_nat (length es)) ++ flat_map (ser_entry e) es.

(* The ToC mask is always little-endian; the other fields follow the mask. *)
Definition ser_leadin (l : leadin) : bytes :=
  let e := toc_endian (l_toc l) in
  l_tag l ++ u_enc LE 4 (l_toc l) ++ s_enc e 4 (l_version l) ++
  put_u64 e (l_next l) ++ put_u64 e (l_raw l).

(* ---- parser (consuming; mirrors sequential file.read calls) -------------- *)

(* file.read(n): short at end of file *)
Definition get_raw (n : Z) (bs : bytes) : bytes * bytes := (take n bs, drop n bs).

(* file.read(n) followed by struct.unpack: struct.error when short *)
Definition get_exact (n : Z) (bs : bytes) : res (bytes * bytes) :=
  let '(x, r) := get_raw n bs in
  if blen x =? n then Ok (x, r) else Err EStruct.

Definition get_u32 (e : endian) (bs : bytes) : res (Z * bytes) :=
  do '(x, r) <- get_exact 4 bs; Ok (u_dec e x, r).
Definition get_u64 (e : endian) (bs : bytes) : res (Z * bytes) :=
  do '(x, r) <- get_exact 8 bs; Ok (u_dec e x, r).
Definition get_u8 (bs : bytes) : res (Z * bytes) :=
  do '(x, r) <- get_exact 1 bs; Ok (u_dec LE x, r).

(* types.String.read: the length needs 4 bytes, the content may be short *)
Definition get_string (e : endian) (bs : bytes) : res (bytes * bytes) :=
  do '(n, r) <- get_u32 e bs; Ok (get_raw n r).

(* for _ in range(n): p — fuel is the number of remaining bytes + 1; every
   iteration consumes at least one byte or fails, so running out of fuel with
   n > 0 is the struct.error the next read would raise. *)
Fixpoint repeat_parse {A} (p : bytes -> res (A * bytes)) (fuel : nat) (n : Z) (bs : bytes)
  : res (list A * bytes) :=
  if n <=? 0 then Ok ([], bs)
  else match fuel with
       | O => Err EStruct
       | S f =>
         do '(x, bs1) <- p bs;
         do '(xs, bs2) <- repeat_parse p f (n - 1) bs1;
         Ok (x :: xs, bs2)
       end.

Definition parse_n {A} (p : bytes -> res (A * bytes)) (n : Z) (bs : bytes) :=
  repeat_parse p (S (length bs)) n bs.

(* prop_data_type.read(f, endianness) *)
Definition parse_prop_value (e : endian) (ty : Z) (bs : bytes) : res (bytes * bytes) :=
  match tds_size ty with
  | None => Err EKey                          (* tds_data_types[...] KeyError *)
  | Some _ =>
    if ty =? T_STRING then get_string e bs
    else if ty =? T_TIME then
      do '(x, r) <- get_exact 16 bs; Ok (canon_value e ty x, r)
    else if is_struct_type ty then
      match tds_size ty with
      | Some (Some n) => do '(x, r) <- get_exact n bs; Ok (canon_value e ty x, r)
      | _ => Err ENotImpl
      end
    else Err ENotImpl                         (* TdmsType.read: unsupported *)
  end.

(* read_property *)
Definition parse_prop (e : endian) (bs : bytes) : res (prop * bytes) :=
  do '(name, r1) <- get_string e bs;
  do '(ty, r2) <- get_u32 e r1;
  do '(v, r3) <- parse_prop_value e ty r2;
  Ok (mkProp name ty v, r3).

Definition parse_scaler (e : endian) (kind : Z) (bs : bytes) : res (scaler * bytes) :=
  do '(ty, r1) <- get_u32 e bs;
  do '(buf, r2) <- get_u32 e r1;
  do '(off, r3) <- get_u32 e r2;
  do '(fmt, r4) <- (if kind =? DIGITAL_LINE_SCALER then get_u8 r3 else get_u32 e r3);
  do '(id, r5) <- get_u32 e r4;
  Ok (mkScaler ty buf off fmt id, r5).

(* The raw data index as it is laid out in the file.  Semantic checks
   (unknown type, dimension, scaler types) are made by the state machine on
   the parsed [idx] in the order the code makes them; here only the bytes are
   consumed, which depends on [dt] (strings carry a total size) and on the
   header kind. *)
Definition parse_idx (e : endian) (bs : bytes) : res (idx * bytes) :=
  do '(hdr, r0) <- get_u32 e bs;
  if hdr =? RAW_DATA_INDEX_NO_DATA then Ok (INoData, r0)
  else if hdr =? RAW_DATA_INDEX_MATCHES_PREVIOUS then Ok (IMatchPrev, r0)
  else if (hdr =? FORMAT_CHANGING_SCALER) || (hdr =? DIGITAL_LINE_SCALER) then
    do '(dt, r1) <- get_u32 e r0;
    do '(dim, r2) <- get_u32 e r1;
    do '(n, r3) <- get_u64 e r2;
    do '(ns, r4) <- get_u32 e r3;
    do '(scalers, r5) <- parse_n (parse_scaler e hdr) ns r4;
    do '(nw, r6) <- get_u32 e r5;
    do '(widths, r7) <- parse_n (get_u32 e) nw r6;
    Ok (IDaqmx hdr dt dim n scalers widths, r7)
  else
    do '(dt, r1) <- get_u32 e r0;
    do '(dim, r2) <- get_u32 e r1;
    do '(n, r3) <- get_u64 e r2;
    if dt =? T_STRING then
      do '(t, r4) <- get_u64 e r3; Ok (IFull hdr dt dim n (Some t), r4)
    else Ok (IFull hdr dt dim n None, r3).

Definition parse_props (e : endian) (bs : bytes) : res (list prop * bytes) :=
  do '(n, r) <- get_u32 e bs; parse_n (parse_prop e) n r.

Definition parse_leadin (bs28 : bytes) : res leadin :=
  do '(tag, r0) <- get_exact 4 bs28;
  do '(toc, r1) <- get_u32 LE r0;
  let e := toc_endian toc in
  do '(vb, r2) <- get_exact 4 r1;
  do '(nxt, r3) <- get_u64 e r2;
  do '(raw, r4) <- get_u64 e r3;
  Ok (mkLeadin tag toc (s_dec e vb) nxt raw).

(* one object of read_segment_objects' loop: path, raw data index, properties *)
Definition parse_entry (e : endian) (bs : bytes) : res (entry * bytes) :=
  do '(path, r1) <- get_string e bs;
  do '(i, r2) <- parse_idx e r1;
  do '(ps, r3) <- parse_props e r2;
  Ok (mkEntry path i ps, r3).

Definition parse_metadata (e : endian) (bs : bytes) : res (list entry * bytes) :=
  do '(n, r) <- get_u32 e bs; parse_n (parse_entry e) n r.
