(* C19, byte level: the exact ordered list of READS (position, bytes returned) that a
   lazy window read / integer index issues on the stream, computed from the reader
   state of the metadata pass (Model/Reader.v rd_metadata, with segment indexes as
   TdmsFile.open builds them) -- no raw data is decoded.

   Mirrors, function by function (Python quoted in the comments):
     nptdms/reader.py       TdmsReader.read_raw_data_for_channel (the loop; the chunk
                            arithmetic is LazyRead.seg_chunk_range, reused unchanged),
                            _verify_segment_start, read_channel_chunk_for_index
     nptdms/tdms_segment.py TdmsSegment.read_raw_data_for_channel, _read_channel_data_chunks,
                            ContiguousDataReader._read_channel_data_chunk,
                            _get_channel_number_values (Layout.chunk_nvals),
                            InterleavedDataReader.read_channel_data_chunks / read_data_chunks /
                            _read_interleaved_chunks, TdmsSegmentObject.read_values
     nptdms/base_segment.py fromfile, read_interleaved_segment_bytes,
                            BaseDataReader.read_channel_data_chunks / _read_channel_data_chunk
     nptdms/daqmx.py        DaqmxDataReader._read_data_chunk (the reads only)
     nptdms/types.py        String.read_values (see below)

   A read is logged as the recording stream of the harness logs it: the position of the
   stream before the call and the number of bytes RETURNED (file.read(n) and
   file.readinto(buf) on an unbuffered in-memory stream return min(n, bytes left)).  Seeks are
   not reads and are not listed; they only determine the positions.

   base_segment.fromfile loops `readinto(buffer[offset:])` until a call returns 0, so every
   array read of N bytes appears as (p, k) followed by the terminating (p + k, 0), k = bytes
   available (a request for 0 bytes is the single entry (p, 0)).  These zero-length entries
   are part of the model.

   Strings (String.read_values): the implementation issues n reads of 4 bytes (the end
   offsets) followed by n reads of the string bodies, back to back.  Their sizes depend on the
   DATA; the model uses the DECLARED size and lists the whole block as ONE read
   (position, so_dsize).  For string channels the comparison with the implementation is
   therefore made after merging adjacent reads on both sides ([norm_reads]). *)
From Coq Require Import List ZArith Bool.
From Coq Require Import Init.Byte.
Import ListNotations.
From NpTdms Require Import Base.Bytes Base.Res Base.PySlice Gen.PySlice_gen Model.Tokens Model.SegState
     Model.Layout Model.Reader Model.LazyRead Model.LazyBytes.
Local Open Scope Z_scope.

(* one read of the stream: (position before the call, bytes returned) *)
Definition rd := (Z * Z)%type.

(* bytes a read of [n] bytes at position [p] returns on a stream of [fsz] bytes *)
Definition avail (fsz p n : Z) : Z := Z.max 0 (Z.min n (fsz - p)).

(* def fromfile(file, dtype, count):
       itemsize = np.dtype(dtype).itemsize
       buffer = np.zeros(count * itemsize, np.uint8)          <- negative size: ValueError
       bytes_read = -1; offset = 0
       while bytes_read != 0:
           bytes_read = file.readinto(buffer[offset:])
           offset += bytes_read
   [n] = count * itemsize.  Result: the reads and the position of the stream afterwards. *)
Definition fromfile_reads (fsz p n : Z) : res (list rd * Z) :=
  if n <? 0 then Err EValue
  else
    let k := avail fsz p n in
    if k =? 0 then Ok ([(p, 0)], p) else Ok ([(p, k); (p + k, 0)], p + k).

(* TdmsSegmentObject.read_values(file, number_values, endianness) at position [p]:
       if self.data_type.nptype is not None:
           return fromfile(file, dtype=dtype, count=number_values)
       elif self.data_type.size is not None:
           byte_data = fromfile(file, dtype=np.dtype('uint8'), count=number_values * self.data_type.size)
       else:
           return self.data_type.read_values(file, number_values, endianness)
   (both fromfile branches ask for number_values * size bytes).
   String.read_values: for i in range(n): offsets.append(Uint32.read(file)); then
   for i in range(n): file.read(offsets[i + 1] - offsets[i]) -- listed as one block of the
   DECLARED size; a string object is only ever read whole or not at all (a truncated final
   chunk of a segment with strings holds no value of any channel). *)
Definition read_values_reads (fsz : Z) (o : sobj) (nv p : Z) : res (list rd) :=
  match so_dtype o with
  | None => Err EOther
  | Some dt =>
    match tds_size dt with
    | None => Err EKey
    | Some (Some sz) => do '(l, _) <- fromfile_reads fsz p (nv * sz); Ok l
    | Some None =>
      if negb (dt =? T_STRING) then Err ENotImpl
      else if nv =? 0 then Ok []
      else if nv =? so_nvals o then Ok [(p, avail fsz p (so_dsize o))]
      else Err EOther
    end
  end.

(* ContiguousDataReader._read_channel_data_chunk(file, data_objects, chunk_index, channel_path):
       channel_data = RawChannelDataChunk.empty()
       current_position = file.tell()
       for obj in data_objects:
           number_values = self._get_channel_number_values(obj, chunk_index)
           if obj.path == channel_path:
               file.seek(current_position)
               channel_data = ...obj.read_values(file, number_values, self.endianness)
               current_position = file.tell()
               break
           elif number_values == obj.number_values:
               current_position += obj.data_size
           elif obj.data_type.size is not None:
               current_position += obj.data_type.size * number_values
           elif number_values == 0:
               pass
           else:
               raise Exception("Cannot skip over channel with unsized type in a truncated segment")
   Result of the walk: the object to read, its number of values in this chunk and the
   position it is read at; None when no data object has the path. *)
Fixpoint contig_seek (path : bytes) (objs : list sobj) (ci nchunks : Z) (final : option (alist Z))
         (cur : Z) : res (option (sobj * Z * Z)) :=
  match objs with
  | [] => Ok None
  | o :: r =>
    let nv := chunk_nvals o ci nchunks final in
    if bytes_eqb (so_path o) path then Ok (Some (o, nv, cur))
    else if nv =? so_nvals o then contig_seek path r ci nchunks final (cur + so_dsize o)
    else match so_dtype o with
         | None => Err EOther
         | Some dt =>
           match tds_size dt with
           | None => Err EKey
           | Some (Some sz) => contig_seek path r ci nchunks final (cur + sz * nv)
           | Some None => if nv =? 0 then contig_seek path r ci nchunks final cur else Err EOther
           end
         end
  end.

Definition contig_chunk_reads (fsz : Z) (path : bytes) (dobjs : list sobj) (nchunks : Z)
           (final : option (alist Z)) (ci p : Z) : res (list rd) :=
  do f <- contig_seek path dobjs ci nchunks final p;
  match f with
  | None => Ok []
  | Some (o, nv, cur) => read_values_reads fsz o nv cur
  end.

(* DaqmxDataReader._read_data_chunk (through BaseDataReader._read_channel_data_chunk: the
   whole chunk is read, the channel selected afterwards):
       for (raw_buffer_index, buffer_shape) in enumerate(get_buffer_dimensions(data_objects)):
           (chunk_size, raw_data_width) = buffer_shape
           combined_data = read_interleaved_segment_bytes(file, raw_data_width, chunk_size)
   read_interleaved_segment_bytes(f, bytes_per_row, num_values):
       number_bytes = bytes_per_row * num_values
       combined_data = fromfile(f, dtype=np.uint8, count=number_bytes)
   The buffers are read one after another from wherever the previous read stopped. *)
Fixpoint daqmx_chunk_reads (fsz : Z) (dims : list (Z * Z)) (cur : Z) : res (list rd) :=
  match dims with
  | [] => Ok []
  | (n, w) :: r =>
    do '(l, cur1) <- fromfile_reads fsz cur (w * n);
    do l' <- daqmx_chunk_reads fsz r cur1;
    Ok (l ++ l')
  end.

(* TdmsSegment._read_channel_data_chunks:
       initial_position = file.tell()
       for i, chunk in enumerate(reader.read_channel_data_chunks(file, data_objects, channel_path,
                                                                 chunk_offset, stop_chunk)):
           yield chunk
           file.seek(initial_position + (i + 1) * chunk_size)
   BaseDataReader.read_channel_data_chunks (contiguous, DAQmx):
       for chunk_index in range(chunk_offset, stop_chunk):
           yield self._read_channel_data_chunk(file, data_objects, chunk_index, channel_path)
   so the i-th chunk of the range is read with the stream at initial_position + i * chunk_size. *)
Fixpoint chunks_reads (read1 : Z -> Z -> res (list rd)) (cis : list Z) (p csize : Z) : res (list rd) :=
  match cis with
  | [] => Ok []
  | ci :: r =>
    do l <- read1 ci p;
    do l' <- chunks_reads read1 r (p + csize) csize;
    Ok (l ++ l')
  end.

(* InterleavedDataReader.read_channel_data_chunks(file, data_objects, channel_path, chunk_offset, stop_chunk):
       num_chunks = stop_chunk - chunk_offset
       all_chunks = self.read_data_chunks(file, data_objects, num_chunks)
   read_data_chunks:
       if len(data_objects) == 0: return []
       same_length = (len(set((o.number_values for o in data_objects))) == 1)
       if not same_length: raise ValueError(...)
       return [self._read_interleaved_chunks(file, data_objects, num_chunks)]
   _read_interleaved_chunks:
       total_data_width = sum(o.data_type.size for o in data_objects)
       combined_data = read_interleaved_segment_bytes(
           file, total_data_width, data_objects[0].number_values * num_chunks)
   ONE read for all the requested chunks. *)
Definition interleaved_reads (fsz : Z) (dobjs : list sobj) (num_chunks p : Z) : res (list rd) :=
  match dobjs with
  | [] => Ok []
  | o0 :: _ =>
    if negb (forallb (fun o => so_nvals o =? so_nvals o0) dobjs) then Err EValue
    else
      let width := zsum (map (fun o => match sized o with Some s => s | None => 0 end) dobjs) in
      do '(l, _) <- fromfile_reads fsz p (width * (so_nvals o0 * num_chunks));
      Ok l
  end.

(* TdmsSegment.read_raw_data_for_channel(f, channel_path, chunk_offset, num_chunks):
       if not self.toc_mask & toc_properties['kTocRawData']:
           yield RawChannelDataChunk.empty()                  (no read; the loop goes on)
       f.seek(self.data_position)
       chunk_size = self._get_chunk_size()
       chunk_offset = int(chunk_offset)
       if chunk_offset > 0:
           f.seek(chunk_size * chunk_offset, os.SEEK_CUR)
       stop_chunk = self.num_chunks if num_chunks is None else num_chunks + chunk_offset
       for chunk in self._read_channel_data_chunks(f, self._get_data_objects(), channel_path,
                                                   chunk_offset, stop_chunk, chunk_size): yield chunk *)
Definition seg_reads (fsz : Z) (path : bytes) (g : segment) (chunk_offset num_chunks : Z)
  : res (list rd) :=
  do csize <- chunk_size (sg_objs g);
  let p0 := sg_data g + (if 0 <? chunk_offset then csize * chunk_offset else 0) in
  let stop_chunk := num_chunks + chunk_offset in
  let dobjs := data_objs (sg_objs g) in
  do lay <- seg_layout g;
  match lay with
  | LDaqmx =>
    do dims <- buffer_dims dobjs;
    chunks_reads (fun _ p => daqmx_chunk_reads fsz dims p) (zrange chunk_offset stop_chunk) p0 csize
  | LInterleaved => interleaved_reads fsz dobjs (stop_chunk - chunk_offset) p0
  | LContig =>
    chunks_reads (contig_chunk_reads fsz path dobjs (sg_nchunks g) (sg_final g))
                 (zrange chunk_offset stop_chunk) p0 csize
  end.

(* reader._verify_segment_start(segment):
       self._file.seek(segment.position)
       tag = self._file.read(4)
       if tag != b'TDSm': raise ValueError(...) *)
Definition tag_read (data : bytes) (g : segment) : res rd :=
  let t := read_at (sg_pos g) 4 data in
  if bytes_eqb t TAG_DATA then Ok (sg_pos g, blen t) else Err EValue.

(* ---- the channel as the reader's index sees it, from metadata only -------------- *)

(* chunk_size of the loop:
       segment_obj = segment.get_segment_object(channel_path)
       chunk_size = 0 if (segment_obj is None or not segment_obj.has_data) else segment_obj.number_values *)
Definition chan_chunk (path : bytes) (g : segment) : Z :=
  match segment_object g path with
  | Some o => if so_has_data o then so_nvals o else 0
  | None => 0
  end.

(* segment.final_chunk_lengths_override.get(channel_path, 0) *)
Definition chan_final (path : bytes) (g : segment) : option Z :=
  match sg_final g with
  | Some f => Some (match alookup path f with Some v => v | None => 0 end)
  | None => None
  end.

(* the SHAPE of the chunk list (how many values each chunk holds); the values themselves
   are irrelevant to which bytes are read *)
Definition shape_vals (chunk nchunks : Z) (final : option Z) : list (list unit) :=
  match final with
  | None => repeat (repeat tt (Z.to_nat chunk)) (Z.to_nat nchunks)
  | Some f => repeat (repeat tt (Z.to_nat chunk)) (Z.to_nat (nchunks - 1)) ++ [repeat tt (Z.to_nat f)]
  end.

(* the per-channel view of LazyRead.v (as LazyBytes.segv_of builds it) without the data.
   A segment in which the channel has no data (chunk = 0) is skipped by every loop; its
   final-chunk entry is never consulted and is left out. *)
Definition meta_segv (path : bytes) (g : segment) : res (segv unit) :=
  let chunk := chan_chunk path g in
  if chunk =? 0 then Ok (mk_segv 0 (sg_nchunks g) None false (shape_vals 0 (sg_nchunks g) None))
  else
    do lay <- seg_layout g;
    let il := match lay with LContig => false | _ => true end in
    Ok (mk_segv chunk (sg_nchunks g) (chan_final path g) il
                (shape_vals chunk (sg_nchunks g) (chan_final path g))).

Definition meta_views (st : rstate) (path : bytes) : res (list (segv unit)) :=
  mapM (meta_segv path) (rs_segments st).

(* ---- reader.read_raw_data_for_channel: the loop ------------------------------------ *)

(* for segment_index, segment in enumerate(self._segments[start_segment:end_segment + 1], start_segment):
       self._verify_segment_start(segment)
       ...
       chunk_size = 0 if (segment_obj is None or not segment_obj.has_data) else segment_obj.number_values
       if chunk_size == 0:
           continue
       ...  (LazyRead.seg_chunk_range: chunk_offset, num_chunks)
       for i, chunk in enumerate(segment.read_raw_data_for_channel(self._file, channel_path,
                                                                   chunk_offset, num_chunks)): ... *)
Fixpoint lzr_loop (data path : bytes) (first_segment : Z) (segment_offsets : list Z)
         (start_segment end_segment offset end_index : Z)
         (segments : list (segment * segv unit)) (segment_index : Z) : res (list rd) :=
  match segments with
  | [] => Ok []
  | (g, sv) :: rest =>
    do tag <- tag_read data g;
    if sv_chunk sv =? 0 then
      do r <- lzr_loop data path first_segment segment_offsets start_segment end_segment offset end_index
                       rest (segment_index + 1);
      Ok (tag :: r)
    else
      do '(chunk_offset, num_chunks, _) <-
         seg_chunk_range unit true first_segment segment_offsets start_segment end_segment
                         offset end_index segment_index sv;
      do rs <- seg_reads (blen data) path g chunk_offset num_chunks;
      do r <- lzr_loop data path first_segment segment_offsets start_segment end_segment offset end_index
                       rest (segment_index + 1);
      Ok (tag :: rs ++ r)
  end.

(* channel.read_data(offset, length) on a lazily opened file: TdmsChannel._read_channel_data
   (argument checks) and TdmsReader.read_raw_data_for_channel (index lookup as LazyRead.lz_gen) *)
Definition lz_ranges (st : rstate) (data path : bytes) (offset : Z) (length : option Z) : res (list rd) :=
  if offset <? 0 then Err EValue
  else if (match length with Some l => l <? 0 | None => false end) then Err EValue
  else
    do views <- meta_views st path;
    let '(first_segment, segment_offsets) := build_index unit views in
    let max_length_from_offset := total_values unit views - offset in
    let length := match length with
                  | None => max_length_from_offset
                  | Some l => Z.min l max_length_from_offset
                  end in
    let end_index := offset + length in
    let start_segment := first_segment + searchsorted_right segment_offsets offset in
    let end_segment := first_segment + searchsorted_left segment_offsets end_index in
    lzr_loop data path first_segment segment_offsets start_segment end_segment offset end_index
             (py_slice (combine (rs_segments st) views) start_segment (end_segment + 1)) start_segment.

(* the same plan as LazyRead.lz_plan, on the metadata view *)
Definition lz_plan_meta (st : rstate) (path : bytes) (offset : Z) (length : option Z) : res (list (Z * Z)) :=
  do views <- meta_views st path; lz_plan unit views offset length.

(* ---- channel[i] ----------------------------------------------------------------------- *)

(* TdmsReader.read_channel_chunk_for_index, after the arithmetic of LazyRead.read_chunk_for_index
   has chosen (segment, chunk_index):
       self._verify_segment_start(segment)
       chunk_data = next(segment.read_raw_data_for_channel(self._file, channel_path, chunk_index, 1))
   next() runs the generator up to its first yield: for a segment without kTocRawData that is
   the empty chunk yielded before anything is read. *)
Definition fetch_reads (st : rstate) (data path : bytes) (jc : Z * Z) : res (list rd) :=
  match nth_error (rs_segments st) (Z.to_nat (fst jc)) with
  | None => Err EIndex
  | Some g =>
    do tag <- tag_read data g;
    if negb (toc_has (sg_toc g) TOC_RAW) then Ok [tag]
    else do rs <- seg_reads (blen data) path g (snd jc) 1; Ok (tag :: rs)
  end.

Fixpoint fetches_reads (st : rstate) (data path : bytes) (l : list (Z * Z)) : res (list rd) :=
  match l with
  | [] => Ok []
  | jc :: r => do a <- fetch_reads st data path jc; do b <- fetches_reads st data path r; Ok (a ++ b)
  end.

(* TdmsChannel._read_at_index with the one-chunk cache (LazyRead.read_at_index on the
   metadata view): the reads of one channel[i] and the new cache *)
Definition lz_index_ranges (st : rstate) (data path : bytes) (views : list (segv unit))
           (c : cache unit) (i : Z) : res (list rd * cache unit) :=
  do '(_, c', fetched) <- read_at_index unit views c i;
  do rs <- fetches_reads st data path fetched;
  Ok (rs, c').

(* ---- what the theorems of Props/C19_bytes.v talk about ---------------------------- *)

(* bytes the data object [o] occupies in chunk [ci] of its segment (contiguous layout) *)
Definition obj_chunk_bytes (o : sobj) (ci nchunks : Z) (final : option (alist Z)) : Z :=
  let nv := chunk_nvals o ci nchunks final in
  if nv =? so_nvals o then so_dsize o
  else match sized o with Some sz => sz * nv | None => 0 end.

(* offset, inside chunk [ci], of the bytes of the first data object named [path], and
   their number *)
Fixpoint chan_extent (path : bytes) (objs : list sobj) (ci nchunks : Z) (final : option (alist Z))
         (before : Z) : option (Z * Z) :=
  match objs with
  | [] => None
  | o :: r =>
    if bytes_eqb (so_path o) path then Some (before, obj_chunk_bytes o ci nchunks final)
    else chan_extent path r ci nchunks final (before + obj_chunk_bytes o ci nchunks final)
  end.

(* the byte interval [lo, hi) a lazy read of [path] may fetch from chunk [c] of segment [g]:
   contiguous layout -- the channel's own bytes in that chunk; interleaved / DAQmx -- the chunk *)
Definition chunk_window (path : bytes) (g : segment) (c : Z) : option (Z * Z) :=
  match chunk_size (sg_objs g), seg_layout g with
  | Ok csize, Ok LContig =>
    match chan_extent path (data_objs (sg_objs g)) c (sg_nchunks g) (sg_final g) 0 with
    | Some (before, size) => Some (sg_data g + c * csize + before, sg_data g + c * csize + before + size)
    | None => None
    end
  | Ok csize, Ok _ => Some (sg_data g + c * csize, sg_data g + c * csize + csize)
  | _, _ => None
  end.

(* byte [b] belongs to the window of planned chunk (j, c) *)
Definition in_chunk_window (st : rstate) (path : bytes) (jc : Z * Z) (b : Z) : Prop :=
  exists g lo hi, nth_error (rs_segments st) (Z.to_nat (fst jc)) = Some g /\
                  chunk_window path g (snd jc) = Some (lo, hi) /\ lo <= b < hi.

(* the bytes one planned chunk may cost *)
Definition chunk_cost (st : rstate) (path : bytes) (jc : Z * Z) : Z :=
  match nth_error (rs_segments st) (Z.to_nat (fst jc)) with
  | Some g => match chunk_window path g (snd jc) with Some (lo, hi) => hi - lo | None => 0 end
  | None => 0
  end.

Definition total_bytes (rs : list rd) : Z := zsum (map snd rs).

(* ---- structural invariants of the state the metadata pass leaves ------------------- *)

Definition final_value (final : option (alist Z)) (o : sobj) : Z :=
  match final with
  | Some f => match alookup (so_path o) f with Some v => v | None => 0 end
  | None => so_nvals o
  end.

(* a data object of a non-DAQmx segment: counts are non-negative, a sized type's data_size
   is number_values * size (TdmsSegmentObject.read_raw_data_index), the final-chunk length
   is between 0 and number_values, and 0 or all for a string object *)
Definition obj_inv (final : option (alist Z)) (o : sobj) : bool :=
  (0 <=? so_nvals o) && (0 <=? so_dsize o) &&
  match so_dtype o with
  | None => false
  | Some dt =>
    match tds_size dt with
    | Some (Some sz) => (0 <=? sz) && (so_dsize o =? so_nvals o * sz) &&
                        (0 <=? final_value final o) && (final_value final o <=? so_nvals o)
    | Some None => (dt =? T_STRING) &&
                   ((final_value final o =? 0) || (final_value final o =? so_nvals o))
    | None => false
    end
  end.

Definition is_sized (o : sobj) : bool := match sized o with Some _ => true | None => false end.

(* what the layout of a segment with raw data must satisfy (independent of the channel) *)
Definition layout_inv (g : segment) : bool :=
  match chunk_size (sg_objs g), seg_layout g with
  | Ok csize, Ok LContig => forallb (obj_inv (sg_final g)) (data_objs (sg_objs g))
  | Ok csize, Ok LInterleaved =>
    forallb (fun o => obj_inv None o && is_sized o) (data_objs (sg_objs g)) &&
    match data_objs (sg_objs g) with
    | [] => true
    | o0 :: _ => forallb (fun o => so_nvals o =? so_nvals o0) (data_objs (sg_objs g))
    end
  | Ok csize, Ok LDaqmx =>
    match buffer_dims (data_objs (sg_objs g)) with
    | Ok dims => forallb (fun d => 0 <=? snd d * fst d) dims
    | Err _ => false
    end
  | _, _ => false
  end.

(* the channel's final-chunk length is between 0 and its chunk length, and a segment with
   a truncated final chunk has at least that chunk *)
Definition final_inv (path : bytes) (g : segment) : bool :=
  match chan_final path g with
  | None => true
  | Some f => (1 <=? sg_nchunks g) && (0 <=? f) && (f <=? chan_chunk path g)
  end.

(* per segment: the lead-in tag is where the metadata pass found it; counts are
   non-negative; where the channel has data the layout is readable *)
Definition seg_inv (data path : bytes) (g : segment) : bool :=
  bytes_eqb (read_at (sg_pos g) 4 data) TAG_DATA &&
  (0 <=? sg_nchunks g) && (0 <=? chan_chunk path g) &&
  (if chan_chunk path g =? 0 then true else final_inv path g && layout_inv g).

Definition ranges_inv (st : rstate) (data path : bytes) : bool :=
  forallb (seg_inv data path) (rs_segments st).

(* ---- on the bytes of a file; agreement with the recording stream ------------------- *)

Definition chan_dtype (st : rstate) (path : bytes) : option Z :=
  match alookup path (rs_om st) with Some m => om_dtype m | None => None end.

Definition open_state (data : bytes) : res rstate := rd_metadata data false (Some (blen data)) true.

(* TdmsChannel._read_channel_data: `if self.data_type is None: return None` before any read *)
Definition lz_ranges_bytes (data path : bytes) (offs : Z) (len : option Z) : res (list rd) :=
  do st <- open_state data;
  match chan_dtype st path with
  | None => if (offs <? 0) || (match len with Some l => l <? 0 | None => false end) then Err EValue else Ok []
  | Some _ => lz_ranges st data path offs len
  end.

(* zero-length reads dropped, adjacent reads merged *)
Fixpoint merge_reads (l : list rd) : list rd :=
  match l with
  | [] => []
  | (p, n) :: r =>
    match merge_reads r with
    | (p', n') :: r' => if p + n =? p' then (p, n + n') :: r' else (p, n) :: (p', n') :: r'
    | [] => [(p, n)]
    end
  end.

Definition norm_reads (l : list rd) : list rd := merge_reads (filter (fun x => negb (snd x =? 0)) l).

Fixpoint reads_eqb (a b : list rd) : bool :=
  match a, b with
  | [], [] => true
  | (p, n) :: a', (q, m) :: b' => (p =? q) && (n =? m) && reads_eqb a' b'
  | _, _ => false
  end.

(* exact equality of the read lists; for a string channel after norm_reads on both sides *)
Definition reads_agree (is_string : bool) (model observed : list rd) : bool :=
  if is_string then reads_eqb (norm_reads model) (norm_reads observed) else reads_eqb model observed.

Definition is_string_chan (st : rstate) (path : bytes) : bool :=
  match chan_dtype st path with Some t => t =? T_STRING | None => false end.

(* windows: (offset, length, reads observed on the recording stream) *)
Definition agree_windows (st : rstate) (data path : bytes) (ws : list (Z * option Z * list rd)) : bool :=
  forallb (fun w => let '(offs, len, obs) := w in
                    match lz_ranges st data path offs len with
                    | Ok rs => reads_agree (is_string_chan st path) rs obs
                    | Err _ => false
                    end) ws.

(* a sequence of channel[i] on one channel object: (i, Some reads) or (i, None) = IndexError *)
Fixpoint agree_index_seq (st : rstate) (data path : bytes) (views : list (segv unit)) (c : cache unit)
         (steps : list (Z * option (list rd))) : bool :=
  match steps with
  | [] => true
  | (i, o) :: r =>
    match lz_index_ranges st data path views c i, o with
    | Ok (rs, c'), Some obs => reads_agree (is_string_chan st path) rs obs &&
                               agree_index_seq st data path views c' r
    | Err EIndex, None => agree_index_seq st data path views c r
    | _, _ => false
    end
  end.

(* channel[start:stop:step]: the translated TdmsChannel._read_slice (Gen/PySlice_gen.v) turns
   the request into at most one read_data(a, b); (start, stop, step, observed reads, or None
   when the implementation raised ValueError) *)
Definition lz_slice_ranges (st : rstate) (data path : bytes) (views : list (segv unit))
           (start stop step : option Z) : res (list rd) :=
  do p <- read_slice_gen (total_values unit views) start stop step;
  match p with
  | PEmpty => Ok []
  | PRead a b _ => lz_ranges st data path a (Some b)
  end.

Definition agree_slices (st : rstate) (data path : bytes) (views : list (segv unit))
           (ss : list (option Z * option Z * option Z * option (list rd))) : bool :=
  forallb (fun w => let '(start, stop, step, o) := w in
                    match lz_slice_ranges st data path views start stop step, o with
                    | Ok rs, Some obs => reads_agree (is_string_chan st path) rs obs
                    | Err EValue, None => true
                    | _, _ => false
                    end) ss.

(* one file: per channel (path, windows, slices, index steps).  The state must satisfy the
   structural invariants the theorems assume, so every generated file also tests that the
   metadata pass establishes them. *)
Definition chan_case := (bytes * list (Z * option Z * list rd) *
                         list (option Z * option Z * option Z * option (list rd)) *
                         list (Z * option (list rd)))%type.

Definition agree_chan (st : rstate) (data : bytes) (ch : chan_case) : bool :=
  let '(path, ws, ss, steps) := ch in
  match chan_dtype st path with
  | None => false
  | Some _ =>
    ranges_inv st data path &&
    agree_windows st data path ws &&
    match meta_views st path with
    | Ok views => agree_slices st data path views ss && agree_index_seq st data path views None steps
    | Err _ => false
    end
  end.

(* diagnosis of a disagreeing case (harness only): per window, per slice, index sequence, invariant *)
Definition diagnose_file (c : bytes * list chan_case) : list (list bool * list bool * bool * bool) :=
  let '(data, chans) := c in
  match open_state data with
  | Err _ => []
  | Ok st =>
    map (fun ch : chan_case =>
           let '(path, ws, ss, steps) := ch in
           (map (fun w => agree_windows st data path [w]) ws,
            match meta_views st path with
            | Ok views => map (fun x => agree_slices st data path views [x]) ss
            | Err _ => []
            end,
            match meta_views st path with
            | Ok views => agree_index_seq st data path views None steps
            | Err _ => false
            end,
            ranges_inv st data path)) chans
  end.

Definition agree_file (c : bytes * list chan_case) : bool :=
  let '(data, chans) := c in
  match open_state data with
  | Err _ => false
  | Ok st => forallb (agree_chan st data) chans
  end.
