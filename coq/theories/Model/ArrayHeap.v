(* Arrays with identity, for the purity clause of C13 ("never modifies the raw data it
   reads").  A heap of buffers; NumPy calls either allocate a fresh buffer, alias an
   existing one (astype(copy=False) on an array that already has the target dtype,
   plain assignment) or write into an existing one (op=, out=, item assignment).

   Each scaling's `scale` method (nptdms/scaling.py, after fix D8) is transcribed
   statement by statement as a short program.  Buffer contents and the meaning of the
   NumPy operations are abstract (Section variables): purity must hold whatever the
   operations compute.  No proofs in this file (Proofs/HeapProofs.v). *)
From Coq Require Import Arith List Bool.
Import ListNotations.
From NpTdms Require Import Gen.NumpyPromote.

Definition var := nat.
Definition opname := nat.           (* which NumPy operation: only a label *)

Inductive stmt :=
| Astype (dst src : var) (target : dtype) (copy : bool)   (* dst = src.astype(target, copy=copy) *)
| Copy (dst src : var)                                    (* dst = src.copy() *)
| New (dst : var) (op : opname) (args : list var) (dt : dtype)
                                                          (* dst = f(args): returns a new array *)
| Alias (dst src : var)                                   (* dst = src *)
| InPlace (tgt : var) (op : opname) (args : list var).    (* tgt op= ..; np.f(.., out=tgt); tgt[i] = .. *)

Record prog := { body : list stmt; ret : var }.

Section Heap.
  Variable C : Type.                          (* contents of a buffer *)
  Variable opsem : opname -> list C -> C.     (* what an operation computes from what it reads *)

  Record buffer := { bdt : dtype; bval : C }.
  Record heap := { next : nat; mem : nat -> option buffer }.
  Definition env := list (var * nat).         (* local variables -> buffer ids *)

  Fixpoint lookup (e : env) (x : var) : option nat :=
    match e with
    | [] => None
    | (y, i) :: r => if Nat.eqb x y then Some i else lookup r x
    end.

  Definition alloc (h : heap) (b : buffer) : heap * nat :=
    ({| next := S (next h); mem := fun i => if Nat.eqb i (next h) then Some b else mem h i |}, next h).

  Definition write (h : heap) (i : nat) (b : buffer) : heap :=
    {| next := next h; mem := fun j => if Nat.eqb j i then Some b else mem h j |}.

  Definition get (h : heap) (e : env) (x : var) : option (nat * buffer) :=
    match lookup e x with
    | None => None
    | Some i => match mem h i with Some b => Some (i, b) | None => None end
    end.

  Fixpoint get_all (h : heap) (e : env) (xs : list var) : option (list C) :=
    match xs with
    | [] => Some []
    | x :: r =>
        match get h e x, get_all h e r with
        | Some (_, b), Some cs => Some (bval b :: cs)
        | _, _ => None
        end
    end.

  Definition CAST : opname := 0.

  Definition exec_stmt (s : stmt) (st : heap * env) : option (heap * env) :=
    let (h, e) := st in
    match s with
    | Astype dst src target copy =>
        match get h e src with
        | None => None
        | Some (i, b) =>
            if negb copy && dtype_eqb (bdt b) target
            then Some (h, (dst, i) :: e)                  (* same array returned *)
            else let (h', j) := alloc h {| bdt := target; bval := opsem CAST [bval b] |} in
                 Some (h', (dst, j) :: e)
        end
    | Copy dst src =>
        match get h e src with
        | None => None
        | Some (_, b) => let (h', j) := alloc h b in Some (h', (dst, j) :: e)
        end
    | New dst op args dt =>
        match get_all h e args with
        | None => None
        | Some cs => let (h', j) := alloc h {| bdt := dt; bval := opsem op cs |} in
                     Some (h', (dst, j) :: e)
        end
    | Alias dst src =>
        match lookup e src with
        | None => None
        | Some i => Some (h, (dst, i) :: e)
        end
    | InPlace tgt op args =>
        match get h e tgt, get_all h e args with
        | Some (i, b), Some cs =>
            Some (write h i {| bdt := bdt b; bval := opsem op (bval b :: cs) |}, e)
        | _, _ => None
        end
    end.

  Fixpoint exec_body (ss : list stmt) (st : heap * env) : option (heap * env) :=
    match ss with
    | [] => Some st
    | s :: r => match exec_stmt s st with None => None | Some st' => exec_body r st' end
    end.

  (* the arguments of scale(...) are bound to variables 0, 1, ... *)
  Definition init_env (inputs : list nat) : env := combine (seq 0 (List.length inputs)) inputs.

  (* run a scale method on the given input arrays: final heap and the id of the result *)
  Definition exec (p : prog) (inputs : list nat) (h : heap) : option (heap * nat) :=
    match exec_body (body p) (h, init_env inputs) with
    | None => None
    | Some (h', e) => match lookup e (ret p) with Some i => Some (h', i) | None => None end
    end.
End Heap.

Arguments bdt {C} b.
Arguments bval {C} b.
Arguments next {C} h.
Arguments mem {C} h i.

(* ---- static check: no in-place operation can reach a caller's buffer --------------- *)
(* abstract environment: variable -> "may denote a buffer that existed before the call" *)
Definition aenv := list (var * bool).

Fixpoint alookup (a : aenv) (x : var) : option bool :=
  match a with
  | [] => None
  | (y, b) :: r => if Nat.eqb x y then Some b else alookup r x
  end.

Definition safe_stmt (s : stmt) (a : aenv) : option aenv :=
  match s with
  | Astype dst src _ copy =>
      match alookup a src with
      | None => None
      | Some o => Some ((dst, if copy then false else o) :: a)
      end
  | Copy dst src => match alookup a src with None => None | Some _ => Some ((dst, false) :: a) end
  | New dst _ args _ =>
      if forallb (fun x => match alookup a x with Some _ => true | None => false end) args
      then Some ((dst, false) :: a) else None
  | Alias dst src => match alookup a src with None => None | Some o => Some ((dst, o) :: a) end
  | InPlace tgt _ args =>
      match alookup a tgt with
      | Some false =>
          if forallb (fun x => match alookup a x with Some _ => true | None => false end) args
          then Some a else None
      | _ => None
      end
  end.

Fixpoint safe_body (ss : list stmt) (a : aenv) : bool :=
  match ss with
  | [] => true
  | s :: r => match safe_stmt s a with None => false | Some a' => safe_body r a' end
  end.

Definition safe (p : prog) (ninputs : nat) : bool :=
  safe_body (body p) (combine (seq 0 ninputs) (repeat true ninputs)).

(* ---- the scale methods ------------------------------------------------------------ *)

Inductive strain_shape :=
| StrainScale      (* FULL_BRIDGE_1, FULL_BRIDGE_2, HALF_BRIDGE_2:  strain *= c *)
| StrainTemp       (* FULL_BRIDGE_3, HALF_BRIDGE_1:  temp = voltage_out.copy() ... strain /= temp *)
| StrainQuarter.   (* QUARTER_BRIDGE_1/2:  *=, +=, reciprocal(out=), -=, *= *)

Inductive skind :=
| KLinear | KPolynomial (no_coefficients : bool) | KTable | KAdd | KSubtract | KNoOp | KDaqmx
| KStrain (sh : strain_shape) (initial_bridge_voltage_nonzero : bool)
| KThermistor (voltage_excitation : bool) (lead_adjust : bool)
| KRtd (lead_adjust : bool) (has_negative_temperatures : bool)
| KThermocouple (celsius_to_mv : bool).

Definition ninputs (k : skind) : nat := match k with KAdd | KSubtract => 2 | _ => 1 end.

(* labels only *)
Definition MUL := 1. Definition ADD := 2. Definition SUB := 3. Definition DIV := 4.
Definition POLYVAL := 5. Definition INTERP := 6. Definition ZEROS := 7. Definition RECIP := 8.
Definition LOG := 9. Definition SQRT := 10. Definition GE := 11. Definition SETITEM := 12.
Definition PIECEWISE := 13.

(* d = dtype of the (first) input array *)
Definition scale_prog (k : skind) (d : dtype) : prog :=
  match k with
  | KLinear =>
      (* data = data.astype(_double_precision_dtype(data.dtype), copy=False)
         return data * self.slope + self.intercept *)
      let w := if is_complexfloating d then Complex128 else Float64 in
      {| body := [Astype 10 0 w false; New 11 MUL [10] w; New 12 ADD [11] w]; ret := 12 |}
  | KPolynomial true =>
      (* return np.zeros(len(data), dtype=float64) *)
      {| body := [New 10 ZEROS [] Float64]; ret := 10 |}
  | KPolynomial false =>
      (* data = data.astype(float64, copy=False); return polyval(data, coefficients) *)
      {| body := [Astype 10 0 Float64 false; New 11 POLYVAL [10] Float64]; ret := 11 |}
  | KTable =>
      (* return np.interp(data, self.input_values, self.output_values) *)
      {| body := [New 10 INTERP [0] Float64]; ret := 10 |}
  | KAdd => {| body := [New 10 ADD [0; 1] d]; ret := 10 |}       (* left_data + right_data *)
  | KSubtract => {| body := [New 10 SUB [1; 0] d]; ret := 10 |}  (* right_data - left_data *)
  | KNoOp => {| body := []; ret := 0 |}                          (* return data *)
  | KDaqmx => {| body := []; ret := 0 |}                         (* return scaler_data[self.scale_id] *)
  | KStrain sh ibv =>
      (* voltage_out = data.astype(np.double)        -- copy=True is astype's default
         if self.initial_bridge_voltage != 0.0: voltage_out -= self.initial_bridge_voltage *)
      let pre := Astype 10 0 Float64 true :: (if ibv then [InPlace 10 SUB []] else []) in
      match sh with
      | StrainScale =>
          (* strain = voltage_out; strain *= (...); return strain *)
          {| body := pre ++ [Alias 11 10; InPlace 11 MUL []]; ret := 11 |}
      | StrainTemp =>
          (* temp = voltage_out.copy(); temp *= ..; temp += ..; strain = voltage_out; strain /= temp *)
          {| body := pre ++ [Copy 12 10; InPlace 12 MUL []; InPlace 12 ADD []; Alias 11 10;
                             InPlace 11 DIV [12]]; ret := 11 |}
      | StrainQuarter =>
          (* strain = voltage_out; strain *= ..; strain += 1.0; np.reciprocal(strain, out=strain);
             strain -= 1.0; strain *= .. *)
          {| body := pre ++ [Alias 11 10; InPlace 11 MUL []; InPlace 11 ADD []; InPlace 11 RECIP [11];
                             InPlace 11 SUB []; InPlace 11 MUL []]; ret := 11 |}
      end
  | KThermistor volt adj =>
      (* data = data.astype(float64, copy=False)
         r_t = data / self.excitation_value
           | self.r1_reference_resistance * np.reciprocal(self.excitation_value * np.reciprocal(data) - 1.0)
         r_t = _adjust_for_lead_resistance(r_t, ...)     -- r_t - c, or r_t itself
         return np.reciprocal(polyval(np.log(r_t), coefficients)) - self.temperature_offset *)
      {| body := Astype 10 0 Float64 false ::
                 (if volt
                  then [New 20 RECIP [10] Float64; New 21 MUL [20] Float64; New 22 SUB [21] Float64;
                        New 23 RECIP [22] Float64; New 11 MUL [23] Float64]
                  else [New 11 DIV [10] Float64]) ++
                 [if adj then New 12 SUB [11] Float64 else Alias 12 11;
                  New 13 LOG [12] Float64; New 14 POLYVAL [13] Float64; New 15 RECIP [14] Float64;
                  New 16 SUB [15] Float64];
         ret := 16 |}
  | KRtd adj neg =>
      (* data = data.astype(float64, copy=False)                       -- D8
         r_t = data / self.current_excitation
         r_t = _adjust_for_lead_resistance(r_t, ...)
         positive_temperature = r_t >= r_0
         temperature = (-a + np.sqrt(a ** 2 - 4.0 * b * (1.0 - r_t / r_0), where=positive_temperature)) / (2.0 * b)
         if not np.all(positive_temperature):
             for i in ...: temperature[i] = self._solve_quartic_form(r_t[i])
         return temperature *)
      {| body := [Astype 10 0 Float64 false; New 11 DIV [10] Float64;
                  if adj then New 12 SUB [11] Float64 else Alias 12 11;
                  New 13 GE [12] Bool;
                  New 14 DIV [12] Float64; New 15 SUB [14] Float64; New 16 MUL [15] Float64;
                  New 17 SUB [16] Float64; New 18 SQRT [17; 13] Float64; New 19 ADD [18] Float64;
                  New 20 DIV [19] Float64] ++
                 (if neg then [InPlace 20 SETITEM [12]] else []);
         ret := 20 |}
  | KThermocouple c2mv =>
      (* data = data.astype(float64, copy=False)                       -- D8
         if self.scaling_direction == 1: return 1000.0 * self.thermocouple.celsius_to_mv(data)
         else: milli_volts = data / 1000.0; return self.thermocouple.mv_to_celsius(milli_volts)
         (celsius_to_mv / mv_to_celsius: np.piecewise into an array of their own) *)
      {| body := Astype 10 0 Float64 false ::
                 (if c2mv then [New 11 PIECEWISE [10] Float64; New 12 MUL [11] Float64]
                  else [New 11 DIV [10] Float64; New 12 PIECEWISE [11] Float64]);
         ret := 12 |}
  end.

Definition all_skinds : list skind :=
  [KLinear; KPolynomial true; KPolynomial false; KTable; KAdd; KSubtract; KNoOp; KDaqmx] ++
  flat_map (fun sh => [KStrain sh true; KStrain sh false]) [StrainScale; StrainTemp; StrainQuarter] ++
  flat_map (fun v => [KThermistor v true; KThermistor v false]) [true; false] ++
  flat_map (fun a => [KRtd a true; KRtd a false]) [true; false] ++
  [KThermocouple true; KThermocouple false].

(* The in-place "optimisation" the property text warns about:
     data = data.astype(float64, copy=False); data *= slope; data += intercept; return data *)
Definition linear_inplace_prog : prog :=
  {| body := [Astype 10 0 Float64 false; InPlace 10 MUL []; InPlace 10 ADD []]; ret := 10 |}.

(* result shares its buffer with an input (np.shares_memory(out, input)), as predicted for
   input arrays of dtype d held in distinct buffers; compared with NumPy by harness/c13.py *)
Definition result_aliases_input (k : skind) (d : dtype) : option bool :=
  let h0 : heap unit :=
    {| next := 2; mem := fun i => if Nat.ltb i 2 then Some {| bdt := d; bval := tt |} else None |} in
  match exec unit (fun _ _ => tt) (scale_prog k d) (firstn (ninputs k) [0; 1]) h0 with
  | Some (_, out) => Some (Nat.ltb out 2)
  | None => None
  end.

(* case: (scale method, dtype of its input, observed np.shares_memory(result, input)) *)
Definition check_alias (c : skind * dtype * bool) : bool :=
  let '(k, d, obs) := c in
  match result_aliases_input k d with Some b => Bool.eqb b obs | None => false end.
