(* Model over the reals of the sensor scalings of nptdms/scaling.py:
     _adjust_for_lead_resistance, RtdScaling.scale / _solve_quartic_form /
     _get_negative_real_root, ThermistorScaling.scale, StrainScaling.scale,
     PolynomialScaling.scale, TableScaling.__init__ / scale,
   together with the forward physical laws they are meant to invert
   (second half of the file).  Definitions only; proofs are in
   Proofs/SensorsProofs.v, the property theorems in Props/C17.v.

   Conventions.  A NumPy array operation is modelled on one element.  Python
   float arithmetic is modelled by exact real arithmetic (the float rounding of
   the implementation is not modelled; the harness bounds it per sample).
   Division, reciprocal, sqrt and log are Coq's total functions on R; every
   theorem carries the hypotheses that keep the arguments in their domains
   (where NumPy would produce inf/nan with a warning).  `raise` is [None]. *)

From Coq Require Import Reals ZArith List Bool.
Import ListNotations.
Open Scope R_scope.

(* scaling.py:  VOLTAGE_EXCITATION = 10322 ; CURRENT_EXCITATION = 10134 *)
Definition VOLTAGE_EXCITATION : Z := 10322.
Definition CURRENT_EXCITATION : Z := 10134.

(* def _adjust_for_lead_resistance(measured_resistance, excitation_type,
                                   resistance_configuration, lead_wire_resistance):
       if resistance_configuration == 3:
           return measured_resistance - lead_wire_resistance
       if excitation_type == CURRENT_EXCITATION and resistance_configuration == 2:
           return measured_resistance - 2.0 * lead_wire_resistance
       return measured_resistance *)
Definition adjust_for_lead_resistance
           (measured_resistance : R) (excitation_type resistance_configuration : Z)
           (lead_wire_resistance : R) : R :=
  if (resistance_configuration =? 3)%Z then measured_resistance - lead_wire_resistance
  else if ((excitation_type =? CURRENT_EXCITATION)%Z && (resistance_configuration =? 2)%Z)%bool
       then measured_resistance - 2 * lead_wire_resistance
       else measured_resistance.

(* ------------------------------------------------------------------------ *)
(* numpy.polynomial.polynomial.polyval(x, c): coefficients lowest degree first
       c0 = c[-1] + x*0
       for i in range(2, len(c) + 1): c0 = c[-i] + c0*x
   i.e. Horner's scheme c[0] + x*(c[1] + x*(... + x*(c[n-1] + x*0))). *)
Definition polyval (x : R) (c : list R) : R :=
  fold_right (fun ci acc => ci + acc * x) 0 c.

(* PolynomialScaling.scale:
       if len(self.coefficients) == 0: return np.zeros(len(data))
       return np.polynomial.polynomial.polyval(data, self.coefficients) *)
Definition polynomial_scale (coefficients : list R) (x : R) : R :=
  match coefficients with
  | [] => 0
  | _ => polyval x coefficients
  end.

(* ------------------------------------------------------------------------ *)
(* RtdScaling *)

(*  r_t = data / self.current_excitation
    r_t = _adjust_for_lead_resistance(r_t, CURRENT_EXCITATION,
              self.resistance_configuration, self.lead_wire_resistance) *)
Definition rtd_r_t (current_excitation lead_wire_resistance : R)
           (resistance_configuration : Z) (v : R) : R :=
  adjust_for_lead_resistance (v / current_excitation) CURRENT_EXCITATION
                             resistance_configuration lead_wire_resistance.

(*  temperature = (-a + np.sqrt(a ** 2 - 4.0 * b * (1.0 - r_t / r_0))) / (2.0 * b) *)
Definition rtd_scale_pos (a b r_0 r_t : R) : R :=
  (- a + sqrt (a ^ 2 - 4 * b * (1 - r_t / r_0))) / (2 * b).

(*  poly_coefficients = [r_0 - r_t, r_0 * a, r_0 * b, -100.0 * r_0 * c, r_0 * c] *)
Definition rtd_quartic_coefficients (a b c r_0 r_t : R) : list R :=
  [r_0 - r_t; r_0 * a; r_0 * b; -100 * r_0 * c; r_0 * c].

(* the polynomial whose roots polyroots is asked for *)
Definition rtd_quartic (a b c r_0 r_t t : R) : R :=
  polyval t (rtd_quartic_coefficients a b c r_0 r_t).

(* A complex number is a pair (real part, imaginary part).
   def _get_negative_real_root(roots):
       # A resistance only marginally below R0 has a root that is zero to within
       # rounding error, which may be found as 0.0 or as a tiny positive number;
       # the other real root is positive and far away from zero.
       filtered = [r for r in roots if not np.iscomplex(r) and r.real < 1e-9]
       if len(filtered) != 1: raise ValueError(...)
       return filtered[0].real
   np.iscomplex(r) is  r.imag != 0.
   (/repo commit 874ad35, defect D23; before it the test was  r.real < 0.0 .
   The old filter is kept, for comparison only, in Proofs/SensorsProofs.v.) *)

(* the literal 1e-9 of the filter, read as the decimal it is written as, like
   every other literal of this model (its binary64 value
   0x1.12e0be826d695p-30 differs from 10^-9 by less than 7e-26; nothing
   proved here depends on which of the two is meant, only on 0 < tolerance
   and on the parameter condition  A + B * tolerance >= 0). *)
Definition RTD_ROOT_TOLERANCE : R := 1e-9.

Definition is_small_real (z : R * R) : bool :=
  if Req_EM_T (snd z) 0
  then (if Rlt_dec (fst z) RTD_ROOT_TOLERANCE then true else false)
  else false.

Definition get_negative_real_root (roots : list (R * R)) : option R :=
  match filter is_small_real roots with
  | [z] => Some (fst z)
  | _ => None
  end.

Section RtdScale.
  (* numpy.polynomial.polynomial.polyroots (companion-matrix eigenvalues) is an
     oracle: a section variable, never an axiom.  What is assumed of it where a
     theorem needs it is [small_roots_ok] below, stated in the theorem. *)
  Variable polyroots : list R -> list (R * R).

  (* def _solve_quartic_form(self, r_t):
         roots = poly.polyroots(poly_coefficients)
         return RtdScaling._get_negative_real_root(roots) *)
  Definition solve_quartic_form (a b c r_0 r_t : R) : option R :=
    get_negative_real_root (polyroots (rtd_quartic_coefficients a b c r_0 r_t)).

  (* def scale(self, data):           (one element)
         positive_temperature = r_t >= r_0
         temperature = <quadratic form>            where positive_temperature
         temperature[i] = self._solve_quartic_form(r_t[i])   elsewhere *)
  Definition rtd_scale (current_excitation r_0 a b c lead_wire_resistance : R)
             (resistance_configuration : Z) (v : R) : option R :=
    let r_t := rtd_r_t current_excitation lead_wire_resistance resistance_configuration v in
    if Rle_dec r_0 r_t then Some (rtd_scale_pos a b r_0 r_t)
    else solve_quartic_form a b c r_0 r_t.
End RtdScale.

(* What is assumed of polyroots' answer [roots] for coefficient list [cs]
   (only about the part the code looks at, the real entries below the
   tolerance): a real number below the tolerance is listed iff it is a root,
   and no such root is listed twice (polyroots lists a root as often as its
   multiplicity; the real roots of the RTD quartic below the tolerance are
   simple: for a resistance below R0 they are negative, lemma
   rtd_quartic_pos_near_zero, and the derivative is positive there, lemma
   rtd_quartic_derivative_pos). *)
Definition small_roots_ok (roots : list (R * R)) (cs : list R) : Prop :=
  NoDup (filter is_small_real roots) /\
  forall x : R, x < RTD_ROOT_TOLERANCE -> (In (x, 0) roots <-> polyval x cs = 0).

(* ------------------------------------------------------------------------ *)
(* ThermistorScaling.scale
       if self.excitation_type == CURRENT_EXCITATION:
           r_t = data / self.excitation_value
       elif self.excitation_type == VOLTAGE_EXCITATION:
           r_t = self.r1_reference_resistance * np.reciprocal(
                     self.excitation_value * np.reciprocal(data) - 1.0)
       else: raise ValueError
       r_t = _adjust_for_lead_resistance(r_t, self.excitation_type,
                 self.resistance_configuration, self.lead_wire_resistance)
       coefficients = [self.a, self.b, 0.0, self.c]
       return np.reciprocal(polyval(np.log(r_t), coefficients)) - self.temperature_offset *)
Definition thermistor_resistance (excitation_type : Z) (excitation_value r1_reference_resistance v : R)
  : option R :=
  if (excitation_type =? CURRENT_EXCITATION)%Z then Some (v / excitation_value)
  else if (excitation_type =? VOLTAGE_EXCITATION)%Z
       then Some (r1_reference_resistance * / (excitation_value * / v - 1))
       else None.

Definition thermistor_scale (excitation_type : Z) (excitation_value : R)
           (resistance_configuration : Z) (r1_reference_resistance lead_wire_resistance : R)
           (a b c temperature_offset v : R) : option R :=
  match thermistor_resistance excitation_type excitation_value r1_reference_resistance v with
  | None => None
  | Some r =>
      let r_t := adjust_for_lead_resistance r excitation_type resistance_configuration
                                            lead_wire_resistance in
      Some (/ (polyval (ln r_t) [a; b; 0; c]) - temperature_offset)
  end.

(* ------------------------------------------------------------------------ *)
(* StrainScaling *)
Definition FULL_BRIDGE_1 : Z := 10183.
Definition FULL_BRIDGE_2 : Z := 10184.
Definition FULL_BRIDGE_3 : Z := 10185.
Definition HALF_BRIDGE_1 : Z := 10188.
Definition HALF_BRIDGE_2 : Z := 10189.
Definition QUARTER_BRIDGE_1 : Z := 10271.
Definition QUARTER_BRIDGE_2 : Z := 10272.

(*  voltage_out = data.astype(np.double)
    if self.initial_bridge_voltage != 0.0:
        voltage_out -= self.initial_bridge_voltage *)
Definition strain_voltage_out (initial_bridge_voltage v : R) : R :=
  if Req_EM_T initial_bridge_voltage 0 then v else v - initial_bridge_voltage.

(*  lead_adjustment = 1.0 / (1.0 + self.lead_wire_resistance / self.gage_resistance) *)
Definition lead_adjustment (lead_wire_resistance gage_resistance : R) : R :=
  1 / (1 + lead_wire_resistance / gage_resistance).

(* The in-place NumPy statements of each branch, in the code's order and with
   Python's operator precedence (left-assoc. * and /, unary minus first). *)
Definition strain_scale (configuration : Z)
           (poisson_ratio gage_resistance lead_wire_resistance initial_bridge_voltage
            gage_factor gain_adjustment voltage_excitation v : R) : option R :=
  let voltage_out := strain_voltage_out initial_bridge_voltage v in
  if (configuration =? FULL_BRIDGE_1)%Z then
    (* strain *= (-self.gain_adjustment / (self.voltage_excitation * self.gage_factor)) *)
    Some (voltage_out * (- gain_adjustment / (voltage_excitation * gage_factor)))
  else if (configuration =? FULL_BRIDGE_2)%Z then
    (* strain *= (-self.gain_adjustment * 2.0 / (
           self.voltage_excitation * self.gage_factor * (1.0 + self.poisson_ratio))) *)
    Some (voltage_out * (- gain_adjustment * 2 /
                         (voltage_excitation * gage_factor * (1 + poisson_ratio))))
  else if (configuration =? FULL_BRIDGE_3)%Z then
    (* common_factor = -0.5 / self.gain_adjustment
       temp = voltage_out.copy()
       temp *= common_factor * (1.0 - self.poisson_ratio) * self.gage_factor
       temp += common_factor * self.voltage_excitation * self.gage_factor * (1.0 + self.poisson_ratio)
       strain /= temp *)
    let common_factor := - (1 / 2) / gain_adjustment in
    let temp := voltage_out * (common_factor * (1 - poisson_ratio) * gage_factor)
                + common_factor * voltage_excitation * gage_factor * (1 + poisson_ratio) in
    Some (voltage_out / temp)
  else if (configuration =? HALF_BRIDGE_1)%Z then
    (* lead_adjustment = ...
       common_factor = -self.gage_factor * self.voltage_excitation * lead_adjustment / (
               4.0 * self.gain_adjustment)
       temp *= common_factor * 2.0 * (1.0 - self.poisson_ratio) / self.voltage_excitation
       temp += common_factor * (1.0 + self.poisson_ratio)
       strain /= temp *)
    let la := lead_adjustment lead_wire_resistance gage_resistance in
    let common_factor := - gage_factor * voltage_excitation * la / (4 * gain_adjustment) in
    let temp := voltage_out * (common_factor * 2 * (1 - poisson_ratio) / voltage_excitation)
                + common_factor * (1 + poisson_ratio) in
    Some (voltage_out / temp)
  else if (configuration =? HALF_BRIDGE_2)%Z then
    (* strain *= -2.0 * self.gain_adjustment / (
               self.gage_factor * self.voltage_excitation * lead_adjustment) *)
    let la := lead_adjustment lead_wire_resistance gage_resistance in
    Some (voltage_out * (-2 * gain_adjustment / (gage_factor * voltage_excitation * la)))
  else if ((configuration =? QUARTER_BRIDGE_1)%Z || (configuration =? QUARTER_BRIDGE_2)%Z)%bool then
    (* strain *= 2.0 / self.voltage_excitation
       strain += 1.0
       np.reciprocal(strain, out=strain)
       strain -= 1.0
       strain *= 2.0 * self.gain_adjustment / (self.gage_factor * lead_adjustment) *)
    let la := lead_adjustment lead_wire_resistance gage_resistance in
    Some ((/ (voltage_out * (2 / voltage_excitation) + 1) - 1)
          * (2 * gain_adjustment / (gage_factor * la)))
  else
    (* raise Exception("Strain gauge configuration %d is not supported") *)
    None.

(* ------------------------------------------------------------------------ *)
(* TableScaling *)

(* np.all(np.diff(xs) > 0) *)
Fixpoint all_diff_pos (xs : list R) : bool :=
  match xs with
  | x0 :: ((x1 :: _) as rest) => (if Rlt_dec x0 x1 then true else false) && all_diff_pos rest
  | _ => true
  end.

(* __init__(self, pre_scaled_values, scaled_values, input_source):
       if not np.all(np.diff(scaled_values) > 0):
           scaled_values = np.flip(scaled_values); pre_scaled_values = np.flip(pre_scaled_values)
       if not np.all(np.diff(scaled_values) > 0): raise ValueError
       self.input_values = scaled_values ; self.output_values = pre_scaled_values *)
Definition table_init (pre_scaled_values scaled_values : list R) : option (list R * list R) :=
  if all_diff_pos scaled_values then Some (scaled_values, pre_scaled_values)
  else if all_diff_pos (rev scaled_values) then Some (rev scaled_values, rev pre_scaled_values)
       else None.

(* np.interp(x, xp, fp) for increasing xp (NumPy's compiled arr_interp, one x):
       x <= xp[0]            -> fp[0]           (left clamp; x == xp[j] -> fp[j])
       x >= xp[-1]           -> fp[-1]          (right clamp)
       xp[j] <= x < xp[j+1]  -> slope*(x - xp[j]) + fp[j],
                                slope = (fp[j+1] - fp[j]) / (xp[j+1] - xp[j])
   Knots are carried as parallel lists exactly as NumPy receives them; lists of
   different length or an empty table make np.interp raise ValueError. *)
Fixpoint interp_from (x x0 y0 : R) (xs ys : list R) : option R :=
  match xs, ys with
  | [], [] => Some y0
  | x1 :: xs', y1 :: ys' =>
      if Rlt_dec x x1 then Some ((y1 - y0) / (x1 - x0) * (x - x0) + y0)
      else interp_from x x1 y1 xs' ys'
  | _, _ => None
  end.

Definition interp (x : R) (xp fp : list R) : option R :=
  match xp, fp with
  | x0 :: xs, y0 :: ys =>
      if Nat.eqb (length xs) (length ys)
      then (if Rle_dec x x0 then Some y0 else interp_from x x0 y0 xs ys)
      else None
  | _, _ => None
  end.

(* TableScaling(pre, scaled, _).scale(x) = np.interp(x, self.input_values, self.output_values) *)
Definition table_scale (pre_scaled_values scaled_values : list R) (x : R) : option R :=
  match table_init pre_scaled_values scaled_values with
  | None => None
  | Some (input_values, output_values) => interp x input_values output_values
  end.

(* ======================================================================== *)
(* The forward physical laws (what the sensor and its circuit produce).      *)
(* ======================================================================== *)

Inductive excitation := CurrentExcitation | VoltageExcitation.
Definition excitation_code (e : excitation) : Z :=
  match e with CurrentExcitation => CURRENT_EXCITATION | VoltageExcitation => VOLTAGE_EXCITATION end.

Inductive wiring := TwoWire | ThreeWire | FourWire.
Definition wiring_code (w : wiring) : Z :=
  match w with TwoWire => 2 | ThreeWire => 3 | FourWire => 4 end%Z.

(* Lead resistance that appears in series with the sensor in the measured
   resistance (NI-DAQmx convention, each lead has resistance [lead]):
     4-wire: none (separate sense leads);
     3-wire: one lead (the second lead's drop is outside the sense pair);
     2-wire, current excitation: both leads;
     2-wire, voltage excitation: NI applies no lead compensation in this
       configuration (nptdms/test/test_scaling.py pins this against values
       exported from LabVIEW: lead 100 ohm gives the same temperatures as 0),
       so the law inverted here has no lead term; with leads physically inside
       the divider arm the reading would not be compensated. *)
Definition lead_in_measurement (e : excitation) (w : wiring) (lead : R) : R :=
  match w, e with
  | ThreeWire, _ => lead
  | TwoWire, CurrentExcitation => 2 * lead
  | TwoWire, VoltageExcitation => 0
  | FourWire, _ => 0
  end.

(* Callendar-Van Dusen (IEC 60751):
     R(T) = R0 (1 + A T + B T^2)                          T >= 0
     R(T) = R0 (1 + A T + B T^2 + C (T - 100) T^3)        T <  0 *)
Definition cvd_pos (r0 a b t : R) : R := r0 * (1 + a * t + b * t ^ 2).
Definition cvd_neg (r0 a b c t : R) : R := r0 * (1 + a * t + b * t ^ 2 + c * (t - 100) * t ^ 3).
Definition cvd (r0 a b c t : R) : R :=
  if Rle_dec 0 t then cvd_pos r0 a b t else cvd_neg r0 a b c t.

(* Ohm's law: voltage across sensor + in-measurement leads carrying current i *)
Definition current_excitation_voltage (i : R) (w : wiring) (lead r_sensor : R) : R :=
  i * (r_sensor + lead_in_measurement CurrentExcitation w lead).

(* Voltage divider: excitation vex across r1 in series with the sensor arm,
   output taken across the sensor arm *)
Definition voltage_divider_voltage (vex r1 : R) (w : wiring) (lead r_sensor : R) : R :=
  let rm := r_sensor + lead_in_measurement VoltageExcitation w lead in
  vex * rm / (r1 + rm).

(* Steinhart-Hart:  1/T = a + b ln R + c (ln R)^3   (T in kelvin) *)
Definition steinhart_hart_recip_T (a b c r : R) : R := a + b * ln r + c * ln r ^ 3.

(* Its inverse R(T) in closed form (Cardano; for b > 0, c > 0 the cubic
   c x^3 + b x + (a - 1/T) = 0 in x = ln R has exactly one real root):
     alpha = (a - 1/T)/c,  beta = sqrt((b/(3c))^3 + alpha^2/4),
     R = exp( cbrt(beta - alpha/2) - cbrt(beta + alpha/2) ),
   both radicands positive. *)
Definition cbrt_pos (y : R) : R := Rpower y (/ 3).
Definition R_of_steinhart_hart (a b c t : R) : R :=
  let alpha := (a - / t) / c in
  let beta := sqrt ((b / (3 * c)) ^ 3 + alpha ^ 2 / 4) in
  exp (cbrt_pos (beta - alpha / 2) - cbrt_pos (beta + alpha / 2)).

(* Wheatstone bridge (first comment line of StrainScaling.scale):
     Vo = [R3 / (R3 + R4) - R2 / (R1 + R2)] Vex *)
Definition wheatstone (vex r1 r2 r3 r4 : R) : R :=
  (r3 / (r3 + r4) - r2 / (r1 + r2)) * vex.

(* Bridge output for strain e.  g = gauge factor, nu = Poisson ratio, r0 =
   nominal gauge resistance, rl = lead-wire resistance.  Resistor assignments
   are those of the code's comments; where the comment is silent or
   inconsistent the NI definition is used and said so:
   - HALF_BRIDGE_1: the comment writes R3 = R0 (1 + e nu G) but the Vo it then
     gives (and the physics: the Poisson gauge sees -nu e) is for
     R3 = R0 (1 - e nu G); that is what is used.
   - HALF_BRIDGE_2 (no comment in the code): NI's half-bridge type II, two
     active gauges with opposite strain in one half, R3 = R0 (1 - e G),
     R4 = R0 (1 + e G), R1 = R2 = R0.
   - lead wires (no derivation in the code): NI's model for quarter and half
     bridges, one lead of resistance rl in series with each of the two arms
     R3, R4 of the active half (three-wire connection; the sense lead carries
     no current) and the bridge balanced at zero strain, so the quarter
     bridge's completion arm is R0 + rl.  Full bridges have no lead term. *)
Definition bridge_output (configuration : Z) (nu r0 rl g vex e : R) : option R :=
  if (configuration =? FULL_BRIDGE_1)%Z then
    Some (wheatstone vex (r0 * (1 - e * g)) (r0 * (1 + e * g)) (r0 * (1 - e * g)) (r0 * (1 + e * g)))
  else if (configuration =? FULL_BRIDGE_2)%Z then
    Some (wheatstone vex (r0 * (1 - e * nu * g)) (r0 * (1 + e * nu * g))
                     (r0 * (1 - e * g)) (r0 * (1 + e * g)))
  else if (configuration =? FULL_BRIDGE_3)%Z then
    Some (wheatstone vex (r0 * (1 - e * nu * g)) (r0 * (1 + e * g))
                     (r0 * (1 - e * nu * g)) (r0 * (1 + e * g)))
  else if (configuration =? HALF_BRIDGE_1)%Z then
    Some (wheatstone vex r0 r0 (r0 * (1 - e * nu * g) + rl) (r0 * (1 + e * g) + rl))
  else if (configuration =? HALF_BRIDGE_2)%Z then
    Some (wheatstone vex r0 r0 (r0 * (1 - e * g) + rl) (r0 * (1 + e * g) + rl))
  else if ((configuration =? QUARTER_BRIDGE_1)%Z || (configuration =? QUARTER_BRIDGE_2)%Z)%bool then
    Some (wheatstone vex r0 r0 (r0 + rl) (r0 * (1 + e * g) + rl))
  else None.

(* Measured voltage for strain e: the unstrained offset (initial bridge
   voltage) adds to the bridge output.  Shunt-calibration gain adjustment, NI
   definition ("NI-DAQmx multiplies data read from the channel by the value of
   this property"): the reading, i.e. the strain, is multiplied by the gain,
   so the bridge is one that indicates e / gain when the true strain is e.
   (For the three bridges whose Vo is linear in e this is the same as dividing
   the voltage by the gain; for the non-linear ones it is not.) *)
Definition strain_measured_voltage (configuration : Z)
           (nu r0 rl init g gain vex e : R) : option R :=
  match bridge_output configuration nu r0 rl g vex (e / gain) with
  | Some vo => Some (init + vo)
  | None => None
  end.

(* Sum of c_i x^i, i counted from k (mathematical definition of a polynomial) *)
Fixpoint sum_powers_from (k : nat) (c : list R) (x : R) : R :=
  match c with
  | [] => 0
  | ci :: rest => ci * x ^ k + sum_powers_from (S k) rest x
  end.
Definition sum_powers (c : list R) (x : R) : R := sum_powers_from 0 c x.

(* Clamped piecewise-linear interpolation through the knots (x_i, y_i),
   as a relation: [y] is the interpolant's value at [x]. *)
Definition consecutive_knots (knots : list (R * R)) (p q : R * R) : Prop :=
  exists l1 l2, knots = l1 ++ p :: q :: l2.
Definition first_knot (knots : list (R * R)) (p : R * R) : Prop :=
  exists l, knots = p :: l.
Definition last_knot (knots : list (R * R)) (p : R * R) : Prop :=
  exists l, knots = l ++ [p].

Definition clamped_pwl (knots : list (R * R)) (x y : R) : Prop :=
  (forall p, first_knot knots p -> x <= fst p -> y = snd p) /\
  (forall p, last_knot knots p -> fst p <= x -> y = snd p) /\
  (forall p q, consecutive_knots knots p q -> fst p <= x <= fst q ->
               y = snd p + (snd q - snd p) * (x - fst p) / (fst q - fst p)).

(* knots sorted by strictly increasing abscissa *)
Fixpoint strictly_increasing (xs : list R) : Prop :=
  match xs with
  | x0 :: ((x1 :: _) as rest) => x0 < x1 /\ strictly_increasing rest
  | _ => True
  end.
