(* C10, the composed theorem - Defragmenting a file preserves its content.

   SETTING.  A source file is a file syntax [segs] (Model/FileSyn.v) under the
   hypotheses of C01's read_correct: well formed, the metadata pass and the
   hierarchy construction succeed ([st], [h]), every raw data block encodes
   whole chunks ([chunkss]), channel paths canonical, typed objects are
   channels.  TdmsWriter.defragment reads it with TdmsFile(source,
   raw_timestamps=True) and issues one write_segment call per object
   (Model/Defrag.v): the content is [content_of_read h chunks] - h's root
   properties, groups and channels in h's order, every typed channel's values
   the file-order concatenation, an untyped channel's empty array.

   PROPERTY TYPES.  TdmsFile.properties holds Python values, not TDMS-typed
   ones, and the writer re-infers a TDMS type from the Python value
   (_to_tdms_value): int -> Int32 / Int64 / Uint64 by magnitude
   (to_int_property_value, translated from the source), float -> DoubleFloat
   (a single-precision property is widened), bool -> Boolean, str -> String,
   TdmsTimestamp -> written as it is.  [retype_prop] (Proofs/DefragFull.v) is
   this round trip on a typed property; [retype_prop_accepted] shows it IS what
   Model/Writer.v's front end ([lower_prop], with the translated integer
   decision) makes of the Python value [py_prop p], for every well-formed
   property, and never fails for one.  The content the real code hands to the
   writer is therefore [map_props retype_prop (content_of_read h chunks)]
   (byte-for-byte equal to the real TdmsWriter.defragment output on the third
   example below; this is also what harness/c10.py feeds check_defrag).
   The reader's observation shows a property as (name, kind of Python value,
   value) - never its TDMS type - so the re-typing is INVISIBLE in it
   ([retype_prop_same_value]): an int8 -3 and the Int32 -3 it becomes both
   show [TZ 0; TZ (-3)].  Both theorems below are therefore instances of one
   statement parameterised by the re-typing ([retyping f]): [defrag_preserves]
   for Model/Defrag.v's content as it stands (f = identity, the statement asked
   for) and [defrag_preserves_retyped] for the re-typed content.  The TDMS type
   of a property in the destination FILE is retype_prop's; nothing else about
   properties changes (names, order, values; raw timestamps keep all 128 bits).

   THE THREE FACTS left open by Props/C10_read.v, now proved:
     (i)   [source_props_keyed]  every property dictionary of the source's
           hierarchy has distinct keys and key = property name;
     (ii)  [untyped_channel_len0]  a channel without data type has length 0;
     (iii) [group_name_is_key]  g_name of a group = its dictionary key;
   and: the source's status is complete ([source_status_complete]); a recorded
   data type is never Void ([source_dtype_nonvoid]).

   THE WRITER ACCEPTS WHAT THE READER PRODUCED ([defrag_accepts],
   [defrag_total]).  Derived from the source, no longer assumed: every
   property is one the writer writes (type and size), every value of a channel
   has the size of the channel's data type (through "a typed segment object's
   type is the type recorded for its path" and "every value a chunk holds has
   the size of its object's type"), so defragment does not raise.  What CANNOT
   be derived, and is the explicit boolean side condition [defrag_fits v c],
   are container limits only: defragment merges what the source spreads over
   many segments - one destination segment holds ALL values of a channel, one
   property list ALL properties of an object - so the number of values
   (< 2^64), of properties (< 2^32), the bytes of one string channel (< 2^32,
   its offsets are 32 bit) and the segment size (< 2^64 - 1; re-typed
   properties can also be longer: an int8 becomes an Int32, a single a double)
   must fit their fields; that each of the source's segments satisfies these
   limits does not imply it for the merge.  [defrag_fits] also asks that the
   object paths fit a 32-bit length: a group's path is RE-PRINTED canonically
   from the parsed name and can be longer than the source's spelling of it;
   root and channel paths are the source's own (canonical by hypothesis) and
   do fit - that part is derivable and is not derived here.

   THE RELATION.  [same_content v src dst] := normalise_obs v src = Some dst
   with the executable [normalise_obs] (Proofs/DefragFull.v), which re-reads
   the observation along its grammar and copies every token except:
     - the version, set to v;
     - for a channel of length 0 whose data type has no NumPy dtype (String,
       TimeStamp read raw, ...): data type := none, data := none.  Such a
       channel's empty array has no determinable type, defragment writes it
       without raw data (fix D7) and it reads back untyped;
     - the status, set to complete.
   So: same groups and channels in the same order, same paths, same
   properties (name, kind, value), same lengths, identical value bytes, the
   same data type for every channel with at least one value
   ([dtype_kept_nonempty]) and for every empty channel of a NumPy type
   ([dtype_kept_numpy]); an empty channel of another type becomes untyped
   ([dtype_empty_other]).  [normalise_rendered] is the general fact that the
   normaliser acts on ANY rendered hierarchy as [norm_hier] does on the
   hierarchy; [defrag_view] is the destination's observation written out.
   When no channel is blanked the two observations differ in the version only
   ([unblanked_same_hierarchy]).

   NOT COVERED: DAQmx sources (outside the property), truncated sources and
   segments whose final chunk is partial (outside read_correct), the
   destination index file (Props/C10.v: it is the positional strip).
   Modelling note: a single-precision NaN property is widened by
   Reader.f32_to_f64_bits, which keeps a signalling NaN's payload unquieted
   (CPython quiets it); this is the reader model's convention, used on both
   sides here. *)
From Coq Require Import List ZArith Bool.
From Coq Require Import Init.Byte.
Import ListNotations.
From NpTdms Require Import Base.Bytes Base.Res Model.Tokens Model.TokensWf Model.ByteStr
  Model.StrictParse Model.Writer Model.Defrag.
From NpTdms Require Import Model.SegState Model.Layout Model.Reader Model.FileSyn
  Proofs.LayoutProofs Proofs.FileSynProofs Proofs.ReadCorrect
  Proofs.WriteReadSpec Proofs.WriteReadBytes Proofs.DefragRead Proofs.DefragFull Proofs.DefragFullExamples.
Local Open Scope Z_scope.

(* ---- (i), (ii), (iii) and companions ---------------------------------------------------------------- *)

Theorem source_props_keyed : forall segs w st h,
  sm_run segs w = Ok st -> build_hierarchy (rs_om st) = Ok h ->
  keyed (h_root h) /\
  Forall (fun kg => keyed (g_props (snd kg))) (h_groups h) /\
  forall ch, In ch (all_channels h) -> keyed (ch_props ch).
Proof. exact DefragFull.hierarchy_props_keyed. Qed.

(* what (i) is for *)
Theorem keyed_merge_props : forall ps, keyed ps -> merge_props (map snd ps) [] = ps.
Proof. exact merge_props_keyed. Qed.

Theorem untyped_channel_len0 : forall segs w st h chunkss ch,
  sm_run segs w = Ok st ->
  build_hierarchy (rs_om st) = Ok h ->
  segs_encode (rs_segments st) segs chunkss ->
  om_paths_canonical (rs_om st) ->
  typed_objects_are_channels (rs_om st) ->
  In ch (all_channels h) -> ch_dtype ch = None -> ch_len ch = 0.
Proof. exact DefragFull.untyped_channel_len0. Qed.

Theorem group_name_is_key : forall om h,
  build_hierarchy om = Ok h -> Forall (fun kg => g_name (snd kg) = fst kg) (h_groups h).
Proof. exact DefragFull.build_hierarchy_gname. Qed.

Theorem source_status_complete : forall segs w st chunkss,
  sm_run segs w = Ok st -> segs_encode (rs_segments st) segs chunkss -> obs_status st = [TZ 0; TZ 0].
Proof. exact DefragFull.source_status_complete. Qed.

Theorem source_dtype_nonvoid : forall segs w st,
  sm_run segs w = Ok st -> forall p m, In (p, m) (rs_om st) -> om_dtype m <> Some T_VOID.
Proof. exact DefragFull.sm_run_dtype_nonvoid. Qed.

(* ---- property values through Python ----------------------------------------------------------------- *)

Theorem retype_prop_accepted : forall p,
  wf_prop p = true -> lower_prop (py_prop p) = Ok (retype_prop p).
Proof. exact retype_prop_lowers. Qed.

Theorem retype_prop_same_value : forall p,
  wf_prop p = true ->
  p_name (retype_prop p) = p_name p /\
  obs_prop_value (p_type (retype_prop p)) (p_val (retype_prop p)) = obs_prop_value (p_type p) (p_val p) /\
  wf_prop (retype_prop p) = true.
Proof. intros p H. destruct (retype_prop_shown p H) as [[H1 H2] H3]. exact (conj H1 (conj H2 H3)). Qed.

(* ---- the writer accepts what the reader produced ------------------------------------------------------ *)

Theorem defrag_accepts : forall f segs st h chunkss v,
  FileSynProofs.wf_file segs ->
  sm_run segs false = Ok st ->
  build_hierarchy (rs_om st) = Ok h ->
  segs_encode (rs_segments st) segs chunkss ->
  om_paths_canonical (rs_om st) ->
  retyping f ->
  let c := map_props f (content_of_read h (concat chunkss)) in
  defrag_fits v c = true ->
  Writer.wf_file [(v, defrag_calls c)] = true /\ sizes_below_marker [(v, defrag_calls c)] = true.
Proof. exact DefragFull.defrag_accepts_lemma. Qed.

Theorem defrag_total : forall f segs st h chunkss v,
  FileSynProofs.wf_file segs ->
  sm_run segs false = Ok st ->
  build_hierarchy (rs_om st) = Ok h ->
  segs_encode (rs_segments st) segs chunkss ->
  om_paths_canonical (rs_om st) ->
  retyping f ->
  let c := map_props f (content_of_read h (concat chunkss)) in
  valid_version v = true ->
  defrag_fits v c = true ->
  exists dest index, defrag v c = Ok (dest, index).
Proof. exact DefragFull.defrag_total_lemma. Qed.

(* ---- the theorem ---------------------------------------------------------------------------------------- *)

Theorem defrag_preserves : forall segs st h chunkss v dest index,
  FileSynProofs.wf_file segs ->
  sm_run segs false = Ok st ->
  build_hierarchy (rs_om st) = Ok h ->
  segs_encode (rs_segments st) segs chunkss ->
  om_paths_canonical (rs_om st) ->
  typed_objects_are_channels (rs_om st) ->
  defrag_fits v (content_of_read h (concat chunkss)) = true ->
  defrag v (content_of_read h (concat chunkss)) = Ok (dest, index) ->
  exists toks',
    rd_all dest = Ok (toks', true) /\
    same_content v (expected_tokens st h (concat chunkss)) toks' /\
    toks' = defrag_view v h (concat chunkss).
Proof. exact DefragFull.defrag_preserves_id. Qed.

Theorem defrag_preserves_retyped : forall segs st h chunkss v dest index,
  FileSynProofs.wf_file segs ->
  sm_run segs false = Ok st ->
  build_hierarchy (rs_om st) = Ok h ->
  segs_encode (rs_segments st) segs chunkss ->
  om_paths_canonical (rs_om st) ->
  typed_objects_are_channels (rs_om st) ->
  let c := map_props retype_prop (content_of_read h (concat chunkss)) in
  defrag_fits v c = true ->
  defrag v c = Ok (dest, index) ->
  exists toks',
    rd_all dest = Ok (toks', true) /\
    same_content v (expected_tokens st h (concat chunkss)) toks' /\
    toks' = defrag_view v h (concat chunkss).
Proof. exact DefragFull.defrag_preserves_py. Qed.

(* source and destination side by side, with existence of the destination *)
Theorem defrag_preserves_both_sides : forall f segs st h chunkss v,
  FileSynProofs.wf_file segs ->
  sm_run segs false = Ok st ->
  build_hierarchy (rs_om st) = Ok h ->
  segs_encode (rs_segments st) segs chunkss ->
  om_paths_canonical (rs_om st) ->
  typed_objects_are_channels (rs_om st) ->
  retyping f ->
  let c := map_props f (content_of_read h (concat chunkss)) in
  valid_version v = true ->
  defrag_fits v c = true ->
  exists dest index,
    defrag v c = Ok (dest, index) /\
    rd_all (ser_file segs) = Ok (expected_tokens st h (concat chunkss), true) /\
    rd_all dest = Ok (defrag_view v h (concat chunkss), true) /\
    normalise_obs v (expected_tokens st h (concat chunkss)) = Some (defrag_view v h (concat chunkss)).
Proof. exact DefragFull.defrag_preserves_gen. Qed.

(* ---- reading the relation -------------------------------------------------------------------------------- *)

Theorem normalise_rendered : forall v ver h chunks status,
  normalise_obs v (TZ ver :: obs_hierarchy h (fun c => obs_cdata (expected_data chunks c)) ++ status) =
  Some (TZ v :: obs_hierarchy (norm_hier h) (fun c => obs_cdata (expected_data chunks c)) ++ [TZ 0; TZ 0]).
Proof. exact normalise_obs_rendered. Qed.

Theorem dtype_kept_nonempty : forall t n, n <> 0 -> norm_dtype t n = t.
Proof. exact norm_dtype_nonempty. Qed.

Theorem dtype_kept_numpy : forall ty n, has_nptype ty = true -> norm_dtype (Some ty) n = Some ty.
Proof. exact norm_dtype_numpy. Qed.

Theorem dtype_empty_other : forall ty, has_nptype ty = false -> norm_dtype (Some ty) 0 = None.
Proof. exact norm_dtype_empty_other. Qed.

Theorem norm_chan_keeps : forall ch,
  ch_name (norm_chan ch) = ch_name ch /\ ch_group (norm_chan ch) = ch_group ch /\
  ch_path (norm_chan ch) = ch_path ch /\ ch_len (norm_chan ch) = ch_len ch /\
  ch_props (norm_chan ch) = ch_props ch /\
  ch_dtype (norm_chan ch) = norm_dtype (ch_dtype ch) (ch_len ch).
Proof. intros ch. repeat split. Qed.

Theorem unblanked_same_hierarchy : forall h, no_blanked h -> norm_hier h = h.
Proof. exact norm_hier_id. Qed.

(* ---- examples --------------------------------------------------------------------------------------------- *)

Section Examples.
Import String.
Local Open Scope string_scope.

(* C01's rc_file: two segments (the second without metadata), int32 channel a with 6
   values and a property, string channel b with 6 values; written as version 4712 *)
Definition c10_rc_src_tokens : list tok :=
  [TZ 4713; TZ 0; TZ 1; TB (hex "67"); TZ 1; TB (hex "6e"); TZ 3; TB (hex "6869"); TZ 2;
   TB (hex "61"); TB (hex "67"); TB (hex "2f2767272f276127"); TZ 3; TZ 6; TZ 1; TB (hex "70");
   TZ 0; TZ 7; TZ 0; TZ 6; TB (hex "01000000"); TB (hex "02000000"); TB (hex "03000000");
   TB (hex "04000000"); TB (hex "05000000"); TB (hex "06000000"); TB (hex "62"); TB (hex "67");
   TB (hex "2f2767272f276227"); TZ 32; TZ 6; TZ 0; TZ 0; TZ 6; TB (hex "6162"); TB (hex "63");
   TB []; TB (hex "78797a"); TB (hex "71"); TB (hex "7273"); TZ 0; TZ 0].

Definition c10_rc_dst_tokens : list tok :=
  [TZ 4712; TZ 0; TZ 1; TB (hex "67"); TZ 1; TB (hex "6e"); TZ 3; TB (hex "6869"); TZ 2;
   TB (hex "61"); TB (hex "67"); TB (hex "2f2767272f276127"); TZ 3; TZ 6; TZ 1; TB (hex "70");
   TZ 0; TZ 7; TZ 0; TZ 6; TB (hex "01000000"); TB (hex "02000000"); TB (hex "03000000");
   TB (hex "04000000"); TB (hex "05000000"); TB (hex "06000000"); TB (hex "62"); TB (hex "67");
   TB (hex "2f2767272f276227"); TZ 32; TZ 6; TZ 0; TZ 0; TZ 6; TB (hex "6162"); TB (hex "63");
   TB []; TB (hex "78797a"); TB (hex "71"); TB (hex "7273"); TZ 0; TZ 0].

(* the hypotheses of the theorems hold (also the boolean side condition), so
   they apply - to the content as Model/Defrag.v has it and to the re-typed one *)
Example c10_rc_applies :
  exists dest index toks',
    defrag 4712 (content_of_read rc_h (List.concat rc_chunks)) = Ok (dest, index) /\
    rd_all dest = Ok (toks', true) /\
    same_content 4712 (expected_tokens rc_st rc_h (List.concat rc_chunks)) toks'.
Proof.
  assert (Hfits : defrag_fits 4712 (content_of_read rc_h (List.concat rc_chunks)) = true)
    by (vm_compute; reflexivity).
  destruct (defrag 4712 (content_of_read rc_h (List.concat rc_chunks))) as [[d i]|e] eqn:E;
    [|vm_compute in E; discriminate].
  destruct (defrag_preserves rc_file rc_st rc_h rc_chunks 4712 d i
              rc_wf rc_run rc_hier rc_encodes rc_canonical rc_typed_channels Hfits E)
    as (t & H1 & H2 & _).
  exists d, i, t. split; [reflexivity|]. split; assumption.
Qed.

Example c10_rc_applies_retyped :
  exists dest index toks',
    defrag 4712 (map_props retype_prop (content_of_read rc_h (List.concat rc_chunks))) = Ok (dest, index) /\
    rd_all dest = Ok (toks', true) /\
    same_content 4712 (expected_tokens rc_st rc_h (List.concat rc_chunks)) toks'.
Proof.
  assert (Hfits : defrag_fits 4712 (map_props retype_prop (content_of_read rc_h (List.concat rc_chunks))) = true)
    by (vm_compute; reflexivity).
  destruct (defrag 4712 (map_props retype_prop (content_of_read rc_h (List.concat rc_chunks))))
    as [[d i]|e] eqn:E; [|vm_compute in E; discriminate].
  destruct (defrag_preserves_retyped rc_file rc_st rc_h rc_chunks 4712 d i
              rc_wf rc_run rc_hier rc_encodes rc_canonical rc_typed_channels Hfits E)
    as (t & H1 & H2 & _).
  exists d, i, t. split; [reflexivity|]. split; assumption.
Qed.

(* both sides evaluated: the reader model on the source bytes, on the bytes
   the writer model produces for defragment's calls (content as it is / re-typed),
   and the normaliser on the source's observation *)
Example c10_rc_evaluates :
  rd_all (ser_file rc_file) = Ok (c10_rc_src_tokens, true) /\
  expected_tokens rc_st rc_h (List.concat rc_chunks) = c10_rc_src_tokens /\
  match defrag 4712 (content_of_read rc_h (List.concat rc_chunks)) with
  | Ok (d, _) => rd_all d
  | Err e => Err e
  end = Ok (c10_rc_dst_tokens, true) /\
  match defrag 4712 (map_props retype_prop (content_of_read rc_h (List.concat rc_chunks))) with
  | Ok (d, _) => rd_all d
  | Err e => Err e
  end = Ok (c10_rc_dst_tokens, true) /\
  defrag_view 4712 rc_h (List.concat rc_chunks) = c10_rc_dst_tokens /\
  normalise_obs 4712 c10_rc_src_tokens = Some c10_rc_dst_tokens.
Proof. vm_compute. repeat split. Qed.

(* C01's rc2_file: an interleaved segment (int16 a, bool b, 3 values each), then a
   metadata-only segment declaring the group *)
Definition c10_rc2_src_tokens : list tok :=
  [TZ 4713; TZ 0; TZ 1; TB (hex "67"); TZ 1; TB (hex "6e"); TZ 3; TB (hex "6869"); TZ 2;
   TB (hex "61"); TB (hex "67"); TB (hex "2f2767272f276127"); TZ 2; TZ 3; TZ 0; TZ 0; TZ 3;
   TB (hex "0102"); TB (hex "0304"); TB (hex "0506"); TB (hex "62"); TB (hex "67");
   TB (hex "2f2767272f276227"); TZ 33; TZ 3; TZ 0; TZ 0; TZ 3; TB (hex "01"); TB (hex "00");
   TB (hex "01"); TZ 0; TZ 0].

Definition c10_rc2_dst_tokens : list tok :=
  [TZ 4712; TZ 0; TZ 1; TB (hex "67"); TZ 1; TB (hex "6e"); TZ 3; TB (hex "6869"); TZ 2;
   TB (hex "61"); TB (hex "67"); TB (hex "2f2767272f276127"); TZ 2; TZ 3; TZ 0; TZ 0; TZ 3;
   TB (hex "0102"); TB (hex "0304"); TB (hex "0506"); TB (hex "62"); TB (hex "67");
   TB (hex "2f2767272f276227"); TZ 33; TZ 3; TZ 0; TZ 0; TZ 3; TB (hex "01"); TB (hex "00");
   TB (hex "01"); TZ 0; TZ 0].

(* the hypotheses of the theorems hold (also the boolean side condition), so
   they apply - to the content as Model/Defrag.v has it and to the re-typed one *)
Example c10_rc2_applies :
  exists dest index toks',
    defrag 4712 (content_of_read rc2_h (List.concat rc2_chunks)) = Ok (dest, index) /\
    rd_all dest = Ok (toks', true) /\
    same_content 4712 (expected_tokens rc2_st rc2_h (List.concat rc2_chunks)) toks'.
Proof.
  assert (Hfits : defrag_fits 4712 (content_of_read rc2_h (List.concat rc2_chunks)) = true)
    by (vm_compute; reflexivity).
  destruct (defrag 4712 (content_of_read rc2_h (List.concat rc2_chunks))) as [[d i]|e] eqn:E;
    [|vm_compute in E; discriminate].
  destruct (defrag_preserves rc2_file rc2_st rc2_h rc2_chunks 4712 d i
              rc2_wf rc2_run rc2_hier rc2_encodes rc2_canonical rc2_typed_channels Hfits E)
    as (t & H1 & H2 & _).
  exists d, i, t. split; [reflexivity|]. split; assumption.
Qed.

Example c10_rc2_applies_retyped :
  exists dest index toks',
    defrag 4712 (map_props retype_prop (content_of_read rc2_h (List.concat rc2_chunks))) = Ok (dest, index) /\
    rd_all dest = Ok (toks', true) /\
    same_content 4712 (expected_tokens rc2_st rc2_h (List.concat rc2_chunks)) toks'.
Proof.
  assert (Hfits : defrag_fits 4712 (map_props retype_prop (content_of_read rc2_h (List.concat rc2_chunks))) = true)
    by (vm_compute; reflexivity).
  destruct (defrag 4712 (map_props retype_prop (content_of_read rc2_h (List.concat rc2_chunks))))
    as [[d i]|e] eqn:E; [|vm_compute in E; discriminate].
  destruct (defrag_preserves_retyped rc2_file rc2_st rc2_h rc2_chunks 4712 d i
              rc2_wf rc2_run rc2_hier rc2_encodes rc2_canonical rc2_typed_channels Hfits E)
    as (t & H1 & H2 & _).
  exists d, i, t. split; [reflexivity|]. split; assumption.
Qed.

(* both sides evaluated: the reader model on the source bytes, on the bytes
   the writer model produces for defragment's calls (content as it is / re-typed),
   and the normaliser on the source's observation *)
Example c10_rc2_evaluates :
  rd_all (ser_file rc2_file) = Ok (c10_rc2_src_tokens, true) /\
  expected_tokens rc2_st rc2_h (List.concat rc2_chunks) = c10_rc2_src_tokens /\
  match defrag 4712 (content_of_read rc2_h (List.concat rc2_chunks)) with
  | Ok (d, _) => rd_all d
  | Err e => Err e
  end = Ok (c10_rc2_dst_tokens, true) /\
  match defrag 4712 (map_props retype_prop (content_of_read rc2_h (List.concat rc2_chunks))) with
  | Ok (d, _) => rd_all d
  | Err e => Err e
  end = Ok (c10_rc2_dst_tokens, true) /\
  defrag_view 4712 rc2_h (List.concat rc2_chunks) = c10_rc2_dst_tokens /\
  normalise_obs 4712 c10_rc2_src_tokens = Some c10_rc2_dst_tokens.
Proof. vm_compute. repeat split. Qed.

(* Proofs/DefragFullExamples.v dx_file: int32 channel a (4 values over two segments),
   an EMPTY string channel s, an untyped channel n, an EMPTY raw-timestamp channel t;
   properties of types int8, single, uint8, bool.  s and t come back untyped and
   data-less; everything else is identical; the destination bytes of the re-typed
   content are the bytes the real TdmsWriter.defragment writes for this source *)
Definition c10_dx_src_tokens : list tok :=
  [TZ 4713; TZ 2; TB (hex "69"); TZ 0; TZ (-3); TB (hex "66"); TZ 1; TB (hex "000000000000f83f");
   TZ 1; TB (hex "67"); TZ 0; TZ 4; TB (hex "61"); TB (hex "67"); TB (hex "2f2767272f276127");
   TZ 3; TZ 4; TZ 1; TB (hex "75"); TZ 0; TZ 200; TZ 0; TZ 4; TB (hex "01000000");
   TB (hex "02000000"); TB (hex "03000000"); TB (hex "04000000"); TB (hex "73"); TB (hex "67");
   TB (hex "2f2767272f277327"); TZ 32; TZ 0; TZ 0; TZ 0; TZ 0; TB (hex "6e"); TB (hex "67");
   TB (hex "2f2767272f276e27"); TZ (-1); TZ 0; TZ 1; TB (hex "62"); TZ 2; TZ 1; TZ 2;
   TB (hex "74"); TB (hex "67"); TB (hex "2f2767272f277427"); TZ 68; TZ 0; TZ 0; TZ 0; TZ 0; TZ 0;
   TZ 0].

Definition c10_dx_dst_tokens : list tok :=
  [TZ 4712; TZ 2; TB (hex "69"); TZ 0; TZ (-3); TB (hex "66"); TZ 1; TB (hex "000000000000f83f");
   TZ 1; TB (hex "67"); TZ 0; TZ 4; TB (hex "61"); TB (hex "67"); TB (hex "2f2767272f276127");
   TZ 3; TZ 4; TZ 1; TB (hex "75"); TZ 0; TZ 200; TZ 0; TZ 4; TB (hex "01000000");
   TB (hex "02000000"); TB (hex "03000000"); TB (hex "04000000"); TB (hex "73"); TB (hex "67");
   TB (hex "2f2767272f277327"); TZ (-1); TZ 0; TZ 0; TZ 2; TB (hex "6e"); TB (hex "67");
   TB (hex "2f2767272f276e27"); TZ (-1); TZ 0; TZ 1; TB (hex "62"); TZ 2; TZ 1; TZ 2;
   TB (hex "74"); TB (hex "67"); TB (hex "2f2767272f277427"); TZ (-1); TZ 0; TZ 0; TZ 2; TZ 0; TZ 0].

(* the hypotheses of the theorems hold (also the boolean side condition), so
   they apply - to the content as Model/Defrag.v has it and to the re-typed one *)
Example c10_dx_applies :
  exists dest index toks',
    defrag 4712 (content_of_read dx_h (List.concat dx_chunks)) = Ok (dest, index) /\
    rd_all dest = Ok (toks', true) /\
    same_content 4712 (expected_tokens dx_st dx_h (List.concat dx_chunks)) toks'.
Proof.
  assert (Hfits : defrag_fits 4712 (content_of_read dx_h (List.concat dx_chunks)) = true)
    by (vm_compute; reflexivity).
  destruct (defrag 4712 (content_of_read dx_h (List.concat dx_chunks))) as [[d i]|e] eqn:E;
    [|vm_compute in E; discriminate].
  destruct (defrag_preserves dx_file dx_st dx_h dx_chunks 4712 d i
              dx_wf dx_run dx_hier dx_encodes dx_canonical dx_typed_channels Hfits E)
    as (t & H1 & H2 & _).
  exists d, i, t. split; [reflexivity|]. split; assumption.
Qed.

Example c10_dx_applies_retyped :
  exists dest index toks',
    defrag 4712 (map_props retype_prop (content_of_read dx_h (List.concat dx_chunks))) = Ok (dest, index) /\
    rd_all dest = Ok (toks', true) /\
    same_content 4712 (expected_tokens dx_st dx_h (List.concat dx_chunks)) toks'.
Proof.
  assert (Hfits : defrag_fits 4712 (map_props retype_prop (content_of_read dx_h (List.concat dx_chunks))) = true)
    by (vm_compute; reflexivity).
  destruct (defrag 4712 (map_props retype_prop (content_of_read dx_h (List.concat dx_chunks))))
    as [[d i]|e] eqn:E; [|vm_compute in E; discriminate].
  destruct (defrag_preserves_retyped dx_file dx_st dx_h dx_chunks 4712 d i
              dx_wf dx_run dx_hier dx_encodes dx_canonical dx_typed_channels Hfits E)
    as (t & H1 & H2 & _).
  exists d, i, t. split; [reflexivity|]. split; assumption.
Qed.

(* both sides evaluated: the reader model on the source bytes, on the bytes
   the writer model produces for defragment's calls (content as it is / re-typed),
   and the normaliser on the source's observation *)
Example c10_dx_evaluates :
  rd_all (ser_file dx_file) = Ok (c10_dx_src_tokens, true) /\
  expected_tokens dx_st dx_h (List.concat dx_chunks) = c10_dx_src_tokens /\
  match defrag 4712 (content_of_read dx_h (List.concat dx_chunks)) with
  | Ok (d, _) => rd_all d
  | Err e => Err e
  end = Ok (c10_dx_dst_tokens, true) /\
  match defrag 4712 (map_props retype_prop (content_of_read dx_h (List.concat dx_chunks))) with
  | Ok (d, _) => rd_all d
  | Err e => Err e
  end = Ok (c10_dx_dst_tokens, true) /\
  defrag_view 4712 dx_h (List.concat dx_chunks) = c10_dx_dst_tokens /\
  normalise_obs 4712 c10_dx_src_tokens = Some c10_dx_dst_tokens.
Proof. vm_compute. repeat split. Qed.

(* the re-typing is visible in the FILE (not in the observation): the two
   destinations of dx_file differ, and the re-typed properties are Int32 -3,
   double 1.5, Int32 200, Boolean true *)
Example c10_dx_retyped_props :
  map retype_prop [mkProp (hex "69") 1 (hex "fd"); mkProp (hex "66") 9 (hex "0000c03f");
                   mkProp (hex "75") 5 (hex "c8"); mkProp (hex "62") T_BOOL (hex "01")] =
  [mkProp (hex "69") 3 (hex "fdffffff"); mkProp (hex "66") 10 (hex "000000000000f83f");
   mkProp (hex "75") 3 (hex "c8000000"); mkProp (hex "62") T_BOOL (hex "01")] /\
  match defrag 4712 (content_of_read dx_h (List.concat dx_chunks)),
        defrag 4712 (map_props retype_prop (content_of_read dx_h (List.concat dx_chunks))) with
  | Ok (d1, _), Ok (d2, _) => negb (bytes_eqb d1 d2) && Z.eqb (blen d1) 376 && Z.eqb (blen d2) 386
  | _, _ => false
  end = true.
Proof. vm_compute. split; reflexivity. Qed.

End Examples.

Print Assumptions source_props_keyed.
Print Assumptions keyed_merge_props.
Print Assumptions untyped_channel_len0.
Print Assumptions group_name_is_key.
Print Assumptions source_status_complete.
Print Assumptions source_dtype_nonvoid.
Print Assumptions retype_prop_accepted.
Print Assumptions retype_prop_same_value.
Print Assumptions defrag_accepts.
Print Assumptions defrag_total.
Print Assumptions defrag_preserves.
Print Assumptions defrag_preserves_retyped.
Print Assumptions defrag_preserves_both_sides.
Print Assumptions normalise_rendered.
Print Assumptions dtype_kept_nonempty.
Print Assumptions dtype_kept_numpy.
Print Assumptions dtype_empty_other.
Print Assumptions norm_chan_keeps.
Print Assumptions unblanked_same_hierarchy.
Print Assumptions c10_rc_applies.
Print Assumptions c10_rc_applies_retyped.
Print Assumptions c10_rc_evaluates.
Print Assumptions c10_rc2_applies.
Print Assumptions c10_rc2_applies_retyped.
Print Assumptions c10_rc2_evaluates.
Print Assumptions c10_dx_applies.
Print Assumptions c10_dx_applies_retyped.
Print Assumptions c10_dx_evaluates.
Print Assumptions c10_dx_retyped_props.
