(* C12 (companion) — the timestamp arithmetic TRANSLATED from the Python source on every run
   (harness/gen/gen_pyfuncs_time.py -> Gen/PyFuncsTime.v) equals the hand-written model
   (Model/Timestamp.v), and C12's headline theorems hold of the translated functions.
   Statements only; proofs: Proofs/GenTimeEquiv.v.

   Translated (Python `ast`; operators, constants, tables, shifts, masks, the order of the
   checked NumPy operations all come from the source text):
     nptdms/types.py      TimeStamp.__init__                      timestamp_init_gen
     nptdms/timestamp.py  TdmsTimestamp.bytes                     tdms_timestamp_bytes_gen
                          TdmsTimestamp.as_datetime64             scalar_as_datetime64_gen, scalar_steps_gen
                          TimestampArray.as_datetime64 (element)  array_as_datetime64_gen, array_steps_gen
                          _steps_per_second / _fraction_tolerance / EPOCH / TimeStamp._tdms_epoch
   Conventions: value : datetime64[us] count; resolution restricted to the keys of
   _steps_per_second ('ps', the float path, is not translated and not claimed by C12);
   NumPy's datetime arithmetic is CHECKED (OverflowError outside (-2^63, 2^63) -> Err EOther,
   NaT = -2^63 propagates), uint64 array arithmetic wraps (np_u64); these primitives
   (Gen/PyFuncsTime.v, fixed text) and every translated function are compared with the real
   NumPy / npTDMS code on boundary grids each time the generated file is built.

   The hand model computes over Z and leaves representability to hypotheses; [representable]
   lists the five values NumPy forms when decoding. *)
From Coq Require Import ZArith List.
Import ListNotations.
From NpTdms Require Import Base.Bytes Base.Res Model.Timestamp Gen.PyFuncsTime Proofs.GenTimeEquiv.
Local Open Scope Z_scope.

(* ---- tables and constants --------------------------------------------------------------- *)

Theorem steps_per_second_translated : forall r,
    steps_per_second_tbl r = steps_per_second r /\ np_ups r = steps_per_second r.
Proof. exact steps_tables_eq. Qed.

Theorem constants_translated :
  fraction_tolerance_const = TOL /\ epoch_const = EPOCH_S /\ tdms_epoch_const = TDMS_EPOCH_US.
Proof. exact time_constants_eq. Qed.

(* ---- the integer cores: equal for ALL inputs ------------------------------------------------ *)

(* ((int(second_fractions) + _fraction_tolerance) * _steps_per_second[resolution]) >> 64 *)
Theorem scalar_steps_translated : forall r s f, scalar_steps_gen r s f = Ok (frac_steps_scalar r f).
Proof. exact scalar_steps_eq. Qed.

(* the hi/lo 32-bit split with every uint64 wrap *)
Theorem array_steps_translated : forall r s f, array_steps_gen r s f = Ok (frac_steps_array r f).
Proof. exact array_steps_eq. Qed.

(* struct.pack('<Qq', second_fractions, seconds): TdmsTimestamp.bytes *)
Theorem timestamp_bytes_translated : forall s f,
    tdms_timestamp_bytes_gen s f = match wr_ts LE s f with Some b => Ok b | None => Err EStruct end.
Proof. exact tdms_timestamp_bytes_eq. Qed.

(* ---- decode: equal to the model exactly where NumPy can represent the intermediate values ---- *)

Theorem scalar_as_datetime64_translated : forall r s f,
    representable r s (frac_steps_scalar r f) ->
    scalar_as_datetime64_gen r s f = Ok (conv_scalar r s f).
Proof. exact scalar_as_datetime64_eq. Qed.

(* and conversely: a result (for seconds other than the NaT pattern) is always the model's, and
   then every intermediate value was representable *)
Theorem scalar_as_datetime64_translated_inv : forall r s f d,
    scalar_as_datetime64_gen r s f = Ok d -> s <> - 2 ^ 63 ->
    representable r s (frac_steps_scalar r f) /\ d = conv_scalar r s f.
Proof. exact scalar_as_datetime64_inv. Qed.

Theorem array_as_datetime64_translated : forall r s f,
    0 <= f < 2 ^ 64 -> representable r s (frac_steps_array r f) ->
    array_as_datetime64_gen r s f = Ok (conv_array r s f).
Proof. exact array_as_datetime64_eq. Qed.

Theorem array_list_translated : forall r l,
    Forall (fun sf => 0 <= snd sf < 2 ^ 64 /\ representable r (fst sf) (frac_steps_array r (snd sf))) l ->
    array_as_datetime64_list_gen r l = Ok (map (fun sf => conv_array r (fst sf) (snd sf)) l).
Proof. exact array_list_eq. Qed.

(* ---- encode: TimeStamp.__init__ on every datetime64[us] NumPy can subtract the epoch from ----- *)

Theorem timestamp_init_translated : forall d,
    - 2 ^ 63 < d < 2 ^ 63 -> d - TDMS_EPOCH_US < 2 ^ 63 ->
    exists b, wr_ts LE (fst (enc_dt d)) (snd (enc_dt d)) = Some b /\ length b = 16%nat /\
              rd_ts LE b = Some (enc_dt d) /\
              timestamp_init_gen d = Ok (fst (enc_dt d), snd (enc_dt d), b).
Proof. exact timestamp_init_ok. Qed.

(* outside that domain the real code raises: NaT -> ValueError, too far from 1904 -> OverflowError *)
Theorem timestamp_init_translated_fails : forall d,
    - 2 ^ 63 <= d < 2 ^ 63 ->
    (d = - 2 ^ 63 -> timestamp_init_gen d = Err EValue) /\
    (2 ^ 63 <= d - TDMS_EPOCH_US -> timestamp_init_gen d = Err EOther).
Proof. exact timestamp_init_fails. Qed.

(* ---- C12's headline theorems on the translated functions --------------------------------------- *)

(* ts_roundtrip: datetime64[us] -> TimeStamp(...).bytes -> fields -> as_datetime64 on both read
   paths is the identity, all NumPy checks passing.  The domain is the one of
   Props/C12.v ts_roundtrip_datetime64: d - epoch fits int64 and d is not in the first second
   of the datetime64[us] range. *)
Theorem ts_roundtrip_translated : forall d,
    - 2 ^ 63 + 1000000 <= d -> d - TDMS_EPOCH_US < 2 ^ 63 ->
    exists s f b,
      timestamp_init_gen d = Ok (s, f, b) /\ length b = 16%nat /\ rd_ts LE b = Some (s, f) /\
      tdms_timestamp_bytes_gen s f = Ok b /\
      scalar_as_datetime64_gen Rus s f = Ok d /\ array_as_datetime64_gen Rus s f = Ok d.
Proof. exact ts_roundtrip_gen. Qed.

(* conv_within_unit: whatever the translated decoder returns is within one unit of the exact
   rational time (counted from 1970, in the source's own table and tolerance):
       exact - 1 < result <= exact + m * tolerance / 2^64 *)
Theorem conv_within_unit_translated : forall r s f d,
    0 <= f < 2 ^ 64 -> s <> - 2 ^ 63 ->
    scalar_as_datetime64_gen r s f = Ok d ->
    let m := steps_per_second_tbl r in
    let X := (epoch_const + s) * 2 ^ 64 + f in
    m * X - 2 ^ 64 < d * 2 ^ 64 <= m * X + m * fraction_tolerance_const /\
    m * fraction_tolerance_const < 2 ^ 64.
Proof. exact conv_within_unit_gen. Qed.

Theorem conv_within_unit_array_translated : forall r s f d,
    0 <= f < 2 ^ 64 -> - 2 ^ 63 < s < 2 ^ 63 ->
    array_as_datetime64_gen r s f = Ok d ->
    let m := steps_per_second_tbl r in
    let X := (epoch_const + s) * 2 ^ 64 + f in
    m * X - 2 ^ 64 < d * 2 ^ 64 <= m * X + m * fraction_tolerance_const /\
    m * fraction_tolerance_const < 2 ^ 64.
Proof. exact conv_within_unit_array_gen. Qed.

(* scalar_eq_array: the two decoders agree -- same value or both raise -- on every timestamp a
   file can hold except seconds = -2^63; no representability hypothesis is needed *)
Theorem scalar_eq_array_translated : forall r s f,
    0 <= f < 2 ^ 64 -> - 2 ^ 63 < s < 2 ^ 63 ->
    array_as_datetime64_gen r s f = scalar_as_datetime64_gen r s f.
Proof. exact scalar_eq_array_gen. Qed.

(* at seconds = -2^63 (NumPy's NaT pattern) they differ: NaT from TdmsTimestamp.as_datetime64,
   OverflowError from TimestampArray.as_datetime64 (checked against the real code by the
   self-test of the generated file) *)
Theorem scalar_array_differ_at_nat_seconds :
  scalar_as_datetime64_gen Rus (- 2 ^ 63) 0 = Ok NAT64 /\
  array_as_datetime64_gen Rus (- 2 ^ 63) 0 = Err EOther.
Proof. exact scalar_array_differ_at_nat. Qed.

(* ---- non-vacuity: the instances of Props/C12.v on the translated functions ------------------------ *)

Example c12_gen_2020 :
  exists b, timestamp_init_gen 1577836816000001 = Ok (3660681616, 18446744073710, b) /\
            scalar_as_datetime64_gen Rus 3660681616 18446744073710 = Ok 1577836816000001 /\
            array_as_datetime64_gen Rus 3660681616 18446744073710 = Ok 1577836816000001.
Proof. exact ex_gen_2020. Qed.

Example c12_gen_pinned :
  map (fun r => scalar_as_datetime64_gen r 3524551547 12345678900000000000) [Rs; Rms; Rus; Rns]
  = map Ok [1441706747; 1441706747669; 1441706747669260; 1441706747669260594] /\
  map (fun r => array_as_datetime64_gen r 3524551547 12345678900000000000) [Rs; Rms; Rus; Rns]
  = map Ok [1441706747; 1441706747669; 1441706747669260; 1441706747669260594].
Proof. exact ex_gen_pinned. Qed.

(* the hypotheses of the round trip and of [representable] are satisfiable *)
Example c12_gen_hypotheses :
  (- 2 ^ 63 + 1000000 <= 1577836816000001 /\ 1577836816000001 - TDMS_EPOCH_US < 2 ^ 63) /\
  representable Rns 3524551547 (frac_steps_scalar Rns 12345678900000000000).
Proof. exact ex_gen_hypotheses. Qed.

Print Assumptions steps_per_second_translated.
Print Assumptions constants_translated.
Print Assumptions scalar_steps_translated.
Print Assumptions array_steps_translated.
Print Assumptions timestamp_bytes_translated.
Print Assumptions scalar_as_datetime64_translated.
Print Assumptions scalar_as_datetime64_translated_inv.
Print Assumptions array_as_datetime64_translated.
Print Assumptions array_list_translated.
Print Assumptions timestamp_init_translated.
Print Assumptions timestamp_init_translated_fails.
Print Assumptions ts_roundtrip_translated.
Print Assumptions conv_within_unit_translated.
Print Assumptions conv_within_unit_array_translated.
Print Assumptions scalar_eq_array_translated.
Print Assumptions scalar_array_differ_at_nat_seconds.
Print Assumptions c12_gen_2020.
Print Assumptions c12_gen_pinned.
Print Assumptions c12_gen_hypotheses.
