(* C06 (companion) — the truncation arithmetic restated on the functions TRANSLATED from the
   source (Gen/PyFuncsReader.v; see Props/C01_gen.v for the equalities and the conventions).
   Statements only (proofs: Proofs/GenReaderTrunc.v, by rewriting with the equalities and
   applying the theorems of Proofs/TruncProofs.v). *)
From Coq Require Import List ZArith.
Import ListNotations.
From NpTdms Require Import Base.Bytes Base.Res Model.Tokens Model.SegState Model.Layout
     Gen.TypeTable Gen.PyFuncsReader Proofs.TruncProofs Proofs.GenReaderEquiv Proofs.GenReaderTrunc.
Local Open Scope Z_scope.

(* A6: where a cut falls decides what _read_lead_in reports *)
Theorem read_lead_in_cut_translated : forall seg_pos toc next_off raw_off k,
    next_off <> 0xFFFFFFFFFFFFFFFF -> raw_off <= next_off ->
    let dp := seg_pos + 28 + raw_off in
    let np := seg_pos + next_off + 28 in
    (k < dp -> read_lead_in_gen (Some k) seg_pos toc next_off raw_off = Err EEof) /\
    (dp <= k ->
     exists inc, read_lead_in_gen (Some k) seg_pos toc next_off raw_off
                 = Ok (seg_pos, toc, dp, Some (Z.min k np), inc) /\
                 (inc = true <-> dp <= k < np)) /\
    (np <= k ->
     read_lead_in_gen (Some k) seg_pos toc next_off raw_off = Ok (seg_pos, toc, dp, Some np, false)).
Proof. exact read_lead_in_cut_gen. Qed.

Theorem read_lead_in_unknown_translated : forall seg_pos toc next_off raw_off k,
    next_off = 0xFFFFFFFFFFFFFFFF ->
    let dp := seg_pos + 28 + raw_off in
    (k < dp -> read_lead_in_gen (Some k) seg_pos toc next_off raw_off = Err EEof) /\
    (dp <= k ->
     read_lead_in_gen (Some k) seg_pos toc next_off raw_off = Ok (seg_pos, toc, dp, Some k, true)).
Proof. exact read_lead_in_unknown_gen. Qed.

(* A1: chunk count and override of a segment with [sg_next - sg_data] bytes of raw data *)
Theorem calculate_chunks_count_translated : forall s csize n fin,
    bufs_nonneg (sg_objs s) ->
    get_chunk_size_gen s = Ok csize -> 0 < csize -> 0 <= sg_next s - sg_data s ->
    calculate_chunks_gen s = Ok (n, fin) ->
    n = nchunks_of (sg_next s - sg_data s) csize /\
    ((sg_next s - sg_data s) mod csize = 0 -> fin = None) /\
    ((sg_next s - sg_data s) mod csize <> 0 ->
     exists f, fin = Some f /\
               compute_final_chunk_lengths_gen s csize ((sg_next s - sg_data s) mod csize) = Ok f).
Proof. exact calculate_chunks_count_gen. Qed.

(* A5: a truncated final chunk never holds more values than a complete one (non-DAQmx) *)
Theorem final_chunk_lengths_le_translated : forall s csize rem f o,
    bufs_nonneg (sg_objs s) ->
    have_daqmx_objects_gen s = Ok (Some false) ->
    compute_final_chunk_lengths_gen s csize rem = Ok f ->
    NoDup (map so_path (data_objs (sg_objs s))) ->
    (forall o, In o (data_objs (sg_objs s)) -> 0 <= so_nvals o) ->
    0 <= rem < csize ->
    In o (data_objs (sg_objs s)) ->
    0 <= lookup0 (so_path o) f <= so_nvals o.
Proof. exact final_chunk_lengths_le_gen. Qed.

(* A5: cutting a complete segment ([s'] = [s] with less raw data) keeps every complete chunk
   and never yields more values *)
Theorem calculate_chunks_truncated_le_translated : forall s s' csize n fin n' fin' o,
    sg_objs s' = sg_objs s -> sg_toc s' = sg_toc s ->
    bufs_nonneg (sg_objs s) ->
    have_daqmx_objects_gen s = Ok (Some false) ->
    get_chunk_size_gen s = Ok csize -> 0 < csize ->
    0 <= sg_next s' - sg_data s' < sg_next s - sg_data s ->
    (sg_next s - sg_data s) mod csize = 0 ->
    NoDup (map so_path (data_objs (sg_objs s))) ->
    (forall o, In o (data_objs (sg_objs s)) -> 0 <= so_nvals o) ->
    calculate_chunks_gen s = Ok (n, fin) ->
    calculate_chunks_gen s' = Ok (n', fin') ->
    In o (data_objs (sg_objs s)) ->
    fin = None /\ n = (sg_next s - sg_data s) / csize /\
    so_nvals o * ((sg_next s' - sg_data s') / csize) <= seg_values o n' fin' <= seg_values o n fin.
Proof. exact calculate_chunks_truncated_le_gen. Qed.

(* a segment at 100 declaring 20 bytes of metadata and 60 of data (148..208), cut at 150 /
   147 / not cut; the length-unknown marker without a known file size is a TypeError *)
Example c06_gen_example :
  read_lead_in_gen (Some 150) 100 14 80 20 = Ok (100, 14, 148, Some 150, true) /\
  read_lead_in_gen (Some 147) 100 14 80 20 = Err EEof /\
  read_lead_in_gen (Some 500) 100 14 80 20 = Ok (100, 14, 148, Some 208, false) /\
  read_lead_in_gen None 100 14 0xFFFFFFFFFFFFFFFF 20 = Err EType.
Proof. exact ex_c06_values. Qed.

Print Assumptions read_lead_in_cut_translated.
Print Assumptions read_lead_in_unknown_translated.
Print Assumptions calculate_chunks_count_translated.
Print Assumptions final_chunk_lengths_le_translated.
Print Assumptions calculate_chunks_truncated_le_translated.
Print Assumptions c06_gen_example.
