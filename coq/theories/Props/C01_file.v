(* C01 (file level) — the reader's metadata pass on the BYTES of a serialised
   file is the abstract state machine run on the file's SYNTAX.

   [ser_file] (Model/FileSyn.v) is the canonical serialiser of a list of
   segments (lead-in with exact next-segment and raw-data offsets, metadata
   block, raw data); [rd_metadata] (Model/Reader.v) is the reader model that the
   correspondence check ties to nptdms/reader.py; [sm_run] is the same pass
   stated on the syntax, with no bytes and positions computed arithmetically.
   This is the layer that lets the theorems about the state machine speak about
   files.  Everything assumed is in [wf_file], spelled out by [wf_file_spec]. *)
From Coq Require Import List ZArith.
Import ListNotations.
From NpTdms Require Import Base.Bytes Base.Res Model.Tokens Model.TokensWf Model.SegState
     Model.Layout Model.Reader Model.FileSyn Proofs.FileSynProofs.
Local Open Scope Z_scope.

(* what a well-formed file is: per segment, field widths, a declared length
   that is not the "unknown" marker, and a metadata flag that tells the truth *)
Theorem wf_file_spec : forall segs,
    wf_file segs <->
    Forall (fun s =>
              0 <= fs_toc s < 4294967296 /\
              -2147483648 <= fs_version s < 2147483648 /\
              blen (fs_meta_bytes s) + blen (fs_data s) < 0xFFFFFFFFFFFFFFFF /\
              match fs_meta s with
              | Some es => toc_has (fs_toc s) TOC_META = true /\ wf_metadata es = true
              | None => toc_has (fs_toc s) TOC_META = false
              end) segs.
Proof. exact FileSynProofs.wf_file_spec. Qed.

Theorem rd_metadata_ser : forall segs w, wf_file segs ->
    rd_metadata (ser_file segs) false (Some (blen (ser_file segs))) w = sm_run segs w.
Proof. exact FileSynProofs.rd_metadata_ser. Qed.

(* the premises are satisfiable on a two-segment file (one segment with
   metadata and raw data, one without metadata), and both sides of the theorem
   compute to the same successful run on it *)
Example c01_file_wf : wf_file ex_file.
Proof. exact ex_file_wf. Qed.

Example c01_file_run :
  rd_metadata (ser_file ex_file) false (Some (blen (ser_file ex_file))) true = sm_run ex_file true /\
  match sm_run ex_file true with
  | Ok st => map (fun g => (sg_pos g, sg_data g, sg_next g, sg_nchunks g)) (rs_segments st)
             = [(0, 125, 141, 2); (141, 169, 177, 1)]
  | Err _ => False
  end.
Proof. exact ex_file_run. Qed.

Print Assumptions wf_file_spec.
Print Assumptions rd_metadata_ser.
