(* C15 (end to end) — the byte order of a segment does not change what is read
   from the FILE; segments of different byte order may be mixed freely.

   Setting (Props/C01_read.v): [segs : list fseg] is a file SYNTAX
   (Model/FileSyn.v): per segment a ToC mask, a version, an optional metadata
   block as a list of entries, a raw data block as bytes; [ser_file segs] its
   bytes.  The ToC mask's big-endian bit (64) decides the byte order of that
   segment's lead-in fields after the mask, of every metadata field and property
   value, and of its raw data.  The syntax holds paths, raw-index fields (Z) and
   property values (canonical little-endian value bytes) ABSTRACTLY; [ser_seg]
   encodes them in the order the mask selects.

   [reorder es segs chunkss] (Proofs/EndianRead.v) is the SAME content with
   segment i written in byte order es[i]:
     ToC mask      bit 64 set (BE) / cleared (LE), every other bit kept
                   ([toc_set_endian]; reorder_endian: the byte orders of the
                   result are exactly es);
     metadata      the same entries (so [ser_seg] re-encodes every field and
                   property value in the new order; the block keeps its length,
                   ser_metadata_blen_any);
     raw data      re-encoded FROM THE CHUNK VALUES chunkss — not from the old
                   bytes — by LayoutProofs.enc_chunks (contiguous) / enc_rows
                   (interleaved), or empty without data objects ([reenc]), for
                   the object list and layout the metadata pass computes.
   [es] is arbitrary, so every mixture of byte orders across segments is covered;
   reorder_same: with the byte orders the file already has, reorder is the
   identity, so [segs] itself is one of the assignments.

   Theorem [endian_transparent]: under exactly the hypotheses of C01's
   [read_correct] for [segs] (nothing has to be re-assumed for the reordered
   file: its well-formedness, the success of the metadata pass and of the
   hierarchy construction, and the encoding relation for the reordered blocks are
   all DERIVED — reorder_wf, sm_run_reorder, reorder_encodes) and
   [length es = length segs],
       rd_all (ser_file (reorder es segs chunkss)) = rd_all (ser_file segs)
   and both are [Ok (expected_tokens st h (concat chunkss), true)]
   ([read_correct_reorder]).  [endian_transparent_any] compares two arbitrary
   assignments.  [sm_run_reorder] is the metadata half on its own: the reader
   state of the reordered file differs from the original's only in the
   big-endian bit of the recorded ToC masks (same positions, object lists,
   object indexes, chunk counts, final-chunk lengths, per-object metadata
   rs_om = paths, data types, lengths, properties in order, same cache and
   version) and [sm_run_sim] adds that rejections are preserved too.
   [endian_transparent_lazy(_plan)] is the same statement for the lazy byte-level
   model (Model/LazyBytes.v): every window read from the reordered file equals
   the window read from the original, and the same chunks are fetched.

   Canonical form of values, and why the comparison is meaningful.  In the
   token list a channel value is [TB v] with v the value's canonical
   LITTLE-ENDIAN byte string of its type's size (complex: each component
   little-endian; timestamp: 16 bytes, u64 fractions then i64 seconds; string:
   its bytes), whatever byte order it was STORED in: the decoders apply
   [canon_value e dt] (Model/Tokens.v) to the stored bytes, and the harness maps
   the implementation's arrays to little-endian bytes the same way (DESIGN 3b).
   Property values are shown by [obs_prop_value] computed from canonical bytes;
   data types, lengths, names are Z / byte-string tokens.  Equality of the token
   lists is therefore equality of the values, types, lengths, properties and
   their order as the public API shows them — NOT equality of stored bytes: the
   examples below show that the two files differ as byte strings (lead-in
   fields, every metadata field, every multi-byte value) yet read to the same
   explicit token list.

   Scope = read_correct's: contiguous and interleaved segments of every sized
   type, strings, metadata-less segments, segments without data objects; NOT
   DAQmx segments (seg_encodes has no DAQmx case; the DAQmx scaler codec is in
   Props/C15.v / C11.v at the decoder level only), not truncated last segments.
   The instance files were also read back with the implementation
   (TdmsFile.read and open(...).read_data on the six byte strings below): same
   values, types and properties in all of them. *)
From Coq Require Import List ZArith.
Import ListNotations.
From NpTdms Require Import Base.Bytes Base.Res Model.Tokens Model.TokensWf Model.SegState
     Model.Layout Model.Reader Model.FileSyn Model.LazyBytes Proofs.LayoutProofs Proofs.FileSynProofs
     Proofs.ReadCorrect Proofs.EndianRead Proofs.EndianLazy.
Local Open Scope Z_scope.

(* ---- the ToC bit --------------------------------------------------------------- *)

Theorem toc_endian_set : forall e toc, toc_endian (toc_set_endian e toc) = e.
Proof. exact EndianRead.toc_endian_set. Qed.

(* every other single-bit flag keeps its value *)
Theorem toc_has_set_endian : forall e toc k,
    0 <= k -> k <> 6 -> toc_has (toc_set_endian e toc) (2 ^ k) = toc_has toc (2 ^ k).
Proof. exact EndianRead.toc_has_set_endian. Qed.

Theorem toc_set_endian_u32 : forall e toc, is_u32 toc = true -> is_u32 (toc_set_endian e toc) = true.
Proof. exact EndianRead.toc_set_endian_u32. Qed.

(* ---- metadata: same length in either byte order --------------------------------- *)

Theorem ser_metadata_blen_any : forall e e' es, blen (ser_metadata e es) = blen (ser_metadata e' es).
Proof. exact EndianRead.ser_metadata_blen_any. Qed.

(* ---- raw data: re-encoding from the chunk values -------------------------------- *)

(* g' : the record the metadata pass makes for the reordered segment (seg_sim:
   same as g except for mask bits the pass does not use) *)
Theorem seg_encodes_reenc : forall ix g g' data chunks,
    seg_sim ix g g' ->
    seg_encodes g data chunks ->
    seg_encodes g' (reenc (toc_endian (sg_toc g')) g chunks) chunks /\
    blen (reenc (toc_endian (sg_toc g')) g chunks) = blen data.
Proof. exact EndianRead.seg_encodes_reenc. Qed.

Theorem reenc_same : forall g data chunks,
    seg_encodes g data chunks -> reenc (toc_endian (sg_toc g)) g chunks = data.
Proof. exact EndianRead.reenc_same. Qed.

(* ---- the metadata pass ----------------------------------------------------------- *)

(* any two syntaxes with the same versions and entries, raw data blocks of the
   same lengths, and masks agreeing on the metadata / new-list / interleaved
   flags: same result of the pass, rejections included *)
Theorem sm_run_sim : forall segs segs' w,
    Forall2 fseg_sim segs segs' -> res_sim true (sm_run segs w) (sm_run segs' w).
Proof. exact EndianRead.sm_run_sim. Qed.

Theorem sm_run_reorder : forall segs st chunkss es,
    length es = length segs ->
    sm_run segs false = Ok st ->
    segs_encode (rs_segments st) segs chunkss ->
    forall w stw,
      sm_run segs w = Ok stw ->
      exists stw', sm_run (reorder es segs chunkss) w = Ok stw' /\
                   Forall2 (seg_sim true) (rs_segments stw) (rs_segments stw') /\
                   rs_prev_objs stw' = rs_prev_objs stw /\
                   rs_om stw' = rs_om stw /\
                   rs_version stw' = rs_version stw /\
                   rs_cache stw' = rs_cache stw.
Proof. exact EndianRead.sm_run_reorder_fields. Qed.

(* ---- the reordered file ----------------------------------------------------------- *)

Theorem reorder_endian : forall segs st chunkss es,
    length es = length segs ->
    sm_run segs false = Ok st ->
    segs_encode (rs_segments st) segs chunkss ->
    map (fun s => toc_endian (fs_toc s)) (reorder es segs chunkss) = es.
Proof. exact EndianRead.reorder_endian. Qed.

Theorem reorder_same : forall segs st chunkss,
    sm_run segs false = Ok st ->
    segs_encode (rs_segments st) segs chunkss ->
    reorder (map (fun s => toc_endian (fs_toc s)) segs) segs chunkss = segs.
Proof. exact EndianRead.reorder_same. Qed.

Theorem reorder_wf : forall segs st chunkss es,
    length es = length segs ->
    wf_file segs ->
    sm_run segs false = Ok st ->
    segs_encode (rs_segments st) segs chunkss ->
    wf_file (reorder es segs chunkss).
Proof. exact EndianRead.reorder_wf. Qed.

(* the reordered raw data blocks encode the same chunk values, for the records of
   the pass over the reordered file *)
Theorem reorder_encodes : forall segs st chunkss es,
    length es = length segs ->
    sm_run segs false = Ok st ->
    segs_encode (rs_segments st) segs chunkss ->
    forall st', sm_run (reorder es segs chunkss) false = Ok st' ->
                segs_encode (rs_segments st') (reorder es segs chunkss) chunkss.
Proof. exact EndianRead.reorder_encodes_run. Qed.

(* ---- the whole read ----------------------------------------------------------------- *)

Theorem read_correct_reorder : forall segs st h chunkss es,
    length es = length segs ->
    wf_file segs ->
    sm_run segs false = Ok st ->
    build_hierarchy (rs_om st) = Ok h ->
    segs_encode (rs_segments st) segs chunkss ->
    om_paths_canonical (rs_om st) ->
    typed_objects_are_channels (rs_om st) ->
    rd_all (ser_file (reorder es segs chunkss)) = Ok (expected_tokens st h (concat chunkss), true).
Proof. exact EndianRead.read_correct_reorder. Qed.

Theorem endian_transparent : forall segs st h chunkss es,
    length es = length segs ->
    wf_file segs ->
    sm_run segs false = Ok st ->
    build_hierarchy (rs_om st) = Ok h ->
    segs_encode (rs_segments st) segs chunkss ->
    om_paths_canonical (rs_om st) ->
    typed_objects_are_channels (rs_om st) ->
    rd_all (ser_file (reorder es segs chunkss)) = rd_all (ser_file segs).
Proof. exact EndianRead.endian_transparent. Qed.

Theorem endian_transparent_any : forall segs st h chunkss es1 es2,
    length es1 = length segs -> length es2 = length segs ->
    wf_file segs ->
    sm_run segs false = Ok st ->
    build_hierarchy (rs_om st) = Ok h ->
    segs_encode (rs_segments st) segs chunkss ->
    om_paths_canonical (rs_om st) ->
    typed_objects_are_channels (rs_om st) ->
    rd_all (ser_file (reorder es1 segs chunkss)) = rd_all (ser_file (reorder es2 segs chunkss)).
Proof. exact EndianRead.endian_transparent_any. Qed.

(* ---- the lazy byte-level model ------------------------------------------------------- *)

Theorem endian_transparent_lazy : forall segs st chunkss es path offs len,
    length es = length segs ->
    wf_file segs ->
    sm_run segs false = Ok st ->
    segs_encode (rs_segments st) segs chunkss ->
    lz_read_bytes (ser_file (reorder es segs chunkss)) path offs len
    = lz_read_bytes (ser_file segs) path offs len.
Proof. exact EndianLazy.endian_transparent_lazy. Qed.

Theorem endian_transparent_lazy_plan : forall segs st chunkss es path offs len,
    length es = length segs ->
    wf_file segs ->
    sm_run segs false = Ok st ->
    segs_encode (rs_segments st) segs chunkss ->
    lz_plan_bytes (ser_file (reorder es segs chunkss)) path offs len
    = lz_plan_bytes (ser_file segs) path offs len.
Proof. exact EndianLazy.endian_transparent_lazy_plan. Qed.

(* ---- instances: the hypotheses hold, the bytes differ, the reads agree ---------------- *)

(* rc_file (Proofs/ReadCorrect.v): contiguous; segment 1 with metadata (group "g"
   with a string property, channel "a" int32 with an int32 property, channel "b"
   string) and two chunks, segment 2 without metadata and one chunk. *)
Example c15_read_instance_BE_LE :
  rd_all (ser_file (reorder [BE; LE] rc_file rc_chunks)) = rd_all (ser_file rc_file).
Proof.
  exact (EndianRead.endian_transparent rc_file rc_st rc_h rc_chunks [BE; LE] eq_refl
           rc_wf rc_run rc_hier rc_encodes rc_canonical rc_typed_channels).
Qed.

Example c15_read_instance_LE_BE :
  rd_all (ser_file (reorder [LE; BE] rc_file rc_chunks)) = rd_all (ser_file rc_file).
Proof.
  exact (EndianRead.endian_transparent rc_file rc_st rc_h rc_chunks [LE; BE] eq_refl
           rc_wf rc_run rc_hier rc_encodes rc_canonical rc_typed_channels).
Qed.

Section Tokens.
Import String.
Local Open Scope string_scope.


(* the three files as bytes: the original (both segments LE), [BE; LE], [LE; BE] *)
Example c15_read_bytes :
  ser_file rc_file =
    hex "5444536d0e00000069120000b3000000000000008d0000000000000004000000010000002fffffffff00000000040000002f276727ffffffff01000000010000006e20000000020000006869080000002f2767272f27612714000000030000000100000002000000000000000100000001000000700300000007000000080000002f2767272f2762271c000000200000000100000002000000000000000b0000000000000000000000010000000200000002000000030000006162630300000004000000000000000300000078797a5444536d08000000691200001300000000000000000000000000000005000000060000000100000003000000717273" /\
  ser_file (reorder [BE; LE] rc_file rc_chunks) =
    hex "5444536d4e0000000000126900000000000000b3000000000000008d00000004000000012fffffffff00000000000000042f276727ffffffff00000001000000016e00000020000000026869000000082f2767272f27612700000014000000030000000100000000000000020000000100000001700000000300000007000000082f2767272f2762270000001c00000020000000010000000000000002000000000000000b00000000000000010000000200000002000000036162630000000300000004000000000000000378797a5444536d08000000691200001300000000000000000000000000000005000000060000000100000003000000717273" /\
  ser_file (reorder [LE; BE] rc_file rc_chunks) =
    hex "5444536d0e00000069120000b3000000000000008d0000000000000004000000010000002fffffffff00000000040000002f276727ffffffff01000000010000006e20000000020000006869080000002f2767272f27612714000000030000000100000002000000000000000100000001000000700300000007000000080000002f2767272f2762271c000000200000000100000002000000000000000b0000000000000000000000010000000200000002000000030000006162630300000004000000000000000300000078797a5444536d48000000000012690000000000000013000000000000000000000005000000060000000100000003717273".
Proof. vm_compute. repeat split. Qed.

Example c15_read_bytes_differ :
  ser_file (reorder [BE; LE] rc_file rc_chunks) <> ser_file rc_file /\
  ser_file (reorder [LE; BE] rc_file rc_chunks) <> ser_file rc_file /\
  ser_file (reorder [BE; LE] rc_file rc_chunks) <> ser_file (reorder [LE; BE] rc_file rc_chunks) /\
  map fs_toc rc_file = [14; 8] /\
  map fs_toc (reorder [BE; LE] rc_file rc_chunks) = [78; 8] /\
  map fs_toc (reorder [LE; BE] rc_file rc_chunks) = [14; 72] /\
  reorder [LE; LE] rc_file rc_chunks = rc_file.
Proof.
  split; [|split; [|split]]; [vm_compute; discriminate ..|].
  vm_compute. repeat split.
Qed.

(* all three read to the same explicit observation *)
Example c15_read_tokens :
  let rc_tokens :=
  [TZ 4713; TZ 0; TZ 1; TB (hex "67"); TZ 1; TB (hex "6e"); TZ 3; TB (hex "6869"); TZ 2;
   TB (hex "61"); TB (hex "67"); TB rc_path_a; TZ 3; TZ 6; TZ 1; TB (hex "70"); TZ 0; TZ 7;
   TZ 0; TZ 6; TB (hex "01000000"); TB (hex "02000000"); TB (hex "03000000");
   TB (hex "04000000"); TB (hex "05000000"); TB (hex "06000000");
   TB (hex "62"); TB (hex "67"); TB rc_path_b; TZ 32; TZ 6; TZ 0;
   TZ 0; TZ 6; TB (hex "6162"); TB (hex "63"); TB []; TB (hex "78797a"); TB (hex "71");
   TB (hex "7273");
   TZ 0; TZ 0] in
  rd_all (ser_file rc_file) = Ok (rc_tokens, true) /\
  rd_all (ser_file (reorder [BE; LE] rc_file rc_chunks)) = Ok (rc_tokens, true) /\
  rd_all (ser_file (reorder [LE; BE] rc_file rc_chunks)) = Ok (rc_tokens, true) /\
  rd_all (ser_file (reorder [BE; BE] rc_file rc_chunks)) = Ok (rc_tokens, true).
Proof. vm_compute. repeat split. Qed.

(* rc2_file: an INTERLEAVED segment (int16 "a", bool "b", 3 rows) followed by a
   metadata-only segment with a new object list and no raw data *)


Example c15_read_instance2 :
  rd_all (ser_file (reorder [BE; LE] rc2_file rc2_chunks)) = rd_all (ser_file rc2_file) /\
  rd_all (ser_file (reorder [LE; BE] rc2_file rc2_chunks)) = rd_all (ser_file rc2_file).
Proof.
  split.
  - exact (EndianRead.endian_transparent rc2_file rc2_st rc2_h rc2_chunks [BE; LE] eq_refl
             rc2_wf rc2_run rc2_hier rc2_encodes rc2_canonical rc2_typed_channels).
  - exact (EndianRead.endian_transparent rc2_file rc2_st rc2_h rc2_chunks [LE; BE] eq_refl
             rc2_wf rc2_run rc2_hier rc2_encodes rc2_canonical rc2_typed_channels).
Qed.

Example c15_read_bytes2 :
  ser_file rc2_file =
    hex "5444536d2e0000006912000055000000000000004c0000000000000002000000080000002f2767272f276127140000000200000001000000030000000000000000000000080000002f2767272f2762271400000021000000010000000300000000000000000000000102010304000506015444536d06000000691200002300000000000000230000000000000001000000040000002f276727ffffffff01000000010000006e20000000020000006869" /\
  ser_file (reorder [BE; LE] rc2_file rc2_chunks) =
    hex "5444536d6e000000000012690000000000000055000000000000004c00000002000000082f2767272f276127000000140000000200000001000000000000000300000000000000082f2767272f2762270000001400000021000000010000000000000003000000000201010403000605015444536d06000000691200002300000000000000230000000000000001000000040000002f276727ffffffff01000000010000006e20000000020000006869" /\
  ser_file (reorder [LE; BE] rc2_file rc2_chunks) =
    hex "5444536d2e0000006912000055000000000000004c0000000000000002000000080000002f2767272f276127140000000200000001000000030000000000000000000000080000002f2767272f2762271400000021000000010000000300000000000000000000000102010304000506015444536d46000000000012690000000000000023000000000000002300000001000000042f276727ffffffff00000001000000016e00000020000000026869" /\
  ser_file (reorder [BE; LE] rc2_file rc2_chunks) <> ser_file rc2_file /\
  ser_file (reorder [LE; BE] rc2_file rc2_chunks) <> ser_file rc2_file.
Proof.
  split; [|split; [|split; [|split]]]; [vm_compute; reflexivity ..| |]; vm_compute; discriminate.
Qed.

Example c15_read_tokens2 :
  let rc2_tokens :=
  [TZ 4713; TZ 0; TZ 1; TB (hex "67"); TZ 1; TB (hex "6e"); TZ 3; TB (hex "6869"); TZ 2;
   TB (hex "61"); TB (hex "67"); TB rc_path_a; TZ 2; TZ 3; TZ 0;
   TZ 0; TZ 3; TB (hex "0102"); TB (hex "0304"); TB (hex "0506");
   TB (hex "62"); TB (hex "67"); TB rc_path_b; TZ 33; TZ 3; TZ 0;
   TZ 0; TZ 3; TB (hex "01"); TB (hex "00"); TB (hex "01");
   TZ 0; TZ 0] in
  rd_all (ser_file rc2_file) = Ok (rc2_tokens, true) /\
  rd_all (ser_file (reorder [BE; LE] rc2_file rc2_chunks)) = Ok (rc2_tokens, true) /\
  rd_all (ser_file (reorder [LE; BE] rc2_file rc2_chunks)) = Ok (rc2_tokens, true).
Proof. vm_compute. repeat split. Qed.

(* lazy windows: theorem applied, and evaluated *)
Example c15_lazy_instance : forall path offs len,
  lz_read_bytes (ser_file (reorder [BE; LE] rc_file rc_chunks)) path offs len
  = lz_read_bytes (ser_file rc_file) path offs len.
Proof.
  intros path offs len.
  exact (EndianLazy.endian_transparent_lazy rc_file rc_st rc_chunks [BE; LE] path offs len eq_refl
           rc_wf rc_run rc_encodes).
Qed.

Example c15_lazy_values :
  lz_read_bytes (ser_file (reorder [BE; LE] rc_file rc_chunks)) rc_path_a 1 (Some 4)
  = Ok [hex "02000000"; hex "03000000"; hex "04000000"; hex "05000000"] /\
  lz_read_bytes (ser_file rc_file) rc_path_a 1 (Some 4)
  = Ok [hex "02000000"; hex "03000000"; hex "04000000"; hex "05000000"] /\
  lz_read_bytes (ser_file (reorder [LE; BE] rc_file rc_chunks)) rc_path_b 2 None
  = Ok [[]; hex "78797a"; hex "71"; hex "7273"] /\
  lz_read_bytes (ser_file (reorder [BE; LE] rc2_file rc2_chunks)) rc_path_a 1 (Some 2)
  = Ok [hex "0304"; hex "0506"] /\
  lz_plan_bytes (ser_file (reorder [BE; LE] rc_file rc_chunks)) rc_path_a 1 (Some 4)
  = Ok [(0, 0); (0, 1); (1, 0)]%Z.
Proof. vm_compute. repeat split. Qed.
End Tokens.

Print Assumptions toc_endian_set.
Print Assumptions toc_has_set_endian.
Print Assumptions toc_set_endian_u32.
Print Assumptions ser_metadata_blen_any.
Print Assumptions seg_encodes_reenc.
Print Assumptions reenc_same.
Print Assumptions sm_run_sim.
Print Assumptions sm_run_reorder.
Print Assumptions reorder_endian.
Print Assumptions reorder_same.
Print Assumptions reorder_wf.
Print Assumptions reorder_encodes.
Print Assumptions read_correct_reorder.
Print Assumptions endian_transparent.
Print Assumptions endian_transparent_any.
Print Assumptions endian_transparent_lazy.
Print Assumptions endian_transparent_lazy_plan.
Print Assumptions c15_read_instance_BE_LE.
Print Assumptions c15_read_instance_LE_BE.
Print Assumptions c15_read_bytes.
Print Assumptions c15_read_bytes_differ.
Print Assumptions c15_read_tokens.
Print Assumptions c15_read_instance2.
Print Assumptions c15_read_bytes2.
Print Assumptions c15_read_tokens2.
Print Assumptions c15_lazy_instance.
Print Assumptions c15_lazy_values.
