(* C13 composed with the whole-file read theorems - the SCALED data of a channel as a
   function of the FILE BYTES; "identical in lazy and eager mode" proved on bytes.
   Statements only; definitions and proofs in Proofs/ScaleFile.v.

   Props/C13.v is about the scaling model alone (typed arrays, property dictionaries);
   Props/C01_read.v / C03_read.v / C11_read.v are about the reader models on the bytes of
   a serialised file (values as canonical little-endian BYTES, properties as (name bytes,
   type code, value bytes)).  Here the two are joined.

   THE BRIDGE (section 1, 2 below; every definition is restated by an _unfold theorem)
     decode_values ty vs      TDMS type code + LE value bytes -> ScaleGraph.value
                              (1..4 VI I8..I64 signed, 5..8 VI U8..U64, 9/0x19 VS,
                              10/0x1A VD, 0x21 VB; None: string, timestamp, complex, ...)
     f64_of_bits              SF2Prim of the IEEE 754 field decoding; all NaNs are one
     props_of_props ps        (name bytes, type, value bytes) list -> string -> pval dict:
                              ints 1..8 -> PInt, floats 9/10/0x19/0x1A -> PFloat, string
                              -> PStr; defined THROUGH the observation obs_prop_value that
                              C01's correspondence compares with TdmsFile's `properties`;
                              bool / timestamp valued properties have no pval: dropped if
                              their key is irrelevant to scaling ([get_channel_scaling_fill]
                              shows that this cannot change the result), else the scaled
                              read is Err EUnmodelled
     props_of_tokens          the same dictionary parsed back from Reader.obs_props' tokens

   THE READS
     scaled_read_eager data path            TdmsFile.read(data): channel[:]
     scaled_read_lazy data path offs len    TdmsFile.open(data): channel.read_data(offs, len)
     scaled_window_eager data path o l      TdmsFile.read(data): channel.read_data(o, l)
   each = the reader model on the bytes, then TdmsChannel._scale_data = ScaleGraph.
   channel_data with the channel's properties, the properties stored under the channel's
   GROUP PATH (else {}), the properties of "/" (else {}) - what tdms.py passes to
   scaling.get_scaling - on the decoded receiver content (plain data, or per scale id for
   DAQmx).  Result: Base.Res (the reader raised) of ScaleGraph.res (what scaling returned;
   Err EUnmodelled = outside the numeric model: no data type, string / timestamp /
   complex data, a scaling-relevant property that is a bool or a timestamp).

   THE PROPERTY
     scaled_lazy_is_window_of_scaled_eager
        under read_correct's hypotheses + "no segment's object list names a path twice"
        (necessary already for raw data: C03_read.lazy_eq_eager_refuted), for EVERY
        channel, every offs >= 0, every len (None or >= 0):
          scaled_read_eager bytes path = Ok r   and
          scaled_read_lazy bytes path offs len = Ok (rmap (zwindow offs len) r)
        - same scaled values, same scaling errors.  C13.elementwise's side condition
        [uniform] (every input of Add / Subtract has the channel's length) is DISCHARGED
        from the file ([file_raw_uniform]: every array handed to scaling has len(channel)
        elements, from C01's length accounting), not assumed.
     scaled_lazy_full_eq_eager        channel[:] on the open file = on the read file
     scaled_read_eager_content        the eager scaled data as a function of the file
                                      CONTENT (chunk values), plain and DAQmx channels
     no_scaling_file, no_scaling_keys_file, scaled_status_unscaled_file
     scaled_read_eager_daqmx, daqmx_scaler_wire   a DaqmxScaler id node consumes the
                                      per-scaler values of C11's read_correct_daqmx
     scaled_window_eager_is_window    slice_raw_data then scale = window of scaled, for
                                      plain AND DAQmx channels (all scalers cut alike)

   NOT covered: lazy reads of DAQmx channels (Model/LazyBytes has plain data only);
   truncated files; what read_correct excludes.  In [daqmx_scaler_wire] "scale ids are
   non-negative" is a hypothesis (they are u32 fields; not derived here).
   Group properties: tdms.py looks the group object up by the channel's canonical group
   path string; a group object stored under a non-canonical spelling (e.g. "/'g'/") shows
   its properties on the TdmsGroup but its channels do not inherit its scaling - the
   model mirrors this ([group_props_of]).

   EXAMPLES.  sx_file / dqs_file / nc_file (Proofs/ScaleFile.v) are the syntax of files built
   with the harness's independent encoder; dev/c13_file_replay.py rebuilds them, reads them
   with npTDMS (TdmsFile.read and TdmsFile.open) and prints the values used below, and
   compares scaled_read_eager with npTDMS on every integer / float property encoding:
       cd /verif && PYTHONPATH=/repo /venv/bin/python dev/c13_file_replay.py
   On every run of ./check C13, check_file_scaled (scaled_read_eager, scaled_window_eager,
   scaled_read_lazy on the BYTES) is compared with channel[:] / read_data(o, l) of
   TdmsFile.read / TdmsFile.open on the generated files (harness/c13.py file_correspondence). *)
From Coq Require Import String Ascii.
From Coq Require Import List ZArith Bool PrimFloat SpecFloat FloatOps.
From Coq Require Import Init.Byte.
Import ListNotations.
From NpTdms Require Import Base.Bytes Base.Res Base.PySlice Model.Tokens Model.TokensWf Model.SegState
     Model.Layout Model.Reader Model.FileSyn Model.LazyRead Model.LazyBytes
     Proofs.LayoutProofs Proofs.FileSynProofs Proofs.ReadCorrect Proofs.ReadCorrectDaqmx
     Proofs.LazyEagerView Proofs.LazyEagerTop Proofs.ScaleFile.
From NpTdms Require Model.ScaleGraph Proofs.ScaleProofs.
Module SG := ScaleGraph.
Local Open Scope Z_scope.

(* ---- 1. the bridge: values --------------------------------------------------------- *)

Theorem f64_of_bits_unfold : forall u,
  f64_of_bits u =
  SF2Prim (let sign := negb (Z.shiftr u 63 =? 0) in
           let ex := Z.land (Z.shiftr u 52) 0x7FF in
           let man := Z.land u 0xFFFFFFFFFFFFF in
           if ex =? 0x7FF then (if man =? 0 then S754_infinity sign else S754_nan)
           else match (if ex =? 0 then man else man + 0x10000000000000) with
                | Zpos p => S754_finite sign p (if ex =? 0 then -1074 else ex - 1075)
                | _ => S754_zero sign
                end).
Proof. reflexivity. Qed.

Theorem decode_values_unfold : forall ty vs,
  decode_values ty vs =
  if ty =? 1 then Some (SG.VI SG.I8 (map (s_dec LE) vs))
  else if ty =? 2 then Some (SG.VI SG.I16 (map (s_dec LE) vs))
  else if ty =? 3 then Some (SG.VI SG.I32 (map (s_dec LE) vs))
  else if ty =? 4 then Some (SG.VI SG.I64 (map (s_dec LE) vs))
  else if ty =? 5 then Some (SG.VI SG.U8 (map (u_dec LE) vs))
  else if ty =? 6 then Some (SG.VI SG.U16 (map (u_dec LE) vs))
  else if ty =? 7 then Some (SG.VI SG.U32 (map (u_dec LE) vs))
  else if ty =? 8 then Some (SG.VI SG.U64 (map (u_dec LE) vs))
  else if (ty =? 9) || (ty =? 0x19)
       then Some (SG.VS (map (fun v => f64_of_bits (f32_to_f64_bits (u_dec LE v))) vs))
  else if (ty =? 10) || (ty =? 0x1A) then Some (SG.VD (map (fun v => f64_of_bits (u_dec LE v)) vs))
  else if ty =? T_BOOL then Some (SG.VB (map (fun v => negb (u_dec LE v =? 0)) vs))
  else None.
Proof.
  intros ty vs. unfold decode_values, kind_of_type.
  repeat match goal with |- context [if ?c then _ else _] => destruct c; [reflexivity|] end.
  reflexivity.
Qed.

(* decoding is elementwise: it commutes with the windows of the lazy theorems *)
Theorem decode_values_window : forall ty offs len vs,
  decode_values ty (window_of offs len vs) = option_map (zwindow offs len) (decode_values ty vs).
Proof. exact decode_values_window_of. Qed.

Theorem zwindow_unfold : forall offs len v,
  zwindow offs len v =
  SG.window (Z.to_nat offs) (match len with Some l => Z.to_nat l | None => SG.vlen v end) v.
Proof. reflexivity. Qed.

(* bit patterns -> floats, evaluated (bits of 1.5, -2.0, the smallest subnormal, the
   largest finite, +-infinity, a NaN, -0, and binary32 0.1f widened) *)
Example f64_of_bits_examples :
  f64_of_bits 0x3FF8000000000000 = 1.5%float /\ f64_of_bits 0xC000000000000000 = (-2)%float /\
  f64_of_bits 1 = 0x1p-1074%float /\ f64_of_bits 0x7FEFFFFFFFFFFFFF = 0x1.fffffffffffffp+1023%float /\
  f64_of_bits 0x7FF0000000000000 = infinity /\ f64_of_bits 0xFFF0000000000000 = neg_infinity /\
  f64_of_bits 0x7FF8000000000001 = nan /\ f64_of_bits 0x8000000000000000 = neg_zero /\
  f32_of_bits 0x3DCCCCCD = 0x1.99999ap-4%float.
Proof. vm_compute. repeat split; reflexivity. Qed.

(* ---- 2. the bridge: properties ------------------------------------------------------- *)

Theorem pval_of_prop_unfold : forall ty v,
  pval_of_prop ty v =
  if (1 <=? ty) && (ty <=? 4) then Some (SG.PInt (s_dec LE v))
  else if (5 <=? ty) && (ty <=? 8) then Some (SG.PInt (u_dec LE v))
  else if (ty =? 9) || (ty =? 0x19)
       then Some (SG.PFloat (f64_of_bits (u_dec LE (le_enc 8 (f32_to_f64_bits (u_dec LE v))))))
  else if (ty =? 10) || (ty =? 0x1A) then Some (SG.PFloat (f64_of_bits (u_dec LE v)))
  else if ty =? T_STRING then Some (SG.PStr (string_of_list_byte v))
  else None.
Proof. exact pval_of_prop_cases. Qed.

(* ... and it is a function of the OBSERVATION of the property value *)
Theorem pval_of_prop_is_observed : forall ty v, pval_of_prop ty v = pval_of_obs (obs_prop_value ty v).
Proof. reflexivity. Qed.

Theorem relevant_key_unfold : forall k,
  relevant_key k =
  match SG.strip_prefix "NI_Scale[" k with
  | Some _ => true
  | None => String.eqb k "NI_Number_Of_Scales" || String.eqb k "NI_Scaling_Status"
  end.
Proof. reflexivity. Qed.

Theorem props_of_props_unfold : forall ps,
  props_of_props ps =
  (fix go (es : list (string * option SG.pval)) : option SG.props :=
     match es with
     | [] => Some []
     | (k, Some v) :: r => option_map (cons (k, v)) (go r)
     | (k, None) :: r => if relevant_key k then None else go r
     end)
    (map (fun kv : bytes * prop =>
            (string_of_list_byte (fst kv), pval_of_prop (p_type (snd kv)) (p_val (snd kv)))) ps).
Proof. reflexivity. Qed.

(* the dictionary is recovered from the token block the reader's observation shows for
   the object's properties *)
Theorem props_of_tokens_obs_props : forall ps rest,
  props_of_tokens (obs_props ps ++ rest) = Some (props_of_props ps, rest).
Proof. exact ScaleFile.props_of_tokens_obs_props. Qed.

(* a property of the file with a modelled type is found under its name *)
Theorem pget_props_of_props : forall ps p name pr v,
  props_of_props ps = Some p ->
  alookup name ps = Some pr ->
  pval_of_prop (p_type pr) (p_val pr) = Some v ->
  SG.pget (string_of_list_byte name) p = Some v.
Proof. exact ScaleFile.pget_props_of_props. Qed.

(* dropping the bool / timestamp valued properties with irrelevant keys is harmless:
   put ANY values back for them ([fill]), the scaling read from the level is the same *)
Theorem get_channel_scaling_fill : forall (fill : string -> SG.pval) es p,
  props_of_entries es = Some p ->
  SG.get_channel_scaling
    (map (fun e : string * option SG.pval =>
            (fst e, match snd e with Some v => v | None => fill (fst e) end)) es)
  = SG.get_channel_scaling p.
Proof. exact PropsExt.get_channel_scaling_fill. Qed.

Theorem get_scaling_fill : forall (fc fg ff : string -> SG.pval) ec eg ef c g f,
  props_of_entries ec = Some c -> props_of_entries eg = Some g -> props_of_entries ef = Some f ->
  SG.get_scaling (PropsExt.fill_entries fc ec) (PropsExt.fill_entries fg eg) (PropsExt.fill_entries ff ef)
  = SG.get_scaling c g f.
Proof. exact PropsExt.get_scaling_fill. Qed.

(* ---- 3. the reads --------------------------------------------------------------------- *)

Theorem scale_with_unfold : forall om c raw,
  scale_with om c raw =
  match raw, props_of_props (ch_props c),
        props_of_props (match alookup (path_to_string (Some (ch_group c)) None) om with
                        | Some m => om_props m | None => [] end),
        props_of_props (match alookup [SB] om with Some m => om_props m | None => [] end) with
  | Some r, Some cp, Some gp, Some fp => SG.channel_data cp gp fp r
  | _, _, _, _ => SG.Err SG.EUnmodelled
  end.
Proof. reflexivity. Qed.

Theorem raw_of_cdata_unfold : forall c d,
  raw_of_cdata c d =
  match d, ch_dtype c with
  | Some (CData vs), Some dt =>
      option_map (fun v => SG.Build_rawdata (Some v) []) (decode_values dt vs)
  | Some (CScalers sc), Some _ =>
      match ch_scalers c with
      | Some sts => option_map (fun l => SG.Build_rawdata None l) (decode_scalers sts sc)
      | None => None
      end
  | _, _ => None
  end.
Proof. reflexivity. Qed.

Theorem scaled_read_eager_unfold : forall data path,
  scaled_read_eager data path =
  (do st <- rd_metadata data false (Some (blen data)) false;
   do h <- build_hierarchy (rs_om st);
   do recv <- rd_eager st h data;
   do c <- match find (fun c => bytes_eqb (ch_path c) path) (all_channels h) with
           | Some c => Ok c | None => Err EKey end;
   Ok (scale_with (rs_om st) c
         (raw_of_cdata c (match alookup (ch_path c) recv with Some d => d | None => None end)))).
Proof. reflexivity. Qed.

Theorem scaled_read_lazy_unfold : forall data path offs len,
  scaled_read_lazy data path offs len =
  (do st <- rd_metadata data false (Some (blen data)) true;
   do h <- build_hierarchy (rs_om st);
   do c <- match find (fun c => bytes_eqb (ch_path c) path) (all_channels h) with
           | Some c => Ok c | None => Err EKey end;
   do vs <- lz_read_bytes data (ch_path c) offs len;
   Ok (scale_with (rs_om st) c
         (raw_of_cdata c (match ch_dtype c with Some _ => Some (CData vs) | None => None end)))).
Proof. reflexivity. Qed.

(* ---- 4. the eager scaled data is a function of the file content ---------------------- *)

Theorem scaled_read_eager_content : forall segs st h chunkss c,
  wf_file segs ->
  sm_run segs false = Ok st ->
  build_hierarchy (rs_om st) = Ok h ->
  segs_content (rs_segments st) segs chunkss ->
  om_paths_canonical (rs_om st) ->
  typed_objects_are_channels (rs_om st) ->
  In c (all_channels h) ->
  scaled_read_eager (ser_file segs) (ch_path c) =
  Ok (scale_with (rs_om st) c (raw_of_cdata c (expected_data_dq (concat chunkss) c))).
Proof.
  intros segs st h chunkss c H1 H2 H3 H4 H5 H6 H7.
  exact (ScaleFile.scaled_read_eager_content segs st h chunkss H1 H2 H3 H4 H5 H6 c H7).
Qed.

(* ordinary files (read_correct's hypotheses): the values are C01's chan_values *)
Theorem scaled_read_eager_plain : forall segs st h chunkss c,
  wf_file segs ->
  sm_run segs false = Ok st ->
  build_hierarchy (rs_om st) = Ok h ->
  segs_encode (rs_segments st) segs chunkss ->
  om_paths_canonical (rs_om st) ->
  typed_objects_are_channels (rs_om st) ->
  In c (all_channels h) ->
  scaled_read_eager (ser_file segs) (ch_path c) =
  Ok (scale_with (rs_om st) c
        (raw_of_cdata c (match ch_dtype c with
                         | Some _ => Some (CData (chan_values (ch_path c) (concat chunkss)))
                         | None => None
                         end))).
Proof.
  intros segs st h chunkss c H1 H2 H3 H4 H5 H6 H7.
  exact (ScaleFile.scaled_read_eager_plain segs st h chunkss H1 H2 H3 H4 H5 H6 c H7).
Qed.

Theorem scaled_read_lazy_plain : forall segs st h chunkss c offs len,
  wf_file segs ->
  sm_run segs false = Ok st ->
  build_hierarchy (rs_om st) = Ok h ->
  segs_encode (rs_segments st) segs chunkss ->
  om_paths_canonical (rs_om st) ->
  Forall (fun g => NoDup (map so_path (sg_objs g))) (rs_segments st) ->
  In c (all_channels h) -> 0 <= offs -> (match len with None => True | Some l => 0 <= l end) ->
  scaled_read_lazy (ser_file segs) (ch_path c) offs len =
  Ok (scale_with (rs_om st) c
        (raw_of_cdata c (match ch_dtype c with
                         | Some _ => Some (CData (window_of offs len (chan_values (ch_path c) (concat chunkss))))
                         | None => None
                         end))).
Proof.
  intros segs st h chunkss c offs len H1 H2 H3 H4 H5 H6 H7 H8 H9.
  exact (ScaleFile.scaled_read_lazy_plain segs st h chunkss H1 H2 H3 H4 H5 H6 c offs len H7 H8 H9).
Qed.

(* every array handed to scaling has len(channel) elements: C13.elementwise's [uniform] *)
Theorem file_raw_uniform : forall segs st h chunkss c raw,
  sm_run segs false = Ok st ->
  build_hierarchy (rs_om st) = Ok h ->
  segs_content (rs_segments st) segs chunkss ->
  om_paths_canonical (rs_om st) ->
  In c (all_channels h) ->
  raw_of_cdata c (expected_data_dq (concat chunkss) c) = Some raw ->
  SG.uniform (Z.to_nat (ch_len c)) raw.
Proof.
  intros segs st h chunkss c raw H1 H2 H3 H4 H5 H6.
  exact (ScaleFile.file_raw_uniform segs st h chunkss H1 H2 H3 H4 c raw H5 H6).
Qed.

(* ---- 5. THE PROPERTY: scaled lazy window = window of the scaled eager data ----------- *)

Theorem scaled_lazy_is_window_of_scaled_eager : forall segs st h chunkss c offs len,
  wf_file segs ->
  sm_run segs false = Ok st ->
  build_hierarchy (rs_om st) = Ok h ->
  segs_encode (rs_segments st) segs chunkss ->
  om_paths_canonical (rs_om st) ->
  typed_objects_are_channels (rs_om st) ->
  Forall (fun g => NoDup (map so_path (sg_objs g))) (rs_segments st) ->
  In c (all_channels h) ->
  0 <= offs ->
  (match len with None => True | Some l => 0 <= l end) ->
  exists r, scaled_read_eager (ser_file segs) (ch_path c) = Ok r /\
            scaled_read_lazy (ser_file segs) (ch_path c) offs len = Ok (SG.rmap (zwindow offs len) r).
Proof.
  intros segs st h chunkss c offs len H1 H2 H3 H4 H5 H6 H7 H8 H9 H10.
  exact (ScaleFile.scaled_lazy_is_window_of_scaled_eager segs st h chunkss H1 H2 H3 H4 H5 H6 H7
           c offs len H8 H9 H10).
Qed.

Theorem scaled_lazy_full_eq_eager : forall segs st h chunkss c,
  wf_file segs ->
  sm_run segs false = Ok st ->
  build_hierarchy (rs_om st) = Ok h ->
  segs_encode (rs_segments st) segs chunkss ->
  om_paths_canonical (rs_om st) ->
  typed_objects_are_channels (rs_om st) ->
  Forall (fun g => NoDup (map so_path (sg_objs g))) (rs_segments st) ->
  In c (all_channels h) ->
  scaled_read_lazy (ser_file segs) (ch_path c) 0 None = scaled_read_eager (ser_file segs) (ch_path c).
Proof.
  intros segs st h chunkss c H1 H2 H3 H4 H5 H6 H7 H8.
  exact (ScaleFile.scaled_lazy_full_eq_eager segs st h chunkss H1 H2 H3 H4 H5 H6 H7 c H8).
Qed.

(* ---- 6. no scaling in scope / the 'scaled' status -------------------------------------- *)

Theorem no_scaling_file : forall segs st h chunkss c dt v cp gp fp,
  wf_file segs ->
  sm_run segs false = Ok st ->
  build_hierarchy (rs_om st) = Ok h ->
  segs_encode (rs_segments st) segs chunkss ->
  om_paths_canonical (rs_om st) ->
  typed_objects_are_channels (rs_om st) ->
  Forall (fun g => NoDup (map so_path (sg_objs g))) (rs_segments st) ->
  In c (all_channels h) ->
  ch_dtype c = Some dt ->
  decode_values dt (chan_values (ch_path c) (concat chunkss)) = Some v ->
  props_of_props (ch_props c) = Some cp ->
  props_of_props (group_props_of (rs_om st) (ch_group c)) = Some gp ->
  props_of_props (root_props_of (rs_om st)) = Some fp ->
  SG.get_channel_scaling cp = SG.Ok None ->
  SG.get_channel_scaling gp = SG.Ok None ->
  SG.get_channel_scaling fp = SG.Ok None ->
  scaled_read_eager (ser_file segs) (ch_path c) = Ok (SG.Ok v) /\
  forall offs len, 0 <= offs -> (match len with None => True | Some l => 0 <= l end) ->
    scaled_read_lazy (ser_file segs) (ch_path c) offs len = Ok (SG.Ok (zwindow offs len v)).
Proof.
  intros segs st h chunkss c dt v cp gp fp H1 H2 H3 H4 H5 H6 H7.
  exact (ScaleFile.no_scaling_file segs st h chunkss H1 H2 H3 H4 H5 H6 H7 c dt v cp gp fp).
Qed.

(* "no scaling at all" from the property NAMES alone: an object none of whose names is
   NI_Number_Of_Scales, NI_Scaling_Status or starts with NI_Scale[ defines no scaling,
   whatever its property types *)
Theorem no_scaling_keys_file : forall ps,
  Forall (fun kv : bytes * prop => relevant_key (string_of_list_byte (fst kv)) = false) ps ->
  exists p, props_of_props ps = Some p /\ SG.get_channel_scaling p = SG.Ok None.
Proof. exact PropsFacts.no_scaling_keys_file. Qed.

Theorem scaled_status_unscaled_file : forall segs st h chunkss c dt v pr cp gp fp,
  wf_file segs ->
  sm_run segs false = Ok st ->
  build_hierarchy (rs_om st) = Ok h ->
  segs_encode (rs_segments st) segs chunkss ->
  om_paths_canonical (rs_om st) ->
  typed_objects_are_channels (rs_om st) ->
  Forall (fun g => NoDup (map so_path (sg_objs g))) (rs_segments st) ->
  In c (all_channels h) ->
  ch_dtype c = Some dt ->
  decode_values dt (chan_values (ch_path c) (concat chunkss)) = Some v ->
  (* the channel has the string property NI_Scaling_Status = 'scaled' in the FILE *)
  alookup (list_byte_of_string "NI_Scaling_Status") (ch_props c) = Some pr ->
  p_type pr = T_STRING -> p_val pr = list_byte_of_string "scaled" ->
  props_of_props (ch_props c) = Some cp ->
  (exists n, SG.number_of_scalings cp = SG.Ok n) ->
  (* no other scaling in scope *)
  props_of_props (group_props_of (rs_om st) (ch_group c)) = Some gp ->
  props_of_props (root_props_of (rs_om st)) = Some fp ->
  SG.get_channel_scaling gp = SG.Ok None ->
  SG.get_channel_scaling fp = SG.Ok None ->
  scaled_read_eager (ser_file segs) (ch_path c) = Ok (SG.Ok v) /\
  forall offs len, 0 <= offs -> (match len with None => True | Some l => 0 <= l end) ->
    scaled_read_lazy (ser_file segs) (ch_path c) offs len = Ok (SG.Ok (zwindow offs len v)).
Proof.
  intros segs st h chunkss c dt v pr cp gp fp H1 H2 H3 H4 H5 H6 H7.
  exact (ScaleFile.scaled_status_unscaled_file segs st h chunkss H1 H2 H3 H4 H5 H6 H7 c dt v pr cp gp fp).
Qed.

(* ---- 7. DAQmx --------------------------------------------------------------------------- *)

(* under read_correct_daqmx's hypotheses: the scaling model of a DaqMxRawData channel is
   fed, per scale id, the decoded file-order concatenation of the directly addressed
   values (C11_read's chan_scaler_values) *)
Theorem scaled_read_eager_daqmx : forall segs st h chunkss c sts,
  wf_file segs ->
  sm_run segs false = Ok st ->
  build_hierarchy (rs_om st) = Ok h ->
  segs_content (rs_segments st) segs chunkss ->
  om_paths_canonical (rs_om st) ->
  typed_objects_are_channels (rs_om st) ->
  In c (all_channels h) ->
  ch_dtype c = Some T_DAQMX -> ch_scalers c = Some sts ->
  scaled_read_eager (ser_file segs) (ch_path c) =
  Ok (scale_with (rs_om st) c
        (option_map (fun l => SG.Build_rawdata None l)
           (decode_scalers sts
              (map (fun kv => (fst kv, chan_scaler_values (ch_path c) (fst kv) (concat chunkss))) sts)))).
Proof.
  intros segs st h chunkss c sts H1 H2 H3 H4 H5 H6 H7 H8 H9.
  exact (ScaleFile.scaled_read_eager_daqmx segs st h chunkss H1 H2 H3 H4 H5 H6 c sts H7 H8 H9).
Qed.

Theorem daqmx_channel_scalers : forall segs st h c,
  sm_run segs false = Ok st ->
  build_hierarchy (rs_om st) = Ok h ->
  om_paths_canonical (rs_om st) ->
  In c (all_channels h) -> ch_dtype c = Some T_DAQMX ->
  exists sts, ch_scalers c = Some sts /\ NoDup (map fst sts).
Proof.
  intros segs st h c H1 H2 H3 H4 H5.
  exact (ScaleFile.daqmx_channel_scalers segs st h H1 H2 H3 c H4 H5).
Qed.

(* the wire of a DaqmxScaler node (C13's dataflow relation) carries those values *)
Theorem daqmx_scaler_wire : forall sts (f : Z -> list bytes) l g i id ty v,
  NoDup (map fst sts) -> Forall (fun kv : Z * Z => 0 <= fst kv) sts ->
  decode_scalers sts (map (fun kv => (fst kv, f (fst kv))) sts) = Some l ->
  In (id, ty) sts -> decode_values ty (f id) = Some v ->
  nth_error g i = Some (SG.DaqmxScaler (Z.to_nat id)) ->
  SG.flows g (SG.Build_rawdata None l) (SG.Idx (Z.of_nat i)) v.
Proof. exact ScaleFile.daqmx_scaler_wire. Qed.

(* read_data(o, l) on the eagerly read file (slice_raw_data, then scaling) is the window
   of the scaled channel: plain channels and DAQmx channels *)
Theorem scaled_window_eager_is_window : forall segs st h chunkss c o l,
  wf_file segs ->
  sm_run segs false = Ok st ->
  build_hierarchy (rs_om st) = Ok h ->
  segs_content (rs_segments st) segs chunkss ->
  om_paths_canonical (rs_om st) ->
  typed_objects_are_channels (rs_om st) ->
  In c (all_channels h) ->
  exists r, scaled_read_eager (ser_file segs) (ch_path c) = Ok r /\
            scaled_window_eager (ser_file segs) (ch_path c) o l = Ok (SG.rmap (SG.window o l) r).
Proof.
  intros segs st h chunkss c o l H1 H2 H3 H4 H5 H6 H7.
  exact (ScaleFile.scaled_window_eager_is_window segs st h chunkss H1 H2 H3 H4 H5 H6 c o l H7).
Qed.

(* ---- 8. the hypotheses are satisfiable, and both sides compute ----------------------- *)

(* sx_file (Proofs/ScaleFile.v, header above): int16 channels a (own Linear then
   Polynomial), b (inherits the group's Linear), c ('scaled' status, nothing else in
   scope); root has a timestamp property, a has a bool property (both dropped) *)
Example c13_file_hyps :
  wf_file sx_file /\ sm_run sx_file false = Ok sx_st /\ build_hierarchy (rs_om sx_st) = Ok sx_h /\
  segs_encode (rs_segments sx_st) sx_file sx_chunks /\ om_paths_canonical (rs_om sx_st) /\
  typed_objects_are_channels (rs_om sx_st) /\
  Forall (fun g => NoDup (map so_path (sg_objs g))) (rs_segments sx_st) /\
  In (sx_chan sx_path_a) (all_channels sx_h) /\ ch_path (sx_chan sx_path_a) = sx_path_a /\
  In (sx_chan sx_path_b) (all_channels sx_h) /\ ch_path (sx_chan sx_path_b) = sx_path_b /\
  In (sx_chan sx_path_c) (all_channels sx_h) /\ ch_path (sx_chan sx_path_c) = sx_path_c.
Proof.
  exact (conj sx_wf (conj sx_run (conj sx_hier (conj sx_encodes (conj sx_canonical
        (conj sx_typed_channels (conj sx_distinct sx_channels))))))).
Qed.

(* what the bridge hands to the scaling model for channel a, and for the root (the
   timestamp property "created" is gone, "title" stays) *)
Example c13_file_props_a :
  props_of_props (ch_props (sx_chan sx_path_a)) =
  Some [("NI_Scale[0]_Scale_Type", SG.PStr "Linear");
        ("NI_Scale[0]_Linear_Slope", SG.PFloat 2); ("NI_Scale[0]_Linear_Y_Intercept", SG.PFloat 1.5);
        ("NI_Scale[1]_Scale_Type", SG.PStr "Polynomial");
        ("NI_Scale[1]_Polynomial_Coefficients_Size", SG.PInt 3);
        ("NI_Scale[1]_Polynomial_Coefficients[0]", SG.PFloat 1);
        ("NI_Scale[1]_Polynomial_Coefficients[1]", SG.PFloat 0);
        ("NI_Scale[1]_Polynomial_Coefficients[2]", SG.PFloat 0.25);
        ("NI_Scale[1]_Polynomial_Input_Source", SG.PInt 0)]%string%float.
Proof. exact sx_props_a. Qed.

Example c13_file_props_root :
  props_of_props (root_props_of (rs_om sx_st)) = Some [("title", SG.PStr "demo")]%string.
Proof. exact sx_props_root. Qed.

(* the graphs the model's own lookup reads from the file's properties: a's own two
   scales; b has none of its own and gets the group's; c's are switched off *)
Example c13_file_graphs :
  (exists cp gp fp,
     props_of_props (ch_props (sx_chan sx_path_a)) = Some cp /\
     props_of_props (group_props_of (rs_om sx_st) (ch_group (sx_chan sx_path_a))) = Some gp /\
     props_of_props (root_props_of (rs_om sx_st)) = Some fp /\
     SG.get_scaling cp gp fp =
     SG.Ok (Some [SG.Linear 2 1.5 SG.Raw; SG.Polynomial [1; 0; 0.25] (SG.Idx 0)]%float)) /\
  (exists cp gp fp,
     props_of_props (ch_props (sx_chan sx_path_b)) = Some cp /\
     props_of_props (group_props_of (rs_om sx_st) (ch_group (sx_chan sx_path_b))) = Some gp /\
     props_of_props (root_props_of (rs_om sx_st)) = Some fp /\
     SG.get_channel_scaling cp = SG.Ok None /\
     SG.get_scaling cp gp fp = SG.Ok (Some [SG.Linear 0.5 10 SG.Raw]%float)) /\
  (exists cp gp fp,
     props_of_props (ch_props (sx_chan sx_path_c)) = Some cp /\
     props_of_props (group_props_of (rs_om sx_st) (ch_group (sx_chan sx_path_c))) = Some gp /\
     props_of_props (root_props_of (rs_om sx_st)) = Some fp /\
     SG.pget "NI_Scaling_Status" cp = Some (SG.PStr "scaled") /\
     SG.get_scaling cp gp fp = SG.Ok None).
Proof. exact sx_graphs. Qed.

(* by the theorem: every window of every channel *)
Example c13_file_all_windows : forall p, In p [sx_path_a; sx_path_b; sx_path_c] ->
  forall offs len, 0 <= offs -> (match len with None => True | Some l => 0 <= l end) ->
  exists r, scaled_read_eager (ser_file sx_file) p = Ok r /\
            scaled_read_lazy (ser_file sx_file) p offs len = Ok (SG.rmap (zwindow offs len) r).
Proof. exact sx_all_windows. Qed.

(* by evaluation of the byte-level models on the file's bytes.  Eager: a = 1 + 0.25 *
   (2x + 1.5)^2 by Horner, b = 0.5x + 10 (group), c unscaled int16 - the values npTDMS
   prints for this file *)
Example c13_file_eager_a :
  scaled_read_eager (ser_file sx_file) sx_path_a =
  Ok (SG.Ok (SG.VD [0x1.04p+2; 0x1.48p+1; 0x1.61539p+16; 0x1.79p+4; 0x1.108p+5; 0x1.c9p+4; 0x1.e88p+5;
                    0x1.fffa000c8p+29; 0x1.fffe00088p+29]%float)).
Proof. exact sx_eager_a. Qed.

Example c13_file_eager_b :
  scaled_read_eager (ser_file sx_file) sx_path_b =
  Ok (SG.Ok (SG.VD [15; 20; 25; 30; 35; 40; 45; 50; 55]%float)).
Proof. exact sx_eager_b. Qed.

Example c13_file_eager_c :
  scaled_read_eager (ser_file sx_file) sx_path_c =
  Ok (SG.Ok (SG.VI SG.I16 [-1; -2; -3; 100; 200; 300; 0; 1; 2])).
Proof. exact sx_eager_c. Qed.

(* lazy windows crossing the chunk boundary (values 3|4) and the segment boundary (6|7) *)
Example c13_file_lazy_a_2_5 :
  scaled_read_lazy (ser_file sx_file) sx_path_a 2 (Some 5) =
  Ok (SG.Ok (SG.VD [0x1.61539p+16; 0x1.79p+4; 0x1.108p+5; 0x1.c9p+4; 0x1.e88p+5]%float)).
Proof. exact sx_lazy_a_2_5. Qed.

Example c13_file_lazy_b_2_5 :
  scaled_read_lazy (ser_file sx_file) sx_path_b 2 (Some 5) =
  Ok (SG.Ok (SG.VD [25; 30; 35; 40; 45]%float)).
Proof. exact sx_lazy_b_2_5. Qed.

Example c13_file_lazy_c_4_end :
  scaled_read_lazy (ser_file sx_file) sx_path_c 4 None =
  Ok (SG.Ok (SG.VI SG.I16 [200; 300; 0; 1; 2])).
Proof. exact sx_lazy_c_4_end. Qed.

(* the 'scaled' channel through scaled_status_unscaled_file *)
Example c13_file_status_c :
  scaled_read_eager (ser_file sx_file) sx_path_c = Ok (SG.Ok (SG.VI SG.I16 [-1; -2; -3; 100; 200; 300; 0; 1; 2])) /\
  forall offs len, 0 <= offs -> (match len with None => True | Some l => 0 <= l end) ->
    scaled_read_lazy (ser_file sx_file) sx_path_c offs len =
    Ok (SG.Ok (zwindow offs len (SG.VI SG.I16 [-1; -2; -3; 100; 200; 300; 0; 1; 2]))).
Proof. exact sx_status_c. Qed.

(* dqs_file: a DaqMxRawData channel with scalers id 0 (int16) and id 1 (uint8), scale 2 =
   Add(0, 1), scale 3 = Linear(0.5, 1.0) on scale 2; two DAQmx segments, three chunks *)
Example c13_file_daqmx_hyps :
  wf_file dqs_file /\ sm_run dqs_file false = Ok dqs_st /\ build_hierarchy (rs_om dqs_st) = Ok dqs_h /\
  segs_content (rs_segments dqs_st) dqs_file dqs_chunks /\
  om_paths_canonical (rs_om dqs_st) /\ typed_objects_are_channels (rs_om dqs_st) /\
  In dqs_chan (all_channels dqs_h) /\ ch_path dqs_chan = dqs_path /\
  ch_dtype dqs_chan = Some T_DAQMX /\ ch_scalers dqs_chan = Some [(0, 2); (1, 5)].
Proof. exact dqs_hyps. Qed.

Example c13_file_daqmx_eval :
  decode_scalers [(0, 2); (1, 5)]
     [(0, chan_scaler_values dqs_path 0 (List.concat dqs_chunks));
      (1, chan_scaler_values dqs_path 1 (List.concat dqs_chunks))] =
  Some [(0%nat, SG.VI SG.I16 [100; -200; 32767; -32768; 7; -8]);
        (1%nat, SG.VI SG.U8 [1; 2; 255; 0; 9; 10])] /\
  (exists cp, props_of_props (ch_props dqs_chan) = Some cp /\
     SG.get_channel_scaling cp =
     SG.Ok (Some [SG.DaqmxScaler 0; SG.DaqmxScaler 1; SG.Add (SG.Idx 0) (SG.Idx 1);
                  SG.Linear 0.5 1 (SG.Idx 2)]%float)) /\
  scaled_read_eager (ser_file dqs_file) dqs_path =
  Ok (SG.Ok (SG.VD [51.5; -98; -16256; -16383; 9; 2]%float)).
Proof. exact dqs_eager_eval. Qed.

Example c13_file_daqmx_by_theorem :
  scaled_read_eager (ser_file dqs_file) dqs_path =
  Ok (scale_with (rs_om dqs_st) dqs_chan
        (option_map scaler_raw
           (decode_scalers [(0, 2); (1, 5)]
              [(0, chan_scaler_values dqs_path 0 (List.concat dqs_chunks));
               (1, chan_scaler_values dqs_path 1 (List.concat dqs_chunks))]))).
Proof. exact dqs_eager_by_theorem. Qed.

Example c13_file_daqmx_window :
  scaled_window_eager (ser_file dqs_file) dqs_path 1 3 = Ok (SG.Ok (SG.VD [-98; -16256; -16383]%float)) /\
  forall o l, exists r, scaled_read_eager (ser_file dqs_file) dqs_path = Ok r /\
                        scaled_window_eager (ser_file dqs_file) dqs_path o l = Ok (SG.rmap (SG.window o l) r).
Proof. exact dqs_window. Qed.

(* group properties are found under the CANONICAL group path only (tdms.py:
   object_properties[path.group_path()]): in nc_file the group object is spelled "/'g'/"; the
   hierarchy's group g has the four scaling properties, the channel's group dictionary is
   empty and the channel reads unscaled - as npTDMS does on these bytes *)
Example c13_file_noncanonical_group :
  (exists st h gr, sm_run nc_file false = Ok st /\ build_hierarchy (rs_om st) = Ok h /\
                   alookup (hex "67") (h_groups h) = Some gr /\ length (g_props gr) = 4%nat /\
                   group_props_of (rs_om st) (hex "67") = []) /\
  scaled_read_eager (ser_file nc_file) (hex "2f2767272f276327") = Ok (SG.Ok (SG.VI SG.I16 [10; 20; 30])).
Proof. exact nc_group_not_inherited. Qed.

Print Assumptions f64_of_bits_unfold.
Print Assumptions decode_values_unfold.
Print Assumptions decode_values_window.
Print Assumptions zwindow_unfold.
Print Assumptions f64_of_bits_examples.
Print Assumptions pval_of_prop_unfold.
Print Assumptions pval_of_prop_is_observed.
Print Assumptions relevant_key_unfold.
Print Assumptions props_of_props_unfold.
Print Assumptions props_of_tokens_obs_props.
Print Assumptions pget_props_of_props.
Print Assumptions get_channel_scaling_fill.
Print Assumptions get_scaling_fill.
Print Assumptions scale_with_unfold.
Print Assumptions raw_of_cdata_unfold.
Print Assumptions scaled_read_eager_unfold.
Print Assumptions scaled_read_lazy_unfold.
Print Assumptions scaled_read_eager_content.
Print Assumptions scaled_read_eager_plain.
Print Assumptions scaled_read_lazy_plain.
Print Assumptions file_raw_uniform.
Print Assumptions scaled_lazy_is_window_of_scaled_eager.
Print Assumptions scaled_lazy_full_eq_eager.
Print Assumptions no_scaling_file.
Print Assumptions no_scaling_keys_file.
Print Assumptions scaled_status_unscaled_file.
Print Assumptions scaled_read_eager_daqmx.
Print Assumptions daqmx_channel_scalers.
Print Assumptions daqmx_scaler_wire.
Print Assumptions scaled_window_eager_is_window.
Print Assumptions c13_file_hyps.
Print Assumptions c13_file_props_a.
Print Assumptions c13_file_props_root.
Print Assumptions c13_file_graphs.
Print Assumptions c13_file_all_windows.
Print Assumptions c13_file_eager_a.
Print Assumptions c13_file_eager_b.
Print Assumptions c13_file_eager_c.
Print Assumptions c13_file_lazy_a_2_5.
Print Assumptions c13_file_lazy_b_2_5.
Print Assumptions c13_file_lazy_c_4_end.
Print Assumptions c13_file_status_c.
Print Assumptions c13_file_daqmx_hyps.
Print Assumptions c13_file_daqmx_eval.
Print Assumptions c13_file_daqmx_by_theorem.
Print Assumptions c13_file_daqmx_window.
Print Assumptions c13_file_noncanonical_group.
